#!/usr/bin/env python3
"""Regenerates /verif/MANIFEST.json from the table below (kept valid against /root/.vp/MANIFEST.schema.json)."""
import json, os
HERE = os.path.dirname(os.path.dirname(os.path.abspath(__file__)))
ALL = ['C%02d' % i for i in range(1, 21)]

TB = ('Trusted: Lean 4.33 kernel + Mathlib v4.33 as compiled in the image; axioms propext, Classical.choice, Quot.sound '
      '(audited per theorem on every run; no native_decide, no sorry, no own axioms); the hand-written model and the '
      'correspondence harness that ties it to /repo (same Lean definitions run at Float against the real code on '
      'generated cases); reals vs IEEE doubles (rounding not modelled). ')

CHECKS = {
 'C01': dict(
   text='Theorems over the reals for any number of stations, location samples and tensors: the per-sample log-likelihood denotes the '
        'product of the station likelihoods of every supplied type; without location samples the reported value is that sum of logs; '
        'with K samples and weights w>0 it denotes sum_k w_k prod_i p_ik (unweighted: plain sum); adding the amplitude-ratio type adds '
        'exactly its term; absent types contribute nothing; batch independence; station-order, sample-order invariance (exact), '
        'duplicate-versus-weight equivalence; zero filtering keeps exactly the finite candidates paired with their own tensors. Tie: '
        'ForwardTask on the pure-Python path fed by the public matrix builders vs the executable model from the same data dictionary; '
        'oracle = single-station public likelihood calls combined by name lookup + invariance probes on the real code.',
   note=TB + 'Polarity information is manual polarities or polarity probabilities (manual win when both present, as coded). '
        'Log-likelihoods below -600 count as zero probability on both sides.',
   technique='Lean 4 proof (list induction, permutation invariance, log-sum-exp semantics) + differential correspondence',
   design='5/C01'),
 'C02': dict(
   text='Theorems over the reals, for every amplitude, uncertainty >= 0 and mispick probability in [0,1]: the documented '
        'expression, range [0,1] (strictly positive), complement p(A)+p(-A)=1, monotone/strictly monotone/antitone in A by the '
        'side of w relative to 1/2, sigma=0 replaced by 1e-24 with no zero divisor, the hard 0/1 limit as sigma -> 0+ (Tendsto, '
        'via erf -> 1 proved from the Gaussian integral), the step mixture for polarity probabilities by sign of A, its range, '
        'log-sum over any number of stations = log of product, -inf iff some station probability is 0. Tie: polarity_ln_pdf / '
        'polarity_probability_ln_pdf vs the executable model (scalar tail grid and station x location x tensor arrays); oracle = '
        'the stated laws evaluated on the real code.',
   note=TB + 'erf over R is defined as 2/sqrt(pi) * integral; the Float erf of the driver is a series/continued-fraction port checked '
        'against scipy.special.erf on a grid each run. NaN-freedom at IEEE overflow scale is tested only.',
   technique='Lean 4 proof (real analysis of erf, list induction) + differential correspondence with the Float instance',
   design='5/C02'),
 'C05': dict(
   text='Theorems over the reals, for every pair of states (interior or boundary), every positive width, any non-negative sampling prior and all '
        'finite log-likelihoods: the truncated-Gaussian proposal density is strictly positive; acceptance probabilities lie in [0,1]; detailed '
        'balance pi(x)e^L q(x\'|x)a(x->x\') = pi(x\')e^L\' q(x|x\')a(x\'->x) for a shift, for joint multi-event shifts (any number of events) '
        'and for dimension jumps with model priors p, 1-p and the coded balancing density; a zero-likelihood proposal has acceptance 0, a '
        'zero-likelihood start accepts with probability 1; the strict decision u < a never accepts a=0 and always accepts a=1. Tie: '
        'transition_pdf, prior, jump_params, acceptance (4 classes, 1..3 events) and _acceptance_check with a forced uniform draw vs the '
        'executable model; oracle = both sides of the balance identity on the real code. Props/C05Jump: the coded proposal_normalisation is the mass of the '
        'two normals on the lune ranges, hence the coded jump density is the product of the truncated-normal densities that Props/C06Law proves for the '
        'balancing draw, each integrating to one (true since fix d6bce07; formerly an open finding); the harness replays the balancing draw and compares '
        'its scaling with the widths of the density.',
   note=TB + 'The strike kernel (wrapped normal) is symmetric and omitted as in the code. scipy norm/beta densities are modelled by closed forms (checked each run). '
        'That jump_params(x) is the density of the actual draw is proved per coordinate (C05Jump + C06Law); the joint law as a product is not stated.',
   technique='Lean 4 proof (min-ratio swap lemma, positivity of truncated Gaussians via strict monotonicity of erf) + differential correspondence',
   design='5/C05'),
 'C06': dict(
   text='Theorems over the reals for every current state, every width and every stream of normal/uniform draws: each redraw loop returns '
        'the first in-range draw m + s z of the stream (structural half of the proposal law); every shift proposal lies in the domain '
        '(|gamma|<=pi/6, |delta|<=pi/2, 0<=kappa<2pi, 0<=h<=1, |sigma|<=pi/2); a double-couple chain proposes gamma=delta=0; the balancing '
        'draw lies on the lune; a model jump keeps strike, dip cosine and slip, gives an exact double-couple going down and an in-range '
        'source type going up, and happens iff u <= jump probability. Width adaptation: for EVERY sequence of window rates in [0,1] every '
        'width stays positive and below its maximum, no key is lost and the balancing widths are carried unchanged; modifyWidths returns positive widths for EVERY ratio (0 and negative included: the case floating-point underflow produces, repaired in /repo by 1c949dd). Tie: '
        '_new_sample_single (single-try and trans-dimensional) under replayed draw streams, conversion to a unit tensor, and '
        '_modify_acceptance_rate over exhaustive rate-class sequences vs the executable model. The proposal LAW is proved (Props/C06Law): for n '
        'independent draws of any law nu, P(redraw loop returns a value in A) = (sum_{k<n} nu(out)^k) nu(in-range and candidate in A), the '
        'stream is exhausted with probability nu(out)^n, the limit is the conditional law nu(. | in range); for standard normal draws and '
        'the model\'s range predicates (|x|<=b, 0<=x<=1) the accepted value has density truncTerm(x, m, s, lo, hi) on [lo, hi] - the very '
        'function the acceptance rule evaluates (gaussCdf via erf linked to Mathlib\'s gaussianReal), which integrates to one. Joint law (Props/C06Joint): the '
        'draws left over by a loop are again i.i.d. and independent of its result, so the probability that shiftSample returns a state in a box tends to the '
        'integral of transPdf over the box times the mass of the strike map - transition_pdf IS the density of the proposal made (full-tensor and double-couple '
        'chains); jumpDraw has the product law of its two truncated normals. Tested only: that NumPy\'s generator delivers i.i.d. N(0,1) draws (KS test).',
   note=TB + 'np.random is replaced by prepared streams during a call; reflecting options and the crack+DC proposal are not modelled. Repeated '
        'zero-rate windows square the ratio: positivity is over the reals (floating-point underflow after ~10 such windows is not modelled).',
   technique='Lean 4 proof (stream-consuming samplers, invariant over all rate sequences; measure-theoretic law of the redraw loop under product measures) + differential correspondence',
   design='5/C06'),
 'C07': dict(
   text='Theorems for EVERY accept/reject history (any learning length, window, chain length; single- and multiple-try events): nothing is '
        'recorded during learning; afterwards the chain has one entry per tried proposal plus the first state held once more '
        '(|chain| = tried + 1), a rejection repeats the current state, an acceptance at index u repeats it u times then records the new '
        'state, accepted grows by one per acceptance, the DC count equals the number of DC entries, every entry is the start state or an '
        'accepted proposal with its own likelihood token, a DC-constrained run records only DCs, the run stops exactly when tried reaches '
        'the chain length (single-try: tried = C, C+1 entries). Tie: real iterate()/output() of four sampler classes driven through '
        'exhaustive histories up to length 7 and random ones to 400, random and grid initialisation, vs the executable model. The posterior '
        'is STATIONARY for the sampler (Props/C07Stationary): for any state space with reference measure, target density pi, proposal density q and '
        'acceptance a <= 1 in detailed balance, the move-or-stay kernel (a genuine Markov kernel) leaves the measure with density pi invariant, for every '
        'number of steps; finite-state matrix version; and the MODEL\'s acceptMH / transPdf with prior x likelihood satisfy the hypotheses (detailed '
        'balance incl. -inf log-likelihoods from C05, proposal normalised: integral of truncTerm = 1, measurability) over the five Tape coordinates on the '
        'source domain. Tested only: convergence/ergodicity (that a finite chain is close to the posterior) by posterior-agreement statistics; the '
        'strike kernel is an abstract symmetric normalised kernel. Trans-dimensional sampler (Props/C07TransD): mixtures of kernels in detailed balance keep the target; the jump '
        'kernel on the two-model space D + DxG keeps the joint target under the reversible-jump balance; with the MODEL\'s jumpQ / acceptJumpUp / acceptJumpDown / transPdf / acceptMH the '
        'kernel pj*jump + (1-pj)*shift leaves the joint posterior over {double-couple, full tensor} invariant for every number of steps. One step of the model (propose with shiftSample from the stream, accept iff u < acceptMH, else stay) has, for n draws exactly and in the limit, the law mhK / mhKernel at the current state (Props/C07Step); the up-jump step tends to jumpK. Multi-event kernels are not instantiated. Trans-dimensional chains through the front-end task are compared (share of double-couple entries, reported pDC) with likelihood-weighted random sampling of the two models, with balancing-draw widths that differ from those of chains built earlier in the process; the total mass of the coded full-tensor sampling prior density is integrated on every run (open known finding: it is 1.1045, so trans-dimensional model odds are biased by that factor; not repairable without editing a pinned test).',
   note=TB + 'Outcomes are steered through the log-likelihoods given to iterate(); sources/likelihoods are opaque tokens in the model.',
   technique='Lean 4 proof (inductive invariant of the run state machine over all event lists; measure-theoretic invariance of the posterior under the Metropolis-Hastings kernel from detailed balance) + event-history correspondence',
   design='5/C07'),
 'C08': dict(
   text='Theorems over the reals: every sampled full tensor is a unit six-vector that depends on the Gaussian draw only through its direction, '
        'and normalisation commutes with every linear norm-preserving map of six-space (with rotation invariance of the i.i.d. Gaussian this is '
        'uniformity on the 6-sphere); the random triad is orthonormal for non-degenerate draws; the six-vector of an orthonormal eigen-system '
        'with unit-norm eigenvalues has unit norm; a sampled double-couple maps its axes to (1/sqrt2)a, 0, -(1/sqrt2)c (exact double-couple '
        'pattern); the DC and CLVD eigenvalue patterns have unit norm and zero trace. Tie: random_mt, random_dc, random_clvd, random_sample '
        'under replayed Gaussian draws (np.random patched) vs the executable model, sample counts. The LAWS are proved (Props/C08Measure): for six '
        'i.i.d. N(0,1) draws the law of the model\'s randomMt is invariant under every linear isometry of six-space, is a probability measure and is '
        'carried by the unit sphere (the Gaussian has no atom at 0); for two independent Gaussian 3-vectors the random triad is almost surely '
        'orthonormal, triad and sampled tensor are equivariant under every proper rotation R (det 1 => R(a x b) = Ra x Rb, proved), so the law of the '
        'triad is invariant under R and the law of the sampled DC/CLVD tensor under M -> R M R^T, carried by the unit sphere. Tested only: NumPy '
        'delivers i.i.d. normals; independence between calls; uniqueness of the invariant measure (invariant = uniform/Haar) is a classical fact not in Mathlib.',
   note=TB + 'NumPy RNG assumed i.i.d. standard normal. A second Gaussian vector parallel to the first to within rounding gives an ill-conditioned triad (probability ~0; not modelled beyond exact parallelism).',
   technique='Lean 4 proof (normalisation equivariance, cross-product identities, eigen-system algebra; push-forward of the standard Gaussian measure: rotation invariance of the sampled laws) + differential correspondence',
   design='5/C08'),
 'C09': dict(
   text='Refinement proof for every history of batches (any sizes incl. 0, exact fits and several increments): the concrete store '
        '(pre-allocated array, fill index, growth loop) represents exactly the non-zero candidates of all batches in order, each with its '
        'own log-values and scale factor; the invariant is preserved across growth; tried count = sum of batch counts; all-zero histories '
        'give the explicit empty result; without discard the output probabilities sum to one and stay paired with tensors; the discard rule '
        'keeps exactly entries above max - log(discard n); sample-count-limited sampling stops at the first batch reaching the limit. Tie: '
        'operation sequences against Sample (increments 1..7, one/two events, multi-row log-pdfs) and IterationSample vs the executable model.',
   note=TB + 'Tensor columns and scale factors are opaque tokens. FileSample is not modelled.',
   technique='Lean 4 refinement proof (abstraction function + invariant, induction over histories) + operation-sequence correspondence',
   design='5/C09'),
 'C10': dict(
   text='Theorems over the reals for vectors of any length with any -inf pattern: log evidence denotes the mean likelihood over '
        'all N tried samples, -inf entries count only through N, shift and permutation laws; model probabilities are the softmax '
        '(positive, sum to one, ratio = exp of evidence difference, shift-invariant, any number of models); dkl_estimate = ln N - '
        'H(w), <= ln N, >= 0 when #non-zero <= N (Gibbs); dkl(p,p)=0 and dkl >= 0. Tie: ln_bayesian_evidence, '
        'model_probabilities, dkl_estimate, dkl and Sample.output() vs the executable model; oracle = defining identities on the real code.',
   note=TB + 'prior() is the shipped constant 1; dkl is defined only where q is finite wherever p is.',
   technique='Lean 4 proof over LogP R (list induction, Gibbs inequality) + differential correspondence',
   design='5/C10'),
 'C03': dict(
   text='Theorems over the reals for all amplitudes, positive standard deviations and ratios: Hinkley coefficient a > 0 (every '
        'divisor non-zero), the completing-the-square exponent identity, Cauchy-Schwarz (exponent of d <= 0, no overflow), closed '
        'form strictly positive, dependence on the modelled amplitudes only through their magnitudes, symmetry in the sign of r, '
        'positivity/definedness for any fractional error (0 replaced by 1e-24), product over stations, and the closed form EQUALS '
        'the defining integral of |y| N(zy) N(y) dy (proved with FTC on half-lines and the Gaussian integral). Tie: ratio_pdf / '
        'amplitude_ratio_ln_pdf vs the executable model; oracle on the real code incl. quadrature of the defining integral and of '
        'the normalisation. Normalisation: integral over all z of the closed form = 1 and integral over r in (0,inf) of the likelihood = 1 are proved (Tonelli + Gaussian integrals).',
   note=TB + 'scipy.stats.norm.cdf is modelled as 1/2(1+erf(x/sqrt2)); comparison tolerance scales with Hinkley c (conditioning of the coded exponent).',
   technique='Lean 4 proof (algebra + improper integrals in Mathlib) + differential correspondence; quadrature only inside the search oracle',
   design='5/C03'),
 'C11': dict(
   text='Theorems over the reals: station coefficients dotted with any symmetric tensor equal g.M.g (P), phi.M.g (SH), theta.M.g (SV) for '
        'every azimuth and take-off angle; g, phi, theta orthonormal; invariance under joint rotation about the vertical; degree '
        'conversion; Q-suffix handling. Alignment (lists of any length): selected stations = sorted set intersection of data and '
        'location names, each output station carries the data row and the location angles of its own name, one per selected name, '
        'invariance under permuting the data rows, dependence on location records only through by-name lookups, polarity sign folded '
        'into coefficients, ratio = |num/den| with fractional errors, types in sorted key order. Tie: station_angles and the three '
        'matrix builders vs the executable model; oracle = by-name specification and radiation formulae from first principles.',
   note=TB + 'Station names are replaced by their sorted rank before reaching the model. String.replace in key parsing is covered only by the correspondence run.',
   technique='Lean 4 proof (trigonometric identities via linear_combination; list/sort lemmas) + differential correspondence',
   design='5/C11'),
 'C04': dict(
   text='Theorems over the reals for slices of any length and any -inf pattern: log-sum-exp exactness with dV, -inf iff all '
        'entries -inf, commutation with adding a constant, every exp argument <= 0 with one equal to 0 (so log argument in '
        '[dV, n dV]: no overflow/underflow for any magnitude), axis-0/axis-1 matrix versions, normalisation sums to one and is '
        'shift-invariant. Tie: ln_marginalise / ln_normalise / LnPDF wrappers vs the executable model on generated matrices; '
        'oracle = exact log-sum-exp reference on the real code.',
   note=TB + 'A single slice along the reduced axis is returned without the dV factor (as coded); normalising an all -inf vector is unspecified.',
   technique='Lean 4 proof over LogP R (induction on lists) + differential correspondence with the Float instance',
   design='5/C04'), 'C18': dict(
   text='Theorems for files and sample lists of any length: the parser returns one record per block with its stations, angles and weight '
        'in file order (with or without the trailing blank line, weight inherited when a block has none); writing and reading back is the '
        'identity; binning conserves total weight for any bin size, retains a sublist of the original records, merges only samples close '
        '(every station within half a bin) to the retained one, leaves retained samples pairwise not mergeable, and is the identity for bin '
        'size 0; sub-sampling returns records of the file. Tie: parse_scatangle (Python path), _output_scatangle and the binning command on '
        'generated files (LF/CRLF, clusters that merge, patched RNG for sub-sampling) vs the executable model.',
   note=TB + 'Lines reach the model already classified by token count; float() of tokens and universal-newline reading are trusted. All blocks list the same number of stations.',
   technique='Lean 4 proof (fold invariants, list induction) + differential correspondence on real files',
   design='5/C18'), 'C17': dict(
   text='Theorems: binary format — for any list of well-formed records (0..n samples, converted or not) read(concat(write r)) returns the same '
        'records (tensors, probabilities, log-probabilities, counts, converted parameters; sqrt2 scaling an exact inverse pair over the reals), '
        'reading one record leaves the rest of the stream untouched, the header carries the sample count. CSV — over classified lines: every '
        'station row is extracted with the column indices of the header in force, row for row; a UID line overrides the default; several types '
        'with distinct keys keep their own rows in file order; a row depends only on the fields the header points at (column-order invariance); '
        'one event per block. hyp — every phase line between PHASE and END_PHASE yields its pick, in order, and lines outside none. Tie: '
        'parse_csv, csv2inv (pickle round trip), parse_hyp, _convert_mt_space_to_struct (byte-for-byte via the documented struct layout) and '
        'read_binary_output on generated files vs the executable model.',
   note=TB + 'String-level glue (comma/whitespace splitting, lower-casing, UID extraction) is executable model code covered only by the correspondence run; struct/pickle byte level trusted.',
   technique='Lean 4 proof (stream-parser round trip by induction, fold invariants) + differential correspondence on real files',
   design='5/C17'), 'C12': dict(
   text='Theorems over the reals: 3x3 <-> six-vector is the identity on unit tensors (and the six-vector always has unit norm); eigenvalues '
        'from lune coordinates have unit norm and are ordered on the fundamental lune; E_GD inverts GD_E for |gamma|<=pi/6, |delta|<pi/2 and '
        'returns (0, +-pi/2) at the poles; lune coordinates always lie in [-pi/6,pi/6]x[-pi/2,pi/2]; double-couples map to (0,0) and (0,0) is '
        'the double-couple pattern; the tensor built from Tape parameters has unit Frobenius norm; after the eigen-decomposition the '
        'source-type pair is recovered exactly and the dip cosine lies in [0,1]. Orientation recovery rests on the C13 theorems '
        '(SDR recovered from normal/slip; exactly one nodal plane has |slip| < pi/2; auxiliary plane involution). Tie: MT33_MT6, MT6_MT33, '
        'GD_E, E_GD, Tape_MT33/MT6, MT6_Tape, output_convert (single and batched) vs the executable model fed with NumPy eigh output; '
        'oracle = round trips, ranges, unit norm on the real code. Partial: the composite MT6->Tape->MT6 statement is tested end to end, proved piecewise.',
   note=TB + 'numpy.linalg.eigh is external: its output is checked (real, orthonormal, ordered, rebuilds) every run and handed to the model.',
   technique='Lean 4 proof (trigonometry, Complex.arg for atan2, arccos) + differential correspondence',
   design='5/C12'),
 'C13': dict(
   text='Theorems over the reals for every strike, dip, rake: slip and normal vectors are unit and perpendicular; T, N, P are orthonormal with '
        'closed forms (v1 +- v2)/sqrt2; axes -> normal/slip returns the generating vectors; both normal/slip orderings and the axes rebuild '
        'the same double-couple tensor; returned angles lie in [0,2pi) x [0,pi/2] x [-pi,pi]; normal/slip -> angles recovers the original '
        'angles (0 < dip <= pi/2); the auxiliary-plane conversion returns the plane whose normal is the input slip vector, its rake lies '
        'outside [-pi/2,pi/2] when the input rake is inside (exactly one plane in the Tape range), it is an involution and both planes '
        'reconstruct the same tensor (0 < dip < pi/2); right inverse: angles returned for any unit perpendicular pair reproduce that pair. Tie: '
        'SDR_TNP, TP_FP, FP_SDR, normal_SD, SDR_SDR, SDR_FP, FP_TNP, TNP_SDR, SDR_SDSD vs the executable model; oracle on the real code.',
   note=TB + 'Horizontal planes (dip = 0) have no unique strike; only the tensor is compared there. The float-only wrap at strike ~ 2pi is covered by the generator.',
   technique='Lean 4 proof (polynomial trig identities via linear_combination, Complex.arg polar lemma) + differential correspondence',
   design='5/C13'),
 'C14': dict(
   text='Theorems over the reals: descending sort is ordered, a permutation and order-independent; an orthonormal eigen-system rebuilds its '
        'tensor; lune coordinates are invariant under positive scaling and eigenvalue order; Hudson tau,k (on the sorted spectrum) are scale '
        'invariant, lie in |u| <= 4/3, |v| <= 1 for every spectrum and take the documented values at DC, +-ISO, +-CLVD; crack+double-couple '
        'parameters -> lune -> parameters is the identity on [0,pi/2) x (-1,1/2) and recovers the opening angle at pi/2; the Voigt permutation '
        'is an involution, the stiffness matrix symmetric, MT6c_D6 satisfies C.D = M whenever the linear solver does, isotropic stiffness '
        'acts as lambda tr(D) I + 2 mu D. Tie: MT33_TNPE (eigh spec checked), E_GD, E_tk, E_uv, basic_cdc_GD, GD_basic_cdc, MT6c_D6, '
        'c21_cvoigt, c_norm, isotropic_c, is_isotropic_c vs the executable model; oracle on the real code.',
   note=TB + 'numpy.linalg.eigh / solve are external routines whose specifications are checked on their outputs every run.',
   technique='Lean 4 proof (case analysis with nlinarith for the Hudson bounds, arctan/arccos identities) + differential correspondence',
   design='5/C14'), 'C16': dict(
   text='Theorems about the pool as a labelled transition system, for EVERY interleaving of submissions, worker takes/finishes, collections, '
        'cleaning and closing, any number of workers and tasks: invariant "every submitted id is in exactly one of queued / running / result '
        'queue / handed to the caller / skipped status code, ids unique, number_jobs = outstanding" (exactly once); when nothing is outstanding '
        'the caller holds precisely the non-code results; a raising task still delivers its result; no deadlock while results are outstanding '
        '(a progress step is enabled or a dead worker can be replaced); a measure strictly decreases on every progress step and on replacing '
        'dead workers (collection terminates); closing ends every worker. Tie: trace validation - queue put/get of all processes of real '
        'JobPool runs (1..16 workers, raising / status-code tasks, interleaved result() calls) are logged, merged and replayed through the '
        'model step function; results, number_jobs and liveness compared. Hangs detected by timeout.',
   note=TB + 'multiprocessing.Queue is assumed reliable (modelled as a bag); CPython multiprocessing and OS scheduling are covered only by the validated traces.',
   technique='Lean 4 proof (inductive invariant + variant of a transition system) + trace validation of real runs',
   design='5/C16'),
 'C19': dict(
   text='Theorems for containers of any size: selecting samples by an index list returns tensors and probabilities of the same indices '
        '(alignment, length); the probability-weighted mean is scale-invariant in the probabilities, reproduces a constant, and lies between '
        'the extremes; the max-probability rule returns exactly the indices attaining the maximum (non-empty); Markov-chain unique-sample '
        'weights are the multiplicities (sorted distinct values, counts exact, summing to the length). Projection over the reals: the '
        'equal-area radius is 2 sin(theta/2) and the equal-angle radius tan(theta/2) in the polar angle of the unit vector, azimuth is '
        'preserved, lower-hemisphere vectors are shown, upper-hemisphere vectors are hidden or replaced by their antipode. Tie: MTData '
        '(indexing, mean, max-probability, unique weights) and equal_area / equal_angle with every option combination vs the executable model.',
   note=TB + 'Tensor columns reach the uniqueness model as order-isomorphic ranks; the projection_axis option is not modelled; drawing itself (matplotlib) is outside the model.',
   technique='Lean 4 proof (list induction, half-angle identities over the reals) + differential correspondence',
   design='5/C19'),
 'C15': dict(
   text='Theorems for any number of events: the joint probability of a tuple is the product of the events\' own probabilities and, with '
        'relative amplitudes, of one term per event pair in loop order (log form: sum; -inf absorbing; zero iff an event or used pair term is '
        'zero); without relative data the events are independent (the joint value depends on the per-event values only); a pair sharing fewer '
        'stations than the minimum, or none, contributes log 1, and if no pair reaches the minimum the relative inversion equals the '
        'independent one. Station intersection: every pair joins observations of the same station, with one observation per station the pairs '
        'are exactly the common stations, their number is the size of the intersection, and neither event\'s station order matters (equality '
        '/ permutation). Scale factor over the reals: the fold of combine_mu is the inverse-variance-weighted mean with sd 1/sqrt(sum 1/s^2) '
        'for any number of stations, permutation invariant, between the extreme station estimates and no more uncertain than any station; '
        'the pair term (likelihood, scale, uncertainty) is station-order independent; each station estimate tends to mu_y r / mu_x as the '
        'errors go to 0+ (Tendsto), its sd is eventually positive, and the combined scale converges to the true ratio k for any non-empty '
        'consistent station list. Tie: MultipleEventsForwardTask (2..4 events, relative on/off, minimum 0..5, zero filtering on/off, '
        'overlaps none/partial/full in independent orders) vs the executable model per tuple; oracle from single-event ForwardTask values '
        'and the public relative_amplitude_ratio_ln_pdf on name-matched stations.',
   note=TB + 'One location sample per event (shared location-sample sets of co-located events are not modelled); one relative-amplitude phase per case; each event\'s own log-probability enters the model as the value of the single-event forward task (C01). Errors of exactly zero are replaced by 1e-24 in the code and make the ratio density numerically meaningless (only the scale factor is compared there).',
   technique='Lean 4 proof (list induction, permutation lemmas, fold invariant, filter limits) + differential correspondence',
   design='5/C15'),
 'C20': dict(
   text='PARTIAL. The compiled extensions cannot be built here (no Cython). Instead the four .pyx sources are translated to Lean definitions on every run '
        '(harness/gen_pyx.py): 27 scalar kernels (the acceptance rule with its function-pointer arguments as function parameters), 3 one-dimensional reductions '
        '(folds) and 22 array kernels with nested loops rendered one-to-one as Lean do-blocks over Array (the station loops of every likelihood, incl. the four '
        'combined kernels with early exit at -inf; the location-sample / tensor loops with in-kernel log-sum-exp marginalisation; ln_prod, ln_combine, '
        'ln_multipliers; the relative-amplitude loops scale_estimator and relative_amplitude_ratio_ln_pdf; the batched conversions cMultipleTape_MT6 (scalar kernel called through &M[i*6]) and SDR_SDR; the scatter-binning kernel get_multipliers with break/continue). Loop theorems for EVERY '
        'scalar type (hence also the Float instance that is run): the three station kernels equal the hand-written loop-free specification (Model/PyxSpec: dot product with the C strides, '
        'accumulate-until--inf), the four combined station kernels equal the clean three-count specification for every ordering of the station counts, all seven c_*_ln_pdf wrappers fill cell '
        'v*wmax+w with it (un-marginalised) or with the in-kernel log-sum-exp over location samples (marginalised), the relative-amplitude loops are the fold of combine_mu/combine_s over the '
        'per-station estimates (over R: MultiEvent.combineMu, the C15 model), the binning kernel equals Scatangle.bin, the C18 model (over R, positive weights), ln_prod / ln_combine / ln_multipliers cells and the 1-D reductions have loop-free forms '
        '(normalised output sums to one over R), cN_SDR = model of FP_SDR for all unit normal/slip pairs and csingleSDR_SDR = model of SDR_SDR. 19 theorems over the reals state that the scalar kernels equal the '
        'models of the pure-Python paths: Gaussian pdf/cdf (both modules), manual-polarity and polarity-probability station likelihoods (all amplitudes), the '
        'ratio density for modelled amplitudes of either sign, the inverse-variance step, the per-station scale estimate, proposal ratios (= ratios of the '
        'Python transition densities), prior ratios, the jump density, lune coordinates, Hudson tau-k and u-v, Tape parameters to six-vector. Tie: regenerated '
        'model (theorems re-checked against what the .pyx says now) + evaluation of every translated kernel at Float against the real Python functions: the '
        'array kernels against polarity_ln_pdf / polarity_probability_ln_pdf / amplitude_ratio_ln_pdf and their sums (1-4 stations per type with unequal counts, '
        '1-3 location samples, 1-7 tensors incl. six, marginalised or not), the relative-amplitude loops against relative_amplitude_ratio_ln_pdf / scale_estimator, and the '
        'binning kernel against parse_scatangle on written files. Found and fixed this way: five defects of the .pyx (KNOWN_FINDINGS fixed: records); no open finding.',
   note=TB + 'Partial: the second result (location-sample buffer) of the marginalised wrappers, cMultipleTape_MT6 and SDR_SDR batches have a correspondence check only; *_gen variants (in-kernel random generation), relative_amplitude_loop, RNG, OpenMP, memory-view plumbing of the def wrappers and the C compiler are not modelled; out-of-bounds reads are 0 in the model (undefined in C); the translator is trusted; nothing compiled is executed.',
   technique='source-to-Lean translation of the .pyx kernels (scalar kernels, folds, nested-loop array kernels) + Lean 4 equality proofs for the scalar kernels + differential evaluation against the Python paths',
   design='5/C20'),
}

NOT_YET = 'check under construction in this session (model/theorems not yet committed)'
NA = {}

def main():
    checks = []
    for pid in ALL:
        if pid not in CHECKS:
            continue
        c = CHECKS[pid]
        checks.append({
            'property_id': pid,
            'quick_cmd': './check %s --tier quick' % pid,
            'thorough_cmd': './check %s --tier thorough' % pid,
            'evidence_file': 'evidence/%s.json' % pid,
            'replay_cmd_template': './check %s --replay {path}' % pid,
            'engine': 'lean4-model+correspondence',
            'level_claimed': {'category': c.get('category', 'proof'), 'text': c['text'], 'design_ref': c['design']},
            'level_note': c['note'],
            'technique': c['technique'],
        })
    na = [{'property_id': pid, 'reason': NA.get(pid, NOT_YET)} for pid in ALL if pid not in CHECKS]
    m = {
        'version': 1,
        'setup_cmd': 'cd lean && lake build MTfitVerif mtfit_driver && cd .. && ./check --audit-all',
        'hooks': {
            'guard': 'DJPUGH_MTFIT_VERIF',
            'enable': 'no source hooks in /repo: the harness sets DJPUGH_MTFIT_VERIF=1 in its own process and '
                      'monkey-patches RNG / queues there; MTfit is imported from /repo/src (working tree)',
            'baseline_off_cmd': 'cd /repo && /venv/bin/python -m pytest -ra -q -p no:cacheprovider --timeout=900 '
                                '--continue-on-collection-errors',
            'source_commits': [],
            'add_only': True,
        },
        'engines': [{'name': 'lean4-model+correspondence', 'path': 'lean/ harness/ check',
                     'serves_properties': sorted(CHECKS),
                     'kind_free_text': 'Lean 4 + Mathlib theorems about a hand-written polymorphic model; the same '
                                       'definitions compiled at Float (mtfit_driver) are run against the real MTfit '
                                       'code on generated cases; a property oracle searches the real code for a '
                                       'failing input'}],
        'checks': checks,
        'notes': 'See DESIGN.md. KNOWN_FINDINGS.jsonl lists open findings and fixed: records.',
        'not_applicable': na,
    }
    with open(os.path.join(HERE, 'MANIFEST.json'), 'w') as fh:
        json.dump(m, fh, indent=1)
    print('MANIFEST.json: %d checks, %d not claimed' % (len(checks), len(na)))

if __name__ == '__main__':
    main()
