#!/usr/bin/env python3
"""Regenerates /verif/MANIFEST.json from the table below (kept valid against /root/.vp/MANIFEST.schema.json)."""
import json, os
HERE = os.path.dirname(os.path.dirname(os.path.abspath(__file__)))
ALL = ['C%02d' % i for i in range(1, 21)]

TB = ('Trusted: Lean 4.33 kernel + Mathlib v4.33 as compiled in the image; axioms propext, Classical.choice, Quot.sound '
      '(audited per theorem on every run; no native_decide, no sorry, no own axioms); the hand-written model and the '
      'correspondence harness that ties it to /repo (same Lean definitions run at Float against the real code on '
      'generated cases); reals vs IEEE doubles (rounding not modelled). ')

CHECKS = {
 'C04': dict(
   text='Theorems over the reals for slices of any length and any -inf pattern: log-sum-exp exactness with dV, -inf iff all '
        'entries -inf, commutation with adding a constant, every exp argument <= 0 with one equal to 0 (so log argument in '
        '[dV, n dV]: no overflow/underflow for any magnitude), axis-0/axis-1 matrix versions, normalisation sums to one and is '
        'shift-invariant. Tie: ln_marginalise / ln_normalise / LnPDF wrappers vs the executable model on generated matrices; '
        'oracle = exact log-sum-exp reference on the real code.',
   note=TB + 'A single slice along the reduced axis is returned without the dV factor (as coded); normalising an all -inf vector is unspecified.',
   technique='Lean 4 proof over LogP R (induction on lists) + differential correspondence with the Float instance',
   design='5/C04'),
}

NOT_YET = 'check under construction in this session (model/theorems not yet committed)'
NA = {}

def main():
    checks = []
    for pid in ALL:
        if pid not in CHECKS:
            continue
        c = CHECKS[pid]
        checks.append({
            'property_id': pid,
            'quick_cmd': './check %s --tier quick' % pid,
            'thorough_cmd': './check %s --tier thorough' % pid,
            'evidence_file': 'evidence/%s.json' % pid,
            'replay_cmd_template': './check %s --replay {path}' % pid,
            'engine': 'lean4-model+correspondence',
            'level_claimed': {'category': c.get('category', 'proof'), 'text': c['text'], 'design_ref': c['design']},
            'level_note': c['note'],
            'technique': c['technique'],
        })
    na = [{'property_id': pid, 'reason': NA.get(pid, NOT_YET)} for pid in ALL if pid not in CHECKS]
    m = {
        'version': 1,
        'setup_cmd': 'cd lean && lake build MTfitVerif mtfit_driver && cd .. && ./check --audit-all',
        'hooks': {
            'guard': 'DJPUGH_MTFIT_VERIF',
            'enable': 'no source hooks in /repo: the harness sets DJPUGH_MTFIT_VERIF=1 in its own process and '
                      'monkey-patches RNG / queues there; MTfit is imported from /repo/src (working tree)',
            'baseline_off_cmd': 'cd /repo && /venv/bin/python -m pytest -ra -q -p no:cacheprovider --timeout=900 '
                                '--continue-on-collection-errors',
            'source_commits': [],
            'add_only': True,
        },
        'engines': [{'name': 'lean4-model+correspondence', 'path': 'lean/ harness/ check',
                     'serves_properties': sorted(CHECKS),
                     'kind_free_text': 'Lean 4 + Mathlib theorems about a hand-written polymorphic model; the same '
                                       'definitions compiled at Float (mtfit_driver) are run against the real MTfit '
                                       'code on generated cases; a property oracle searches the real code for a '
                                       'failing input'}],
        'checks': checks,
        'notes': 'See DESIGN.md. KNOWN_FINDINGS.jsonl lists open findings and fixed: records.',
        'not_applicable': na,
    }
    with open(os.path.join(HERE, 'MANIFEST.json'), 'w') as fh:
        json.dump(m, fh, indent=1)
    print('MANIFEST.json: %d checks, %d not claimed' % (len(checks), len(na)))

if __name__ == '__main__':
    main()
