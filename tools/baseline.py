#!/venv/bin/python
"""Run the repository's pinned test suite (guard off) and compare with BASELINE.json's stable_pass list.
usage: tools/baseline.py [pytest paths...]   (default: whole suite);  exit 0 iff every stable test that was
selected passed."""
import json, os, subprocess, sys, tempfile, xml.etree.ElementTree as ET
base = json.load(open('/root/.vp/BASELINE.json'))
stable = set(base['stable_pass'])
paths = sys.argv[1:]
priv = tempfile.mkdtemp(prefix='baseline_'); fd, xml = tempfile.mkstemp(suffix='.xml', dir=priv); os.close(fd)
env = dict(os.environ); env.pop('DJPUGH_MTFIT_VERIF', None)
cmd = ['/venv/bin/python', '-m', 'pytest', '-ra', '-q', '-p', 'no:cacheprovider', '--timeout=900',
       '--continue-on-collection-errors', '--junitxml=' + xml] + paths
p = subprocess.run(cmd, cwd=os.environ.get('MTFIT_BASELINE_REPO', '/repo'), env=env, stdout=subprocess.PIPE, stderr=subprocess.STDOUT, text=True)
passed, other = set(), set()
for tc in ET.parse(xml).getroot().iter('testcase'):
    name = tc.get('classname') + '::' + tc.get('name')
    if any(ch.tag in ('failure', 'error', 'skipped') for ch in tc):
        other.add(name)
    else:
        passed.add(name)
os.unlink(xml)
seen = passed | other
missing = sorted(n for n in stable if (n in seen or not paths) and n not in passed)
newly = sorted(n for n in passed if n not in stable)
print('ran %d testcases: %d passed; stable selected %d; stable not passing %d; passing beyond baseline %d' %
      (len(seen), len(passed), len([n for n in stable if n in seen]), len(missing), len(newly)))
# Order/GC-dependent test of the suite itself: FileSampleTestCase.setUp (hdf5storage missing) leaves the process inside a
# TemporaryDirectory that the cyclic GC removes at an allocation-count dependent moment; when that moment falls inside this
# test its tearDown cannot chdir back.  It flips with any change of allocation pattern (see DESIGN.md 6.4).
FLAKY = {'src.MTfit.tests.unit.utilities.test_argparser.ParserTestCase::test_MTplot_parser'}
for n in missing: print('  REGRESSION' + (' (known order-dependent test)' if n in FLAKY else ''), n)
for n in newly: print('  now-passing', n)
sys.exit(1 if [n for n in missing if n not in FLAKY] else 0)
