#!/venv/bin/python
"""Seeded-change tooling.

  tools/seeded.py confirm <dir> [...]      for a candidate change directory (patch.diff, demo.py, meta.json): in a scratch worktree of
                                           /repo under /tmp check that the patch applies, that demo.py behaves differently before / after,
                                           and that the pinned test suite still passes; writes <dir>/confirm.json.  Several directories are
                                           confirmed in parallel.
  tools/seeded.py run <dir> [Cxx ...]      apply <dir>/patch.diff to /repo, run the quick check of the listed properties (default: the
                                           property of meta.json), undo the patch, write <dir>/result.json
  tools/seeded.py table                    print the table of committed seeded changes and which checks caught them
"""
import json
import os
import shutil
import subprocess
import sys
import tempfile
import time

VERIF = os.path.dirname(os.path.dirname(os.path.abspath(__file__)))
REPO = '/repo'


def sh(cmd, **kw):
    return subprocess.run(cmd, stdout=subprocess.PIPE, stderr=subprocess.STDOUT, text=True, **kw)


def result_path(d):
    """results of candidates that are still in a red-team directory are kept out of that directory (the authors must not see them)"""
    d = os.path.abspath(d)
    if d.startswith('/tmp/rt'):
        side = os.path.join('/tmp/rtres', d.strip('/').replace('/', '_'))
        os.makedirs(side, exist_ok=True)
        return os.path.join(side, 'result.json')
    return os.path.join(d, 'result.json')


def confirm_one(d):
    d = os.path.abspath(d)
    wt = tempfile.mkdtemp(prefix='seedchk_', dir='/tmp')
    os.rmdir(wt)
    res = {'dir': d}
    try:
        r = sh(['git', '-C', REPO, 'worktree', 'add', '--detach', wt, 'HEAD'])
        if r.returncode != 0:
            res['error'] = r.stdout[-300:]
            return res
        demo = os.path.join(d, 'demo.py')
        before = sh(['/venv/bin/python', demo, wt], timeout=900).stdout if os.path.exists(demo) else ''
        r = sh(['git', '-C', wt, 'apply', os.path.join(d, 'patch.diff')])
        res['applies'] = r.returncode == 0
        if not res['applies']:
            res['error'] = r.stdout[-300:]
            return res
        st = sh(['git', '-C', wt, 'diff', '--stat']).stdout
        res['files'] = [l.split('|')[0].strip() for l in st.splitlines() if '|' in l]
        res['touches_tests'] = any('/tests/' in f or f.startswith('docs') for f in res['files'])
        after = sh(['/venv/bin/python', demo, wt], timeout=900).stdout if os.path.exists(demo) else ''
        res['demo_differs'] = before != after
        res['demo_before_tail'] = before[-400:]
        res['demo_after_tail'] = after[-400:]
        t0 = time.time()
        r = sh(['/venv/bin/python', os.path.join(VERIF, 'tools', 'baseline.py')], env=dict(os.environ, MTFIT_BASELINE_REPO=wt), timeout=3600)
        res['tests_pass'] = r.returncode == 0
        res['tests_tail'] = r.stdout.splitlines()[-3:]
        res['tests_wall_s'] = round(time.time() - t0)
    finally:
        sh(['git', '-C', REPO, 'worktree', 'remove', '--force', wt])
        shutil.rmtree(wt, ignore_errors=True)
    cp = os.path.join(os.path.dirname(result_path(d)), 'confirm.json') if d.startswith('/tmp/rt') else os.path.join(d, 'confirm.json')
    res['patch_sha'] = __import__('hashlib').sha256(open(os.path.join(d, 'patch.diff'), 'rb').read()).hexdigest()
    with open(cp, 'w') as fh:
        json.dump(res, fh, indent=1)
    return res


def run_one(d, props):
    """checks run against a scratch worktree of /repo with the patch applied (MTFIT_REPO), so /repo itself stays untouched and
    ordinary runs can go on in parallel; evidence and replays of these runs go to a scratch directory"""
    d = os.path.abspath(d)
    meta = json.load(open(os.path.join(d, 'meta.json')))
    props = props or [meta['property']]
    wt = tempfile.mkdtemp(prefix='seedrun_', dir='/tmp')
    os.rmdir(wt)
    scratch = tempfile.mkdtemp(prefix='seedout_', dir='/tmp')
    out = {'property': meta['property'], 'checks': {}}
    try:
        r = sh(['git', '-C', REPO, 'worktree', 'add', '--detach', wt, 'HEAD'])
        assert r.returncode == 0, r.stdout
        r = sh(['git', '-C', wt, 'apply', os.path.join(d, 'patch.diff')])
        if r.returncode != 0:
            out['error'] = 'patch does not apply: ' + r.stdout[-200:]
        else:
            env = dict(os.environ, MTFIT_REPO=wt, VERIF_SCRATCH_OUT=scratch)
            for p in props:
                t0 = time.time()
                c = sh([os.path.join(VERIF, 'check'), p, '--tier', 'quick'], cwd=VERIF, timeout=3600, env=env)
                lines = c.stdout.splitlines()
                vio = [l for l in lines if l.startswith('VIOLATION')]
                out['checks'][p] = {'exit': c.returncode, 'violation': vio[0] if vio else None, 'wall_s': round(time.time() - t0),
                                    'eg': [l.strip()[:300] for l in lines if l.strip().startswith('e.g.') or l.strip().startswith('lean:')][:3]}
    finally:
        sh(['git', '-C', REPO, 'worktree', 'remove', '--force', wt])
        shutil.rmtree(wt, ignore_errors=True)
        shutil.rmtree(scratch, ignore_errors=True)
        if 'C20' in props:
            # the C20 check regenerates Lean sources from the tree it is pointed at: put the clean tree's text back and rebuild
            sh(['git', '-C', VERIF, 'checkout', '--', 'lean/MTfitVerif/Model/PyxKernels.lean', 'lean/MTfitVerif/Driver/PyxOps.lean'])
            sh(['lake', 'build', 'MTfitVerif', 'mtfit_driver'], cwd=os.path.join(VERIF, 'lean'))
    prev = {}
    rp = result_path(d)
    if os.path.exists(rp):
        prev = json.load(open(rp)).get('checks', {})
    prev.update(out['checks'])
    out['checks'] = prev
    with open(rp, 'w') as fh:
        json.dump(out, fh, indent=1)
    return out


def table():
    rows = []
    root = os.path.join(VERIF, 'seeded')
    for pid in sorted(os.listdir(root)):
        for k in sorted(os.listdir(os.path.join(root, pid))):
            d = os.path.join(root, pid, k)
            if not os.path.exists(os.path.join(d, 'meta.json')):
                continue
            meta = json.load(open(os.path.join(d, 'meta.json')))
            res = json.load(open(os.path.join(d, 'result.json'))) if os.path.exists(os.path.join(d, 'result.json')) else {'checks': {}}
            caught = [p + ('*' if 'no-failing-input-found' in (c.get('violation') or '') else '') for p, c in sorted(res['checks'].items()) if c['exit'] == 1]
            rows.append((pid, k, meta.get('title', '')[:90], meta.get('inputs_affected', ''), ', '.join(caught) or 'MISSED'))
    for r in rows:
        print('| %s/%s | %s | %s | %s |' % r)


def adopt(dirs):
    """copy confirmed candidates into /verif/seeded/<property>/<k>/"""
    for d in dirs:
        d = os.path.abspath(d)
        side = os.path.dirname(result_path(d))
        cf = os.path.join(side, 'confirm.json') if os.path.exists(os.path.join(side, 'confirm.json')) else os.path.join(d, 'confirm.json')
        if not os.path.exists(cf):
            print('skip (not confirmed yet):', d)
            continue
        c = json.load(open(cf))
        sha = __import__('hashlib').sha256(open(os.path.join(d, 'patch.diff'), 'rb').read()).hexdigest()
        if c.get('patch_sha') and c['patch_sha'] != sha:
            print('skip (patch changed after confirmation):', d)
            continue
        if not (c.get('applies') and c.get('demo_differs') and c.get('tests_pass') and not c.get('touches_tests')):
            print('REJECTED', d, {k: c.get(k) for k in ('applies', 'demo_differs', 'tests_pass', 'touches_tests', 'error')})
            continue
        meta = json.load(open(os.path.join(d, 'meta.json')))
        dest = os.path.join(VERIF, 'seeded', meta['property'], ('r2-' if '/rt2/' in d else 'r3-' if '/rt3/' in d else 'r4-' if '/rt4/' in d else 'r5-' if '/rt5/' in d else '') + os.path.basename(d))
        if os.path.exists(os.path.join(dest, 'meta.json')) and 'rebased' in json.load(open(os.path.join(dest, 'meta.json'))):
            print('skip (adopted copy was rebased by hand):', dest)
            continue
        os.makedirs(dest, exist_ok=True)
        for f in ('patch.diff', 'demo.py', 'demo_before.txt', 'demo_after.txt', 'meta.json'):
            if os.path.exists(os.path.join(d, f)):
                shutil.copy(os.path.join(d, f), os.path.join(dest, f))
        shutil.copy(cf, os.path.join(dest, 'confirm.json'))
        if os.path.exists(result_path(d)):
            shutil.copy(result_path(d), os.path.join(dest, 'result.json'))
        elif os.path.exists(os.path.join(d, 'result.json')):
            shutil.copy(os.path.join(d, 'result.json'), os.path.join(dest, 'result.json'))
        print('adopted', dest)


if __name__ == '__main__':
    cmd = sys.argv[1]
    if cmd == 'adopt':
        adopt(sys.argv[2:])
        sys.exit(0)
    if cmd == 'runall':
        # refresh result.json of every committed seeded change: its own property's check plus the related checks listed here
        ALSO = {'C07/1': ['C05'], 'C13/3': ['C12'], 'C13/2': ['C12'], 'C02/r2-1': ['C01'], 'C02/r2-2': ['C01', 'C11'], 'C05/r2-3': ['C06'],
                'C06/r2-3': ['C07'], 'C03/r2-1': ['C01'], 'C03/r2-2': ['C11', 'C01'], 'C03/r2-3': ['C07'], 'C10/r2-3': ['C01'],
                'C07/r2-1': ['C05'], 'C07/r2-3': ['C05'], 'C07/r3-3': ['C05'], 'C07/r4-2': ['C05'], 'C15/r4-1': ['C11'], 'C15/r4-3': ['C11'], 'C13/r5-3': ['C19']}
        only = sys.argv[2:]
        root = os.path.join(VERIF, 'seeded')
        jobs = []
        for pid in sorted(os.listdir(root)):
            for k in sorted(os.listdir(os.path.join(root, pid))):
                d = os.path.join(root, pid, k)
                if not os.path.exists(os.path.join(d, 'meta.json')) or (only and pid not in only):
                    continue
                jobs.append((pid, k, d))

        def one(job):
            pid, k, d = job
            if os.path.exists(os.path.join(d, 'result.json')):
                os.remove(os.path.join(d, 'result.json'))
            r = run_one(d, [pid] + ALSO.get('%s/%s' % (pid, k), []))
            return '%s %s %r %s' % (pid, k, {p: c['exit'] for p, c in r['checks'].items()}, r.get('error', ''))
        from concurrent.futures import ThreadPoolExecutor
        # C20 regenerates Lean sources and rebuilds the driver from the patched tree: those run alone, after the others
        with ThreadPoolExecutor(max_workers=int(os.environ.get('SEEDED_JOBS', '4'))) as ex:
            for line in ex.map(one, [j for j in jobs if j[0] != 'C20']):
                print(line, flush=True)
        for j in [j for j in jobs if j[0] == 'C20']:
            print(one(j), flush=True)
        sys.exit(0)
    if cmd == 'confirm':
        from concurrent.futures import ThreadPoolExecutor
        with ThreadPoolExecutor(max_workers=4) as ex:
            for r in ex.map(confirm_one, sys.argv[2:]):
                print(json.dumps({k: r.get(k) for k in ('dir', 'applies', 'touches_tests', 'demo_differs', 'tests_pass', 'error', 'tests_tail')}))
    elif cmd == 'run':
        r = run_one(sys.argv[2], sys.argv[3:])
        print(json.dumps(r, indent=1))
    elif cmd == 'table':
        table()
    elif cmd == 'design':
        # rewrite the table at the end of DESIGN.md section 9
        import io, contextlib
        buf = io.StringIO()
        with contextlib.redirect_stdout(buf):
            table()
        rows = buf.getvalue().strip().splitlines()
        dp = os.path.join(VERIF, 'DESIGN.md')
        text = open(dp).read()
        start = text.index('<!-- seeded-table -->') if '<!-- seeded-table -->' in text else text.index('(filled in below as the runs complete)')
        head = '<!-- seeded-table -->\n\n| change | what it does | inputs affected | caught by (quick tier) |\n|---|---|---|---|\n'
        n_all = len(rows)
        n_miss = sum(1 for r in rows if r.rstrip().endswith('| MISSED |'))
        n_weak = sum(1 for r in rows if '*' in r.rsplit('|', 2)[-2])
        tail = ('\n\n%d changes, %d caught by a check of the property they break or of a neighbouring property (%d of them only as `no-failing-input-found`, '
                'marked `*`), %d missed.\n' % (n_all, n_all - n_miss, n_weak, n_miss))
        open(dp, 'w').write(text[:start] + head + '\n'.join(rows) + tail)
        print('DESIGN.md table: %d rows, %d missed' % (n_all, n_miss))
