#!/usr/bin/env python3
"""tools/register.py Cxx ... : record the theorem names of Props/Cxx*.lean as required obligations."""
import json, re, glob, sys, os
HERE = os.path.dirname(os.path.dirname(os.path.abspath(__file__)))
p = os.path.join(HERE, 'lean', 'obligations.json')
o = json.load(open(p))
for pid in sys.argv[1:]:
    names = []
    for f in sorted(glob.glob(os.path.join(HERE, 'lean', 'MTfitVerif', 'Props', pid + '*.lean'))):
        names += re.findall(r'^theorem ([\w.\']+)', open(f).read(), re.M)
    o[pid] = names
    print(pid, len(names))
json.dump(o, open(p, 'w'), indent=1, sort_keys=True)
