"""C01 — posterior of a source = product of its data likelihoods (ForwardTask): correspondence and oracle."""
import copy
import math

from common import Prop, bits, close, unbits, import_mtfit, NEG_INF, main
import datagen as dg
from c02 import unit6
from c04 import lse


STRICT = [False]      # set per case: many well-conditioned stations, where a value below -600 is an ordinary number


def lp_close(a, b):
    """log-probabilities agree (values below -28 per entry are 'effectively zero' on both sides)"""
    if a == b:
        return True
    if STRICT[0]:
        if math.isnan(a) or math.isnan(b) or math.isinf(a) or math.isinf(b):
            return False
        return abs(a - b) <= 1e-7 + 1e-9 * max(abs(a), abs(b))
    if (a == NEG_INF or a < -600) and (b == NEG_INF or b < -600):
        return True
    if math.isnan(a) or math.isnan(b) or math.isinf(a) or math.isinf(b):
        return False
    return abs(a - b) <= 1e-7 + 1e-9 * max(abs(a), abs(b)) or (a < -28 and b < -28 and abs(a - b) < 1e-3 * abs(a))


class C01(Prop):
    id = 'C01'
    assumptions = ['the forward task is exercised on the pure-Python path with the matrices produced by the public builders, as '
                   'Inversion._station_angles does',
                   'log-likelihoods below -600 are treated as zero probability on both sides; conditioning tolerance as in C02/C03']
    unproved = []
    rule = ('random events (polarity xor polarity-probability types, amplitude ratios, 1..8 stations per type, 0 or 1..5 location '
            'samples as permuted supersets, weights none / ones / random / integers / non-uniform with mean exactly 1, duplicated '
            'samples), batches of 1..12 unit tensors incl. tensors with zero probability, marginalise on/off, zero filtering on/off; '
            'per case one invariance probe (station permutation, batch split, sample permutation, duplicate-vs-weight, filter on/off, '
            'drop a data type); 8 (thorough 80) inversions requested through the Inversion front end (random sampling, with and without the '
            'double-couple constraint), whose reported values are compared on the tensors it kept; non-trivial = at least two stations in total')

    def setup(self):
        import_mtfit()
        import numpy as np
        from MTfit import inversion
        from MTfit.probability import probability as pr
        self.np, self.inv, self.pr = np, inversion, pr
        np.seterr(all='ignore')
        import types
        pr.gc = types.SimpleNamespace(collect=lambda *a, **k: 0)
        inversion.gc = types.SimpleNamespace(collect=lambda *a, **k: 0)

    # ------------------------------------------------------------------ generation
    def gen(self, rng, tier):
        n = 250 if tier == 'quick' else 3000
        for i in range(n):
            ev = dg.gen_event(rng)
            if not ev['types']:
                continue
            nm = rng.choice(list(range(1, 13)) + [6, 6, 3])
            mts = [unit6(rng) for _ in range(nm)]
            probe = rng.choice(['perm_stations', 'batch', 'perm_samples', 'dup_weight', 'filter', 'drop_type', 'loc_order'])
            if nm == 6 and rng.random() < 0.7:
                probe = 'batch'           # six tensors of six components: the square batch is where an orientation test by shape goes wrong
            yield {'kind': 'forward', 'event': ev, 'mts': mts, 'marginalise': rng.random() < 0.75,
                   'return_zero': rng.random() < 0.4, 'probe': probe, 'probe_seed': rng.randrange(1 << 30)}
        # many stations, every one moderately unlikely (two sigma against the first tensor): the joint value lies far below
        # ln(1e-308) although no station has probability zero; values are compared strictly
        for i in range(4 if tier == 'quick' else 40):
            ns = rng.choice([150, 300])
            mts = [unit6(rng) for _ in range(3)]
            rows = []
            for nm_ in dg.station_names(rng, ns, pool=1000):
                az, toa = rng.uniform(0, 360), rng.uniform(10, 170)
                amp = sum(a * b for a, b in zip(dg.coeff_row('p', az, toa), mts[0]))
                pol = -1.0 if amp >= 0 else 1.0                      # against the first tensor
                rows.append({'name': nm_, 'az': az, 'toa': toa, 'measured': [pol], 'error': [max(abs(amp) / 2.0, 1e-3)], 'ipp': None})
            ev = {'types': {'PPolarity': rows}, 'loc': None, 'weights': None}
            yield {'kind': 'forward', 'event': ev, 'mts': mts, 'marginalise': True, 'return_zero': True, 'probe': 'perm_stations',
                   'probe_seed': rng.randrange(1 << 30), 'many': True}
        # the same value reported by an inversion requested through the front end (Inversion object, random sampling)
        for i in range(8 if tier == 'quick' else 80):
            ev = dg.gen_event(rng, want_loc=False)
            if not ev['types']:
                continue
            # the data dictionary may hold more types than the inversion is asked to use: only the selected ones contribute
            keys = sorted(ev['types'])
            sel = keys if (len(keys) == 1 or rng.random() < 0.5) else sorted(rng.sample(keys, rng.randint(1, len(keys) - 1)))
            ev_sel = {'types': {k: ev['types'][k] for k in sel}, 'loc': None, 'weights': None}
            yield {'kind': 'frontend', 'event': ev_sel, 'event_full': ev, 'options': sel, 'mts': [], 'marginalise': True, 'return_zero': True,
                   'probe': 'none', 'probe_seed': rng.randrange(1 << 30), 'dc': rng.random() < 0.4, 'samples': rng.choice([40, 120]),
                   'parallel': False}
        # two events inverted one after the other, each with its own file of location-uncertainty samples: the values of the second event must be those of
        # its own samples (angles and weights), not those of the first event's file
        for i in range(3 if tier == 'quick' else 20):
            ev = dg.gen_event(rng, want_pol='pol', want_loc=True)
            if not ev['types'] or ev['loc'] is None:
                continue
            first = dg.gen_event(rng, want_pol='pol', want_loc=True)
            if not first['types'] or first['loc'] is None:
                continue
            yield {'kind': 'frontend', 'event': ev, 'first_event': first, 'options': sorted(ev['types']), 'mts': [], 'marginalise': True, 'return_zero': True,
                   'probe': 'none', 'probe_seed': rng.randrange(1 << 30), 'dc': False, 'samples': 60, 'parallel': False}
        # the same through the worker pool of the front end (forward tasks built in the workers): manual polarities with mis-pick
        # probabilities, and a second type
        for i in range(2 if tier == 'quick' else 8):
            ev = dg.gen_event(rng, want_pol='pol', want_ar=(i % 2 == 1), want_loc=False)
            for key, rows in ev['types'].items():
                if 'polarity' in key.lower():
                    for r in rows:
                        r['ipp'] = rng.choice([0.05, 0.2, 0.4])
                        r['error'] = [rng.choice([0.3, 0.6])]
            yield {'kind': 'frontend', 'event': ev, 'options': sorted(ev['types']), 'mts': [], 'marginalise': True, 'return_zero': True,
                   'probe': 'none', 'probe_seed': rng.randrange(1 << 30), 'dc': False, 'samples': 60, 'parallel': True}
        # polarity-probability data alone, every station with a mis-pick probability (the front end has to take the mis-pick
        # probabilities of the polarity-probability type when there is no manual polarity), with and without location samples
        for i in range(2 if tier == 'quick' else 10):
            ev = dg.gen_event(rng, want_pol='pp', want_ar=False, want_loc=(i % 2 == 1))
            for key, rows in ev['types'].items():
                for r in rows:
                    r['ipp'] = rng.choice([0.1, 0.25, 0.4])
            yield {'kind': 'frontend', 'event': ev, 'options': sorted(ev['types']), 'mts': [], 'marginalise': True, 'return_zero': True,
                   'probe': 'none', 'probe_seed': rng.randrange(1 << 30), 'dc': (i % 4 == 2), 'samples': 60, 'parallel': False}

    # ------------------------------------------------------------------ implementation
    def _task(self, ev, mts, marginalise, return_zero):
        np, inv = self.np, self.inv
        data, loc = dg.to_mtfit(ev, np)
        a_pol, err_pol, ipp = inv.polarity_matrix(data, loc)
        a1, a2, ratio, pe1, pe2 = inv.amplitude_ratio_matrix(data, loc)
        a_pp, pp, ipp2 = inv.polarity_probability_matrix(data, loc)
        if isinstance(a_pol, bool):
            ipp = ipp2
        mt = np.array(mts, dtype=float).T
        weights = list(ev['weights']) if ev['weights'] is not None else False
        task = inv.ForwardTask(mt, a_pol, err_pol, a1, a2, ratio, pe1, pe2, a_pp, pp, weights, ipp,
                               return_zero=return_zero, marginalise=marginalise)
        res = task()
        out_mt = np.asarray(res['moment_tensors'], dtype=float)
        lnp = res['ln_pdf']
        lnp = np.asarray(lnp._ln_pdf if hasattr(lnp, '_ln_pdf') else lnp, dtype=float)
        if lnp.ndim == 1:
            lnp = lnp.reshape(1, -1)
        cols = []
        if out_mt.size:
            for j in range(out_mt.shape[1]):
                col = [float(v) for v in out_mt[:, j]]
                idx = [i for i, m in enumerate(mts) if all(a == b for a, b in zip(m, col))]
                cols.append(idx[0] if idx else -1)
        rows = [[float(v) for v in r] for r in lnp] if lnp.size else []
        return {'idx': cols, 'rows': rows, 'n': int(res['n'])}

    def _probe(self, case):
        """second run with a transformed input that must give the same values"""
        import random
        rng = random.Random(case['probe_seed'])
        ev = copy.deepcopy(case['event'])
        mts = case['mts']
        p = case['probe']
        nloc = len(ev['loc']['samples']) if ev['loc'] else 1
        if p == 'perm_stations':
            for rows in ev['types'].values():
                rng.shuffle(rows)
            return self._task(ev, mts, True, True), list(range(len(mts))), 'station order'
        if p == 'loc_order' and ev['loc']:
            order = list(range(len(ev['loc']['names'])))
            rng.shuffle(order)
            ev['loc']['names'] = [ev['loc']['names'][i] for i in order]
            ev['loc']['samples'] = [[s[i] for i in order] for s in ev['loc']['samples']]
            return self._task(ev, mts, True, True), list(range(len(mts))), 'station order in the location records'
        if p == 'batch':
            j = rng.randrange(len(mts))
            return self._task(ev, [mts[j]], True, True), [j], 'batch composition'
        if p == 'perm_samples' and nloc > 1:
            order = list(range(nloc))
            rng.shuffle(order)
            ev['loc']['samples'] = [ev['loc']['samples'][i] for i in order]
            if ev['weights'] is not None:
                ev['weights'] = [ev['weights'][i] for i in order]
            return self._task(ev, mts, True, True), list(range(len(mts))), 'location sample order'
        if p == 'dup_weight' and nloc > 1:
            # replace sample 0 (weight w) by two copies with weights a and w - a
            w = ev['weights'] if ev['weights'] is not None else [1.0] * nloc
            a = w[0] * rng.choice([0.25, 0.5, 0.75])
            ev['loc']['samples'] = [ev['loc']['samples'][0]] + ev['loc']['samples']
            ev['weights'] = [a, w[0] - a] + list(w[1:])
            return self._task(ev, mts, True, True), list(range(len(mts))), 'duplicated sample versus weight'
        if p == 'filter':
            return self._task(ev, mts, True, False), None, 'zero filtering'
        return None, None, None

    def _frontend(self, case):
        """run a random-sampling inversion through MTfit.inversion.Inversion and return the sampled tensors with the values it reports"""
        import contextlib
        import io
        import os
        import shutil
        import tempfile
        np, inv = self.np, self.inv
        data, _loc = dg.to_mtfit(case.get('event_full', case['event']), np)
        data['UID'] = 'verif'
        cwd = os.getcwd()
        tmp = tempfile.mkdtemp(prefix='c01fe_')
        sink = io.StringIO()
        try:
            os.chdir(tmp)
            np.random.seed(case['probe_seed'] % (2 ** 32))
            extra_kw = {}
            if case.get('first_event'):
                from MTfit.extensions import scatangle as sc
                files = []
                both = []
                for tag, e_ in (('first', case['first_event']), ('second', case['event'])):
                    d_, loc_ = dg.to_mtfit(e_, np)
                    d_['UID'] = 'verif_' + tag
                    fn_ = os.path.join(tmp, tag + '.scatangle')
                    sc._output_scatangle(fn_, loc_, e_['weights'] if e_['weights'] is not None else [1.0] * len(loc_))
                    files.append(fn_)
                    both.append(d_)
                data = both
                extra_kw = {'location_pdf_file_path': files}
            elif _loc is not None and _loc is not False and len(_loc) and case['event'].get('loc') is not None:
                # a single event with its own file of location-uncertainty samples
                from MTfit.extensions import scatangle as sc
                fn_ = os.path.join(tmp, 'own.scatangle')
                e_ = case['event']
                sc._output_scatangle(fn_, _loc, e_['weights'] if e_['weights'] is not None else [1.0] * len(_loc))
                data = [data]
                extra_kw = {'location_pdf_file_path': [fn_]}
            with contextlib.redirect_stdout(sink), contextlib.redirect_stderr(sink):
                I = inv.Inversion(data, algorithm='iterate', parallel=bool(case.get('parallel')), n=2, max_samples=case['samples'], number_samples=case['samples'] // 2,
                                  phy_mem=1, convert=False, dc=case['dc'], inversion_options=list(case.get('options', sorted(case['event']['types']))), **extra_kw)
                I.forward()
                res, _txt = I.algorithm.output(normalise=False, convert=False)
        finally:
            os.chdir(cwd)
            shutil.rmtree(tmp, ignore_errors=True)
        if isinstance(res.get('probability'), list) and not len(res['probability']):
            return [], [], int(res.get('total_number_samples', 0))
        mts = np.asarray(res['moment_tensor_space'], dtype=float)
        ln = np.asarray(res['ln_pdf'], dtype=float).flatten()
        return [[float(v) for v in mts[:, j]] for j in range(mts.shape[1])], [float(v) for v in ln], int(res['total_number_samples'])

    def impl(self, case):
        STRICT[0] = bool(case.get('many'))
        if case['kind'] == 'frontend':
            mts, ln, tried = self._frontend(case)
            # the tensors the front end kept (non-zero probability) become the batch of this case
            case['mts'] = mts if mts else [unit6(__import__('random').Random(case['probe_seed']))]
            out = self._task(case['event'], case['mts'], True, True)
            out['base'] = self._task(case['event'], case['mts'], True, True)
            out['frontend'] = {'ln': ln, 'kept': len(mts), 'tried': tried}
            return out
        out = self._task(case['event'], case['mts'], case['marginalise'], case['return_zero'])
        out['base'] = self._task(case['event'], case['mts'], True, True)
        pr, sel, what = self._probe(case)
        if pr is not None:
            out['probe'] = pr
            out['probe_sel'] = sel
            out['probe_what'] = what
        if case['probe'] == 'drop_type' and len(case['event']['types']) > 1:
            import random
            rng = random.Random(case['probe_seed'])
            ev = copy.deepcopy(case['event'])
            key = rng.choice(sorted(ev['types']))
            dropped = {key: ev['types'].pop(key)}
            out['without'] = self._task(ev, case['mts'], False, True)
            ev2 = copy.deepcopy(case['event'])
            ev2['types'] = dropped
            out['only'] = self._task(ev2, case['mts'], False, True)
            out['full_unmarg'] = self._task(case['event'], case['mts'], False, True)
            out['dropped_key'] = key
        return out

    # ------------------------------------------------------------------ model
    def requests(self, case, impl):
        ev = case['event']
        toks = dg.encode_data(ev) + dg.encode_loc(ev)
        if ev['weights'] is not None:
            toks += ['1', str(len(ev['weights']))] + [bits(w) for w in ev['weights']]
        else:
            toks += ['0']
        toks += ['1' if case['marginalise'] else '0', '1' if case['return_zero'] else '0', str(len(case['mts']))]
        toks += [bits(v) for mt in case['mts'] for v in mt]
        return ['forward ' + ' '.join(toks)]

    @staticmethod
    def _parse(reply):
        t = reply.split()
        nk = int(t[0])
        idx = [int(x) for x in t[1:1 + nk]]
        nr, nc = int(t[1 + nk]), int(t[2 + nk])
        vals = [unbits(x) for x in t[3 + nk:3 + nk + nr * nc]]
        rows = [vals[r * nc:(r + 1) * nc] for r in range(nr)]
        return idx, rows, int(t[3 + nk + nr * nc])

    def compare(self, case, impl, replies):
        if 'exc' in impl:
            return [('implementation raised %s: %s' % (impl['exc'], impl.get('msg')), impl)]
        if replies[0].startswith('err') or replies[0].startswith('bad'):
            return [('model rejected the input: %s' % replies[0], None)]
        idx, rows, n = self._parse(replies[0])
        out = []
        if n != impl['n']:
            out.append(('n: model %d, implementation %d' % (n, impl['n']), None))
        # columns whose value is "effectively zero" may be kept by one side and dropped by the other: compare as maps
        def as_map(ix, rws):
            m = {}
            for c, i in enumerate(ix):
                m[i] = [r[c] for r in rws] if rws else []
            return m
        mm, im = as_map(idx, rows), as_map(impl['idx'], impl['rows'])
        if -1 in im:
            out.append(('implementation returned a tensor that is not in the batch', None))
        for i in sorted(set(mm) | set(im)):
            a, b = mm.get(i), im.get(i)
            if a is None or b is None:
                other = a if b is None else b
                if all(v == NEG_INF or v < -600 for v in other):
                    continue
                out.append(('tensor %d kept by %s only (values %r)' % (i, 'model' if b is None else 'implementation', other), None))
                break
            if len(a) != len(b) or not all(lp_close(x, y) for x, y in zip(a, b)):
                out.append(('tensor %d: model %r, implementation %r' % (i, a, b), None))
                break
        return out

    # ------------------------------------------------------------------ oracle: the statement on the real code
    def _spec_values(self, ev, mts):
        """log sum_k w_k prod_types prod_stations p  from single-station calls of the public likelihood functions"""
        np, pr = self.np, self.pr
        types = ev['types']
        nloc = len(ev['loc']['samples']) if ev['loc'] else 1
        mt = np.array(mts, dtype=float).T
        total = np.zeros((nloc, len(mts)))
        pol_keys = sorted(u for u in types if 'polarity' in u.lower() and 'prob' not in u.lower())
        pp_keys = sorted(u for u in types if 'polarity' in u.lower() and 'prob' in u.lower())
        ar_keys = sorted(u for u in types if 'amplituderatio' in u.lower() or 'amplitude_ratio' in u.lower())
        for key in pol_keys:
            ph = dg.phase_of_pol_key(key)
            for r, angs in dg.spec_stations(ev, key):
                a = np.array([[[v * r['measured'][0] for v in dg.coeff_row(ph, az, t)] for az, t in angs]])
                total += pr.polarity_ln_pdf(a, mt, np.array([r['error'][0]]), float(r['ipp'] or 0.0))
        if not pol_keys:
            for key in pp_keys:
                ph = dg.phase_of_pol_key(key)
                for r, angs in dg.spec_stations(ev, key):
                    a = np.array([[dg.coeff_row(ph, az, t) for az, t in angs]])
                    total += pr.polarity_probability_ln_pdf(a, mt, np.array([r['measured'][0]]), np.array([r['measured'][1]]),
                                                            float(r['ipp'] or 0.0))
        for key in ar_keys:
            p1, p2 = dg.phases_of_ar_key(key)
            for r, angs in dg.spec_stations(ev, key):
                a1 = np.array([[dg.coeff_row(p1, az, t) for az, t in angs]])
                a2 = np.array([[dg.coeff_row(p2, az, t) for az, t in angs]])
                m0, m1 = r['measured']
                total += pr.amplitude_ratio_ln_pdf(np.array([abs(m0 / m1)]), mt, a1, a2, np.array([r['error'][0] / abs(m0)]),
                                                   np.array([r['error'][1] / abs(m1)]))
        total[np.isnan(total)] = NEG_INF
        vals = []
        w = ev['weights']
        for j in range(len(mts)):
            col = [float(total[k, j]) for k in range(nloc)]
            if nloc > 1:
                if w is not None:
                    col = [c + math.log(w[k]) if c != NEG_INF else NEG_INF for k, c in enumerate(col)]
                vals.append(lse(col))
            else:
                vals.append(col[0])
        return vals

    def oracle(self, case, impl):
        if 'exc' in impl:
            return [('raises', 'forward task raised %s: %s' % (impl['exc'], impl.get('msg')), impl)]
        out = []
        ev, mts = case['event'], case['mts']
        base = impl['base']
        if base['idx'] != list(range(len(mts))) or len(base['rows']) != 1:
            return [('shape', 'unfiltered marginalised result does not list every tensor once: %r' % (base['idx'],), None)]
        got = base['rows'][0]
        spec = self._spec_values(ev, mts)
        for j, (s, g) in enumerate(zip(spec, got)):
            if math.isnan(g) or g == float('inf'):
                out.append(('nan', 'tensor %d has log-probability %r' % (j, g), None))
                break
            if not lp_close(s, g):
                out.append(('not-sum-of-loglikelihoods', 'tensor %d: reported %r, log of the weighted sum over samples of the product '
                            'of station likelihoods is %r' % (j, g, s), None))
                break
        if out:
            return out
        if 'probe' in impl:
            pr = impl['probe']
            if impl['probe_sel'] is not None:
                if len(pr['rows']) != 1 or len(pr['rows'][0]) != len(impl['probe_sel']):
                    out.append(('invariance-shape', 'probe %s changed the result shape' % impl['probe_what'], None))
                else:
                    for c, j in enumerate(impl['probe_sel']):
                        if not lp_close(pr['rows'][0][c], got[j]):
                            out.append(('invariance', 'value of tensor %d depends on %s: %r versus %r' %
                                        (j, impl['probe_what'], got[j], pr['rows'][0][c]), None))
                            break
            else:
                # filtering: exactly the non-zero candidates survive, paired with their own values
                keep = [j for j, g in enumerate(got) if g != NEG_INF]
                fr = pr['rows'][0] if pr['rows'] else []
                if pr['idx'] != keep and not all(got[j] < -600 for j in set(keep) ^ set(pr['idx'])):
                    out.append(('filter', 'zero filtering kept tensors %r, the non-zero ones are %r' % (pr['idx'], keep), None))
                elif not all(lp_close(fr[c], got[j]) for c, j in enumerate(pr['idx'])):
                    out.append(('filter', 'zero filtering changed or mis-paired values: %r versus %r' %
                                (fr, [got[j] for j in pr['idx']]), None))
            if pr['n'] != len(mts) and impl['probe_sel'] is not None and len(impl['probe_sel']) == len(mts):
                out.append(('n', 'n = %d for a batch of %d' % (pr['n'], len(mts)), None))
        if 'without' in impl and not out:
            # adding a data type adds exactly that type's log-likelihood (per location sample)
            f, w, o = impl['full_unmarg']['rows'], impl['without']['rows'], impl['only']['rows']
            key = impl['dropped_key']
            is_pp = 'prob' in key.lower() and 'polarity' in key.lower()
            has_pol = any('polarity' in u.lower() and 'prob' not in u.lower() for u in ev['types'])
            if not (is_pp and has_pol) and len(f) == len(w) == len(o):
                # weights enter once: remove them from one of the two partial results
                for k in range(len(f)):
                    lw = math.log(ev['weights'][k]) if (ev['weights'] is not None and len(f) > 1) else 0.0
                    for j in range(len(mts)):
                        a, b, c = f[k][j], w[k][j], o[k][j]
                        s = NEG_INF if (b == NEG_INF or c == NEG_INF) else b + c - lw
                        if not lp_close(a, s):
                            out.append(('add-type', 'adding data type %s changed the log-probability of tensor %d at sample %d by %r, '
                                        'its own log-likelihood is %r' % (key, j, k, a - b if b != NEG_INF else a, c - lw), None))
                            break
                    if out:
                        break
        if impl['n'] != len(mts):
            out.append(('n', 'n = %d for a batch of %d' % (impl['n'], len(mts)), None))
        if 'frontend' in impl and impl['frontend']['kept']:
            fe = impl['frontend']
            if len(fe['ln']) != len(got) or not all(lp_close(a, b) for a, b in zip(fe['ln'], got)):
                bad = next((j for j, (a, b) in enumerate(zip(fe['ln'], got)) if not lp_close(a, b)), -1)
                out.append(('frontend', 'the inversion front end reports %r for a sampled tensor whose log-probability is %r' %
                            (fe['ln'][bad] if bad >= 0 else len(fe['ln']), got[bad] if bad >= 0 else len(got)), None))
            if case['dc']:
                np = self.np
                r2 = 1 / math.sqrt(2)
                for v in mts:
                    w = np.linalg.eigvalsh(np.array([[v[0], r2 * v[3], r2 * v[4]], [r2 * v[3], v[1], r2 * v[5]], [r2 * v[4], r2 * v[5], v[2]]]))
                    if max(abs(w[0] + r2), abs(w[1]), abs(w[2] - r2)) > 1e-7:
                        out.append(('frontend', 'a double-couple constrained inversion returned a tensor with eigenvalues %r' % [float(x) for x in w], None))
                        break
            if any(v == NEG_INF for v in fe['ln']):
                out.append(('frontend', 'the inversion front end kept a zero-probability sample', None))
            if fe['tried'] < case['samples']:
                out.append(('frontend', 'the front end reports %d tried samples, %d were requested' % (fe['tried'], case['samples']), None))
        return out

    def nontrivial(self, case, impl):
        return sum(len(r) for r in case['event']['types'].values()) >= 2

    def branch(self, case, impl):
        ev = case['event']
        if case['kind'] == 'frontend':
            return 'frontend%s/%s/%s' % ('-pool' if case.get('parallel') else '', 'dc' if case['dc'] else 'mt', 'kept' if isinstance(impl, dict) and impl.get('frontend', {}).get('kept') else 'none-kept')
        kinds = sorted({'pp' if ('prob' in k.lower()) else 'pol' if 'polarity' in k.lower() else 'ar' for k in ev['types']})
        nloc = len(ev['loc']['samples']) if ev['loc'] else 0
        w = 'w' if ev['weights'] is not None else 'nw'
        return '%s/loc%s/%s/%s%s' % ('+'.join(kinds), '0' if nloc == 0 else '1' if nloc == 1 else 'K', w,
                                     'm' if case['marginalise'] else 'u', 'z' if case['return_zero'] else 'f')


if __name__ == '__main__':
    import sys
    sys.exit(main(C01()))
