"""C13 — strike/dip/rake, axes, normal/slip: correspondence and oracle."""
import math

from common import Failure, Prop, bits, close, reply_floats, import_mtfit, main

PI = math.pi


def angdiff(a, b):
    d = (a - b) % (2 * PI)
    return min(d, 2 * PI - d)


def fl(x, np):
    return [float(v) for v in np.asarray(x, dtype=float).flatten()]


def vbits(v):
    return ' '.join(bits(x) for x in v)


def dc_tensor(n, s):
    return [[n[i] * s[j] + s[i] * n[j] for j in range(3)] for i in range(3)]


class C13(Prop):
    id = 'C13'
    assumptions = ['angles are compared modulo 2*pi with tolerance 1e-9; planes closer than 1e-6 rad to horizontal (dip 0) have no defined strike/rake '
                   'split and only the tensor is compared there']
    unproved = []
    rule = ('strike in [0,2pi), dip in [0,pi/2], rake in [-pi,pi] drawn uniformly with special values mixed in (vertical and horizontal planes, '
            'pure strike-slip / dip-slip, strikes near 0 and 2*pi, planes whose two strikes differ by less than one radian), scalar and array '
            'inputs; non-trivial = generic plane (0 < dip < pi/2)')

    def setup(self):
        import_mtfit()
        import numpy as np
        from MTfit.convert import moment_tensor_conversion as cv
        self.np, self.cv = np, cv
        np.seterr(all='ignore')

    def gen(self, rng, tier):
        n = 400 if tier == 'quick' else 6000
        for i in range(n):
            s = rng.choice([rng.uniform(0, 2 * PI), 0.0, PI / 2, PI, 1.5 * PI, 2 * PI - 1e-9, 1e-9, rng.uniform(0, 2 * PI)])
            d = rng.choice([rng.uniform(0, PI / 2), rng.uniform(0, PI / 2), PI / 2, PI / 4, 1e-3, PI / 2 - 1e-3, 0.0])
            r = rng.choice([rng.uniform(-PI, PI), rng.uniform(-PI, PI), 0.0, PI / 2, -PI / 2, PI, PI - 1e-9, 1e-3])
            yield {'kind': 'plane', 's': s, 'd': d, 'r': r, 'array': rng.random() < 0.3}

    # ------------------------------------------------------------------ implementation
    def impl(self, case):
        np, cv = self.np, self.cv
        s, d, r = case['s'], case['d'], case['r']
        if case['array']:
            # batches of two or of exactly three sources (3 x 3 blocks are where an orientation test by shape goes wrong)
            nb = 2 + (int(abs(s) * 1000) % 2)
            S, D, R = np.array([s, 1.0, 2.5][:nb]), np.array([d, 0.5, 1.1][:nb]), np.array([r, 0.3, -2.0][:nb])
        else:
            S, D, R = s, d, r
        T, N, P = cv.SDR_TNP(S, D, R)
        T0, N0, P0 = [fl(np.asarray(x)[:, 0], np) for x in (T, N, P)]
        n1, n2 = cv.TP_FP(T, P)
        f1, f2 = fl(np.asarray(n1)[:, 0], np), fl(np.asarray(n2)[:, 0], np)
        out = {'T': T0, 'N': N0, 'P': P0, 'f1': f1, 'f2': f2}
        out['sdr_back'] = [fl(x, np)[0] for x in cv.FP_SDR(n2.copy(), n1.copy())]
        out['sdr_other'] = [fl(x, np)[0] for x in cv.FP_SDR(n1.copy(), n2.copy())]
        out['tnp_sdr'] = [fl(x, np)[0] for x in cv.TNP_SDR(T, N, P)]
        aux = cv.SDR_SDR(np.array([s]), np.array([d]), np.array([r]))
        out['aux'] = [fl(x, np)[0] for x in aux]
        back = cv.SDR_SDR(np.array([out['aux'][0]]), np.array([out['aux'][1]]), np.array([out['aux'][2]]))
        out['aux_aux'] = [fl(x, np)[0] for x in back]
        a1, a2 = cv.SDR_FP(out['aux'][0], out['aux'][1], out['aux'][2])
        out['aux_f1'], out['aux_f2'] = fl(np.asarray(a1)[:, 0], np), fl(np.asarray(a2)[:, 0], np)
        sd = cv.normal_SD(np.matrix(f2).T)
        out['normal_sd'] = [fl(x, np)[0] for x in sd]
        t2 = cv.FP_TNP(np.matrix(f2).T, np.matrix(f1).T)
        out['fp_tnp'] = [fl(np.asarray(x)[:, 0], np) for x in t2]
        sdsd = cv.SDR_SDSD(s, d, r)
        out['sdsd'] = [fl(x, np)[0] for x in sdsd]
        # the two strike/dip/rake triples reported for a result (output conversion of the double-couple tensor of this plane)
        try:
            mt6 = cv.Tape_MT6(np.array([0.0]), np.array([0.0]), np.array([s]), np.array([math.cos(d)]), np.array([r if abs(r) <= PI / 2 else (r - PI if r > 0 else r + PI)]))
            oc = cv.output_convert(np.asarray(mt6, dtype=float).reshape(6, 1))
            out['oc'] = {kk: float(np.asarray(vv).flatten()[0]) for kk, vv in oc.items() if kk in ('S1', 'D1', 'R1', 'S2', 'D2', 'R2')}
        except Exception as e:       # reported by the oracle
            out['oc_exc'] = '%s: %s' % (type(e).__name__, e)
        # the conversions must leave the caller's vectors and angles alone (a pair that is converted twice describes one source)
        mutated = []
        for nme, fn, args in (('FP_SDR', cv.FP_SDR, [np.array(n2, dtype=float).copy(), np.array(n1, dtype=float).copy()]),
                              ('FP_SDR(swapped)', cv.FP_SDR, [np.array(n1, dtype=float).copy(), np.array(n2, dtype=float).copy()]),
                              ('FP_SDR(1-d)', cv.FP_SDR, [np.array(f1, dtype=float), np.array(f2, dtype=float)]),
                              ('FP_SDR(1-d swapped)', cv.FP_SDR, [np.array(f2, dtype=float), np.array(f1, dtype=float)]),
                              ('FP_SDR(matrix)', cv.FP_SDR, [np.matrix(f2).T, np.matrix(f1).T]),
                              ('FP_SDR(matrix swapped)', cv.FP_SDR, [np.matrix(f1).T, np.matrix(f2).T]),
                              ('FP_TNP', cv.FP_TNP, [np.matrix(f2).T, np.matrix(f1).T]),
                              ('TP_FP', cv.TP_FP, [np.array(T, dtype=float).copy(), np.array(P, dtype=float).copy()]),
                              ('normal_SD', cv.normal_SD, [np.array(n1, dtype=float).copy()]),
                              ('normal_SD(downward)', cv.normal_SD, [-np.array(n1, dtype=float).copy()]),
                              ('normal_SD(matrix, downward)', cv.normal_SD, [np.matrix([-v for v in f1]).T]),
                              ('normal_SD(1-d, downward)', cv.normal_SD, [-np.array(f1, dtype=float)]),
                              ('FP_SDSD', cv.FP_SDSD, [np.array(n1, dtype=float).copy(), np.array(n2, dtype=float).copy()]),
                              ('FP_SDSD(downward)', cv.FP_SDSD, [-np.array(n1, dtype=float).copy(), -np.array(n2, dtype=float).copy()]),
                              ('SDR_SDR', cv.SDR_SDR, [np.array([s, 1.0]), np.array([d, 0.5]), np.array([r, 0.3])]),
                              ('SDR_TNP', cv.SDR_TNP, [np.array([s, 1.0]), np.array([d, 0.5]), np.array([r, 0.3])])):
            before = [np.array(a, dtype=float).copy() for a in args]
            try:
                fn(*args)
            except Exception:
                continue
            if any(b.shape != np.asarray(a).shape or not np.array_equal(b, np.asarray(a, dtype=float)) for a, b in zip(args, before)):
                mutated.append(nme)
        out['mutated'] = mutated
        return out

    # ------------------------------------------------------------------ model
    def requests(self, case, impl):
        s, d, r = case['s'], case['d'], case['r']
        reqs = ['conv sdrtnp %s' % vbits([s, d, r]), 'conv sdrfp %s' % vbits([s, d, r]), 'conv sdrsdr %s' % vbits([s, d, r])]
        if isinstance(impl, dict) and 'f1' in impl:
            reqs += ['conv fpsdr %s %s' % (vbits(impl['f2']), vbits(impl['f1'])), 'conv fpsdr %s %s' % (vbits(impl['f1']), vbits(impl['f2'])),
                     'conv tnpsdr %s %s' % (vbits(impl['T']), vbits(impl['P'])), 'conv normalsd %s' % vbits(impl['f2']),
                     'conv fptnp %s %s' % (vbits(impl['f2']), vbits(impl['f1']))]
        return reqs

    def _sdr_close(self, a, b):
        if angdiff(a[0], b[0]) < 1e-7 and abs(a[1] - b[1]) < 1e-7 and angdiff(a[2], b[2]) < 1e-7:
            return True
        # a vertical plane has two equivalent descriptions: (s, pi/2, r) and (s + pi, pi/2, -r)
        if abs(a[1] - PI / 2) < 1e-7 and abs(b[1] - PI / 2) < 1e-7:
            return angdiff(a[0] + PI, b[0]) < 1e-7 and angdiff(a[2], -b[2]) < 1e-7
        return False

    def _degenerate(self, case, impl=None):
        # horizontal plane, or a slip vector that is (numerically) vertical: a strike is then undefined
        d, r = case['d'], case['r']
        if d < 1e-5:
            return True
        vz = abs(math.sin(d) * math.sin(r))
        return abs(vz - 1.0) < 1e-9

    def compare(self, case, impl, replies):
        if 'exc' in impl:
            return [('implementation raised %s: %s' % (impl['exc'], impl.get('msg')), impl)]
        out = []
        m = reply_floats(replies[0])
        for nme, vals in (('T', m[0:3]), ('N', m[3:6]), ('P', m[6:9])):
            if not all(close(a, b, atol=1e-9) for a, b in zip(vals, impl[nme])):
                out.append(('SDR_TNP %s: model %r, implementation %r' % (nme, vals, impl[nme]), None))
        m = reply_floats(replies[1])
        if not all(close(a, b, atol=1e-9) for a, b in zip(m, impl['f1'] + impl['f2'])):
            out.append(('SDR_FP/TP_FP: model %r, implementation %r' % (m, impl['f1'] + impl['f2']), None))
        if self._degenerate(case):
            return out[:2]
        checks = [(2, 'aux', 'SDR_SDR')]
        if len(replies) > 3:
            checks += [(3, 'sdr_back', 'FP_SDR(normal, slip)'), (4, 'sdr_other', 'FP_SDR(slip, normal)'), (5, 'tnp_sdr', 'TNP_SDR')]
        for idx, key, nme in checks:
            m = reply_floats(replies[idx])
            if not self._sdr_close(m, impl[key]):
                # the plane selection |strike - s2| < 1 may legitimately differ by rounding when the two candidates coincide
                out.append(('%s: model %r, implementation %r' % (nme, m, impl[key]), None))
        if len(replies) > 6:
            m = reply_floats(replies[6])
            if angdiff(m[0], impl['normal_sd'][0]) > 1e-7 or abs(m[1] - impl['normal_sd'][1]) > 1e-7:
                out.append(('normal_SD: model %r, implementation %r' % (m, impl['normal_sd']), None))
            m = reply_floats(replies[7])
            got = impl['fp_tnp'][0] + impl['fp_tnp'][1] + impl['fp_tnp'][2]
            if not all(close(a, b, atol=1e-9) for a, b in zip(m, got)):
                out.append(('FP_TNP: model %r, implementation %r' % (m, got), None))
        return out[:3]

    # ------------------------------------------------------------------ oracle
    def oracle(self, case, impl):
        if 'exc' in impl:
            return [('raises', 'conversion raised %s: %s' % (impl['exc'], impl.get('msg')), impl)]
        out = []
        s, d, r = case['s'], case['d'], case['r']

        def dot(a, b):
            return sum(x * y for x, y in zip(a, b))
        T, N, P = impl['T'], impl['N'], impl['P']
        for a, b, e in ((T, T, 1), (N, N, 1), (P, P, 1), (T, N, 0), (T, P, 0), (N, P, 0)):
            if abs(dot(a, b) - e) > 1e-9:
                out.append(('axes', 'T, N, P are not orthonormal for strike %r dip %r rake %r' % (s, d, r), None))
                break
        f1, f2 = impl['f1'], impl['f2']
        if abs(dot(f1, f1) - 1) > 1e-9 or abs(dot(f2, f2) - 1) > 1e-9 or abs(dot(f1, f2)) > 1e-9:
            out.append(('normals', 'fault normal and slip are not unit and perpendicular', None))
        ref = dc_tensor(f2, f1)
        tnp = [[T[i] * T[j] - P[i] * P[j] for j in range(3)] for i in range(3)]
        if not all(close(ref[i][j], tnp[i][j], atol=1e-9) for i in range(3) for j in range(3)):
            out.append(('same-tensor', 'axes and normal/slip give different tensors', None))
        at = dc_tensor(impl['aux_f2'], impl['aux_f1'])
        if not all(close(ref[i][j], at[i][j], atol=1e-7) for i in range(3) for j in range(3)):
            out.append(('aux-tensor', 'the auxiliary plane %r reconstructs a different tensor than (%r, %r, %r)' % (impl['aux'], s, d, r), None))
        if 'oc_exc' in impl:
            out.append(('output-planes', 'output conversion of the double-couple of plane (%r, %r, %r) raised %s' % (s, d, r, impl['oc_exc']), None))
        oc = impl.get('oc', {})
        if len(oc) == 6 and d > 1e-3:
            rad = PI / 180
            n1 = [-math.sin(oc['S1'] * rad) * math.sin(oc['D1'] * rad), math.cos(oc['S1'] * rad) * math.sin(oc['D1'] * rad), -math.cos(oc['D1'] * rad)]
            n2 = [-math.sin(oc['S2'] * rad) * math.sin(oc['D2'] * rad), math.cos(oc['S2'] * rad) * math.sin(oc['D2'] * rad), -math.cos(oc['D2'] * rad)]
            sd_, dp_, rk_ = oc['S1'] * rad, oc['D1'] * rad, oc['R1'] * rad
            s1 = [math.cos(rk_) * math.cos(sd_) + math.sin(rk_) * math.cos(dp_) * math.sin(sd_),
                  math.cos(rk_) * math.sin(sd_) - math.sin(rk_) * math.cos(dp_) * math.cos(sd_), -math.sin(rk_) * math.sin(dp_)]
            if abs(dot(n1, n2)) > 1e-6 or abs(abs(dot(s1, n2)) - 1) > 1e-6:
                out.append(('output-planes', 'the two planes reported for the double-couple of (%r, %r, %r) are (%r, %r, %r) and (%r, %r, %r): not each other\'s '
                            'auxiliary plane (n1.n2 = %r, |slip1.n2| = %r)' % (s, d, r, oc['S1'], oc['D1'], oc['R1'], oc['S2'], oc['D2'], oc['R2'], dot(n1, n2), abs(dot(s1, n2))), None))
        if impl.get('mutated'):
            out.append(('purity', 'the caller\'s arrays were modified by %s' % ', '.join(impl['mutated']), None))
        for key in ('sdr_back', 'aux', 'tnp_sdr'):
            st, dp, rk = impl[key]
            if not (-1e-12 <= st < 2 * PI + 1e-12 and -1e-12 <= dp <= PI / 2 + 1e-12 and -PI - 1e-12 <= rk <= PI + 1e-12):
                out.append(('range', '%s returned angles out of range: %r' % (key, impl[key]), None))
        if not self._degenerate(case):
            if not self._sdr_close(impl['sdr_back'], [s % (2 * PI), d, r]) and not (abs(abs(r) - PI) < 1e-7 and angdiff(impl['sdr_back'][2], r) < 1e-7):
                out.append(('back', 'normal/slip converted back give %r, the original angles are (%r, %r, %r)' % (impl['sdr_back'], s, d, r), None))
            if not self._sdr_close(impl['aux_aux'], [s % (2 * PI), d, r]) and abs(d - PI / 2) > 1e-6 and abs(abs(r) - PI) > 1e-6 and abs(r) > 1e-6:
                out.append(('involution', 'auxiliary plane of the auxiliary plane is %r, not (%r, %r, %r)' % (impl['aux_aux'], s, d, r), None))
            if self._sdr_close(impl['aux'], [s % (2 * PI), d, r]) and angdiff(impl['sdr_other'][0], s) > 1e-3:
                out.append(('aux-identity', 'SDR_SDR returned the input plane instead of the auxiliary plane', None))
        return out[:3]

    def extra(self, rng, tier):
        """Whole-degree sweep of vertical and near-vertical planes through the array form of SDR_SDR: the auxiliary plane of a plane is a different plane,
        orthogonal to it, and carries the same moment tensor (round-off of a vertical normal decides which candidate a comparison picks)."""
        np, cv = self.np, self.cv
        fails, cov = [], {'vertical_sweep_planes': 0}
        step = 1
        S, R = np.meshgrid(np.arange(0, 360, step, dtype=float), np.arange(-179, 180, step, dtype=float))
        S, R = np.radians(S.flatten()), np.radians(R.flatten())
        for dip in (math.pi / 2, math.pi / 2 - 1e-9, math.radians(89.0)):
            D = np.full(S.shape, dip)
            s2, d2, r2 = [np.asarray(x, dtype=float).flatten() for x in cv.SDR_SDR(S.copy(), D.copy(), R.copy())]
            cov['vertical_sweep_planes'] += int(S.size)

            def nrm(st, dp):
                return np.array([-np.sin(dp) * np.sin(st), -np.sin(dp) * np.cos(st), np.cos(dp)])

            def slp(st, dp, rk):
                return np.array([np.cos(rk) * np.cos(st) + np.sin(rk) * np.cos(dp) * np.sin(st), -np.cos(rk) * np.sin(st) + np.sin(rk) * np.cos(dp) * np.cos(st),
                                 np.sin(rk) * np.sin(dp)])
            n1, n2, u1, u2 = nrm(S, D), nrm(s2, d2), slp(S, D, R), slp(s2, d2, r2)
            # same tensor: n1 u1^T + u1 n1^T = n2 u2^T + u2 n2^T; the planes are orthogonal
            m1 = np.einsum('ik,jk->ijk', n1, u1) + np.einsum('ik,jk->ijk', u1, n1)
            m2 = np.einsum('ik,jk->ijk', n2, u2) + np.einsum('ik,jk->ijk', u2, n2)
            dev = np.abs(m1 - m2).max(axis=(0, 1))
            ortho = np.abs((n1 * n2).sum(0))
            bad = np.where((dev > 1e-6) | (ortho > 1e-6))[0]
            if len(bad):
                j = int(bad[0])
                fails.append(Failure('property', {'kind': 'vertical-sweep', 'strike_deg': float(np.degrees(S[j])), 'dip': float(dip), 'rake_deg': float(np.degrees(R[j]))},
                                     'SDR_SDR (array form) of the plane strike %g deg, dip %r, rake %g deg returns (%r, %r, %r): normals have cosine %r, tensors differ by %r; '
                                     '%d of %d planes of the sweep fail' % (np.degrees(S[j]), dip, np.degrees(R[j]), float(s2[j]), float(d2[j]), float(r2[j]), float(ortho[j]),
                                                                             float(dev[j]), len(bad), S.size), key='vertical-sweep'))
        return cov, fails[:3]

    def nontrivial(self, case, impl):
        return 0 < case['d'] < PI / 2

    def branch(self, case, impl):
        d, r = case['d'], case['r']
        return '%s/%s/%s' % ('horizontal' if d < 1e-6 else 'vertical' if abs(d - PI / 2) < 1e-6 else 'generic',
                             'strike-slip' if min(abs(r), abs(abs(r) - PI)) < 1e-6 else 'dip-slip' if abs(abs(r) - PI / 2) < 1e-6 else 'oblique',
                             'array' if case['array'] else 'scalar')


if __name__ == '__main__':
    import sys
    sys.exit(main(C13()))
