"""C06 — Markov-chain proposals and width adaptation: correspondence and oracle."""
import itertools
import math

from common import Prop, bits, close, unbits, reply_floats, import_mtfit, main, Failure
from c05 import tape_bits, widths_bits, KEYS, PI
from c17 import hx


class Stream(object):
    """replays a prepared list of standard-normal draws into np.random.randn"""

    def __init__(self, np, zs):
        self.np, self.zs, self.i = np, list(zs), 0

    def _next(self):
        if self.i >= len(self.zs):
            raise RuntimeError('draw stream exhausted')
        z = self.zs[self.i]
        self.i += 1
        return z

    def randn(self, *shape):
        # any shape is served from the stream in order, so a change of the drawing pattern shows up as different values (a
        # correspondence disagreement), not as an exception of the stub
        if not shape:
            return self._next()
        n = 1
        for d in shape:
            n *= int(d)
        return self.np.array([self._next() for _ in range(n)], dtype=float).reshape(shape)


class C06(Prop):
    id = 'C06'
    assumptions = ['np.random.randn / rand are replaced by prepared streams for the duration of a call; NumPy is assumed to deliver '
                   'i.i.d. standard normal / uniform draws',
                   'the reflecting options and the crack+double-couple proposal are not modelled (defaults are off)']
    unproved = ['that NumPy delivers i.i.d. standard normal draws (the law of the redraw loop GIVEN i.i.d. draws is proved in Props/C06Law: '
                'truncated-normal density truncTerm on the range); Kolmogorov-Smirnov tests of seeded draws against the truncated-normal CDF in this run',
                'the strike factor of the joint law (Props/C06Joint) is stated as the pushed-forward mass of the wrapped normal, not expanded into a density']
    rule = ('shift / trans-dimensional proposals from states uniform in the domain with boundary values mixed in, widths log-uniform in '
            '(1e-3, 3 x max], streams of normal draws scaled by {1, 3, 10} so that redraw loops run; adaptation: every sequence of rate '
            'classes {0, 0.1, 0.4, 0.8, 1} up to length 3 (thorough: 6) plus random sequences up to length 14, single-try and '
            'trans-dimensional width dictionaries; non-trivial = at least one redraw or more than one window')

    def setup(self):
        import_mtfit()
        import numpy as np
        from MTfit.algorithms import markov_chain_monte_carlo as mc
        self.np, self.mc = np, mc
        np.seterr(all='ignore')
        import types
        mc.gc = types.SimpleNamespace(collect=lambda *a, **k: 0)
        self._algs = {}

    def _alg(self, cls, **kw):
        key = (cls, tuple(sorted(kw.items())))
        if key not in self._algs:
            self._algs[key] = getattr(self.mc, cls)(initial_sample='random', **kw)
        return self._algs[key]

    # ------------------------------------------------------------------ generation
    def _state(self, rng, dc):
        def pick(lo, hi):
            r = rng.random()
            return lo if r < 0.08 else hi if r < 0.16 else rng.uniform(lo, hi)
        return {'gamma': 0.0 if dc else pick(-PI / 6, PI / 6), 'delta': 0.0 if dc else pick(-PI / 2, PI / 2),
                'kappa': rng.choice([0.0, rng.uniform(0, 2 * PI), 2 * PI - 1e-9]), 'h': pick(0.0, 1.0), 'sigma': pick(-PI / 2, PI / 2)}

    def _widths(self, rng):
        mx = {'kappa': PI / 2, 'h': 0.5, 'sigma': PI / 4, 'gamma': PI / 12, 'delta': PI / 4}
        w = {k: mx[k] * 10 ** rng.uniform(-2.5, 0.5) for k in mx}
        w.update({'alpha': PI / 10, 'poisson': 0.2, 'gamma_dc': 10 ** rng.uniform(-1.5, 0.3), 'delta_dc': 10 ** rng.uniform(-1.5, 0.5),
                  'proposal_normalisation': 0.97})
        return w

    def gen(self, rng, tier):
        n = 300 if tier == 'quick' else 5000
        for i in range(n):
            dc = rng.random() < 0.3
            scale = rng.choice([1.0, 1.0, 3.0, 10.0])
            zs = [rng.gauss(0, 1) * scale for _ in range(400)]
            if rng.random() < 0.5:
                yield {'kind': 'shift', 'dc': dc, 'w': self._widths(rng), 'xi': self._state(rng, dc), 'zs': zs}
            else:
                p = rng.choice([0.01, 0.3, 0.5, 1.0])
                u = rng.choice([0.0, p, min(p + 1e-9, 0.999999), rng.random()])
                yield {'kind': 'transd', 'dc': dc, 'w': self._widths(rng), 'xi': self._state(rng, dc), 'zs': zs, 'p': p, 'u': u}
        # multi-event chains: every event is proposed with its own double-couple flag
        for i in range(30 if tier == 'quick' else 600):
            ne = rng.choice([2, 3])
            dcs = [rng.random() < 0.4 for _ in range(ne)]
            yield {'kind': 'shift-multi', 'dcs': dcs, 'ws': [self._widths(rng) for _ in range(ne)], 'xis': [self._state(rng, d) for d in dcs],
                   'zs': [rng.gauss(0, 1) for _ in range(60 * ne)]}
        classes = [0.0, 0.1, 0.4, 0.8, 1.0]
        depth = 3 if tier == 'quick' else 6
        for ln in range(1, depth + 1):
            for seq in itertools.product(classes, repeat=ln):
                if ln == depth or tier != 'quick' or True:
                    yield {'kind': 'adapt', 'rates': list(seq), 'transd': (sum(1 for r in seq if r > 0.5) % 2 == 0), 'window': 20}
        for i in range(60 if tier == 'quick' else 1500):
            ln = rng.randint(4, 14)
            yield {'kind': 'adapt', 'rates': [rng.choice(classes + [rng.randint(0, 20) / 20.0]) for _ in range(ln)],
                   'transd': rng.random() < 0.5, 'window': 20}
        # long runs of windows without a single acceptance, and long runs of one small rate: in floating point the widths shrink
        # towards (and, unguarded, reach) exactly zero -- ratio = old_ratio**2 window after window, or a factor 0.1 per window
        for r0, k, tail in [(0.2, 11, []), (0.2, 14, [1.0, 1.0, 0.4]), (0.1, 20, []), (0.8, 16, [1.0]), (0.05, 12, [0.0, 1.0, 0.0])]:
            yield {'kind': 'adapt', 'rates': [r0] + [0.0] * k + tail, 'transd': k % 2 == 0, 'window': 20}
        for r0, k in ([(0.05, 340)] if tier == 'quick' else [(0.05, 340), (0.01, 400), (0.1, 360)]):
            yield {'kind': 'adapt', 'rates': [r0] * k, 'transd': False, 'window': 20}
        for j in range(2 if tier == 'quick' else 8):
            yield {'kind': 'law', 'seed': 1000 + j, 'n': 4000 if tier == 'quick' else 40000,
                   'xi': {'gamma': rng.uniform(-PI / 6, PI / 6), 'delta': rng.uniform(-PI / 2, PI / 2), 'kappa': 1.0,
                          'h': rng.choice([0.02, 0.5, 0.97]), 'sigma': rng.uniform(-PI / 2, PI / 2)}}

    # ------------------------------------------------------------------ implementation
    def _tof(self, d):
        return {k: float(self.np.asarray(d[k]).flatten()[0]) for k in KEYS}

    def impl(self, case):
        np = self.np
        k = case['kind']
        if k in ('shift', 'transd'):
            if k == 'shift':
                alg = self._alg('IterativeMetropolisHastingsGaussianTape', dc=case['dc'])
            else:
                alg = self._alg('IterativeTransDMetropolisHastingsGaussianTape', dimension_jump_prob=case['p'])
                alg.dimension_jump_prob = case['p']
            alg.alpha = dict(case['w'])
            alg.dc = case['dc']
            alg.xi = dict(case['xi'])
            st = Stream(np, case['zs'])
            o_randn, o_rand = np.random.randn, np.random.rand
            try:
                np.random.randn = st.randn
                np.random.rand = lambda *a: case.get('u', 0.5)
                x = alg._new_sample_single()
            finally:
                np.random.randn, np.random.rand = o_randn, o_rand
            res = {'x': self._tof(x), 'consumed': st.i, 'jump': bool(getattr(alg, 'jump', False)) if k == 'transd' else False,
                   'extra_keys': sorted(kk for kk in x if kk not in KEYS)}
            alg.jump = False
            mt = np.asarray(alg.convert_sample({kk: x[kk] for kk in KEYS}), dtype=float).flatten()
            res['mt'] = [float(v) for v in mt]
            return res
        if k == 'shift-multi':
            ne = len(case['dcs'])
            alg = self.mc.IterativeMetropolisHastingsGaussianTape(number_events=ne, initial_sample='grid', learning_length=10)
            alg.dc = list(case['dcs'])
            alg.alpha = [dict(w) for w in case['ws']]
            alg.xi = [dict(x) for x in case['xis']]
            st = Stream(np, case['zs'])
            o_randn, o_rand = np.random.randn, np.random.rand
            try:
                np.random.randn = st.randn
                np.random.rand = lambda *a: 0.5
                alg.new_sample()
            finally:
                np.random.randn, np.random.rand = o_randn, o_rand
            return {'xs': [self._tof(x) for x in alg.xi_1], 'dc_after': list(alg.dc) if isinstance(alg.dc, list) else alg.dc, 'consumed': st.i}
        if k == 'adapt':
            cls = 'IterativeTransDMetropolisHastingsGaussianTape' if case['transd'] else 'IterativeMetropolisHastingsGaussianTape'
            alg = getattr(self.mc, cls)(initial_sample='random', learning_length=10 ** 9, acceptance_rate_window=case['window'])
            res = {'keys': list(alg.alpha.keys()), 'start': [float(alg.alpha[kk]) for kk in alg.alpha],
                   'max': {kk: float(v) for kk, v in alg.max_alpha.items()}, 'min': alg.min_acceptance_rate, 'maxr': alg.max_acceptance_rate,
                   'old_rate': float(alg._old_rate), 'steps': []}
            for r in case['rates']:
                na = int(round(r * case['window']))
                alg._learning_accepted = [1] * na + [0] * (case['window'] - na)
                alg._modify_acceptance_rate()
                res['steps'].append({kk: float(alg.alpha[kk]) for kk in alg.alpha})
            return res
        # proposal law: seeded draws through the real RNG
        from scipy import stats
        alg = self._alg('IterativeMetropolisHastingsGaussianTape', dc=False)
        alg.alpha = {'kappa': PI / 5, 'h': 0.2, 'sigma': PI / 10, 'gamma': PI / 15, 'delta': PI / 10, 'alpha': PI / 10, 'poisson': 0.2}
        alg.dc = False
        alg.xi = dict(case['xi'])
        np.random.seed(case['seed'])
        draws = {kk: [] for kk in KEYS}
        for _ in range(case['n']):
            x = alg._new_sample_single()
            for kk in KEYS:
                draws[kk].append(float(np.asarray(x[kk]).flatten()[0]))
        pv = {}
        for kk, lo, hi in (('gamma', -PI / 6, PI / 6), ('delta', -PI / 2, PI / 2), ('h', 0.0, 1.0), ('sigma', -PI / 2, PI / 2)):
            m, s = case['xi'][kk], alg.alpha[kk]
            a, b = (lo - m) / s, (hi - m) / s
            pv[kk] = float(stats.kstest(draws[kk], stats.truncnorm(a, b, loc=m, scale=s).cdf).pvalue)
        return {'pvalues': pv}

    # ------------------------------------------------------------------ model
    def requests(self, case, impl):
        k = case['kind']
        zs = case.get('zs', [])
        if k == 'shift':
            return ['shift %d %s %s %d %s' % (1 if case['dc'] else 0, widths_bits(case['w']), tape_bits(case['xi']), len(zs),
                                              ' '.join(bits(z) for z in zs)),
                    'tapemt6 %s' % tape_bits(impl['x'])] if isinstance(impl, dict) and 'x' in impl else []
        if k == 'transd':
            return ['transd %d %s %s %s %s %d %s' % (1 if case['dc'] else 0, bits(case['p']), widths_bits(case['w']), tape_bits(case['xi']),
                                                     bits(case['u']), len(zs), ' '.join(bits(z) for z in zs)),
                    'tapemt6 %s' % tape_bits(impl['x'])] if isinstance(impl, dict) and 'x' in impl else []
        if k == 'adapt' and isinstance(impl, dict) and 'keys' in impl:
            mx = ' '.join('%s %s' % (hx(kk), bits(v)) for kk, v in impl['max'].items())
            ws = ' '.join('%s %s' % (hx(kk), bits(v)) for kk, v in zip(impl['keys'], impl['start']))
            return ['adapt %s %s %d %s %d %s %s %d %s' % (bits(impl['min']), bits(impl['maxr']), len(impl['max']), mx, len(impl['keys']), ws,
                                                          bits(impl['old_rate']), len(case['rates']), ' '.join(bits(r) for r in case['rates']))]
        return []

    def compare(self, case, impl, replies):
        if 'exc' in impl:
            return [('implementation raised %s: %s' % (impl['exc'], impl.get('msg')), impl)]
        k = case['kind']
        if k in ('shift', 'transd'):
            t = replies[0].split()
            if t[0] != '1':
                return [('model stream exhausted but implementation returned', None)]
            x = [unbits(v) for v in t[1:6]]
            got = [impl['x'][kk] for kk in KEYS]
            out = []
            for kk, m, g in zip(KEYS, x, got):
                ok = close(m, g, atol=1e-12) or (kk == 'kappa' and abs(abs(m - g) - 2 * PI) < 1e-9)
                if not ok:
                    out.append(('%s proposal %s: model %r, implementation %r' % (k, kk, m, g), None))
                    break
            consumed = int(t[-1])
            if consumed != impl['consumed']:
                out.append(('%s: model consumed %d draws, implementation %d' % (k, consumed, impl['consumed']), None))
            if k == 'transd' and (t[6] == '1') != impl['jump']:
                out.append(('transd: model jump=%s, implementation jump=%s' % (t[6], impl['jump']), None))
            mt = reply_floats(replies[1])
            if not all(close(a, b, atol=1e-9) for a, b in zip(mt, impl['mt'])):
                out.append(('converted tensor: model %r, implementation %r' % (mt, impl['mt']), None))
            return out
        if k == 'adapt':
            vals = reply_floats(replies[0])
            nk = len(impl['keys'])
            for si, step in enumerate(impl['steps']):
                if sorted(step.keys()) != sorted(impl['keys']):
                    return [('adapt: after window %d the width dictionary has keys %r (started with %r)' % (si, sorted(step), sorted(impl['keys'])), None)]
                m = vals[si * nk:(si + 1) * nk]
                g = [step[kk] for kk in impl['keys']]
                if not all(close(a, b, rtol=1e-9, atol=1e-300) for a, b in zip(m, g)):
                    return [('adapt: widths after window %d (rates %r): model %r, implementation %r' % (si, case['rates'][:si + 1], m, g), None)]
            return []
        return []

    # ------------------------------------------------------------------ oracle
    def oracle(self, case, impl):
        if 'exc' in impl:
            return [('raises', '%s raised %s: %s' % (case['kind'], impl['exc'], impl.get('msg')), impl)]
        k = case['kind']
        out = []
        if k in ('shift', 'transd'):
            x = impl['x']
            eps = 1e-12
            if not (abs(x['gamma']) <= PI / 6 + eps and abs(x['delta']) <= PI / 2 + eps and 0 <= x['kappa'] < 2 * PI + eps and
                    -eps <= x['h'] <= 1 + eps and abs(x['sigma']) <= PI / 2 + eps):
                out.append(('out-of-domain', 'proposal %r is outside the source domain' % (x,), None))
            if x['kappa'] >= 2 * PI:
                out.append(('strike-wrap', 'strike %r is not below 2*pi' % x['kappa'], None))
            nrm = math.sqrt(sum(v * v for v in impl['mt']))
            if not close(nrm, 1.0, atol=1e-9):
                out.append(('norm', 'proposal converts to a tensor of norm %r' % nrm, None))
            jumped = impl.get('jump', False)
            if case['dc'] and not jumped and (x['gamma'] != 0 or x['delta'] != 0):
                out.append(('not-dc', 'double-couple chain proposed gamma=%r delta=%r' % (x['gamma'], x['delta']), None))
            if jumped:
                xi = case['xi']
                if not (x['kappa'] == xi['kappa'] and x['h'] == xi['h'] and x['sigma'] == xi['sigma']):
                    out.append(('jump-orientation', 'model jump changed strike/dip/slip: %r -> %r' % (xi, x), None))
                if not case['dc'] and (x['gamma'] != 0 or x['delta'] != 0):
                    out.append(('jump-not-dc', 'jump to the double-couple model gave gamma=%r delta=%r' % (x['gamma'], x['delta']), None))
                if case['dc']:
                    # the dimension-balancing draw: first in-range values of gamma_dc * z, then of delta_dc * z, from the same stream
                    zs, pos = list(case['zs']), 0
                    want = []
                    for wd, lim in ((case['w']['gamma_dc'], PI / 6), (case['w']['delta_dc'], PI / 2)):
                        v = None
                        while pos < len(zs):
                            c_ = wd * zs[pos]
                            pos += 1
                            if abs(c_) <= lim:
                                v = c_
                                break
                        want.append(v)
                    if None not in want and not (close(want[0], x['gamma'], atol=1e-12) and close(want[1], x['delta'], atol=1e-12)):
                        out.append(('jump-draw', 'dimension-balancing draw gave gamma=%r delta=%r; the first in-range draws with the balancing widths (%r, %r) are %r, %r'
                                    % (x['gamma'], x['delta'], case['w']['gamma_dc'], case['w']['delta_dc'], want[0], want[1]), None))
            elif not case['dc']:
                # first in-range draw about the current state
                zs = case['zs']
                g = next((case['xi']['gamma'] + case['w']['gamma'] * z for z in zs if abs(case['xi']['gamma'] + case['w']['gamma'] * z) <= PI / 6), None)
                if g is None or not close(g, x['gamma'], atol=1e-12):
                    out.append(('first-in-range', 'gamma proposal %r is not the first in-range draw %r about the current state' % (x['gamma'], g), None))
        elif k == 'shift-multi':
            # reference: the events are proposed one after the other from the same stream, each with the first in-range draw
            zs = list(case['zs'])
            pos = 0

            def first(cur, wd, lo, hi):
                nonlocal pos
                while True:
                    v = cur + wd * zs[pos]
                    pos += 1
                    if lo <= v <= hi:
                        return v
            for e, (dc, w, xi, x) in enumerate(zip(case['dcs'], case['ws'], case['xis'], impl['xs'])):
                if dc:
                    if x['gamma'] != 0 or x['delta'] != 0:
                        out.append(('not-dc', 'event %d is double-couple constrained, proposal has gamma=%r delta=%r' % (e, x['gamma'], x['delta']), None))
                else:
                    g = first(xi['gamma'], w['gamma'], -PI / 6, PI / 6)
                    d = first(xi['delta'], w['delta'], -PI / 2, PI / 2)
                    if not (close(g, x['gamma'], atol=1e-12) and close(d, x['delta'], atol=1e-12)):
                        out.append(('first-in-range', 'event %d (unconstrained): proposal gamma=%r delta=%r, first in-range draws about its state '
                                    'give %r, %r' % (e, x['gamma'], x['delta'], g, d), None))
                        break
                kp = (xi['kappa'] + w['kappa'] * zs[pos]) % (2 * PI)
                pos += 1
                h = first(xi['h'], w['h'], 0.0, 1.0)
                sg = first(xi['sigma'], w['sigma'], -PI / 2, PI / 2)
                if not (close(kp, x['kappa'], atol=1e-9) and close(h, x['h'], atol=1e-12) and close(sg, x['sigma'], atol=1e-12)):
                    out.append(('first-in-range', 'event %d: strike/dip/slip proposal (%r, %r, %r), first in-range draws give (%r, %r, %r)' %
                                (e, x['kappa'], x['h'], x['sigma'], kp, h, sg), None))
                    break
            if impl['dc_after'] != list(case['dcs']):
                out.append(('not-dc', 'the per-event double-couple flags changed from %r to %r' % (case['dcs'], impl['dc_after']), None))
        elif k == 'adapt':
            for si, step in enumerate(impl['steps']):
                missing = [kk for kk in impl['keys'] if kk not in step]
                if missing:
                    out.append(('adapt-keys', 'after window %d (rates %r) the widths %r are lost' % (si, case['rates'][:si + 1], missing), None))
                    break
                bad = [kk for kk in step if not step[kk] > 0]
                if bad:
                    out.append(('adapt-zero', 'after window %d (rates %r) widths %r are not positive: %r' %
                                (si, case['rates'][:si + 1], bad, {kk: step[kk] for kk in bad}), None))
                    break
                over = [kk for kk in step if kk in impl['max'] and step[kk] > impl['max'][kk] * (1 + 1e-12) and
                        not (kk == 'poisson')]
                if over:
                    out.append(('adapt-max', 'after window %d widths %r exceed their maximum' % (si, over), None))
                    break
        elif k == 'law':
            for kk, p in impl['pvalues'].items():
                if p < 1e-4:
                    out.append(('law', 'proposals for %s do not follow the truncated Gaussian about the current state (KS p=%g)' % (kk, p), None))
        return out

    def extra(self, rng, tier):
        """Whole-run checks: (1) the density of the dimension-balancing draw used by the acceptance rule is a density (mass one on the source-type
        box) for unequal widths of the two coordinates; (2) with the reflect options every proposal stays in the domain, also for widths at their
        maxima, states at the ends of the ranges and draws many widths out."""
        import math
        np, mc = self.np, self.mc
        fails, cov = [], {'balancing_density_mass': [], 'reflect_option_proposals': 0}
        xg, wg_ = np.polynomial.legendre.leggauss(160)
        xd, wd_ = np.polynomial.legendre.leggauss(320)
        for sg, sd in ([(0.5, 0.15), (0.1, 0.9)] if tier == 'quick' else [(0.5, 0.15), (0.1, 0.9), (0.2, 0.2), (1.0, 0.3), (0.05, 2.0)]):
            alg = mc.IterativeTransDMetropolisHastingsGaussianTape(dc_sigma_g=sg, dc_sigma_d=sd, learning_length=5, chain_length=5)
            tot = 0.0
            for gi, wi in zip(xg * math.pi / 6, wg_):
                tot += wi * math.pi / 6 * sum(wj * float(alg.jump_params({'gamma': float(gi), 'delta': float(dj)})) for dj, wj in zip(xd * math.pi / 2, wd_)) * math.pi / 2
            cov['balancing_density_mass'].append({'sigma_g': sg, 'sigma_d': sd, 'mass': tot})
            if abs(tot - 1.0) > 1e-4:
                fails.append(Failure('property', {'kind': 'balancing-density-mass', 'sigma_g': sg, 'sigma_d': sd},
                                     'the density of the dimension-balancing draw that the acceptance rule uses integrates to %r over the source-type box for widths '
                                     '(%r, %r): the draw (a truncated Gaussian, mass one) is not distributed as the acceptance rule assumes' % (tot, sg, sd),
                                     key='balancing-density-mass'))
        # reflect options
        big = [4.5, -5.2, 3.9, 6.5, -4.1, 0.3, -0.2, 5.8, -6.3, 2.7, 0.1, -3.3]
        o = np.random.randn
        try:
            for dc in (False, True):
                for opt in ({'reflect_dip': True}, {'reflect_sigma': True}, {'reflect_gamma': True, 'reflect_delta': True},
                            {'reflect_dip': True, 'reflect_sigma': True, 'reflect_gamma': True, 'reflect_delta': True}):
                    alg = mc.IterativeMetropolisHastingsGaussianTape(dc=dc, learning_length=5, chain_length=5, **opt)
                    alg.alpha = dict(alg.max_alpha)            # widths at their configured maxima
                    for xi in ({'gamma': 0.0 if dc else 0.5, 'delta': 0.0 if dc else 1.5, 'kappa': 1.0, 'h': 0.98, 'sigma': 1.5},
                               {'gamma': 0.0 if dc else -0.52, 'delta': 0.0 if dc else -1.55, 'kappa': 6.2, 'h': 0.01, 'sigma': -1.56}):
                        for start in range(len(big)):
                            pos = [start]

                            def randn(*a):
                                n_ = int(np.prod(a)) if a else 1
                                zz = [big[(pos[0] + i_) % len(big)] for i_ in range(n_)]
                                pos[0] += n_
                                return np.array(zz).reshape(a) if a else zz[0]
                            alg.xi = dict(xi)
                            np.random.randn = randn
                            try:
                                x = alg._new_sample_single()
                            finally:
                                np.random.randn = o
                            cov['reflect_option_proposals'] += 1
                            v = {k_: float(np.asarray(x[k_]).flatten()[0]) for k_ in ('gamma', 'delta', 'kappa', 'h', 'sigma') if k_ in x}
                            bad = [k_ for k_, (lo, hi) in {'gamma': (-math.pi / 6, math.pi / 6), 'delta': (-math.pi / 2, math.pi / 2), 'kappa': (0, 2 * math.pi),
                                                          'h': (0, 1), 'sigma': (-math.pi / 2, math.pi / 2)}.items() if k_ in v and not (lo <= v[k_] <= hi)]
                            if bad:
                                fails.append(Failure('property', {'kind': 'reflect-domain', 'options': opt, 'dc': dc, 'xi': xi, 'draws_from': start},
                                                     'with %r a proposal from %r (widths at their maxima, normal deviates %r...) leaves the domain: %r'
                                                     % (opt, xi, big[start:start + 3], {k_: v[k_] for k_ in bad}), key='reflect-domain'))
        finally:
            np.random.randn = o
        # (3) double-couple constrained chains started from the grid initialiser: whatever tensor the initialiser hands over (its conversion to
        # source-type coordinates carries round-off of a few 1e-16), every proposal of the chain is exactly a double-couple
        nchains = 250 if tier == 'quick' else 1500
        from MTfit.probability import LnPDF
        import types
        gc0 = mc.gc
        mc.gc = types.SimpleNamespace(collect=lambda *a, **k: 0)
        rs = np.random.RandomState(20250 + (0 if tier == 'quick' else 1))
        st = np.random.get_state()
        cov['grid_started_dc_chains'] = nchains
        try:
            np.random.seed(4242)
            nbad, eg = 0, None
            for c_ in range(nchains):
                alg = mc.IterativeMetropolisHastingsGaussianTape(dc=True, initial_sample='grid', number_samples=4, min_number_initialisation_samples=0,
                                                                 learning_length=5, chain_length=20, acceptance_rate_window=5)
                mts, _e = alg.initialise()
                mts = np.asarray(mts)
                first, _e = alg.iterate({'moment_tensors': mts, 'ln_pdf': LnPDF(np.log(rs.rand(1, mts.shape[1]))), 'n': mts.shape[1]})
                if alg._initialising:
                    continue
                prop, _e = alg.iterate({'moment_tensors': first, 'ln_pdf': LnPDF(np.array([[-1.0]])), 'n': 1})
                for k_ in range(3):
                    x = alg.xi_1
                    g_, d_ = float(np.asarray(x['gamma']).flatten()[0]), float(np.asarray(x['delta']).flatten()[0])
                    if g_ != 0.0 or d_ != 0.0:
                        nbad += 1
                        eg = eg or (c_, g_, d_)
                        break
                    alg.new_sample()
            if nbad:
                fails.append(Failure('property', {'kind': 'grid-start-dc', 'chains': nchains},
                                     '%d of %d double-couple constrained chains started from the grid initialiser proposed states that are not double-couples '
                                     '(chain %d: gamma=%r, delta=%r)' % (nbad, nchains, eg[0], eg[1], eg[2]), key='grid-start-dc'))
        finally:
            np.random.set_state(st)
            mc.gc = gc0
        return cov, fails[:4]

    def nontrivial(self, case, impl):
        if case['kind'] in ('shift', 'transd'):
            return isinstance(impl, dict) and impl.get('consumed', 0) > (3 if case['dc'] else 5)
        if case['kind'] == 'adapt':
            return len(case['rates']) > 1
        return True

    def branch(self, case, impl):
        k = case['kind']
        if k == 'transd':
            return 'transd/%s/%s' % ('dc' if case['dc'] else 'mt', 'jump' if isinstance(impl, dict) and impl.get('jump') else 'shift')
        if k == 'shift':
            return 'shift/%s' % ('dc' if case['dc'] else 'mt')
        if k == 'adapt':
            return 'adapt/%s/len%d' % ('transd' if case['transd'] else 'single', min(len(case['rates']), 7))
        return k


if __name__ == '__main__':
    import sys
    sys.exit(main(C06()))
