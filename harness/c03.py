"""C03 — amplitude-ratio likelihood: correspondence and oracle (incl. quadrature of the defining integral)."""
import math

from common import Failure, Prop, bits, close, reply_floats, import_mtfit, NEG_INF, main
from c02 import unit6


class C03(Prop):
    id = 'C03'
    assumptions = ['scipy.stats.norm.cdf(x,0,1) and 1/2 (1 + erf(x/sqrt 2)) agree to 1e-15 absolute',
                   'densities are compared with relative tolerance 1e-9 + 2e-15 * c (c = Hinkley coefficient: the exponent '
                   '(b^2 - c a^2)/(2 a^2) is computed by cancellation of terms of size c, so its rounding error scales with c)']
    unproved = ['integral over r in (0, inf) equals one (adaptive quadrature on the implementation, thorough tier and a sample in quick)',
                'closed form = defining integral of |y| N(ry) N(y) dy unless Props/C03Integral is present (quadrature on the implementation)']
    rule = ('scalar cases: modelled amplitudes log-uniform over 1e-4..1e4 with all sign combinations, fractional errors '
            'log-uniform in [1e-5, 5] (and 0), observed ratio r = model ratio * exp(N(0, k*error)) incl. far tails; array cases: '
            '1..6 stations x 1..3 location samples x 1..5 tensors; quadrature cases with errors >= 0.02; non-trivial = both '
            'modelled amplitudes non-zero')

    def setup(self):
        import_mtfit()
        import numpy as np
        from MTfit.probability import probability as pr
        self.np, self.pr = np, pr
        np.seterr(all='ignore')
        import types
        pr.gc = types.SimpleNamespace(collect=lambda *a, **k: 0)   # ratio_pdf forces a full GC per call; irrelevant to values

    # ------------------------------------------------------------------ generation
    def _pe(self, rng):
        return rng.choice([1e-5, 1e-5, 1e-4, 1e-3, 0.01, 0.05, 0.2, 0.5, 1.0, 5.0, 10 ** rng.uniform(-5, math.log10(5))])

    def gen(self, rng, tier):
        n = 400 if tier == 'quick' else 6000
        nq = 12 if tier == 'quick' else 150
        for i in range(n):
            k = rng.random()
            if k < 0.55:
                mx = 10 ** rng.uniform(-4, 4) * rng.choice([1, -1])
                my = 10 ** rng.uniform(-4, 4) * rng.choice([1, -1])
                if rng.random() < 0.05:
                    mx = 0.0
                if rng.random() < 0.03:
                    my = 0.0
                px, py = self._pe(rng), self._pe(rng)
                if rng.random() < 0.03:
                    px = 0.0
                r0 = abs(mx / my) if my else 1.0
                width = math.sqrt(px * px + py * py)
                r = r0 * math.exp(rng.gauss(0, 1) * width * rng.choice([0.5, 1, 3, 10, 40])) if r0 > 0 else 10 ** rng.uniform(-3, 3)
                if rng.random() < 0.1:
                    r = 10 ** rng.uniform(-6, 6)
                r = min(max(r, 1e-120), 1e120)          # observed ratios beyond 1e154 overflow r*r in any double implementation
                yield {'kind': 'ar-scalar', 'r': r, 'mx': mx, 'my': my, 'px': px, 'py': py}
            else:
                ns, nl, nm = rng.randint(1, 6), rng.randint(1, 3), rng.randint(1, 5)
                cx = [[[rng.uniform(-1, 1) for _ in range(6)] for _ in range(nl)] for _ in range(ns)]
                cy = [[[rng.uniform(-1, 1) for _ in range(6)] for _ in range(nl)] for _ in range(ns)]
                mts = [unit6(rng) for _ in range(nm)]
                px = [self._pe(rng) for _ in range(ns)]
                py = [self._pe(rng) for _ in range(ns)]
                ratio = [10 ** rng.uniform(-1.5, 1.5) for _ in range(ns)]
                if rng.random() < 0.5:
                    # ratios consistent with the first tensor at the first location sample (so the likelihood is not vanishing)
                    for s in range(ns):
                        ax = sum(a * b for a, b in zip(cx[s][0], mts[0]))
                        ay = sum(a * b for a, b in zip(cy[s][0], mts[0]))
                        if ay:
                            ratio[s] = abs(ax / ay) * math.exp(rng.gauss(0, 1) * math.hypot(px[s], py[s]))
                yield {'kind': 'ar-multi', 'cx': cx, 'cy': cy, 'mts': mts, 'px': px, 'py': py, 'ratio': ratio}
        # many stations with moderately unlikely ratios: the joint log-likelihood lies far below ln(1e-308) although every station
        # density is an ordinary number
        for i in range(4 if tier == 'quick' else 40):
            ns = rng.choice([150, 300])
            mts = [unit6(rng) for _ in range(2)]
            cx = [[[v * rng.uniform(0.5, 2) for v in mts[0]]] for _ in range(ns)]
            cy = [[[v * rng.uniform(0.5, 2) for v in mts[0]]] for _ in range(ns)]
            px = [0.1] * ns
            py = [0.1] * ns
            ratio = []
            for s_ in range(ns):
                ax = sum(a * b for a, b in zip(cx[s_][0], mts[0]))
                ay = sum(a * b for a, b in zip(cy[s_][0], mts[0]))
                ratio.append(abs(ax / ay) * math.exp(rng.choice([-1, 1]) * 3.0 * math.hypot(0.1, 0.1)))       # three sigma off
            yield {'kind': 'ar-multi', 'cx': cx, 'cy': cy, 'mts': mts, 'px': px, 'py': py, 'ratio': ratio, 'many': True}
        for i in range(nq):
            mx = 10 ** rng.uniform(-2, 2) * rng.choice([1, -1])
            my = 10 ** rng.uniform(-2, 2) * rng.choice([1, -1])
            px = rng.choice([0.02, 0.05, 0.1, 0.3, 0.7, 1.5, 5.0])
            py = rng.choice([0.02, 0.05, 0.1, 0.3, 0.7, 1.5, 5.0])
            r = abs(mx / my) * math.exp(rng.gauss(0, 1.5) * math.hypot(px, py))
            yield {'kind': 'quad', 'r': r, 'mx': mx, 'my': my, 'px': px, 'py': py}

    # ------------------------------------------------------------------ implementation
    @staticmethod
    def _one(A):
        return [[[A, 0.0, 0.0, 0.0, 0.0, 0.0]]]

    def _ar(self, ratio, mts, cx, cy, px, py):
        np = self.np
        r = self.pr.amplitude_ratio_ln_pdf(np.array(ratio, dtype=float), np.array(mts, dtype=float).T,
                                           np.array(cx, dtype=float), np.array(cy, dtype=float),
                                           np.array(px, dtype=float), np.array(py, dtype=float))
        return [float(v) for v in np.asarray(r, dtype=float).flatten()]

    def _ar_scalar(self, r, mx, my, px, py):
        return self._ar([r], [[1.0, 0, 0, 0, 0, 0]], self._one(mx), self._one(my), [px], [py])[0]

    def impl(self, case):
        np = self.np
        k = case['kind']
        if k == 'ar-scalar':
            r, mx, my, px, py = (case[x] for x in ('r', 'mx', 'my', 'px', 'py'))
            return {'out': self._ar_scalar(r, mx, my, px, py),
                    'flip_x': self._ar_scalar(r, -mx, my, px, py),
                    'flip_y': self._ar_scalar(r, mx, -my, px, py),
                    # |X/Y| for X ~ N(mx, (px mx)^2), Y ~ N(my, (py my)^2) is unchanged when both modelled amplitudes are scaled together
                    'scaled_down': self._ar_scalar(r, mx * 2.0 ** -20, my * 2.0 ** -20, px, py),
                    'scaled_up': self._ar_scalar(r, mx * 2.0 ** 12, my * 2.0 ** 12, px, py),
                    'ratio_pdf_pos': float(self.pr.ratio_pdf(r, abs(mx), abs(my), abs(px or 1e-24) * abs(mx), abs(py or 1e-24) * abs(my))),
                    'ratio_pdf_neg': float(self.pr.ratio_pdf(-r, abs(mx), abs(my), abs(px or 1e-24) * abs(mx), abs(py or 1e-24) * abs(my)))}
        if k == 'ar-multi':
            out = {'out': self._ar(case['ratio'], case['mts'], case['cx'], case['cy'], case['px'], case['py'])}
            neg = [[[-v for v in loc] for loc in st] for st in case['cx']]
            out['flip'] = self._ar(case['ratio'], case['mts'], neg, case['cy'], case['px'], case['py'])
            out['singles'] = [self._ar([case['ratio'][s]], case['mts'], [case['cx'][s]], [case['cy'][s]],
                                       [case['px'][s]], [case['py'][s]]) for s in range(len(case['cx']))]
            return out
        # quadrature on the implementation
        from scipy.integrate import quad
        r, mx, my, px, py = (case[x] for x in ('r', 'mx', 'my', 'px', 'py'))
        amx, amy = abs(mx), abs(my)
        sx, sy = px * amx, py * amy
        closed = float(self.pr.ratio_pdf(r, amx, amy, sx, sy))

        def integrand(y):
            return abs(y) * math.exp(-0.5 * ((r * y - amx) / sx) ** 2) / (sx * math.sqrt(2 * math.pi)) * \
                math.exp(-0.5 * ((y - amy) / sy) ** 2) / (sy * math.sqrt(2 * math.pi))
        # break points around the two Gaussian centres
        pts = sorted({0.0, amy, amx / r} | {amy + j * sy for j in (-8, -3, 3, 8)} | {(amx + j * sx) / r for j in (-8, -3, 3, 8)})
        lo, hi = pts[0] - 1.0, pts[-1] + 1.0
        integral = 0.0
        edges = [lo] + pts + [hi]
        for a, b in zip(edges[:-1], edges[1:]):
            if b > a:
                integral += quad(integrand, a, b, limit=200, epsabs=0, epsrel=1e-10)[0]

        np = self.np
        xs, ws = np.polynomial.legendre.leggauss(48)
        r0 = amx / amy
        w = math.hypot(px, py)
        # segments in log r around the peak (dense) and far tails; density is evaluated in one vectorised call
        edges = [-60.0] + [math.log(r0) + j * w for j in (-40, -20, -12, -8, -5, -3, -2, -1, 0, 1, 2, 3, 5, 8, 12, 20, 40)] + [60.0]
        edges = sorted(set(edges))
        nodes, weights = [], []
        for a, b in zip(edges[:-1], edges[1:]):
            sub = np.linspace(a, b, 5)
            for a2, b2 in zip(sub[:-1], sub[1:]):
                t = 0.5 * (b2 - a2) * xs + 0.5 * (a2 + b2)
                nodes.append(np.exp(t))
                weights.append(0.5 * (b2 - a2) * ws * np.exp(t))
        rr = np.concatenate(nodes)
        ww = np.concatenate(weights)
        dens = self.pr.ratio_pdf(rr, amx, amy, sx, sy) + self.pr.ratio_pdf(-rr, amx, amy, sx, sy)
        total = float(np.sum(dens * ww))
        return {'closed': closed, 'integral': integral, 'total': total}

    # ------------------------------------------------------------------ model
    def requests(self, case, impl):
        k = case['kind']
        if k == 'ar-scalar':
            r, mx, my, px, py = (case[x] for x in ('r', 'mx', 'my', 'px', 'py'))
            reqs = ['arpdf %s' % ' '.join(bits(v) for v in (r, mx, my, px, py))]
            if mx != 0 and my != 0:
                sx, sy = abs(px or 1e-24) * abs(mx), abs(py or 1e-24) * abs(my)
                reqs.append('ratiopdf %s' % ' '.join(bits(v) for v in (r, abs(mx), abs(my), sx, sy)))
                reqs.append('ratiopdf %s' % ' '.join(bits(v) for v in (-r, abs(mx), abs(my), sx, sy)))
            return reqs
        if k == 'ar-multi':
            ns, nl, nm = len(case['cx']), len(case['cx'][0]), len(case['mts'])
            toks = []
            for s in range(ns):
                toks += [bits(case['ratio'][s]), bits(case['px'][s]), bits(case['py'][s])]
                toks += [bits(v) for loc in case['cx'][s] for v in loc]
                toks += [bits(v) for loc in case['cy'][s] for v in loc]
            toks += [bits(v) for mt in case['mts'] for v in mt]
            return ['arlnpdf %d %d %d %s' % (ns, nl, nm, ' '.join(toks))]
        r, mx, my, px, py = (case[x] for x in ('r', 'mx', 'my', 'px', 'py'))
        return ['ratiopdf %s' % ' '.join(bits(v) for v in (r, abs(mx), abs(my), px * abs(mx), py * abs(my)))]

    @staticmethod
    def _p_close(mp, ip, cond):
        if math.isnan(ip) or math.isnan(mp):
            return False
        if mp < 1e-290 and ip < 1e-290:
            return True
        return close(mp, ip, rtol=1e-9 + 2e-15 * abs(cond), atol=1e-300)

    def compare(self, case, impl, replies):
        if 'exc' in impl:
            return [('implementation raised %s: %s' % (impl['exc'], impl.get('msg')), impl)]
        k = case['kind']
        if k == 'ar-scalar':
            mp, cond = reply_floats(replies[0])
            g = impl['out']
            ip = math.exp(g) if g != NEG_INF else 0.0
            if mp <= 0 or g == NEG_INF:
                if not ((mp <= 1e-300) and (g == NEG_INF or g < -690)):
                    return [('ar-scalar: model p=%r, implementation ln p=%r' % (mp, g), None)]
            elif not close(math.log(mp), g, atol=1e-9, extra=2e-15 * abs(cond)):
                return [('ar-scalar: model ln p=%r, implementation ln p=%r (c=%r)' % (math.log(mp), g, cond), None)]
            if len(replies) == 3:
                for rep, key in ((replies[1], 'ratio_pdf_pos'), (replies[2], 'ratio_pdf_neg')):
                    m, c = reply_floats(rep)
                    if not self._p_close(m, impl[key], c):
                        return [('%s: model %r, implementation %r (c=%r)' % (key, m, impl[key], c), None)]
            return []
        if k == 'ar-multi':
            vals = reply_floats(replies[0])
            n = len(vals) // 2
            model, kappa = vals[:n], vals[n:]
            got = impl['out']
            if len(model) != len(got):
                return [('length: model %d, implementation %d' % (len(model), len(got)), None)]
            for i, (m, g, kp) in enumerate(zip(model, got, kappa)):
                if (m == NEG_INF or m < -690) and (g == NEG_INF or g < -690):
                    continue
                if math.isnan(kp) or not close(m, g, atol=1e-9, extra=2e-15 * abs(kp)):
                    return [('ar-multi: entry %d: model %r, implementation %r (kappa %r)' % (i, m, g, kp), None)]
            return []
        m, c = reply_floats(replies[0])
        if not self._p_close(m, impl['closed'], c):
            return [('quad-case ratio_pdf: model %r, implementation %r' % (m, impl['closed']), None)]
        return []

    # ------------------------------------------------------------------ oracle
    def oracle(self, case, impl):
        if 'exc' in impl:
            return [('raises', '%s raised %s: %s' % (case['kind'], impl['exc'], impl.get('msg')), impl)]
        k = case['kind']
        out = []
        if k == 'ar-scalar':
            g = impl['out']
            valid = case['mx'] != 0 and case['my'] != 0 and case['px'] >= 1e-5 and case['py'] >= 1e-5
            if math.isnan(g) or (valid and g == float('inf')):
                out.append(('ar-nonfinite', 'ln likelihood %r for %r' % (g, case), None))
            for key in ('ratio_pdf_pos', 'ratio_pdf_neg'):
                v = impl[key]
                if valid and (math.isnan(v) or math.isinf(v) or v < 0):
                    out.append(('ratio-negative-or-nonfinite', '%s = %r' % (key, v), None))
            if not out:
                for key in ('flip_x', 'flip_y'):
                    if not (impl[key] == g or close(impl[key], g, atol=1e-9)):
                        out.append(('ar-sign', 'changing the sign of a modelled amplitude changed ln p from %r to %r' % (g, impl[key]), None))
                        break
                if valid and not out and g > -600:
                    kappa = 1.0 / case['px'] ** 2 + 1.0 / case['py'] ** 2
                    for key in ('scaled_down', 'scaled_up'):
                        v = impl[key]
                        if not (v == g or close(v, g, rtol=1e-9, atol=1e-9 + 4e-15 * kappa)):
                            out.append(('ar-scale', 'scaling both modelled amplitudes (%r, %r) by a common power of two changed ln p from %r to %r: the density of |X/Y| '
                                        'with fractional errors depends on the amplitudes through their ratio only' % (case['mx'], case['my'], g, v), None))
                            break
        elif k == 'ar-multi':
            got = impl['out']
            if any(math.isnan(v) or v == float('inf') for v in got):
                out.append(('ar-nonfinite', 'NaN/+inf log-likelihood in %r' % (got,), None))
            else:
                for i in range(len(got)):
                    if not (got[i] == impl['flip'][i] or close(got[i], impl['flip'][i], atol=1e-9)):
                        out.append(('ar-sign', 'negating the numerator coefficients changed entry %d from %r to %r' %
                                    (i, got[i], impl['flip'][i]), None))
                        break
                    parts = [s[i] for s in impl['singles']]
                    tot = NEG_INF if any(p == NEG_INF for p in parts) else math.fsum(parts)
                    kap = sum(1.0 / max(a, 1e-24) ** 2 + 1.0 / max(b, 1e-24) ** 2 for a, b in zip(case['px'], case['py']))
                    if not close(tot, got[i], atol=1e-8, rtol=1e-9, extra=2e-15 * kap):
                        out.append(('ar-additive', 'entry %d: %r, sum of single-station log-likelihoods %r' % (i, got[i], tot), None))
                        break
        else:
            if not close(impl['closed'], impl['integral'], rtol=1e-6, atol=1e-300):
                out.append(('ratio-integral', 'closed form %r but defining integral %r' % (impl['closed'], impl['integral']), None))
            if abs(impl['total'] - 1.0) > 1e-5:
                out.append(('ratio-normalisation', 'density integrates to %r over r in (0, inf)' % impl['total'], None))
        return out

    def extra(self, rng, tier):
        """The amplitude-ratio likelihood reached through the joint (multiple-events) forward task with per-event lists, numerator and denominator
        uncertainties different: the joint value is the sum of the single-event values, each the ratio density with its own (numerator, denominator) errors."""
        import contextlib
        import io
        np = self.np
        from MTfit import inversion as inv
        fails, cov = [], {'joint_ratio_tuples': 0}
        for rep in range(2 if tier == 'quick' else 8):
            rs = np.random.RandomState(900 + rep)
            ne = 2 + rep % 2
            mats = []
            for e in range(ne):
                n = 3 + e
                st = {'Name': ['S%02d' % i for i in range(n)], 'Azimuth': np.matrix(rs.uniform(0, 360, n)).T, 'TakeOffAngle': np.matrix(rs.uniform(20, 160, n)).T}
                num, den = rs.uniform(0.5, 3, n), rs.uniform(0.5, 3, n)
                data = {'P/SHAmplitudeRatio': {'Stations': st, 'Measured': np.matrix(np.vstack([num, den]).T),
                                               'Error': np.matrix(np.vstack([num * rs.uniform(0.02, 0.1, n), den * rs.uniform(0.3, 0.8, n)]).T)}}
                mats.append(inv.amplitude_ratio_matrix(data))
            F = [False] * ne
            emp3, emp1 = [np.zeros((0, 1, 6))] * ne, [np.zeros((0,))] * ne
            nt = 5
            mts = []
            for e in range(ne):
                m = rs.randn(6, nt)
                mts.append(m / np.sqrt((m * m).sum(0)))
            task = inv.MultipleEventsForwardTask([m.copy() for m in mts], F, F, [m[0] for m in mats], [m[1] for m in mats], [m[2] for m in mats], [m[3] for m in mats],
                                                 [m[4] for m in mats], F, F, emp3, emp1, emp1, [[] for _ in range(ne)], False, [0] * ne, 2, return_zero=True,
                                                 relative=False, combine=True)
            with contextlib.redirect_stdout(io.StringIO()):
                res = task()
            lp = res['ln_pdf']
            got = np.asarray(lp._ln_pdf if hasattr(lp, '_ln_pdf') else lp, dtype=float).flatten()
            exp = np.zeros(nt)
            for e in range(ne):
                r1 = inv.ForwardTask(mts[e].copy(), False, False, mats[e][0], mats[e][1], mats[e][2], mats[e][3], mats[e][4], False, False, False, 0, return_zero=True)()
                l1 = r1['ln_pdf']
                exp += np.asarray(l1._ln_pdf if hasattr(l1, '_ln_pdf') else l1, dtype=float).flatten()
            cov['joint_ratio_tuples'] += nt
            dev = float(np.max(np.abs(got - exp))) if got.shape == exp.shape else float('inf')
            if not dev < 1e-8 * (1 + float(np.max(np.abs(exp)))):
                fails.append(Failure('property', {'kind': 'joint-ratio', 'events': ne, 'rep': rep},
                                     'joint forward task of %d events with amplitude ratios (numerator and denominator uncertainties different): log-likelihoods differ from the '
                                     'sum of the single-event ratio likelihoods by %r' % (ne, dev), key='joint-ratio'))
        return cov, fails[:3]

    def nontrivial(self, case, impl):
        if 'mx' in case:
            return case['mx'] != 0 and case['my'] != 0
        return True

    def branch(self, case, impl):
        k = case['kind']
        if k == 'ar-scalar':
            if case['mx'] == 0 or case['my'] == 0:
                return k + '/zero-amplitude'
            pe = min(case['px'], case['py'])
            return '%s/%s' % (k, 'pe0' if pe == 0 else 'pe<1e-3' if pe < 1e-3 else 'pe<0.1' if pe < 0.1 else 'pe>=0.1')
        return k


if __name__ == '__main__':
    import sys
    sys.exit(main(C03()))
