"""C04 — log-domain marginalisation / normalisation: correspondence and oracle."""
import math

from common import Prop, bits, close, reply_floats, import_mtfit, NEG_INF, main


def lse(vals):
    """reference log-sum-exp: max + log(fsum(exp(x - max))); -inf for no finite entry"""
    fin = [v for v in vals if v != NEG_INF]
    if not fin:
        return NEG_INF
    m = max(fin)
    return m + math.log(math.fsum(math.exp(v - m) for v in fin))


class C04(Prop):
    id = 'C04'
    assumptions = ['numpy exp/log/sum are correctly rounded to within a few ulp',
                   'a single slice along the marginalised axis is returned unchanged (no dV factor), as in the code; '
                   'normalising an all -inf vector is unspecified and not compared']
    unproved = ['floating-point rounding of the log-sum-exp (compared with tolerance 1e-9 relative)']
    rule = ('matrices 1..6 x 1..8 and vectors 1..12 of log-values: base level from {-1e5..1e4}, spread from {0..1e4}, '
            '-inf patterns none/random/column/all, dV = 1 or log-uniform(1e-6,1e6), both axes, containers '
            'ndarray / np.matrix / LnPDF; non-trivial = at least two slices and at least one finite entry')

    def setup(self):
        import_mtfit()
        import numpy as np
        from MTfit.probability import probability as pr
        self.np = np
        self.pr = pr
        np.seterr(all='ignore')

    # ------------------------------------------------------------------ generation
    def _values(self, rng, n):
        base = rng.choice([-1e5, -3e4, -1e3, -800.0, -745.0, -700.0, -50.0, -1.0, 0.0, 1.0, 50.0, 700.0, 709.0,
                           710.0, 1e3, 1e4])
        spread = rng.choice([0.0, 1.0, 30.0, 700.0, 745.0, 800.0, 1e4])
        out = []
        for _ in range(n):
            v = base - rng.random() * spread
            if rng.random() < 0.1:
                v = float(round(v))
            out.append(min(1e4, max(-1e5, v)))
        return out

    def _dv(self, rng):
        r = rng.random()
        if r < 0.4:
            return 1.0
        if r < 0.8:
            return 10 ** rng.uniform(-6, 6)
        return 10 ** rng.uniform(-30, 30)

    def _edge_values(self, rng, n):
        # maxima in the window where exp() itself neither overflows nor underflows but exp() * dV or a long sum does
        base = rng.choice([1, -1]) * rng.uniform(640.0, 709.5)
        spread = rng.choice([0.0, 1.0, 5.0, 30.0])
        return [base - rng.random() * spread for _ in range(n)]

    def gen(self, rng, tier):
        n = 400 if tier == 'quick' else 6000
        for i in range(n):
            if rng.random() < 0.6:
                nr = rng.randint(1, 6)
                nc = rng.randint(1, 8)
                vals = self._values(rng, nr * nc) if rng.random() < 0.85 else self._edge_values(rng, nr * nc)
                pat = rng.choice(['none', 'none', 'random', 'column', 'row', 'all'])
                if pat == 'random':
                    vals = [NEG_INF if rng.random() < 0.3 else v for v in vals]
                elif pat == 'column':
                    j = rng.randrange(nc)
                    vals = [NEG_INF if k % nc == j else v for k, v in enumerate(vals)]
                elif pat == 'row':
                    r = rng.randrange(nr)
                    vals = [NEG_INF if k // nc == r else v for k, v in enumerate(vals)]
                elif pat == 'all':
                    vals = [NEG_INF] * len(vals)
                rows = [vals[r * nc:(r + 1) * nc] for r in range(nr)]
                yield {'kind': 'marg', 'rows': rows, 'axis': rng.choice([0, 1]), 'dV': self._dv(rng),
                       'container': rng.choice(['array', 'matrix', 'lnpdf']),
                       'shift': rng.choice([0.0, 500.0, -500.0, 37.25])}
            else:
                n1 = rng.randint(1, 12)
                xs = self._values(rng, n1)
                edge_dv = None
                if rng.random() < 0.25:
                    n1 = rng.choice([2, 3, 8, 400, 3000])
                    xs = self._edge_values(rng, n1)
                    # volume elements that push exp(max) * dV (or a long sum) over the edge of the double range on the same side
                    if rng.random() < 0.7:
                        edge_dv = 10 ** (rng.uniform(3, 30) * (1 if xs[0] > 0 else -1))
                pat = rng.choice(['none', 'none', 'random', 'all'])
                if pat == 'random':
                    xs = [NEG_INF if rng.random() < 0.3 else v for v in xs]
                elif pat == 'all':
                    xs = [NEG_INF] * n1
                yield {'kind': 'norm', 'xs': xs, 'dV': edge_dv if edge_dv is not None else self._dv(rng),
                       'container': rng.choice(['array', 'matrix', 'lnpdf']),
                       'shift': rng.choice([0.0, 500.0, -500.0, 37.25])}

    # ------------------------------------------------------------------ implementation
    def _marg(self, rows, axis, dV, container):
        np = self.np
        if container == 'array':
            r = self.pr.ln_marginalise(np.array(rows, dtype=float), axis=axis, dV=dV)
        elif container == 'matrix':
            r = self.pr.ln_marginalise(np.matrix(rows, dtype=float), axis=axis, dV=dV)
        else:
            obj = self.pr.LnPDF(np.array(rows, dtype=float), dV=dV).marginalise(axis=axis)
            r = obj._ln_pdf
            # the wrapper must carry the volume element it was constructed with: normalising the marginal uses it
            self._last = {'dV_after': float(obj.dV),
                          'chain': [float(v) for v in np.asarray(obj.normalise()._ln_pdf, dtype=float).flatten()],
                          'output': [float(v) for v in np.asarray((self.pr.LnPDF(np.array(rows, dtype=float), dV=dV).output() if axis == 0 else obj.normalise())._ln_pdf, dtype=float).flatten()]}
        return [float(v) for v in np.asarray(r, dtype=float).flatten()]

    def _norm(self, xs, dV, container):
        np = self.np
        if container == 'array':
            r = self.pr.ln_normalise(np.array(xs, dtype=float), dV=dV)
        elif container == 'matrix':
            r = self.pr.ln_normalise(np.matrix([xs], dtype=float), dV=dV)
        else:
            if len(xs) % 2 == 0:
                r = self.pr.LnPDF(np.array(xs, dtype=float), dV=dV).normalise()._ln_pdf
            else:
                # the object is built with another volume element and normalised with the one asked for: normalise(dV=...) uses and stores the new one
                obj = self.pr.LnPDF(np.array(xs, dtype=float), dV=dV * 3.7)
                new = obj.normalise(dV=dV)
                r = new._ln_pdf
                if float(new.dV) != float(dV) or float(obj.dV) != float(dV):
                    return [float('nan')] * len(xs)
        return [float(v) for v in np.asarray(r, dtype=float).flatten()]

    def impl(self, case):
        sh = case.get('shift', 0.0)
        if case['kind'] == 'marg':
            self._last = None
            out = {'out': self._marg(case['rows'], case['axis'], case['dV'], case['container'])}
            if self._last:
                out.update(self._last)
            if sh:
                rows2 = [[v + sh for v in r] for r in case['rows']]
                out['shifted'] = self._marg(rows2, case['axis'], case['dV'], case['container'])
            return out
        out = {'out': self._norm(case['xs'], case['dV'], case['container'])}
        if sh:
            out['shifted'] = self._norm([v + sh for v in case['xs']], case['dV'], case['container'])
        return out

    # ------------------------------------------------------------------ model
    def requests(self, case, impl):
        if case['kind'] == 'marg':
            rows = case['rows']
            flat = [v for r in rows for v in r]
            return ['lnmarg %d %d %d %s %s' % (case['axis'], len(rows), len(rows[0]), bits(case['dV']),
                                                ' '.join(bits(v) for v in flat))]
        xs = case['xs']
        return ['lnnorm %d %s %s' % (len(xs), bits(case['dV']), ' '.join(bits(v) for v in xs))]

    def _all_neginf(self, case):
        if case['kind'] == 'marg':
            return all(v == NEG_INF for r in case['rows'] for v in r)
        return all(v == NEG_INF for v in case['xs'])

    def compare(self, case, impl, replies):
        if 'exc' in impl:
            return [('implementation raised %s' % impl['exc'], impl)]
        if case['kind'] == 'norm' and self._all_neginf(case):
            return []      # unspecified
        model = reply_floats(replies[0])
        if model is None:
            return [('model rejected the input: %s' % replies[0], None)]
        got = impl['out']
        if len(model) != len(got):
            return [('length: model %d, implementation %d' % (len(model), len(got)), {'model': model, 'impl': got})]
        bad = [(i, m, g) for i, (m, g) in enumerate(zip(model, got)) if not close(m, g)]
        if bad:
            return [('value differs at index %d: model %r, implementation %r' % bad[0], {'model': model, 'impl': got})]
        return []

    # ------------------------------------------------------------------ oracle (the property on the real code)
    def _expected_marg(self, rows, axis, dV):
        nr, nc = len(rows), len(rows[0])
        if axis == 0:
            if nr == 1:
                return list(rows[0]), dV == 1.0
            return [lse([rows[i][j] for i in range(nr)]) + math.log(dV) for j in range(nc)], True
        if nc == 1:
            return [r[0] for r in rows], dV == 1.0
        return [lse(r) + math.log(dV) for r in rows], True

    def oracle(self, case, impl):
        out = []
        if 'exc' in impl:
            if case['kind'] == 'norm' and self._all_neginf(case):
                return []
            return [('raises', 'log-domain reduction raised %s: %s' % (impl['exc'], impl.get('msg')), impl)]
        got = impl['out']
        sh = case.get('shift', 0.0)
        if case['kind'] == 'marg':
            exp, checkable = self._expected_marg(case['rows'], case['axis'], case['dV'])
            if len(exp) != len(got):
                return [('shape', 'marginal has %d entries, expected %d' % (len(got), len(exp)), got)]
            for j, (e, g) in enumerate(zip(exp, got)):
                if math.isnan(g) or g == float('inf'):
                    out.append(('marg-nonfinite', 'marginal entry %d is %r for finite / -inf input' % (j, g), got))
                elif checkable and not close(e, g):
                    k = 'marg-lost-mass' if g == NEG_INF else 'marg-inexact'
                    out.append((k, 'marginal entry %d is %r, exact log-sum-exp is %r' % (j, g, e), {'expected': exp, 'got': got}))
            if 'dV_after' in impl and not out:
                if not close(impl['dV_after'], case['dV'], atol=0.0):
                    out.append(('lnpdf-dv', 'LnPDF(dV=%r).marginalise() returned an object with dV=%r' % (case['dV'], impl['dV_after']), None))
                for nm in ('chain', 'output'):
                    fin = [v for v in impl[nm] if v != NEG_INF]
                    if fin and any(v != NEG_INF for v in got):
                        tot = lse(impl[nm]) + math.log(case['dV'])
                        if not close(tot, 0.0, atol=1e-9):
                            out.append(('lnpdf-chain', 'LnPDF(dV=%r): marginalise then normalise (%s) gives log(sum exp * dV) = %r, not 0' % (case['dV'], nm, tot), None))
                            break
            if sh and 'shifted' in impl and not out:
                for j, (g, g2) in enumerate(zip(got, impl['shifted'])):
                    if not close(g + sh if g != NEG_INF else NEG_INF, g2):
                        out.append(('marg-shift', 'adding %r to every log-value changed marginal entry %d from %r to %r '
                                    '(expected %r)' % (sh, j, g, g2, g + sh), None))
                        break
            return out[:3]
        # normalise
        if self._all_neginf(case):
            return []
        xs, dV = case['xs'], case['dV']
        n = lse(xs) + math.log(dV)
        exp = [v - n if v != NEG_INF else NEG_INF for v in xs]
        if len(exp) != len(got):
            return [('shape', 'normalised vector has %d entries, expected %d' % (len(got), len(exp)), got)]
        for j, (e, g) in enumerate(zip(exp, got)):
            if math.isnan(g) or g == float('inf'):
                out.append(('norm-nonfinite', 'normalised entry %d is %r' % (j, g), got))
            elif not close(e, g):
                out.append(('norm-inexact', 'normalised entry %d is %r, expected %r (sum exp * dV must be 1)' % (j, g, e),
                            {'expected': exp, 'got': got}))
        if not out:
            tot = lse(got) + math.log(dV)
            if not close(tot, 0.0, atol=1e-9):
                out.append(('norm-inexact', 'log(sum exp(out) * dV) = %r, not 0' % tot, got))
        if sh and 'shifted' in impl and not out:
            for j, (g, g2) in enumerate(zip(got, impl['shifted'])):
                if not close(g, g2, atol=1e-9):
                    out.append(('norm-shift', 'adding %r to every log-value changed normalised entry %d from %r to %r'
                                % (sh, j, g, g2), None))
                    break
        return out[:3]

    def nontrivial(self, case, impl):
        if self._all_neginf(case):
            return False
        if case['kind'] == 'marg':
            return len(case['rows']) > 1 if case['axis'] == 0 else len(case['rows'][0]) > 1
        return len(case['xs']) > 1

    def branch(self, case, impl):
        if case['kind'] == 'marg':
            vals = [v for r in case['rows'] for v in r]
        else:
            vals = case['xs']
        fin = [v for v in vals if v != NEG_INF]
        tag = 'allneg' if not fin else ('pos' if max(fin) >= 0 else 'neg') + ('+wide' if max(fin) - min(fin) > 700 else '')
        return '%s/%s/%s' % (case['kind'], case['container'], tag)


if __name__ == '__main__':
    import sys
    sys.exit(main(C04()))
