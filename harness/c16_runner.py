"""Runs one job-pool schedule against the real MTfit JobPool in its own process (so that a hang can be detected by
timeout) with the queue operations of every process logged.

usage: c16_runner.py <case.json> <out.json> <log>
"""
import json
import os
import sys
import time

REPO_SRC = os.path.join(os.environ.get('MTFIT_REPO', '/repo'), 'src')
sys.path.insert(0, REPO_SRC)
LOG = None


def log(op, qid, payload):
    os.write(LOG, ('%d %d %s %d %s\n' % (time.monotonic_ns(), os.getpid(), op, qid, payload)).encode())


class Task(object):
    def __init__(self, tid, kind, dur, size, lnpdf):
        self.tid, self.kind, self.dur, self.size, self.lnpdf = tid, kind, dur, size, lnpdf

    def __call__(self):
        time.sleep(self.dur)
        if self.kind == 'raise':
            raise ValueError('tid=%d' % self.tid)
        if self.kind == 'code':
            return 10 if self.tid % 2 else 20
        if self.kind == 'num':
            # a genuine numeric result whose value happens to equal a status code (a float, not the integer code)
            v = 10.0 if self.tid % 2 else 20.0
            if self.tid % 3 == 0:
                import numpy as np
                return np.float64(v)
            return v
        if self.kind == 'none':
            return None           # a task without a return value (one that only writes a file, say)
        out = {'tid': self.tid, 'payload': b'x' * self.size}
        if self.lnpdf is not None:
            import numpy as np
            from MTfit.probability import LnPDF
            out['ln_pdf'] = LnPDF(np.array([self.lnpdf['values']]), dV=self.lnpdf['dV'])
            if 'second' in self.lnpdf:
                out['ln_pdf_b'] = LnPDF(np.array([self.lnpdf['second']['values']]), dV=self.lnpdf['second']['dV'])
        return out


def describe(obj):
    if isinstance(obj, Task):
        return 'task:%d' % obj.tid
    name = type(obj).__name__
    if name == 'PoisonPill':
        return 'pill'
    if isinstance(obj, dict) and 'tid' in obj:
        return 'ok:%d' % obj['tid']
    if isinstance(obj, Exception):
        return 'exc:%s' % str(obj).replace(' ', '_')
    if isinstance(obj, int):
        return 'code:%d' % obj
    if isinstance(obj, float):
        return 'num:%d' % int(obj)
    if obj is None:
        return 'num:none'
    return 'other:%s' % name


def main():
    global LOG
    case = json.load(open(sys.argv[1]))
    LOG = os.open(sys.argv[3], os.O_WRONLY | os.O_CREAT | os.O_APPEND)
    import multiprocessing.queues as mq
    orig_put, orig_get = mq.Queue.put, mq.Queue.get

    def put(self, obj, *a, **k):
        log('put', id(self), describe(obj))
        return orig_put(self, obj, *a, **k)

    def get(self, *a, **k):
        obj = orig_get(self, *a, **k)
        log('get', id(self), describe(obj))
        return obj
    mq.Queue.put, mq.Queue.get = put, get
    import io
    import contextlib
    import logging
    logging.disable(logging.CRITICAL)
    from MTfit.utilities.multiprocessing_helper import JobPool
    sink = io.StringIO()
    with contextlib.redirect_stdout(sink):
        jp = JobPool(case['workers'])
    os.write(LOG, ('MAP %d T\nMAP %d R\nMAIN %d\n' % (id(jp.tasks), id(jp.results), os.getpid())).encode())
    returned = []

    def note(r):
        if isinstance(r, dict) and 'tid' in r:
            e = {'tid': r['tid'], 'type': 'ok', 'size': len(r['payload'])}
            if 'ln_pdf' in r:
                import numpy as np
                e['lnpdf'] = {'values': [float(v) for v in np.asarray(r['ln_pdf']._ln_pdf).flatten()], 'dV': r['ln_pdf'].dV,
                              'cls': type(r['ln_pdf']).__name__}
            if 'ln_pdf_b' in r:
                import numpy as np
                e['lnpdf_b'] = {'values': [float(v) for v in np.asarray(r['ln_pdf_b']._ln_pdf).flatten()], 'dV': r['ln_pdf_b'].dV,
                                'cls': type(r['ln_pdf_b']).__name__}
            returned.append(e)
        elif isinstance(r, Exception):
            returned.append({'tid': int(str(r).split('=')[1]), 'type': 'exc', 'cls': type(r).__name__})
        elif isinstance(r, float):
            returned.append({'tid': None, 'type': 'num', 'value': float(r)})
        elif r is None:
            returned.append({'tid': None, 'type': 'num', 'value': None})
        else:
            returned.append({'tid': None, 'type': 'other', 'repr': repr(r)})
    tasks = {t['tid']: t for t in case['tasks']}
    with contextlib.redirect_stdout(sink):
        for op in case['ops']:
            if op[0] == 'submit':
                t = tasks[op[1]]
                jp.custom_task(Task, t['tid'], t['kind'], t['dur'], t['size'], t.get('lnpdf'))
            elif op[0] == 'result':
                os.write(LOG, b'CALL result\n')
                note(jp.result())
            elif op[0] == 'all':
                os.write(LOG, b'CALL all\n')
                for r in jp.all_results():
                    note(r)
        number_jobs = jp.number_jobs
        os.write(LOG, b'CALL close\n')
        jp.close()
        time.sleep(0.05)
        alive = [bool(w.is_alive()) for w in jp.workers]
    json.dump({'returned': returned, 'number_jobs': number_jobs, 'alive_after_close': alive}, open(sys.argv[2], 'w'))


if __name__ == '__main__':
    try:
        main()
    except BaseException:
        import traceback
        traceback.print_exc()
        sys.stderr.flush()
        os._exit(3)       # do not wait for worker processes: a failure of the main thread must not look like a hang
    os._exit(0)
