"""C09 — sample store: correspondence (op sequences) and oracle."""
import math

from common import Prop, bits, close, unbits, import_mtfit, NEG_INF, main
from c04 import lse


class C09(Prop):
    id = 'C09'
    assumptions = ['tensor columns and scale factors are opaque tokens (the token is stored in the first component of the column)']
    unproved = []
    rule = ('histories of 0..8 batches against Sample(initial_sample_size in {1,2,3,4,7}), batch sizes 0..3x the increment including '
            'exact fits, zero/non-zero patterns incl. all-zero batches and histories, 1 or 2 events, 1 or 3 rows (un-marginalised), '
            'discard in {0, 1, 100, 1e4}; IterationSample runs with random batch sizes; non-trivial = at least one growth of the storage')

    def setup(self):
        import_mtfit()
        import numpy as np
        from MTfit import sampling
        from MTfit.algorithms import monte_carlo
        self.np, self.sampling, self.mc = np, sampling, monte_carlo
        np.seterr(all='ignore')

    def gen(self, rng, tier):
        n = 300 if tier == 'quick' else 5000
        tok = [0]

        def newtok():
            tok[0] += 1
            return tok[0]
        # one large un-marginalised batch (several location rows, more than ten thousand entries, columns that are impossible for some rows only):
        # candidate selection must not depend on the size of a batch
        for _big in range(1 if tier == 'quick' else 4):
            nrows, k = 3, rng.choice([3400, 4000])
            cands = []
            for _c in range(k):
                r_ = rng.random()
                if r_ < 0.3:
                    col = [NEG_INF] * nrows
                elif r_ < 0.7:
                    col = [rng.uniform(-50, 0) if rng.random() < 0.5 else NEG_INF for _r in range(nrows)]
                    if all(v == NEG_INF for v in col):
                        col[rng.randrange(nrows)] = rng.uniform(-5, 0)
                else:
                    col = [rng.uniform(-50, 0) for _r in range(nrows)]
                cands.append({'tok': newtok(), 'sf': newtok(), 'col': col})
            tok[0] = 0
            yield {'kind': 'store', 'init': 1000, 'nevents': 1, 'nrows': nrows, 'batches': [{'cands': cands, 'n': k}], 'discard': 0.0, 'extra_n': 0}
        # result batches as the real forward task delivers them (sharp polarity data: many candidates and some whole batches have zero probability; with
        # location samples kept apart a candidate can be impossible for some of them only), fed to the sampling algorithm; optionally the algorithm is
        # initialised again between two batches (what the front end does after a failed job)
        combos = [(1, True), (1, False), (3, True), (3, False), (3, False), (2, False)]
        for _f in range(6 if tier == 'quick' else 60):
            nloc_, marg_ = combos[_f % len(combos)]
            yield {'kind': 'fwd', 'seed': rng.randrange(1 << 30), 'nbatch': rng.randint(3, 9), 'bs': rng.choice([3, 6, 11, 40]), 'nloc': nloc_,
                   'marginalise': marg_, 'reinit_at': rng.choice([None, None, 0, 1, 2]), 'limit_batches': rng.randint(2, 9)}
        for i in range(n):
            if rng.random() < 0.85:
                init = rng.choice([1, 2, 3, 4, 7])
                nev = rng.choice([1, 1, 2])
                nrows = rng.choice([1, 1, 1, 3])
                nb = rng.randint(0, 8)
                mode = rng.choice(['mixed', 'mixed', 'mixed', 'allzero', 'sparse', 'dense'])
                batches = []
                fill = 0
                for _ in range(nb):
                    choices = list(range(0, 3 * init + 1)) + [init, 2 * init, max(0, init - fill % init - 1), init - fill % init]
                    k = rng.choice(choices)
                    cands = []
                    for _c in range(k):
                        pz = {'mixed': 0.4, 'allzero': 1.0, 'sparse': 0.85, 'dense': 0.0}[mode]
                        if rng.random() < pz:
                            col = [NEG_INF] * nrows
                        else:
                            col = [rng.choice([rng.uniform(-50, 5), rng.uniform(-2000, 0), NEG_INF if nrows > 1 else rng.uniform(-5, 0)])
                                   for _r in range(nrows)]
                            if all(v == NEG_INF for v in col):
                                col[0] = rng.uniform(-5, 0)
                        cands.append({'tok': newtok(), 'sf': newtok(), 'col': col})
                    fill += sum(1 for c in cands if any(v != NEG_INF for v in c['col']))
                    batches.append({'cands': cands, 'n': k + rng.choice([0, 0, 5])})
                tok[0] = 0
                yield {'kind': 'store', 'init': init, 'nevents': nev, 'nrows': nrows, 'batches': batches,
                       'discard': rng.choice([0.0, 0.0, 1.0, 100.0, 1e4]), 'extra_n': rng.choice([0, 0, 100])}
            else:
                ns = rng.choice([1, 2, 5])
                sizes = [rng.randint(0, 6) for _ in range(rng.randint(1, 12))]
                yield {'kind': 'iter', 'max_samples': rng.randint(1, max(1, sum(sizes))), 'sizes': sizes, 'number_samples': ns,
                       'discard': rng.choice([0, 1, 2, 5, 50])}

    # ------------------------------------------------------------------ implementation
    def _mt(self, cands, nev):
        np = self.np
        m = np.zeros((6 * nev, len(cands)))
        for j, c in enumerate(cands):
            m[0, j] = c['tok']
            if nev > 1:
                m[6, j] = -c['tok']
        return m

    def _impl_fwd(self, case):
        np = self.np
        from MTfit import inversion as inv
        from MTfit.probability import probability as pr
        rs = np.random.RandomState(case['seed'] % (2 ** 32))
        nsta, nloc, bs = 5, case['nloc'], case['bs']
        a = rs.uniform(-1, 1, (nsta, nloc, 6))
        sigma = 1e-3 * np.ones(nsta)
        mtrue = rs.randn(6)
        meas = np.sign(np.tensordot(a[:, 0, :], mtrue, 1))
        a_pol = a * meas[:, None, None]
        limit = bs * case['limit_batches']
        alg = self.mc.IterationSample(number_samples=bs, max_samples=limit)
        alg.initialise()
        fed, expected_cols, consumed, ended_at = 0, [], 0, None
        for b in range(case['nbatch']):
            m = rs.randn(6, bs)
            m /= np.sqrt((m * m).sum(0))
            task = inv.ForwardTask(m.copy(), a_pol.copy(), sigma.copy(), False, False, False, False, False, False, False,
                                   location_sample_multipliers=False, incorrect_polarity_prob=0, return_zero=False, marginalise=case['marginalise'])
            res = task()
            ln = np.asarray(pr.polarity_ln_pdf(a_pol.copy(), m.copy(), sigma.copy(), 0.0, _use_c=False), dtype=float).reshape(nloc, bs)
            keep = np.isfinite(ln).any(axis=0)
            expected_cols += [tuple(float(v) for v in m[:, j]) for j in range(bs) if keep[j]]
            fed += bs
            consumed += 1
            _t, end = alg.iterate(res)
            if end:
                ended_at = consumed
                break
            if case['reinit_at'] == b:
                alg.initialise()
        out, _txt = alg.output(normalise=True, convert=False, discard=0)
        M = np.asarray(out.get('moment_tensor_space', np.zeros((6, 0))), dtype=float)
        M = M.reshape(6, -1) if M.size else np.zeros((6, 0))
        return {'fed': fed, 'n': int(alg.pdf_sample.n), 'total_reported': int(out.get('total_number_samples', -1)), 'ended_at': ended_at, 'consumed': consumed,
                'stored': sorted(tuple(float(v) for v in M[:, j]) for j in range(M.shape[1])), 'expected': sorted(expected_cols), 'limit': limit}

    def impl(self, case):
        np = self.np
        if case['kind'] == 'fwd':
            return self._impl_fwd(case)
        if case['kind'] == 'iter':
            alg = self.mc.IterationSample(max_samples=case['max_samples'], number_samples=case['number_samples'])
            alg.initialise()
            consumed = 0
            fed = []
            for sz in case['sizes']:
                # log-probabilities spread over several units, so that the discard threshold falls inside the sample
                lnv = [-0.9 * ((len(fed) + j) % 11) for j in range(sz)]
                fed += lnv
                res = {'moment_tensors': np.matrix(np.ones((6, sz))), 'ln_pdf': np.array([lnv]), 'n': sz}
                _task, end = alg.iterate(res)
                consumed += 1
                if end:
                    break
            out = {'consumed': consumed, 'n': int(alg.pdf_sample.n), 'ended': bool(end) if case['sizes'] else False, 'fed': fed}
            if fed:
                # the algorithm's own output with a discard factor: only samples below max/(discard * tried) may go
                d = case.get('discard', 0)
                res, _txt = alg.output(normalise=True, convert=False, discard=d)
                lp = res.get('ln_pdf')
                out['out_ln'] = sorted(float(v) for v in np.asarray(lp, dtype=float).flatten()) if lp is not None and not isinstance(lp, list) else []
                out['out_total'] = int(res.get('total_number_samples', -1))
            return out
        nev, nrows = case['nevents'], case['nrows']
        s = self.sampling.Sample(initial_sample_size=case['init'], number_events=nev)
        for b in case['batches']:
            cands = b['cands']
            m = self._mt(cands, nev)
            ln = np.zeros((nrows, len(cands)))
            for r in range(nrows):
                for j, c in enumerate(cands):
                    ln[r, j] = c['col'][r]
            if nev > 1:
                mts = [m[0:6, :], m[6:12, :]]
                sf = np.array([float(c['sf']) for c in cands])
                s.append(mts, ln, b['n'], scale_factor=sf)
            else:
                s.append(np.matrix(m), ln, b['n'])
        total = sum(b['n'] for b in case['batches'])
        res = {'n': int(len(s)), 'i': int(s._i), 'cap': int(s.moment_tensors.shape[1]),
               'stored': [int(round(v)) for v in np.asarray(s.moment_tensors)[0, :s._i]],
               'tail_clean': bool(np.all(np.asarray(s.moment_tensors)[:, s._i:] == 0))}
        if nev > 1:
            res['stored2'] = [int(round(-v)) for v in np.asarray(s.moment_tensors)[6, :s._i]]
        out, _txt = s.output(normalise=True, convert=False, n_samples=total + case['extra_n'], discard=case['discard'])
        prob = out['probability']
        if isinstance(prob, list) and not prob:
            res['out'] = None
        else:
            key = 'moment_tensor_space' if nev == 1 else 'moment_tensor_space_1'
            o = {'prob': [float(v) for v in np.asarray(prob, dtype=float).flatten()],
                 'lnpdf': [float(v) for v in np.asarray(out['ln_pdf'], dtype=float).flatten()],
                 'toks': [int(round(v)) for v in np.asarray(out[key])[0, :]]}
            if nev > 1:
                o['toks2'] = [int(round(-v)) for v in np.asarray(out['moment_tensor_space_2'])[0, :]]
                o['sf'] = [int(round(v)) for v in out.get('scale_factors', [])]
            res['out'] = o
        return res

    # ------------------------------------------------------------------ model
    def requests(self, case, impl):
        if case['kind'] == 'fwd':
            return []
        if case['kind'] == 'iter':
            return ['iterstop %d %d %s' % (case['max_samples'], len(case['sizes']), ' '.join(str(s) for s in case['sizes']))]
        toks = [str(case['init']), str(len(case['batches']))]
        for b in case['batches']:
            toks += [str(len(b['cands'])), str(case['nrows']), str(b['n'])]
            for c in b['cands']:
                toks += [str(c['tok']), str(c['sf'])] + [bits(v) for v in c['col']]
        total = sum(b['n'] for b in case['batches'])
        toks += [bits(case['discard']), bits(float(total + case['extra_n']))]
        return ['sample ' + ' '.join(toks)]

    def _parse(self, reply, nev):
        t = reply.split()
        n, i, cap, nv = int(t[0]), int(t[1]), int(t[2]), int(t[3])
        stored = [int(x) for x in t[4:4 + nv]]
        p = 4 + nv
        has = int(t[p]); p += 1
        out = None
        if has:
            nk = int(t[p]); p += 1
            toks = [int(x) for x in t[p:p + nk]]; p += nk
            sf = [int(x) for x in t[p:p + nk]]; p += nk
            prob = [unbits(x) for x in t[p:p + nk]]; p += nk
            ln = [unbits(x) for x in t[p:p + nk]]; p += nk
            out = {'toks': toks, 'sf': sf, 'prob': prob, 'lnpdf': ln}
        return {'n': n, 'i': i, 'cap': cap, 'stored': stored, 'out': out}

    def compare(self, case, impl, replies):
        if 'exc' in impl:
            return [('implementation raised %s: %s' % (impl['exc'], impl.get('msg')), impl)]
        if case['kind'] == 'fwd':
            return []
        if case['kind'] == 'iter':
            m = int(replies[0])
            exp = min(m, len(case['sizes']))
            if impl['consumed'] != exp:
                return [('IterationSample consumed %d batches, model %d' % (impl['consumed'], exp), None)]
            return []
        m = self._parse(replies[0], case['nevents'])
        out = []
        for k in ('n', 'i', 'cap', 'stored'):
            if m[k] != impl[k]:
                out.append(('%s: model %r, implementation %r' % (k, m[k], impl[k]), None))
        if (m['out'] is None) != (impl['out'] is None):
            out.append(('output emptiness: model %r, implementation %r' % (m['out'] is None, impl['out'] is None), None))
        elif m['out'] is not None:
            mo, io = m['out'], impl['out']
            if mo['toks'] != io['toks']:
                out.append(('output tensors: model %r, implementation %r' % (mo['toks'], io['toks']), None))
            elif not all(close(a, b, atol=1e-12) for a, b in zip(mo['prob'], io['prob'])):
                out.append(('output probabilities: model %r, implementation %r' % (mo['prob'], io['prob']), None))
            elif not all(close(a, b, atol=1e-9) for a, b in zip(mo['lnpdf'], io['lnpdf'])):
                out.append(('output ln_pdf: model %r, implementation %r' % (mo['lnpdf'], io['lnpdf']), None))
            if case['nevents'] > 1 and 'sf' in io and io['sf'] != mo['sf']:
                out.append(('output scale factors: model %r, implementation %r' % (mo['sf'], io['sf']), None))
        return out[:3]

    # ------------------------------------------------------------------ oracle
    def oracle(self, case, impl):
        if 'exc' in impl:
            return [('raises', '%s raised %s: %s' % (case['kind'], impl['exc'], impl.get('msg')), impl)]
        out = []
        if case['kind'] == 'fwd':
            if impl['n'] != impl['fed'] or impl['total_reported'] != impl['fed']:
                out.append(('tried-count', 'forward-task batches of %d candidates were fed %d times (%d tried); the store counts %d, the output reports %d (location samples %d, marginalise %s, '
                            're-initialised after batch %r)' % (case['bs'], impl['consumed'], impl['fed'], impl['n'], impl['total_reported'], case['nloc'], case['marginalise'], case['reinit_at']), None))
            if impl['stored'] != impl['expected']:
                out.append(('forward-candidates', 'the store holds %d tensors, the batches contained %d candidates of non-zero probability (location samples %d, marginalise %s, re-initialised after '
                            'batch %r)' % (len(impl['stored']), len(impl['expected']), case['nloc'], case['marginalise'], case['reinit_at']), None))
            first = next((b + 1 for b in range(case['nbatch']) if (b + 1) * case['bs'] >= impl['limit']), None)
            if impl['ended_at'] != first and not (first is None and impl['ended_at'] is None):
                out.append(('iteration-stop', 'sampling limited to %d tried samples with batches of %d ended at batch %r, the limit is first reached at batch %r'
                            % (impl['limit'], case['bs'], impl['ended_at'], first), None))
            return out[:3]
        if case['kind'] == 'iter':
            cum, exp = 0, len(case['sizes'])
            for j, sz in enumerate(case['sizes']):
                cum += sz
                if cum >= case['max_samples']:
                    exp = j + 1
                    break
            if impl['consumed'] != exp:
                out.append(('iteration-stop', 'sampling stopped after %d batches, the limit %d is first reached at batch %d' %
                            (impl['consumed'], case['max_samples'], exp), None))
            if impl.get('fed') and 'out_ln' in impl:
                fed, d = impl['fed'], case.get('discard', 0)
                total = len(fed)
                if impl['out_total'] != total:
                    out.append(('count', 'the algorithm reports %d tried samples, %d were fed' % (impl['out_total'], total), None))
                mx = max(fed)
                thr = mx - math.log(d * total) if d else NEG_INF
                must = sorted(v for v in fed if v > thr + 1e-9)          # these are above the stated fraction of the maximum
                may = sorted(v for v in fed if v >= thr - 1e-9)
                got = impl['out_ln']
                # normalised output: compare relative to the maximum
                gm = max(got) if got else 0.0
                rel = sorted(v - gm for v in got)
                need = sorted(v - mx for v in must)
                if len(rel) < len(need) or len(rel) > len(may):
                    out.append(('discard', 'algorithm output with discard factor %r kept %d of %d samples; %d lie above max/(discard x tried), '
                                '%d at or above it' % (d, len(rel), total, len(need), len(may)), None))
            return out
        keep = [c for b in case['batches'] for c in b['cands'] if any(v != NEG_INF for v in c['col'])]
        total = sum(b['n'] for b in case['batches'])
        if impl['n'] != total:
            out.append(('count', 'tried-sample count %d, sum of batch sizes %d' % (impl['n'], total), None))
        if impl['stored'] != [c['tok'] for c in keep]:
            out.append(('stored', 'stored tensors %r, non-zero candidates in order %r' % (impl['stored'], [c['tok'] for c in keep]), None))
        if case['nevents'] > 1 and impl.get('stored2') != [c['tok'] for c in keep]:
            out.append(('stored', 'second event columns misaligned: %r' % (impl.get('stored2'),), None))
        if not keep:
            if impl['out'] is not None:
                out.append(('empty', 'all-zero history but output is not the explicit empty result', None))
            return out
        if impl['out'] is None:
            out.append(('empty', 'non-zero samples stored but the output is empty', None))
            return out
        marg = [lse(c['col']) if len(c['col']) > 1 else c['col'][0] for c in keep]
        norm = lse(marg)
        nS = total + case['extra_n']
        if case['discard'] > 0 and nS > 0:
            thr = max(marg) - norm - math.log(case['discard'] * nS)
            sel = [j for j, v in enumerate(marg) if v - norm > thr]
        else:
            sel = list(range(len(keep)))
        o = impl['out']
        if o['toks'] != [keep[j]['tok'] for j in sel]:
            out.append(('output-selection', 'output tensors %r, expected %r' % (o['toks'], [keep[j]['tok'] for j in sel]), None))
            return out
        if not all(close(p, math.exp(marg[j] - norm), atol=1e-12) for p, j in zip(o['prob'], sel)):
            out.append(('output-probability', 'probabilities %r are not the stored values normalised to unit total %r' %
                        (o['prob'], [math.exp(marg[j] - norm) for j in sel]), None))
        if not all(close(v, marg[j], atol=1e-9) for v, j in zip(o['lnpdf'], sel)):
            out.append(('output-lnpdf', 'ln_pdf %r does not pair with its tensors (expected %r)' % (o['lnpdf'], [marg[j] for j in sel]), None))
        if case['nevents'] > 1:
            if o.get('toks2') != o['toks']:
                out.append(('output-alignment', 'second event tensors %r not aligned with first %r' % (o.get('toks2'), o['toks']), None))
            if o.get('sf') != [keep[j]['sf'] for j in sel]:
                out.append(('output-alignment', 'scale factors %r not aligned (expected %r)' % (o.get('sf'), [keep[j]['sf'] for j in sel]), None))
        return out

    def nontrivial(self, case, impl):
        if case['kind'] == 'fwd':
            return True
        if case['kind'] == 'iter':
            return len(case['sizes']) > 1
        return isinstance(impl, dict) and impl.get('cap', 0) > case['init']

    def branch(self, case, impl):
        if case['kind'] == 'fwd':
            return 'fwd/loc%d/%s' % (case['nloc'], 'marg' if case['marginalise'] else 'rows')
        if case['kind'] == 'iter':
            return 'iter'
        grew = isinstance(impl, dict) and impl.get('cap', 0) > case['init']
        return 'store/ev%d/rows%d/%s/%s' % (case['nevents'], case['nrows'], 'grew' if grew else 'nogrow',
                                            'empty' if isinstance(impl, dict) and impl.get('out') is None else 'out')


if __name__ == '__main__':
    import sys
    sys.exit(main(C09()))
