"""C19 — result post-processing (MTData statistics, unique columns, projections): correspondence and oracle."""
import math

from common import Prop, bits, close, reply_floats, import_mtfit, main
from c13 import vbits
from c02 import unit6


class C19(Prop):
    id = 'C19'
    assumptions = ['tensor columns reach the unique-column model as their lexicographic rank (order-isomorphic tokens)',
                   'the projection_axis option (which raises TypeError for every input) is not modelled',
                   'matplotlib is not needed: only the container and the projection functions are exercised']
    unproved = []
    rule = ('containers of 1..40 unit tensors with non-negative probabilities (zeros, ties at the maximum, duplicated columns as a Markov chain '
            'would produce), index lists / slices / boolean masks; unit vectors on the focal sphere incl. poles, equator, both hemispheres, every '
            'combination of lower / full_sphere / back_project for both projections; non-trivial = at least three tensors / off-axis vector')

    def setup(self):
        import_mtfit()
        import numpy as np
        try:
            import matplotlib
            matplotlib.use('Agg')
        except Exception:
            pass
        from MTfit.plot import plot_classes, spherical_projection
        from MTfit.utilities.file_io import unique_columns
        from MTfit.convert import moment_tensor_conversion as cv
        self.np, self.pc, self.sp, self.uc, self.cv = np, plot_classes, spherical_projection, unique_columns, cv
        np.seterr(all='ignore')

    def gen(self, rng, tier):
        n = 250 if tier == 'quick' else 4000
        for i in range(n):
            if rng.random() < 0.55:
                nm = rng.randint(1, 40)
                base = [unit6(rng) for _ in range(rng.randint(1, max(1, nm // 2)))]
                cols = [list(rng.choice(base)) if rng.random() < 0.5 else unit6(rng) for _ in range(nm)]
                probs = [rng.choice([0.0, 1.0, rng.random(), 0.5, rng.random() * 10]) for _ in range(nm)]
                if rng.random() < 0.3 and nm > 1:
                    mx = max(probs) or 1.0
                    for j in rng.sample(range(nm), min(nm, 3)):
                        probs[j] = mx
                if sum(probs) == 0:
                    probs[0] = 1.0
                r_ = rng.random()
                if r_ < 0.15 and nm > 1:
                    # a runner-up a hair below the maximum: only the exact maximum is "the sample attaining the maximum"
                    mx = max(probs)
                    j = rng.choice([i for i in range(nm) if probs[i] != mx] or [0])
                    if probs[j] != mx:
                        probs[j] = mx * (1 - rng.choice([1e-6, 1e-9, 1e-12]))
                elif r_ < 0.3:
                    # probabilities of any overall scale (densities of a peaked posterior can be tiny or huge)
                    sc_ = 10 ** rng.choice([-12, -9, -6, 6, 12])
                    probs = [p_ * sc_ for p_ in probs]
                mode = rng.choice(['list', 'slice', 'mask'])
                if mode == 'list':
                    idx = [rng.randrange(nm) for _ in range(rng.randint(1, nm))]
                elif mode == 'slice':
                    a = rng.randrange(nm)
                    idx = list(range(a, nm, rng.randint(1, 3)))
                else:
                    idx = [j for j in range(nm) if rng.random() < 0.5] or [0]
                yield {'kind': 'container', 'cols': cols, 'probs': probs, 'idx': idx, 'mode': mode}
            else:
                t = rng.choice([0.0, math.pi / 2, math.pi, rng.uniform(0, math.pi), rng.uniform(0, math.pi / 2), 1e-9, math.pi - 1e-9,
                                rng.uniform(math.pi / 2, math.pi - 0.05), rng.uniform(math.pi / 2, math.pi - 0.05), math.pi / 2 + 1e-6])
                az = rng.uniform(0, 2 * math.pi)
                v = [math.sin(t) * math.cos(az), math.sin(t) * math.sin(az), math.cos(t)]
                if t == math.pi / 2:
                    v[2] = 0.0            # exactly on the equator (cos(pi/2) is 6e-17 in doubles)
                yield {'kind': 'project', 'v': v, 't': t, 'az': az, 'area': rng.random() < 0.5, 'lower': rng.random() < 0.7,
                       'full': rng.random() < 0.4, 'back': rng.random() < 0.4, 'array': rng.random() < 0.3}

    # ------------------------------------------------------------------ implementation
    def impl(self, case):
        np = self.np
        if case['kind'] == 'project':
            f = self.sp.equal_area if case['area'] else self.sp.equal_angle
            x, y, z = case['v']
            if case['array']:
                X, Y = f(np.array([x, 0.3]), np.array([y, 0.4]), np.array([z, math.sqrt(0.75)]), lower=case['lower'], full_sphere=case['full'],
                         back_project=case['back'])
            else:
                X, Y = f(x, y, z, lower=case['lower'], full_sphere=case['full'], back_project=case['back'])
            return {'X': float(np.asarray(X).flatten()[0]), 'Y': float(np.asarray(Y).flatten()[0])}
        mts = np.array(case['cols'], dtype=float).T
        probs = np.array(case['probs'], dtype=float)
        md = self.pc.MTData(mts.copy(), probs.copy())
        gam = np.asarray(md.gamma, dtype=float).flatten()            # a converted parameter that must follow the indexing
        idx = case['idx']
        if case['mode'] == 'mask':
            key = np.array([j in idx for j in range(len(case['cols']))])
        elif case['mode'] == 'slice':
            step = (idx[1] - idx[0]) if len(idx) > 1 else 1
            key = slice(idx[0], idx[-1] + 1, step)
        else:
            key = idx
        sub = md[:, key]
        res = {'sub_cols': [[float(v) for v in np.asarray(sub.MTs)[:, j]] for j in range(len(sub))],
               'sub_probs': [float(v) for v in np.asarray(sub.probability).flatten()],
               'sub_gamma': [float(v) for v in np.asarray(sub.gamma).flatten()], 'gamma': [float(v) for v in gam]}
        mean, _cov = md.get_mean()
        res['mean'] = [float(v) for v in np.asarray(mean).flatten()]
        if len(case['cols']) > 1:
            mp = md.get_max_probability()
            res['max_cols'] = [[float(v) for v in np.asarray(mp.MTs)[:, j]] for j in range(len(mp))]
            res['max_probs'] = [float(v) for v in np.asarray(mp.probability).flatten()]
        un = md.get_unique_McMC()
        res['uniq_cols'] = [[float(v) for v in np.asarray(un.MTs)[:, j]] for j in range(len(un))]
        res['uniq_counts'] = [float(v) for v in np.asarray(un.probability).flatten()]
        # stand-alone conversion of the first column
        T, N, P, E = self.cv.MT6_TNPE(np.matrix(mts[:, 0:1]))
        g0, d0 = self.cv.E_GD(np.asarray(E)[:, 0])
        res['standalone_gamma0'] = float(np.asarray(g0).flatten()[0])
        # history on a fresh container: strike/dip/rake read, then kappa / h / sigma (derived from them), then strike/dip/rake read again and a subset taken
        md2 = self.pc.MTData(mts.copy(), probs.copy())
        try:
            before = [[float(v) for v in np.asarray(getattr(md2, a_), dtype=float).flatten()] for a_ in ('strike', 'dip', 'rake')]
            _ = [np.asarray(getattr(md2, a_)) for a_ in ('kappa', 'h', 'sigma')]
            after = [[float(v) for v in np.asarray(getattr(md2, a_), dtype=float).flatten()] for a_ in ('strike', 'dip', 'rake')]
            sub2 = md2[:, key]
            res['sdr_before'], res['sdr_after'] = before, after
            res['sdr_sub'] = [[float(v) for v in np.asarray(getattr(sub2, a_), dtype=float).flatten()] for a_ in ('strike', 'dip', 'rake')]
        except Exception as e:       # containers of a single tensor may not convert: not part of this history
            res['sdr_exc'] = '%s: %s' % (type(e).__name__, e)
        return res

    # ------------------------------------------------------------------ model
    def _ranks(self, cols):
        order = sorted(set(tuple(c) for c in cols))
        rk = {c: i for i, c in enumerate(order)}
        return [rk[tuple(c)] for c in cols], order

    def requests(self, case, impl):
        if case['kind'] == 'project':
            return ['post project %d %d %d %d %s' % (case['area'], case['lower'], case['full'], case['back'], vbits(case['v']))]
        cols, probs = case['cols'], case['probs']
        toks, _ = self._ranks(cols)
        return ['post mean %d %s' % (len(cols), ' '.join('%s %s' % (bits(p), vbits(c)) for p, c in zip(probs, cols))),
                'post maxidx %d %s' % (len(probs), vbits(probs)),
                'post unique %d %s' % (len(toks), ' '.join(str(t) for t in toks)),
                'post select %d %d %s' % (len(cols), len(case['idx']), ' '.join(str(i) for i in case['idx']))]

    def compare(self, case, impl, replies):
        if 'exc' in impl:
            return [('implementation raised %s: %s' % (impl['exc'], impl.get('msg')), impl)]
        out = []
        if case['kind'] == 'project':
            r = replies[0]
            if r == 'nan':
                if not (math.isnan(impl['X']) and math.isnan(impl['Y'])):
                    out.append(('projection: model hides the point, implementation gives (%r, %r)' % (impl['X'], impl['Y']), None))
            else:
                m = reply_floats(r)
                if not (close(m[0], impl['X'], atol=1e-9) and close(m[1], impl['Y'], atol=1e-9)):
                    # huge radii near the far pole differ by rounding: compare relatively
                    if not (abs(m[0]) > 1e6 and close(m[0], impl['X'], rtol=1e-4) and close(m[1], impl['Y'], rtol=1e-4, atol=1e-3 * abs(m[0]))):
                        out.append(('projection: model %r, implementation (%r, %r)' % (m, impl['X'], impl['Y']), None))
            return out
        cols, probs = case['cols'], case['probs']
        mean = reply_floats(replies[0])
        if not all(close(a, b, atol=1e-12) for a, b in zip(mean, impl['mean'])):
            out.append(('mean: model %r, implementation %r' % (mean, impl['mean']), None))
        if 'max_cols' in impl:
            mi = [int(x) for x in replies[1].split()]
            if [cols[i] for i in mi] != impl['max_cols']:
                out.append(('max-probability selection: model indices %r, implementation columns differ' % (mi,), None))
        toks, order = self._ranks(cols)
        t = [int(x) for x in replies[2].split()]
        mu = [(list(order[t[2 * i]]), t[2 * i + 1]) for i in range(len(t) // 2)]
        iu = list(zip(impl['uniq_cols'], [int(round(c)) for c in impl['uniq_counts']]))
        if mu != iu:
            out.append(('unique-with-counts: model %d distinct, implementation %d; first difference %r' %
                        (len(mu), len(iu), next(((a, b) for a, b in zip(mu, iu) if a != b), None)), None))
        sel = [int(x) for x in replies[3].split()] if not replies[3].startswith('err') else None
        if sel is None or [cols[i] for i in sel] != impl['sub_cols']:
            out.append(('indexing: model selection %r differs from the implementation' % (sel,), None))
        return out[:3]

    # ------------------------------------------------------------------ oracle
    def oracle(self, case, impl):
        if 'exc' in impl:
            return [('raises', '%s raised %s: %s' % (case['kind'], impl['exc'], impl.get('msg')), impl)]
        out = []
        if case['kind'] == 'project':
            x, y, z = case['v']
            t = case['t']
            X, Y = impl['X'], impl['Y']
            lower, full, back = case['lower'], case['full'], case['back']
            zz = z if lower else -z             # height towards the projection pole
            shown = not math.isnan(X)
            vis = zz >= 0 or full
            if vis or back:
                ang = t if lower else math.pi - t
                if not vis:
                    ang = math.pi - ang          # antipode
                sgn = 1.0 if vis else -1.0
                if abs(ang - math.pi) < 1e-7:
                    return out                  # far pole: radius unbounded / not shown
                r = 2 * math.sin(ang / 2) if case['area'] else math.tan(ang / 2)
                if not shown:
                    out.append(('projection-hidden', 'vector at %r from the axis is not shown' % ang, None))
                elif not close(math.hypot(X, Y), r, rtol=1e-7, atol=1e-9):
                    out.append(('projection-radius', 'radius %r, expected %r for angle %r' % (math.hypot(X, Y), r, ang), None))
                elif r > 1e-8 and not (close(X, sgn * r * math.cos(case['az']), atol=1e-7 * (1 + r)) and close(Y, sgn * r * math.sin(case['az']), atol=1e-7 * (1 + r))):
                    out.append(('projection-azimuth', 'azimuth not preserved: (%r, %r) for azimuth %r' % (X, Y, case['az']), None))
            elif shown:
                out.append(('projection-upper', 'a vector of the other hemisphere is shown at (%r, %r) without back projection' % (X, Y), None))
            return out
        cols, probs = case['cols'], case['probs']
        idx = case['idx']
        probs_ok = impl['sub_probs'] == [probs[i] for i in idx] or (len(cols) == 1 and impl['sub_probs'] == [])   # one tensor: probability unset
        if impl['sub_cols'] != [cols[i] for i in idx] or not probs_ok:
            out.append(('index-alignment', 'indexing %r does not return the selected tensors with their own probabilities' % (idx[:8],), None))
        elif not all(close(a, impl['gamma'][i], atol=1e-12) for a, i in zip(impl['sub_gamma'], idx)):
            out.append(('index-alignment', 'converted parameter (gamma) of the indexed container is not that of the selected tensors', None))
        s = math.fsum(probs)
        ref = [math.fsum(p * c[k] for p, c in zip(probs, cols)) / s for k in range(6)]
        if not all(close(a, b, atol=1e-12) for a, b in zip(ref, impl['mean'])):
            out.append(('mean', 'mean %r is not the probability-weighted mean %r' % (impl['mean'], ref), None))
        if 'max_cols' in impl:
            mx = max(probs)
            exp = [c for c, p in zip(cols, probs) if p == mx]
            if impl['max_cols'] != exp or any(p != mx for p in impl['max_probs']):
                out.append(('max-probability', 'maximum-probability selection returned %d samples, %d attain the maximum' % (len(impl['max_cols']), len(exp)), None))
        cnt = {}
        for c in cols:
            cnt[tuple(c)] = cnt.get(tuple(c), 0) + 1
        got = {tuple(c): int(round(k)) for c, k in zip(impl['uniq_cols'], impl['uniq_counts'])}
        if len(got) != len(impl['uniq_cols']) or got != cnt:
            out.append(('unique-counts', 'unique samples with counts do not match the chain (%d distinct, counts sum %d, chain length %d)' %
                        (len(impl['uniq_cols']), int(sum(impl['uniq_counts'])), len(cols)), None))
        if 'sdr_before' in impl:
            for nm_, b_, a_, sb_ in zip(('strike', 'dip', 'rake'), impl['sdr_before'], impl['sdr_after'], impl['sdr_sub']):
                if len(b_) == len(a_) and any(not (x_ == y_ or (x_ != x_ and y_ != y_)) for x_, y_ in zip(b_, a_)):
                    out.append(('derived-history', 'reading kappa / h / sigma changed the container\'s %s (a converted parameter must stay that of its tensor)' % nm_, None))
                    break
                if len(b_) == len(case['cols']) and len(sb_) == len(idx) and any(not (b_[i_] == s_ or (b_[i_] != b_[i_] and s_ != s_)) for i_, s_ in zip(idx, sb_)):
                    out.append(('index-alignment', '%s of the indexed container (taken after kappa / h / sigma were read) is not that of the selected tensors' % nm_, None))
                    break
        if not close(impl['gamma'][0], impl['standalone_gamma0'], atol=1e-12):
            out.append(('derived', 'container gamma %r differs from the stand-alone conversion %r' % (impl['gamma'][0], impl['standalone_gamma0']), None))
        return out[:3]

    def nontrivial(self, case, impl):
        if case['kind'] == 'project':
            return 1e-6 < case['t'] < math.pi - 1e-6
        return len(case['cols']) >= 3

    def branch(self, case, impl):
        if case['kind'] == 'project':
            return 'project/%s/%s%s%s' % ('area' if case['area'] else 'angle', 'L' if case['lower'] else 'U', 'F' if case['full'] else '', 'B' if case['back'] else '')
        return 'container/%s' % case['mode']


if __name__ == '__main__':
    import sys
    sys.exit(main(C19()))
