"""C14 — eigen-decomposition, source-type coordinates, potency: correspondence and oracle."""
import itertools
import math

from common import Prop, bits, close, reply_floats, import_mtfit, main
from c13 import PI, fl, vbits


class C14(Prop):
    id = 'C14'
    assumptions = ['numpy.linalg.eigh and numpy.linalg.solve are external routines; their outputs are checked against their specifications '
                   '(real, orthonormal, ordered, rebuild the tensor; C.D = M) on every case',
                   'the model of MT6c_D6 uses its own Gaussian elimination in place of numpy.linalg.solve']
    unproved = []
    rule = ('symmetric tensors: generic, repeated and zero eigenvalues, isotropic, scaled by 1e-6..1e6; eigenvalue triples in every order; '
            'stiffness tensors: isotropic (lambda, mu > 0) and generic positive definite (A A^T + I in Mandel form mapped back to 21 components); '
            'opening angles in [0, pi/2] and Poisson ratios in (-1, 0.5); non-trivial = distinct eigenvalues / generic stiffness')

    def setup(self):
        import_mtfit()
        import numpy as np
        from MTfit.convert import moment_tensor_conversion as cv
        self.np, self.cv = np, cv
        np.seterr(all='ignore')

    def gen(self, rng, tier):
        np = self.np
        n = 300 if tier == 'quick' else 5000
        for i in range(n):
            k = rng.random()
            if k < 0.35:
                q, _ = np.linalg.qr(np.array([[rng.gauss(0, 1) for _ in range(3)] for _ in range(3)]))
                e = rng.choice([[rng.gauss(0, 1) for _ in range(3)], [1.0, 1.0, -0.5], [0.3, -0.2, -0.2], [1.0, 1.0, 1.0], [1.0, 0.0, -1.0],
                                [0.0, 0.0, 0.0], [2.0, 0.0, 0.0], [2.0, -1.0, -1.0]])
                sc = 10 ** rng.uniform(-6, 6)
                m = sum(e[j] * sc * np.outer(q[:, j], q[:, j]) for j in range(3))
                m = 0.5 * (m + m.T)
                yield {'kind': 'eig', 'm': [[float(x) for x in r] for r in m]}
            elif k < 0.65:
                e = rng.choice([[rng.gauss(0, 1) for _ in range(3)], [rng.uniform(-1, 1) for _ in range(3)], [1.0, 0.0, -1.0], [1.0, 1.0, 1.0],
                                [-1.0, -1.0, -1.0], [2.0, -1.0, -1.0], [1.0, 1.0, -2.0], [1.0, 1.0, 0.2], [0.5, -0.1, -0.1], [-1.0, 2.0, -1.0]])
                yield {'kind': 'spectrum', 'e': list(e), 'scale': 10 ** rng.choice([rng.uniform(-5, 5), rng.uniform(-12, -7), rng.uniform(7, 12)]),
                       'perm': rng.choice(list(itertools.permutations(range(3))))}
            elif k < 0.8:
                a = rng.choice([rng.uniform(0, PI / 2), 0.0, PI / 2, PI / 2 - 1e-6, 1e-6])
                nu = rng.choice([rng.uniform(-0.99, 0.49), 0.25, 0.0, -0.5, 0.49])
                yield {'kind': 'cdc', 'a': a, 'nu': nu}
            else:
                if rng.random() < 0.4:
                    lam, mu = 10 ** rng.uniform(-1, 2), 10 ** rng.uniform(-1, 2)
                    c21 = None
                    iso = [lam, mu]
                else:
                    A = np.array([[rng.gauss(0, 1) for _ in range(6)] for _ in range(6)])
                    C = A.dot(A.T) + np.eye(6) * rng.uniform(0.5, 3)
                    r2 = math.sqrt(2)
                    c21 = [C[0, 0], C[0, 1], C[0, 2], C[0, 3] / r2, C[0, 4] / r2, C[0, 5] / r2, C[1, 1], C[1, 2], C[1, 3] / r2, C[1, 4] / r2,
                           C[1, 5] / r2, C[2, 2], C[2, 3] / r2, C[2, 4] / r2, C[2, 5] / r2, C[3, 3] / 2, C[3, 4] / 2, C[3, 5] / 2, C[4, 4] / 2,
                           C[4, 5] / 2, C[5, 5] / 2]
                    c21 = [float(x) for x in c21]
                    iso = None
                pot_i = getattr(self, '_pot_i', 0)
                self._pot_i = pot_i + 1
                # the same tensor also as the first column of a batch of 6, 2, 3, 7 or 1 tensors (no generator draws: the other columns are
                # fixed combinations of the first)
                yield {'kind': 'potency', 'c21': c21, 'iso': iso, 'm': [rng.gauss(0, 1) for _ in range(6)], 'ncols': (6, 2, 6, 3, 7, 1)[pot_i % 6]}
        # repeated eigenvalues in general orientation (cheap, oracle only): the axes of the repeated pair must still rebuild the tensor
        for i in range(600 if tier == 'quick' else 20000):
            q, _ = np.linalg.qr(np.array([[rng.gauss(0, 1) for _ in range(3)] for _ in range(3)]))
            e = rng.choice([[2.0, 0.0, 0.0], [0.0, 0.0, -1.0], [1.0, 1.0, 0.0], [0.0, -1.0, -1.0], [2.0, -1.0, -1.0], [1.0, 1.0, -2.0],
                            [1.0, 1.0, -0.5], [3.0, 1.0, 1.0], [1.0, 1.0, 1.0 + 1e-9], [1.0, 1e-12, 0.0]])
            sc = 10 ** rng.uniform(-3, 3)
            m = sum(e[j] * sc * np.outer(q[:, j], q[:, j]) for j in range(3))
            m = 0.5 * (m + m.T)
            yield {'kind': 'eig', 'm': [[float(x) for x in r] for r in m], 'rep': True}
        # eigen-decomposition of several six-vectors in one call (1..7 columns; six is the shape-ambiguous size)
        for i in range(40 if tier == 'quick' else 1200):
            nt = rng.choice([1, 2, 3, 5, 6, 6, 7])
            ms = []
            for _t in range(nt):
                q, _ = np.linalg.qr(np.array([[rng.gauss(0, 1) for _ in range(3)] for _ in range(3)]))
                e = rng.choice([[rng.gauss(0, 1) for _ in range(3)], [1.0, 0.0, -1.0], [2.0, -1.0, -1.0], [1.0, 1.0, -0.5]])
                m = sum(e[j] * np.outer(q[:, j], q[:, j]) for j in range(3))
                m = 0.5 * (m + m.T)
                ms.append([[float(x) for x in r] for r in m])
            yield {'kind': 'eigbatch', 'ms': ms}
        # lune coordinates -> eigenvalues -> lune coordinates, for arrays of 1..6 points
        for i in range(60 if tier == 'quick' else 1500):
            npt = rng.choice([1, 2, 3, 3, 4, 6])
            pts = [[rng.choice([rng.uniform(-PI / 6, PI / 6), 0.0, PI / 6, -PI / 6]),
                    rng.choice([rng.uniform(-PI / 2, PI / 2), 0.0, rng.uniform(-1.55, 1.55)])] for _ in range(npt)]
            yield {'kind': 'lune', 'pts': pts}

    # ------------------------------------------------------------------ implementation
    def impl(self, case):
        np, cv = self.np, self.cv
        k = case['kind']
        if k == 'eig':
            T, N, P, E = cv.MT33_TNPE(np.matrix(case['m']))
            return {'T': fl(T, np), 'N': fl(N, np), 'P': fl(P, np), 'E': [float(np.real(x)) for x in np.asarray(E).flatten()],
                    'complex': any(np.iscomplexobj(x) for x in (T, N, P, E))}
        if k == 'eigbatch':
            r2 = math.sqrt(2)
            cols = [[m[0][0], m[1][1], m[2][2], r2 * m[0][1], r2 * m[0][2], r2 * m[1][2]] for m in case['ms']]
            arr = np.array(cols, dtype=float).T
            T, N, P, E = cv.MT6_TNPE(arr.copy())
            res = {'shapes': [list(np.asarray(x).shape) for x in (T, N, P, E)], 'complex': any(np.iscomplexobj(x) for x in (T, N, P, E))}
            if res['shapes'] == [[3, len(cols)]] * 4:
                res['cols'] = [[[float(np.real(np.asarray(x)[i, j])) for i in range(3)] for x in (T, N, P, E)] for j in range(len(cols))]
            return res
        if k == 'spectrum':
            e = np.array(case['e'])

            def all_of(v):
                g, d = cv.E_GD(v.copy())
                t, kk = cv.E_tk(v.copy())
                u, w = cv.E_uv(v.copy())
                return [float(np.asarray(x).flatten()[0]) for x in (g, d, t, kk, u, w)]
            res = {'base': all_of(e), 'scaled': all_of(e * case['scale']), 'perm': all_of(e[list(case['perm'])]),
                   'sorted': all_of(np.sort(e)[::-1])}
            # the same coordinates from one call on several spectra at once (the way the plotting code calls them)
            cols = [np.sort(e)[::-1], np.sort(-e)[::-1], np.sort(e * case['scale'])[::-1], np.sort(e[::-1] - e.mean() * 1.5)[::-1]]
            arr = np.array(cols, dtype=float).T
            g, d = cv.E_GD(arr.copy())
            t, kk = cv.E_tk(arr.copy())
            u, w = cv.E_uv(arr.copy())
            tu, tw = cv.tk_uv(np.asarray(t, dtype=float).flatten().copy(), np.asarray(kk, dtype=float).flatten().copy())
            res['batched'] = [[float(np.asarray(x).flatten()[j]) for x in (g, d, t, kk, u, w)] for j in range(len(cols))]
            res['batched_tkuv'] = [[float(np.asarray(x).flatten()[j]) for x in (tu, tw)] for j in range(len(cols))]
            res['singles'] = [all_of(c) for c in cols]
            return res
        if k == 'lune':
            g = np.array([p[0] for p in case['pts']])
            d = np.array([p[1] for p in case['pts']])
            E = np.asarray(cv.GD_E(g.copy(), d.copy()), dtype=float)
            res = {'shape': list(E.shape)}
            if list(E.shape) == [3, len(case['pts'])]:
                res['cols'] = [[float(x) for x in E[:, j]] for j in range(E.shape[1])]
                bg, bd = cv.E_GD(E.copy())
                res['back'] = [[float(np.asarray(bg).flatten()[j]), float(np.asarray(bd).flatten()[j])] for j in range(E.shape[1])]
                res['singles'] = [[float(x) for x in np.asarray(cv.GD_E(np.array([p[0]]), np.array([p[1]])), dtype=float).flatten()]
                                  for p in case['pts']]
            return res
        if k == 'cdc':
            g, d = cv.basic_cdc_GD(np.array([case['a']]), case['nu'])
            g, d = float(np.asarray(g).flatten()[0]), float(np.asarray(d).flatten()[0])
            a, nu = cv.GD_basic_cdc(np.array([g]), np.array([d]))
            return {'gd': [g, d], 'back': [float(np.asarray(a).flatten()[0]), float(np.asarray(nu).flatten()[0])]}
        c21 = case['c21'] if case['c21'] is not None else cv.isotropic_c(case['iso'][0], case['iso'][1])
        c21 = [float(x) for x in c21]
        m = np.array(case['m'])
        d6 = fl(cv.MT6c_D6(m, c21), np)
        cv6 = np.asarray(cv.c21_cvoigt(c21), dtype=float)
        # batched conversion: column j is the tensor rotated through its components (a fixed permutation) and scaled by j + 1
        nc = int(case.get('ncols', 1))
        cols = [m] + [np.roll(m, j) * (j + 1.0) + np.arange(6) * 0.01 * j for j in range(1, nc)]
        batch = np.array(cols).T
        got = np.asarray(cv.MT6c_D6(batch.copy(), c21), dtype=float)
        dev = None
        if got.shape != (6, nc):
            dev = float('inf')
        else:
            dev = 0.0
            for j in range(nc):
                single = np.asarray(cv.MT6c_D6(cols[j].copy(), c21), dtype=float).flatten()
                dev = max(dev, float(np.max(np.abs(got[:, j] - single)) / (np.max(np.abs(single)) + 1e-300)))
        # the stiffness as a float64 array used for two conversions in a row: it must not be altered, and the second result equals the first
        carr = np.array(c21, dtype=np.float64)
        first = np.asarray(cv.MT6c_D6(m.copy(), carr), dtype=float).flatten()
        second = np.asarray(cv.MT6c_D6(m.copy(), carr), dtype=float).flatten()
        reuse_dev = float(np.max(np.abs(second - first)) / (np.max(np.abs(first)) + 1e-300))
        reuse_dev = max(reuse_dev, float(np.max(np.abs(carr - np.array(c21))) / (np.max(np.abs(np.array(c21))) + 1e-300)))
        return {'c21': c21, 'd6': d6, 'cvoigt': [float(x) for x in cv6.flatten()], 'cnorm': float(cv.c_norm(c21)),
                'is_iso': bool(cv.is_isotropic_c(c21)), 'ncols': nc, 'batch_dev': dev, 'reuse_dev': reuse_dev}

    # ------------------------------------------------------------------ model
    def requests(self, case, impl):
        k = case['kind']
        if k in ('eig', 'eigbatch'):
            return []
        if k == 'spectrum':
            e = case['e']
            es = sorted(e, reverse=True)
            return ['conv egd %s' % vbits(e), 'conv etksorted %s' % vbits(e)]
        if k == 'lune':
            return ['conv gde %s' % vbits(p) for p in case['pts']]
        if k == 'cdc':
            reqs = ['conv cdcgd %s' % vbits([case['a'], case['nu']])]
            if isinstance(impl, dict) and 'gd' in impl:
                reqs.append('conv gdcdc %s' % vbits(impl['gd']))
            return reqs
        if isinstance(impl, dict) and 'c21' in impl:
            reqs = ['conv cvoigt %s' % vbits(impl['c21']), 'conv cnorm %s' % vbits(impl['c21']), 'conv mt6cd6 %s %s' % (vbits(impl['c21']), vbits(case['m']))]
            if case['iso']:
                reqs.append('conv isoc %s' % vbits(case['iso']))
            return reqs
        return []

    def compare(self, case, impl, replies):
        if 'exc' in impl:
            return [('implementation raised %s: %s' % (impl['exc'], impl.get('msg')), impl)]
        k = case['kind']
        out = []
        if k == 'spectrum':
            gd = reply_floats(replies[0])
            if not all(abs(a - b) < 1e-7 for a, b in zip(gd, impl['base'][:2])) and not any(math.isnan(x) for x in gd):
                out.append(('E_GD: model %r, implementation %r' % (gd, impl['base'][:2]), None))
            tk = reply_floats(replies[1])
            if not all(close(a, b, atol=1e-9) for a, b in zip(tk, impl['sorted'][2:4])) and not any(math.isnan(x) for x in tk):
                out.append(('E_tk (sorted spectrum): model %r, implementation %r' % (tk, impl['sorted'][2:4]), None))
            from common import run_driver
            uv = reply_floats(run_driver(['conv tkuv %s' % vbits(tk)])[0])
            if not all(close(a, b, atol=1e-9) for a, b in zip(uv, impl['sorted'][4:6])) and not any(math.isnan(x) for x in uv):
                out.append(('E_uv (sorted spectrum): model %r, implementation %r' % (uv, impl['sorted'][4:6]), None))
        elif k == 'lune':
            for j, rep in enumerate(replies):
                m = reply_floats(rep)
                if 'cols' in impl and not all(close(a, b, atol=1e-12) for a, b in zip(m, impl['cols'][j])):
                    out.append(('GD_E point %d of %d %r: model %r, implementation %r' % (j, len(replies), case['pts'][j], m, impl['cols'][j]), None))
                    break
        elif k == 'cdc':
            gd = reply_floats(replies[0])
            if not all(abs(a - b) < 1e-9 for a, b in zip(gd, impl['gd'])):
                out.append(('basic_cdc_GD: model %r, implementation %r' % (gd, impl['gd']), None))
            if len(replies) > 1 and abs(case['a'] - PI / 2) > 1e-5:
                bk = reply_floats(replies[1])
                if not all(close(a, b, atol=1e-6) for a, b in zip(bk, impl['back'])):
                    out.append(('GD_basic_cdc: model %r, implementation %r' % (bk, impl['back']), None))
        elif k == 'potency':
            cvm = reply_floats(replies[0])
            if not all(close(a, b, atol=1e-12) for a, b in zip(cvm, impl['cvoigt'])):
                out.append(('c21_cvoigt differs', None))
            cn = reply_floats(replies[1])[0]
            if not close(cn, impl['cnorm']):
                out.append(('c_norm: model %r, implementation %r' % (cn, impl['cnorm']), None))
            d6 = reply_floats(replies[2])
            if not all(close(a, b, rtol=1e-7, atol=1e-9) for a, b in zip(d6, impl['d6'])):
                out.append(('MT6c_D6: model %r, implementation %r' % (d6, impl['d6']), None))
            if case['iso']:
                ic = reply_floats(replies[3])
                if not all(close(a, b, atol=1e-12) for a, b in zip(ic, impl['c21'])):
                    out.append(('isotropic_c: model %r, implementation %r' % (ic, impl['c21']), None))
        return out[:3]

    # ------------------------------------------------------------------ oracle
    def oracle(self, case, impl):
        if 'exc' in impl:
            return [('raises', '%s raised %s: %s' % (case['kind'], impl['exc'], impl.get('msg')), impl)]
        k = case['kind']
        out = []
        if k == 'eig':
            if impl['complex']:
                out.append(('eig-complex', 'eigen-decomposition returned complex arrays', None))
            T, N, P, E = impl['T'], impl['N'], impl['P'], impl['E']

            def dot(a, b):
                return sum(x * y for x, y in zip(a, b))
            if max(abs(dot(T, T) - 1), abs(dot(N, N) - 1), abs(dot(P, P) - 1), abs(dot(T, N)), abs(dot(T, P)), abs(dot(N, P))) > 1e-9:
                out.append(('eig-orthonormal', 'axes are not orthonormal for tensor %r' % (case['m'],), None))
            if not (E[0] >= E[1] and E[1] >= E[2]):
                out.append(('eig-order', 'eigenvalues not ordered from largest to smallest: %r' % (E,), None))
            sc = max(1e-300, max(abs(x) for r in case['m'] for x in r))
            for i in range(3):
                for j in range(3):
                    rb = E[0] * T[i] * T[j] + E[1] * N[i] * N[j] + E[2] * P[i] * P[j]
                    if abs(rb - case['m'][i][j]) > 1e-9 * sc:
                        out.append(('eig-rebuild', 'axes and eigenvalues do not rebuild the tensor (entry %d,%d: %r vs %r)' % (i, j, rb, case['m'][i][j]), None))
                        return out
            return out
        if k == 'eigbatch':
            n = len(case['ms'])
            if impl['shapes'] != [[3, n]] * 4 or impl['complex']:
                return [('eig-batch', 'MT6_TNPE on %d six-vectors returned arrays of shapes %r (complex: %s)' % (n, impl['shapes'], impl['complex']), None)]
            for j, (m, (T, N, P, E)) in enumerate(zip(case['ms'], impl['cols'])):
                sc = max(1e-300, max(abs(x) for r in m for x in r))
                for a_ in range(3):
                    for b_ in range(3):
                        rb = E[0] * T[a_] * T[b_] + E[1] * N[a_] * N[b_] + E[2] * P[a_] * P[b_]
                        if abs(rb - m[a_][b_]) > 1e-9 * sc:
                            return [('eig-batch', 'MT6_TNPE on %d six-vectors: the axes and eigenvalues of column %d do not rebuild that tensor (entry %d,%d: %r vs %r)'
                                     % (n, j, a_, b_, rb, m[a_][b_]), None)]
                if not (E[0] >= E[1] and E[1] >= E[2]):
                    return [('eig-batch', 'MT6_TNPE on %d six-vectors: eigenvalues of column %d not ordered: %r' % (n, j, E), None)]
            return []
        if k == 'spectrum':
            b = impl['base']
            names = ['gamma', 'delta', 'tau', 'k', 'u', 'v']
            if any(math.isnan(x) for x in b):
                if any(abs(x) > 0 for x in case['e']):
                    out.append(('nan', 'source-type coordinates contain NaN for spectrum %r: %r' % (case['e'], b), None))
                return out
            for which in ('scaled', 'perm'):
                o = impl[which]
                for nme, x, y in zip(names, b, o):
                    if not close(x, y, atol=1e-7):
                        out.append(('%s-invariance' % ('scale' if which == 'scaled' else 'order'),
                                    '%s changes from %r to %r under %s of the eigenvalues %r' %
                                    (nme, x, y, 'positive scaling' if which == 'scaled' else 'reordering', case['e']), None))
                        break
            for j, (bt, sg, tu) in enumerate(zip(impl['batched'], impl['singles'], impl['batched_tkuv'])):
                if any(math.isnan(x) for x in sg):
                    continue
                if not all(close(x, y, atol=1e-9) for x, y in zip(bt, sg)):
                    out.append(('batched', 'coordinates (gamma, delta, tau, k, u, v) of spectrum %d computed in one call on several spectra are %r, '
                                'computed alone %r' % (j, bt, sg), None))
                    break
                if not (close(tu[0], sg[4], atol=1e-9) and close(tu[1], sg[5], atol=1e-9)):
                    out.append(('batched', 'tk_uv on arrays gives (u, v) = %r for spectrum %d, the single call %r' % (tu, j, sg[4:6]), None))
                    break
            if abs(b[0]) > PI / 6 + 1e-9 or abs(b[1]) > PI / 2 + 1e-9:
                out.append(('lune-range', 'lune coordinates out of range: %r' % (b[:2],), None))
            s = impl['sorted']
            if abs(s[4]) > 4.0 / 3 + 1e-9 or abs(s[5]) > 1 + 1e-9:
                out.append(('hudson-bounds', 'Hudson coordinates out of bounds: u=%r v=%r' % (s[4], s[5]), None))
            special = {(1.0, 0.0, -1.0): (0, 0), (1.0, 1.0, 1.0): (0, 1), (-1.0, -1.0, -1.0): (0, -1), (2.0, -1.0, -1.0): (-1, 0),
                       (1.0, 1.0, -2.0): (1, 0)}
            key = tuple(sorted(case['e'], reverse=True))
            if key in special and (abs(s[4] - special[key][0]) > 1e-9 or abs(s[5] - special[key][1]) > 1e-9):
                out.append(('hudson-special', 'spectrum %r maps to (u,v)=(%r,%r), expected %r' % (key, s[4], s[5], special[key]), None))
        elif k == 'lune':
            n = len(case['pts'])
            if impl['shape'] != [3, n]:
                out.append(('lune-shape', 'GD_E on %d points returned an array of shape %r' % (n, impl['shape']), None))
                return out
            for j, (p, col, bk, sg) in enumerate(zip(case['pts'], impl['cols'], impl['back'], impl['singles'])):
                if not all(close(x, y, atol=1e-12) for x, y in zip(col, sg)):
                    out.append(('batched', 'GD_E on %d points gives eigenvalues %r for point %d %r, alone %r' % (n, col, j, p, sg), None))
                    break
                if not (col[0] >= col[1] - 1e-12 and col[1] >= col[2] - 1e-12) or abs(sum(x * x for x in col) - 1) > 1e-9:
                    out.append(('lune-eigenvalues', 'GD_E%r = %r is not a unit, descending eigenvalue triple' % (tuple(p), col), None))
                    break
                if abs(bk[1] - p[1]) > 1e-7 or (abs(abs(p[1]) - PI / 2) > 1e-6 and abs(bk[0] - p[0]) > 1e-7 / max(1e-3, math.cos(p[1]))):
                    out.append(('lune-roundtrip', 'E_GD(GD_E(%r)) = %r' % (tuple(p), bk), None))
                    break
        elif k == 'cdc':
            a, nu = case['a'], case['nu']
            if abs(a - PI / 2) < 1e-9:
                if abs(impl['back'][0] - a) > 1e-6:
                    out.append(('cdc-roundtrip', 'opening angle pi/2 came back as %r' % impl['back'][0], None))
            elif abs(impl['back'][0] - a) > 1e-6 or abs(impl['back'][1] - nu) > 1e-5 * max(1.0, 1.0 / max(1e-9, math.cos(a)) ** 2):
                out.append(('cdc-roundtrip', 'crack+DC parameters (%r, %r) came back as %r' % (a, nu, impl['back']), None))
        elif k == 'potency':
            # C . D = M  (Mandel / Voigt order)
            # Mandel matrix built here from the 21 elements (row-wise upper triangle of the Voigt matrix), independently of c21_cvoigt
            V = [[0.0] * 6 for _ in range(6)]
            it = iter(impl['c21'])
            for i in range(6):
                for j in range(i, 6):
                    V[i][j] = V[j][i] = next(it)
            r2_ = math.sqrt(2)
            C = [[V[i][j] * (1.0 if (i < 3 and j < 3) else 2.0 if (i >= 3 and j >= 3) else r2_) for j in range(6)] for i in range(6)]
            perm = [0, 1, 2, 5, 4, 3]
            d = [impl['d6'][p] for p in perm]
            mm = [case['m'][p] for p in perm]
            sc = max(abs(x) for x in mm) + 1e-300
            for i in range(6):
                v = sum(C[i][j] * d[j] for j in range(6))
                if abs(v - mm[i]) > 1e-8 * sc * (1 + impl['cnorm']):
                    out.append(('potency', 'stiffness times potency tensor does not give back the moment tensor (row %d: %r vs %r)' % (i, v, mm[i]), None))
                    break
            if impl.get('batch_dev') is not None and impl['batch_dev'] > 1e-9:
                out.append(('potency-batch', 'a batch of %d tensors converted to potency tensors differs from the column-by-column conversion by %r (relative)'
                            % (impl['ncols'], impl['batch_dev']), None))
            if impl.get('reuse_dev') is not None and impl['reuse_dev'] > 1e-12:
                out.append(('potency-reuse', 'two potency conversions in a row with the same stiffness array: the array or the second result changed by %r (relative)'
                            % impl['reuse_dev'], None))
            if (case['iso'] is not None) != impl['is_iso'] and case['iso'] is not None:
                out.append(('is-isotropic', 'isotropic stiffness not recognised as isotropic', None))
        return out[:3]

    def nontrivial(self, case, impl):
        if case['kind'] == 'spectrum':
            return len(set(case['e'])) == 3
        return True

    def branch(self, case, impl):
        k = case['kind']
        if k == 'spectrum':
            return 'spectrum/%s' % ('distinct' if len(set(case['e'])) == 3 else 'repeated')
        if k == 'potency':
            return 'potency/%s' % ('iso' if case['iso'] else 'generic')
        if k == 'lune':
            return 'lune/%d' % len(case['pts'])
        if k == 'eig' and case.get('rep'):
            return 'eig/repeated-stream'
        return k


if __name__ == '__main__':
    import sys
    sys.exit(main(C14()))
