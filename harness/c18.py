"""C18 — scatter files and binning: correspondence and oracle."""
import math
import os
import tempfile

from common import Prop, bits, close, unbits, import_mtfit, main


class C18(Prop):
    id = 'C18'
    assumptions = ['a file reaches the model as its list of logical lines (Python universal-newline reading), each classified by its number of '
                   'whitespace-separated tokens; float() of the tokens is trusted',
                   'every sample block lists the same number of stations (numpy would broadcast or raise otherwise)']
    unproved = ['order of floating-point additions when merging weights is mirrored (left to right), rounding itself is not modelled']
    rule = ('files with 1..40 samples (thorough: up to 200), 1..8 stations (thorough: up to 30), weights log-uniform or integers, LF or CRLF '
            'line endings, trailing blank line present or missing, samples drawn around 1..4 cluster centres so that binning merges; bin '
            'sizes {0, 0.5, 1, 2, 5, 20}; optional sub-sampling through a patched np.random.choice; write/read round trips through '
            '_output_scatangle and the binning command; non-trivial = at least two samples')

    def setup(self):
        import_mtfit()
        import numpy as np
        from MTfit.extensions import scatangle
        self.np, self.sc = np, scatangle
        np.seterr(all='ignore')
        self.tmp = tempfile.mkdtemp(prefix='c18_')

    def gen(self, rng, tier):
        n = 200 if tier == 'quick' else 2500
        maxs, maxst = (40, 8) if tier == 'quick' else (200, 30)
        for i in range(n):
            ns = rng.randint(1, maxs if rng.random() < 0.3 else 12)
            nst = rng.randint(1, maxst if rng.random() < 0.3 else 5)
            names = rng.sample(range(1, 1000), nst)
            centres = [[(rng.uniform(0, 360), rng.uniform(0, 180)) for _ in range(nst)] for _c in range(rng.randint(1, 4))]
            spread = rng.choice([0.0, 0.1, 0.4, 1.0, 5.0])
            recs = []
            for _s in range(ns):
                cen = rng.choice(centres)
                st = [[names[j], round(cen[j][0] + rng.uniform(-spread, spread), rng.choice([1, 3, 6])),
                       round(cen[j][1] + rng.uniform(-spread, spread), rng.choice([1, 3, 6]))] for j in range(nst)]
                w = rng.choice([1.0, float(rng.randint(1, 9)), round(10 ** rng.uniform(-3, 3), 4)])
                recs.append({'w': w, 'st': st})
            kind = rng.choice(['parse', 'parse', 'roundtrip', 'bincmd'])
            nsub = rng.choice([0, 0, 0, rng.randint(1, ns)])
            b = rng.choice([0.0, 0.0, 0.5, 1.0, 2.0, 5.0, 20.0])
            if kind == 'roundtrip' and rng.random() < 0.4:
                # blocks that list their stations in their own order, or only some of them (nothing is binned: angles are matched
                # by position there)
                b = 0.0
                for r in recs:
                    rng.shuffle(r['st'])
                    if rng.random() < 0.3:
                        del r['st'][rng.randint(1, len(r['st'])):]
            yield {'kind': kind, 'recs': recs, 'crlf': rng.random() < 0.4, 'trailing_blank': rng.random() < 0.6,
                   'omit_weight': rng.random() < 0.1, 'bin': b,
                   'nsub': nsub if kind in ('parse', 'roundtrip') else 0, 'sub_seed': rng.randrange(1 << 30)}

    # ------------------------------------------------------------------ file text
    def _text(self, case):
        eol = '\r\n' if case['crlf'] else '\n'
        lines = []
        for k, r in enumerate(case['recs']):
            if not (case['omit_weight'] and k > 0 and r['w'] == case['recs'][k - 1]['w']):
                lines.append(repr(r['w']))
            for n, a, t in r['st']:
                lines.append('S%04d\t%r\t%r' % (n, a, t))
            lines.append('')
        if not case['trailing_blank']:
            lines.pop()
        return eol.join(lines) + eol

    def _canon(self, recs, ws):
        np = self.np
        out = []
        for r, w in zip(recs, ws):
            az = [float(v) for v in np.asarray(r['Azimuth']).flatten()]
            toa = [float(v) for v in np.asarray(r['TakeOffAngle']).flatten()]
            out.append({'w': float(w), 'st': [[int(n[1:]), a, t] for n, a, t in zip(r['Name'], az, toa)]})
        return out

    def impl(self, case):
        np, sc = self.np, self.sc
        fn = os.path.join(self.tmp, 'f.scatangle')
        with open(fn, 'w', newline='') as fh:
            fh.write(self._text(case))
        res = {}
        if case['nsub'] and case['nsub'] < len(case['recs']):
            import random
            order = list(range(len(case['recs'])))
            random.Random(case['sub_seed']).shuffle(order)
            idx = order[:case['nsub']]
            orig = np.random.choice
            np.random.choice = lambda n, k, replace=True: np.array(idx)
            try:
                recs, ws = sc.parse_scatangle(fn, number_location_samples=case['nsub'], bin_size=case['bin'], _use_c=False)
            finally:
                np.random.choice = orig
            res['idx'] = idx
        else:
            recs, ws = sc.parse_scatangle(fn, bin_size=case['bin'], _use_c=False)
        res['out'] = self._canon(recs, ws)
        if case['kind'] == 'roundtrip':
            fn2 = os.path.join(self.tmp, 'g.scatangle')
            sc._output_scatangle(fn2, recs, ws)
            r2, w2 = sc.parse_scatangle(fn2, _use_c=False)
            res['again'] = self._canon(r2, w2)
        elif case['kind'] == 'bincmd':
            _old, new = sc.bin_scatangle(fn, 0, case['bin'])
            r2, w2 = sc.parse_scatangle(new, _use_c=False)
            res['cmd'] = self._canon(r2, w2)
            ref, wref = sc.parse_scatangle(fn, bin_size=case['bin'], _use_c=False)
            res['cmd_ref'] = self._canon(ref, wref)
            os.remove(new)
            # the same through the hook the command line uses (option names as the option parser delivers them)
            kw = sc.pre_inversion(bin_scatangle=True, location_pdf_file_path=[fn], number_location_samples=0,
                                  bin_scatangle_size=case['bin'], parallel=False, mpi=False)
            new2 = kw['location_pdf_file_path'][0]
            res['hook_file_is_new'] = new2 != fn
            r3, w3 = sc.parse_scatangle(new2, _use_c=False)
            res['hook'] = self._canon(r3, w3)
            if new2 != fn and os.path.exists(new2):
                os.remove(new2)
        return res

    # ------------------------------------------------------------------ model
    def _lines(self, case):
        toks = []
        text = self._text(case)
        lines = text.replace('\r\n', '\n').replace('\r', '\n').split('\n')
        if lines and lines[-1] == '':
            lines.pop()
        for ln in lines:
            t = ln.split()
            if len(t) == 0:
                toks.append('0')
            elif len(t) == 1:
                try:
                    toks.append('1 ' + bits(float(t[0])))
                except ValueError:
                    toks.append('2')
            else:
                toks.append('3 %d %s %s' % (int(t[0][1:]), bits(float(t[1])), bits(float(t[2]))))
        return toks

    def requests(self, case, impl):
        lines = self._lines(case)
        idx = impl.get('idx', []) if isinstance(impl, dict) else []
        return ['scat %d %s %s %d %s' % (len(lines), ' '.join(lines), bits(case['bin']), len(idx), ' '.join(str(i) for i in idx))]

    @staticmethod
    def _parse(reply):
        t = reply.split()
        n = int(t[0])
        p = 1
        out = []
        for _ in range(n):
            nst = int(t[p]); w = unbits(t[p + 1]); p += 2
            st = []
            for _s in range(nst):
                st.append([int(t[p]), unbits(t[p + 1]), unbits(t[p + 2])]); p += 3
            out.append({'w': w, 'st': st})
        return out

    @staticmethod
    def _same(a, b, wtol=0.0):
        if len(a) != len(b):
            return 'record count %d vs %d' % (len(a), len(b))
        for k, (x, y) in enumerate(zip(a, b)):
            if x['st'] != y['st']:
                return 'record %d stations/angles differ: %r vs %r' % (k, x['st'][:2], y['st'][:2])
            if not (x['w'] == y['w'] or close(x['w'], y['w'], rtol=wtol, atol=0)):
                return 'record %d weight %r vs %r' % (k, x['w'], y['w'])
        return None

    def compare(self, case, impl, replies):
        if 'exc' in impl:
            return [('implementation raised %s: %s' % (impl['exc'], impl.get('msg')), impl)]
        if replies[0].startswith('bad') or replies[0].startswith('err'):
            return [('model rejected the input: %s' % replies[0], None)]
        d = self._same(self._parse(replies[0]), impl['out'], wtol=1e-12)
        return [('parse/bin: model vs implementation: %s' % d, None)] if d else []

    # ------------------------------------------------------------------ oracle
    def oracle(self, case, impl):
        if 'exc' in impl:
            return [('raises', '%s raised %s: %s' % (case['kind'], impl['exc'], impl.get('msg')), impl)]
        out = []
        recs = [{'w': float(r['w']), 'st': [[n, float(a), float(t)] for n, a, t in r['st']]} for r in case['recs']]
        if 'idx' in impl:
            recs = [recs[i] for i in impl['idx']]
        got = impl['out']
        b = case['bin']
        if not b:
            d = self._same(recs, got)
            if d:
                out.append(('parse', 'records read differ from the file: %s' % d, None))
        else:
            tot_in, tot_out = math.fsum(r['w'] for r in recs), math.fsum(r['w'] for r in got)
            if not close(tot_in, tot_out, rtol=1e-12):
                out.append(('mass', 'bin weights add up to %r, input weights to %r' % (tot_out, tot_in), None))
            # each retained record is an original; every input is retained or within half a bin of a retained record
            keys = [tuple(map(tuple, r['st'])) for r in recs]
            pos = 0
            for g in got:
                k = tuple(map(tuple, g['st']))
                try:
                    pos = keys.index(k, pos) + 1
                except ValueError:
                    out.append(('retained', 'a bin record is not an input record (or out of order)', g['st'][:2]))
                    break

            def near(x, y):
                return all(abs(p[1] - q[1]) < b / 2.0 and abs(p[2] - q[2]) < b / 2.0 for p, q in zip(x['st'], y['st']))
            for r in recs:
                if not any(g['st'] == r['st'] or near(g, r) for g in got):
                    out.append(('merge-rule', 'an input sample is neither retained nor within half a bin of a retained sample', r['st'][:2]))
                    break
            for i in range(len(got)):
                for j in range(i + 1, len(got)):
                    if near(got[i], got[j]):
                        out.append(('merge-rule', 'two retained samples are within half a bin of each other', None))
                        break
            # greedy expectation
            exp = []
            rest = list(recs)
            while rest:
                head, rest = rest[0], rest[1:]
                w = head['w']
                keep = []
                for r in rest:
                    if near(head, r):
                        w += r['w']
                    else:
                        keep.append(r)
                exp.append({'w': w, 'st': head['st']})
                rest = keep
            d = self._same(exp, got, wtol=1e-12)
            if d and not out:
                out.append(('bins', 'bins differ from the greedy rule: %s' % d, None))
        if 'again' in impl:
            d = self._same(got, impl['again'])
            if d:
                out.append(('roundtrip', 'writing and reading back changed the records: %s' % d, None))
        if 'cmd' in impl:
            d = self._same(impl['cmd_ref'], impl['cmd'])
            if d:
                out.append(('bincmd', 'file written by the binning command differs from the binned records: %s' % d, None))
        if 'hook' in impl:
            d = None if impl['hook_file_is_new'] else 'the hook returned the unbinned file'
            d = d or self._same(impl['cmd_ref'], impl['hook'])
            if d:
                out.append(('bincmd', 'file produced by the command-line binning hook (bin size %r) differs from the binned records: %s'
                            % (case['bin'], d), None))
        return out[:3]

    def nontrivial(self, case, impl):
        return len(case['recs']) >= 2

    def branch(self, case, impl):
        merged = isinstance(impl, dict) and 'out' in impl and len(impl['out']) < (case['nsub'] or len(case['recs']))
        return '%s/%s/%s/%s' % (case['kind'], 'bin' if case['bin'] else 'nobin', 'merged' if merged else 'same',
                                'crlf' if case['crlf'] else 'lf')


if __name__ == '__main__':
    import sys
    sys.exit(main(C18()))
