"""C05 — Metropolis-Hastings / reversible-jump acceptance: correspondence and oracle."""
import math

from common import Prop, bits, close, reply_floats, import_mtfit, NEG_INF, main

PI = math.pi
KEYS = ['gamma', 'delta', 'kappa', 'h', 'sigma']


def tape_bits(x):
    return ' '.join(bits(x[k]) for k in KEYS)


def widths_bits(a):
    return ' '.join(bits(a.get(k, 0.2)) for k in ['gamma', 'delta', 'kappa', 'h', 'sigma', 'gamma_dc', 'delta_dc', 'proposal_normalisation'])


class C05(Prop):
    id = 'C05'
    assumptions = ['scipy.stats.norm.pdf/cdf and scipy.stats.beta.pdf are modelled by the closed forms (erf-based CDF, Beta(5.745,5.745) density '
                   'with a precomputed log-normaliser); agreement is checked by this run',
                   'the strike proposal (wrapped normal) is symmetric and therefore omitted from the proposal density, as in the code',
                   'balance is stated with the density the code itself evaluates for the dimension-balancing draw (jump_params(x))']
    unproved = ['that jump_params(x) is the density of the actual balancing draw: checked numerically (its integral over the source-type box), see KNOWN_FINDINGS']
    rule = ('state pairs uniform in the domain with boundary values (gamma = +-pi/6, delta = +-pi/2, h in {0,1}, sigma = +-pi/2) mixed in, widths '
            'log-uniform in (1e-3, max], both sampling priors, DC-constrained / full tensor / jump-up / jump-down, dc_prior in (0.02,0.98), '
            '1..3 events, log-likelihoods finite (|L| up to 1e4) or -inf; decision cases with the uniform draw forced to 0, just below/at/above '
            'the acceptance probability; non-trivial = both log-likelihoods finite')

    def setup(self):
        import_mtfit()
        import numpy as np
        from MTfit.algorithms import markov_chain_monte_carlo as mc
        from MTfit.probability import LnPDF
        self.np, self.mc, self.LnPDF = np, mc, LnPDF
        np.seterr(all='ignore')
        import types
        mc.gc = types.SimpleNamespace(collect=lambda *a, **k: 0)
        self._algs = {}

    # ------------------------------------------------------------------ generation
    def _state(self, rng, dc=False, boundary=0.2):
        def pick(lo, hi):
            r = rng.random()
            if r < boundary / 2:
                return lo
            if r < boundary:
                return hi
            return rng.uniform(lo, hi)
        x = {'gamma': 0.0 if dc else pick(-PI / 6, PI / 6), 'delta': 0.0 if dc else pick(-PI / 2, PI / 2),
             'kappa': rng.uniform(0, 2 * PI), 'h': pick(0.0, 1.0), 'sigma': pick(-PI / 2, PI / 2)}
        return x

    def _widths(self, rng):
        mx = {'kappa': PI / 2, 'h': 0.5, 'sigma': PI / 4, 'gamma': PI / 12, 'delta': PI / 4}
        w = {k: (mx[k] if rng.random() < 0.1 else mx[k] * 10 ** rng.uniform(-2.5, 0)) for k in mx}
        w['alpha'] = PI / 10
        w['poisson'] = 0.2
        return w

    def _L(self, rng):
        return rng.choice([NEG_INF, rng.uniform(-5, 0), rng.uniform(-50, 5), rng.uniform(-1e4, 0), -700.0 * rng.random()])

    def _Lpair(self, rng):
        """log-likelihoods of the current and the proposed state; in a third of the cases they are close, so that the prior and
        proposal ratios decide the acceptance in either direction"""
        L = self._L(rng)
        if rng.random() < 0.35 and L != NEG_INF:
            return L, L + rng.choice([0.0, rng.gauss(0, 0.3), rng.gauss(0, 2.0)])
        return L, self._L(rng)

    def gen(self, rng, tier):
        n = 400 if tier == 'quick' else 6000
        for i in range(n):
            k = rng.random()
            prior = rng.choice(['uniform_prior', 'flat_prior'])
            if k < 0.4:
                dc = rng.random() < 0.3
                L, Lp = self._Lpair(rng)
                yield {'kind': 'shift', 'prior': prior, 'dc': dc, 'w': self._widths(rng), 'xi': self._state(rng, dc),
                       'x': self._state(rng, dc), 'L': L, 'Lp': Lp}
                if dc and rng.random() < 0.8:
                    # the same double-couple move, but from the state the real trans-dimensional sampler holds after an accepted jump from a
                    # full tensor (a multi-step history: jump proposal built by the sampler, accepted, then an ordinary proposal)
                    yield {'kind': 'shift', 'prior': prior, 'dc': True, 'w': self._widths(rng), 'xi': self._state(rng, True),
                           'x': self._state(rng, True), 'L': L, 'Lp': Lp, 'after_jump_from': self._state(rng, False, 0.0)}
            elif k < 0.55:
                ne = rng.randint(2, 3)
                dcs = [rng.random() < 0.3 for _ in range(ne)]
                L, Lp = self._Lpair(rng)
                yield {'kind': 'multi', 'prior': prior, 'dc': dcs, 'w': [self._widths(rng) for _ in range(ne)],
                       'xi': [self._state(rng, d, 0.05) for d in dcs], 'x': [self._state(rng, d, 0.05) for d in dcs],
                       'L': L, 'Lp': Lp}
            elif k < 0.8:
                sg, sd = 10 ** rng.uniform(-1.5, 0), 10 ** rng.uniform(-1.5, 0)
                mt = self._state(rng, False, 0.1)
                dcs = dict(mt)
                dcs['gamma'] = 0.0
                dcs['delta'] = 0.0
                L, Lp = self._Lpair(rng)
                yield {'kind': 'jump', 'prior': prior, 'sg': sg, 'sd': sd, 'mt': mt, 'dcs': dcs, 'p': rng.uniform(0.02, 0.98),
                       'L': L, 'Lp': Lp}
            else:
                sub = rng.choice(['shift', 'shift', 'jump-up', 'jump-down'])
                dc = rng.random() < 0.3 and sub == 'shift'
                mt = self._state(rng, False, 0.0)
                dcs = dict(mt)
                dcs['gamma'] = 0.0
                dcs['delta'] = 0.0
                yield {'kind': 'decision', 'sub': sub, 'prior': prior, 'dc': dc, 'w': self._widths(rng), 'xi': self._state(rng, dc, 0.0),
                       'x': self._state(rng, dc, 0.0), 'mt': mt, 'dcs': dcs, 'p': rng.uniform(0.05, 0.95),
                       'L': rng.uniform(-5, 0), 'Lp': rng.choice([NEG_INF, rng.uniform(-8, 0), rng.uniform(-3, 0)]),
                       'umode': rng.choice(['zero', 'below', 'above', 'mid', 'high']), 'as_lnpdf': rng.random() < 0.5,
                       'multitry': rng.random() < 0.3}
        for sg, sd in ([(0.2, 0.2), (0.1, 0.3)] if tier == 'quick' else [(0.2, 0.2), (0.1, 0.3), (0.05, 0.05), (0.5, 0.5), (0.3, 0.1)]):
            yield {'kind': 'jump-density', 'sg': sg, 'sd': sd}

    # ------------------------------------------------------------------ implementation
    def _alg(self, cls, **kw):
        key = (cls, tuple(sorted(kw.items())))
        if key not in self._algs:
            self._algs[key] = getattr(self.mc, cls)(initial_sample='random', **kw)
        return self._algs[key]

    def _shift_vals(self, alg, w, dc, xi, x, L, Lp):
        alg.alpha = dict(w)
        alg.dc = dc
        alg.xi = dict(xi)
        alg.ln_likelihood_xi = L
        out = {'q_fwd': float(alg.transition_pdf(x, xi)), 'q_bwd': float(alg.transition_pdf(xi, x)),
               'pi_xi': float(alg.prior(xi)), 'pi_x': float(alg.prior(x)), 'a_fwd': float(alg.acceptance(dict(x), Lp))}
        alg.xi = dict(x)
        alg.ln_likelihood_xi = Lp
        out['a_bwd'] = float(alg.acceptance(dict(xi), L))
        return out

    def impl(self, case):
        np = self.np
        k = case['kind']
        if k == 'shift' and 'after_jump_from' in case:
            alg = self._alg('IterativeTransDMetropolisHastingsGaussianTape', sampling_prior=case['prior'])
            alg.alpha = dict(case['w'], gamma_dc=0.2, delta_dc=0.2, proposal_normalisation=1.0)
            mt = dict(case['after_jump_from'], kappa=case['xi']['kappa'], h=case['xi']['h'], sigma=case['xi']['sigma'])
            alg.xi, alg.dc, alg.ln_likelihood_xi = mt, False, -1.0
            jp = alg.dimension_jump_prob
            alg.dimension_jump_prob = 1.0
            try:
                xdc = alg._new_sample_single()          # the sampler's own jump proposal (full tensor -> double-couple)
            finally:
                alg.dimension_jump_prob = jp
            alg.jump = False
            # the jump is accepted: the proposal becomes the current state, the chain is now double-couple
            alg.xi, alg.dc, alg.ln_likelihood_xi = xdc, True, case['L']
            x = dict(case['x'])
            res = {'q_fwd': float(alg.transition_pdf(x, alg.xi)), 'q_bwd': float(alg.transition_pdf(alg.xi, x)),
                   'pi_xi': float(alg.prior({kk: vv for kk, vv in alg.xi.items() if kk in ('gamma', 'delta', 'kappa', 'h', 'sigma')})), 'pi_x': float(alg.prior(x)),
                   'a_fwd': float(alg.acceptance(dict(x), case['Lp']))}
            keep = dict(alg.xi)
            pars = {kk: vv for kk, vv in keep.items() if kk in ('gamma', 'delta', 'kappa', 'h', 'sigma')}
            res['q_fwd_params'] = float(alg.transition_pdf(x, pars))
            res['q_bwd_params'] = float(alg.transition_pdf(pars, x))
            alg.xi, alg.ln_likelihood_xi = dict(x), case['Lp']
            res['a_bwd'] = float(alg.acceptance(keep, case['L']))
            alg.dc = False
            return res
        if k == 'shift':
            alg = self._alg('IterativeMetropolisHastingsGaussianTape', sampling_prior=case['prior'], dc=case['dc'])
            return self._shift_vals(alg, case['w'], case['dc'], case['xi'], case['x'], case['L'], case['Lp'])
        if k == 'multi':
            ne = len(case['dc'])
            alg = self._alg('IterativeMetropolisHastingsGaussianTape', sampling_prior=case['prior'], number_events=ne)
            alg.alpha = [dict(w) for w in case['w']]
            alg.dc = list(case['dc'])
            alg.xi = [dict(v) for v in case['xi']]
            alg.ln_likelihood_xi = case['L']
            out = {'a_fwd': float(alg.acceptance([dict(v) for v in case['x']], case['Lp']))}
            qf = qb = pxi = px = 1.0
            for i in range(ne):
                alg.alpha = dict(case['w'][i])
                qf *= alg.transition_pdf(case['x'][i], case['xi'][i], case['dc'][i])
                qb *= alg.transition_pdf(case['xi'][i], case['x'][i], case['dc'][i])
                pxi *= alg.prior(case['xi'][i], case['dc'][i])
                px *= alg.prior(case['x'][i], case['dc'][i])
            out.update({'q_fwd': float(qf), 'q_bwd': float(qb), 'pi_xi': float(pxi), 'pi_x': float(px)})
            alg.alpha = [dict(w) for w in case['w']]
            alg.xi = [dict(v) for v in case['x']]
            alg.ln_likelihood_xi = case['Lp']
            out['a_bwd'] = float(alg.acceptance([dict(v) for v in case['xi']], case['L']))
            return out
        if k == 'jump':
            alg = self._alg('IterativeTransDMetropolisHastingsGaussianTape', sampling_prior=case['prior'], dc_sigma_g=case['sg'],
                            dc_sigma_d=case['sd'])
            alg.jump = True
            out = {'pn': float(alg.alpha['proposal_normalisation']), 'q': float(alg.jump_params(dict(case['mt']))),
                   'pi_mt': float(alg.prior(case['mt'])), 'widths': {kk: float(v) for kk, v in alg.alpha.items()}}
            dcp = {kk: v for kk, v in case['dcs'].items() if kk not in ('gamma', 'delta')}
            out['pi_dc'] = float(alg.prior(dcp))
            alg.dc = True
            alg.xi = dict(case['dcs'])
            alg.ln_likelihood_xi = case['L']
            out['a_up'] = float(alg.acceptance(dict(case['mt']), case['Lp'], case['p']))
            alg.dc = False
            alg.xi = dict(case['mt'])
            alg.ln_likelihood_xi = case['Lp']
            xd = dict(case['dcs'])
            xd['g0'], xd['d0'] = case['mt']['gamma'], case['mt']['delta']
            out['a_down'] = float(alg.acceptance(xd, case['L'], case['p']))
            alg.jump = False
            return out
        if k == 'decision':
            sub = case['sub']
            if sub == 'shift':
                cls = 'IterativeMultipleTryMetropolisHastingsGaussianTape' if case['multitry'] else 'IterativeMetropolisHastingsGaussianTape'
                alg = self._alg(cls, sampling_prior=case['prior'], dc=case['dc'])
                alg.alpha = dict(case['w'])
                alg.dc = case['dc']
                alg.xi = dict(case['xi'])
                prop = dict(case['x'])
            else:
                cls = 'IterativeMultipleTryTransDMetropolisHastingsGaussianTape' if case['multitry'] else 'IterativeTransDMetropolisHastingsGaussianTape'
                alg = self._alg(cls, sampling_prior=case['prior'], dc_prior=round(case['p'], 6))
                alg.dc_prior = case['p']
                alg.jump = True
                if sub == 'jump-up':
                    alg.dc = True
                    alg.xi = dict(case['dcs'])
                    prop = dict(case['mt'])
                else:
                    alg.dc = False
                    alg.xi = dict(case['mt'])
                    prop = dict(case['dcs'])
            alg.xi_1 = prop
            alg.ln_likelihood_xi = case['L']
            res = {'widths': {kk: float(v) for kk, v in alg.alpha.items()}}
            # the model's acceptance probability decides where the forced uniform draw is placed
            from common import run_driver
            a = reply_floats(run_driver([self._decision_request(case, res['widths'])])[0])[0]
            mode = case['umode']
            u = {'zero': 0.0, 'below': a * (1 - 1e-6), 'above': min(a * (1 + 1e-6) + 1e-12, 0.999999), 'mid': a / 2, 'high': 0.999999}[mode]
            res['u'], res['a_model'] = u, a
            lp = self.LnPDF(np.array([[case['Lp']]])) if (case['as_lnpdf'] or case['multitry']) else case['Lp']
            orig = np.random.rand
            try:
                np.random.rand = lambda *a_: u
                r = alg._acceptance_check(prop, lp, False)
            finally:
                np.random.rand = orig
                alg.jump = False
            res['accepted'] = bool(len(r[0]) > 0)
            # acceptance probability with the configured model prior, through the public method
            if sub != 'shift':
                alg.jump = True
                try:
                    res['a_conf'] = float(alg.acceptance(dict(prop), case['Lp'], alg.dc_prior))
                finally:
                    alg.jump = False
            return res
        # jump-density: integral of the coded density of the balancing draw over the source-type box
        from scipy import integrate
        alg = self._alg('IterativeTransDMetropolisHastingsGaussianTape', dc_sigma_g=case['sg'], dc_sigma_d=case['sd'])
        val = integrate.dblquad(lambda d, g: float(alg.jump_params({'gamma': g, 'delta': d})), -PI / 6, PI / 6, -PI / 2, PI / 2,
                                epsabs=1e-10, epsrel=1e-10)[0]
        # the balancing DRAW under replayed normal deviates: which width scales which coordinate, compared with the widths the density uses
        zs = [0.31, -0.47, 0.83, 0.11, -0.29, 0.05]
        pos = [0]
        o = np.random.randn

        def randn(*a):
            z = zs[pos[0] % len(zs)]
            pos[0] += 1
            return z
        np.random.randn = randn
        try:
            draws = [[float(v) for v in alg.jump_params()] for _ in range(3)]
        finally:
            np.random.randn = o
        q0 = float(alg.jump_params({'gamma': 1e-9, 'delta': 1e-9}))
        qg = float(alg.jump_params({'gamma': 0.05, 'delta': 1e-9}))
        qd = float(alg.jump_params({'gamma': 1e-9, 'delta': 0.05}))
        # widths implied by the Gaussian density: q(g,0)/q(0,0) = exp(-g^2 / (2 sg^2))
        wg = 0.05 / math.sqrt(-2 * math.log(qg / q0)) if 0 < qg < q0 else float('nan')
        wd = 0.05 / math.sqrt(-2 * math.log(qd / q0)) if 0 < qd < q0 else float('nan')
        return {'integral': float(val), 'draws': draws, 'zs': zs, 'density_widths': [wg, wd], 'pn': float(alg.alpha['proposal_normalisation'])}

    # ------------------------------------------------------------------ model
    def _pk(self, case):
        return 0 if case['prior'] == 'uniform_prior' else 1

    def _decision_request(self, case, widths):
        pk = self._pk(case)
        w = widths_bits(widths)
        if case['sub'] == 'shift':
            return 'acceptmh %d %d %s %s %s %s %s' % (pk, 1 if case['dc'] else 0, w, tape_bits(case['xi']), tape_bits(case['x']),
                                                      bits(case['L']), bits(case['Lp']))
        if case['sub'] == 'jump-up':
            return 'acceptjump 0 %d %s %s %s %s %s %s' % (pk, w, tape_bits(case['dcs']), tape_bits(case['mt']), bits(case['p']),
                                                          bits(case['L']), bits(case['Lp']))
        return 'acceptjump 1 %d %s %s %s %s %s %s' % (pk, w, tape_bits(case['mt']), tape_bits(case['dcs']), bits(case['p']),
                                                      bits(case['L']), bits(case['Lp']))

    def _model_a(self, case):
        """request computing the model acceptance probability for a decision case"""
        pk = self._pk(case)
        if case['sub'] == 'shift':
            return 'acceptmh %d %d %s %s %s %s %s' % (pk, 1 if case['dc'] else 0, widths_bits(case['w']), tape_bits(case['xi']),
                                                      tape_bits(case['x']), bits(case['L']), bits(case['Lp']))
        return None

    def requests(self, case, impl):
        k = case['kind']
        pk = self._pk(case) if 'prior' in case else 0
        if k == 'shift':
            dc = 1 if case['dc'] else 0
            w = widths_bits(case['w'])
            return ['transpdf %d %s %s %s' % (dc, w, tape_bits(case['x']), tape_bits(case['xi'])),
                    'transpdf %d %s %s %s' % (dc, w, tape_bits(case['xi']), tape_bits(case['x'])),
                    'prior %d %d %s' % (pk, dc, tape_bits(case['xi'])), 'prior %d %d %s' % (pk, dc, tape_bits(case['x'])),
                    'acceptmh %d %d %s %s %s %s %s' % (pk, dc, w, tape_bits(case['xi']), tape_bits(case['x']), bits(case['L']), bits(case['Lp'])),
                    'acceptmh %d %d %s %s %s %s %s' % (pk, dc, w, tape_bits(case['x']), tape_bits(case['xi']), bits(case['Lp']), bits(case['L']))]
        if k == 'multi':
            def evs(a, b):
                return ' '.join('%d %s %s %s' % (1 if d else 0, widths_bits(w), tape_bits(p), tape_bits(q))
                                for d, w, p, q in zip(case['dc'], case['w'], a, b))
            n = len(case['dc'])
            return ['acceptmulti %d %d %s %s %s' % (pk, n, evs(case['xi'], case['x']), bits(case['L']), bits(case['Lp'])),
                    'acceptmulti %d %d %s %s %s' % (pk, n, evs(case['x'], case['xi']), bits(case['Lp']), bits(case['L']))]
        if k == 'jump':
            if not isinstance(impl, dict) or 'widths' not in impl:
                return []
            w = widths_bits(impl['widths'])
            return ['jumpq %s %s' % (w, tape_bits(case['mt'])),
                    'acceptjump 0 %d %s %s %s %s %s %s' % (pk, w, tape_bits(case['dcs']), tape_bits(case['mt']), bits(case['p']), bits(case['L']), bits(case['Lp'])),
                    'acceptjump 1 %d %s %s %s %s %s %s' % (pk, w, tape_bits(case['mt']), tape_bits(case['dcs']), bits(case['p']), bits(case['Lp']), bits(case['L']))]
        if k == 'decision':
            if not isinstance(impl, dict) or 'widths' not in impl:
                return []
            return [self._decision_request(case, impl['widths'])]
        if k == 'jump-density':
            return ['propnorm %s %s' % (bits(case['sg']), bits(case['sd']))]
        return []

    # decision cases need the model's acceptance before the implementation can be driven: two-phase evaluation
    def impl_wrapper_prepare(self, case):
        pass

    def compare(self, case, impl, replies):
        if 'exc' in impl:
            return [('implementation raised %s: %s' % (impl['exc'], impl.get('msg')), impl)]
        k = case['kind']
        out = []
        if k == 'shift':
            names = ['q_fwd', 'q_bwd', 'pi_xi', 'pi_x', 'a_fwd', 'a_bwd']
            for nme, rep in zip(names, replies):
                m = reply_floats(rep)[0]
                if not close(m, impl[nme], rtol=1e-8, atol=1e-300):
                    out.append(('%s: model %r, implementation %r' % (nme, m, impl[nme]), None))
                    break
        elif k == 'multi':
            for nme, rep in zip(['a_fwd', 'a_bwd'], replies):
                m = reply_floats(rep)[0]
                if not close(m, impl[nme], rtol=1e-8, atol=1e-300):
                    out.append(('multi-event %s: model %r, implementation %r' % (nme, m, impl[nme]), None))
                    break
        elif k == 'jump-density':
            m = reply_floats(replies[0])[0]
            if not close(m, impl['pn'], rtol=1e-9, atol=1e-12):
                out.append(('proposal_normalisation: model %r (mass of the two normal distributions on the lune ranges), implementation %r' % (m, impl['pn']), None))
        elif k == 'jump':
            for nme, rep in zip(['q', 'a_up', 'a_down'], replies):
                m = reply_floats(rep)[0]
                if not close(m, impl[nme], rtol=1e-8, atol=1e-300):
                    out.append(('jump %s: model %r, implementation %r' % (nme, m, impl[nme]), None))
                    break
        elif k == 'decision':
            a = reply_floats(replies[0])[0]
            u = impl['u']
            exp = u < a
            if abs(u - a) < 1e-9 * max(a, 1e-300) and u != 0.0:
                return []          # too close to call in floating point
            if impl['accepted'] != exp:
                out.append(('decision (%s, u=%r, model a=%r): model %s, implementation %s' %
                            (case['sub'], u, a, 'accept' if exp else 'reject', 'accept' if impl['accepted'] else 'reject'), None))
        return out

    # ------------------------------------------------------------------ oracle
    def oracle(self, case, impl):
        if 'exc' in impl:
            return [('raises', '%s raised %s: %s' % (case['kind'], impl['exc'], impl.get('msg')), impl)]
        k = case['kind']
        out = []

        def balance(pi0, L, qf, a0, pi1, Lp, qb, a1, what):
            if L == NEG_INF or Lp == NEG_INF:
                return
            lhs = pi0 * qf * a0
            rhs = pi1 * qb * a1
            # compare in log domain to avoid overflow of exp(L)
            if lhs == 0 or rhs == 0:
                if not (lhs == 0 and rhs == 0) and max(lhs, rhs) > 1e-280:
                    # one side exactly zero: only legitimate when the other underflows
                    big = max(lhs, rhs)
                    if big * math.exp(min(0.0, -abs(L - Lp))) > 1e-290:
                        out.append(('balance', '%s: one side of the balance is zero, the other is not (%r vs %r)' % (what, lhs, rhs), None))
                return
            d = (math.log(lhs) + L) - (math.log(rhs) + Lp)
            # factors (or their products) in the subnormal range carry a relative rounding error of 2^-1074 / value
            sub = sum(2e-323 / f for f in (pi0, qf, a0, pi1, qb, a1, pi0 * qf, pi1 * qb, lhs, rhs) if 0 < f < 2.3e-308)
            if abs(d) > 1e-7 + sub:
                out.append(('balance', '%s: prior*exp(L)*q*a differs between the two directions by a factor exp(%r)' % (what, d), None))
        for nme in ('a_fwd', 'a_bwd', 'a_up', 'a_down'):
            if nme in impl and not (0.0 <= impl[nme] <= 1.0):
                out.append(('range', '%s = %r is not a probability' % (nme, impl[nme]), None))
        if k == 'shift' and 'q_fwd_params' not in impl:
            # the density of the proposal actually made (C06): truncated normals on the closed ranges, evaluated here from the definition
            def tq(x, m, sd_, lo, hi):
                pdf = math.exp(-0.5 * ((x - m) / sd_) ** 2) / (sd_ * math.sqrt(2 * math.pi))
                cdf = lambda v: 0.5 * (1 + math.erf((v - m) / (sd_ * math.sqrt(2))))
                return pdf / (cdf(hi) - cdf(lo))

            def qof(x, x1):
                w = case['w']
                q = tq(x['h'], x1['h'], w['h'], 0.0, 1.0) * tq(x['sigma'], x1['sigma'], w['sigma'], -PI / 2, PI / 2)
                if not case['dc']:
                    q *= tq(x['gamma'], x1['gamma'], w['gamma'], -PI / 6, PI / 6) * tq(x['delta'], x1['delta'], w['delta'], -PI / 2, PI / 2)
                return q
            try:
                for nme, a_, b_ in (('q_fwd', case['x'], case['xi']), ('q_bwd', case['xi'], case['x'])):
                    ref = qof(a_, b_)
                    if ref > 1e-280 and not close(impl[nme], ref, rtol=1e-6, atol=0.0):
                        out.append(('proposal-density', 'transition_pdf gives %r for a move whose truncated-Gaussian proposal density (closed ranges, states on the boundary included) is %r: %r -> %r'
                                    % (impl[nme], ref, b_, a_), None))
                        break
            except (OverflowError, ZeroDivisionError, ValueError):
                pass
        if k in ('shift', 'multi'):
            if case['Lp'] == NEG_INF and impl['a_fwd'] != 0:
                out.append(('zero-likelihood', 'zero-likelihood proposal has acceptance %r' % impl['a_fwd'], None))
            if case['L'] == NEG_INF and case['Lp'] != NEG_INF and impl['a_fwd'] != 1:
                out.append(('zero-start', 'chain on a zero-likelihood state accepts with probability %r' % impl['a_fwd'], None))
            # q is the density of the proposal actually made: a function of the source parameters of the two states only (not of what the
            # sampler's state dictionary happens to carry along from an earlier jump)
            balance(impl['pi_xi'], case['L'], impl.get('q_fwd_params', impl['q_fwd']), impl['a_fwd'], impl['pi_x'], case['Lp'],
                    impl.get('q_bwd_params', impl['q_bwd']), impl['a_bwd'],
                    ('shift from the state held after an accepted model jump' if 'after_jump_from' in case else 'shift') if k == 'shift' else 'joint shift')
        elif k == 'jump':
            if case['Lp'] == NEG_INF and impl['a_up'] != 0:
                out.append(('zero-likelihood', 'zero-likelihood jump proposal has acceptance %r' % impl['a_up'], None))
            p = case['p']
            balance(impl['pi_dc'] * p * impl['q'], case['L'], 1.0, impl['a_up'], impl['pi_mt'] * (1 - p), case['Lp'], 1.0, impl['a_down'],
                    'dimension jump')
        elif k == 'decision':
            if 'a_conf' in impl and abs(impl['u'] - impl['a_conf']) > 1e-9 and impl['accepted'] != (impl['u'] < impl['a_conf']):
                out.append(('dc-prior-ignored', 'trans-dimensional decision does not follow the acceptance probability for the configured '
                            'double-couple prior %r: a = %r, uniform draw %r, %s' % (case['p'], impl['a_conf'], impl['u'],
                                                                                   'accepted' if impl['accepted'] else 'rejected'), None))
            if case['Lp'] == NEG_INF and impl['accepted']:
                out.append(('zero-accepted', 'a zero-likelihood proposal was accepted (uniform draw %r)' % impl.get('u'), None))
        elif k == 'jump-density':
            wg, wd = impl['density_widths']
            zs = impl['zs']
            for i, (g, d) in enumerate(impl['draws']):
                zg, zd = zs[(2 * i) % len(zs)], zs[(2 * i + 1) % len(zs)]
                if not (close(g, wg * zg, rtol=1e-6, atol=1e-9) and close(d, wd * zd, rtol=1e-6, atol=1e-9)):
                    out.append(('jump-draw', 'the dimension-balancing draw for normal deviates (%r, %r) is (gamma, delta) = (%r, %r); the density jump_params(x) used in '
                                'the acceptance has widths (%r, %r), i.e. expects (%r, %r)' % (zg, zd, g, d, wg, wd, wg * zg, wd * zd), None))
                    break
            if abs(impl['integral'] - 1.0) > 1e-6:
                out.append(('jump-density-normalisation', 'the coded density of the dimension-balancing draw integrates to %r over the '
                            'source-type box (sigma_g=%r, sigma_d=%r), not 1' % (impl['integral'], case['sg'], case['sd']), None))
        return out

    def nontrivial(self, case, impl):
        return case.get('L', 0) != NEG_INF and case.get('Lp', 0) != NEG_INF

    def branch(self, case, impl):
        k = case['kind']
        if k == 'decision':
            return 'decision/%s/%s' % (case['sub'], case['umode'])
        if k == 'shift':
            return 'shift/%s/%s' % ('dc' if case['dc'] else 'mt', case['prior'])
        return k


if __name__ == '__main__':
    import sys
    sys.exit(main(C05()))
