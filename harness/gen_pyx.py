#!/venv/bin/python
"""Translator from the scalar kernels of MTfit's Cython sources (.pyx) to Lean definitions over the scalar class `Flt`.

Every `cdef` / `cpdef` function of the listed .pyx files is tried.  A function is translated when its parameters are C scalars,
output pointers (`DTYPE_t* p`, written as `p[0] = ...`, or `p[i] = ...` for small constant i) or input vectors read at constant
indices, and its body consists of typed declarations, assignments, `if / elif / else`, `return` and calls of libc.math functions or
of other translated kernels.  Loops, memory-view plumbing, Python objects and random numbers are outside the fragment: such
functions are listed as not translated, with the reason.

Output: lean/MTfitVerif/Model/PyxKernels.lean (definitions) and lean/MTfitVerif/Driver/PyxOps.lean (evaluation table for the
driver).  The files are regenerated from /repo on every run of the C20 check; the theorems of Props/C20.lean are stated about the
generated definitions, so they are re-checked against what the .pyx says now.

Semantics of the translation (trusted):
  * C `double` expressions become `Flt` expressions with the same operator tree (left-to-right association kept);
  * sequential assignment becomes `let` (shadowing); an `if` without `return` duplicates the continuation into both branches;
  * an output pointer cell is a variable initialised with the cell's previous content (an extra argument `<p>_<i>_in`);
    a `void` kernel returns the tuple of its output cells (pointer parameters in order, indices ascending);
  * `x**2` is `x*x`; `pow(a,b)` is `exp(b*log a)`; `fmod(a,b)` is `a - b*trunc(a/b)`; `fmin/fmax/fabs` as libc;
  * `/` is IEEE division (`cdivision=True`); a division of two integer literals is rejected (C integer division).
"""
import ast
import hashlib
import os
import re
import sys
import textwrap

REPO = os.environ.get('MTFIT_REPO', '/repo')
VERIF = os.path.dirname(os.path.dirname(os.path.abspath(__file__)))
SOURCES = [('cprobability', 'src/MTfit/probability/cprobability.pyx'),
           ('cmcmc', 'src/MTfit/algorithms/cmarkov_chain_monte_carlo.pyx'),
           ('cconvert', 'src/MTfit/convert/cmoment_tensor_conversion.pyx'),
           ('cscatangle', 'src/MTfit/extensions/cscatangle.pyx')]

MATH1 = {'sqrt': 'Flt.sqrt', 'exp': 'Flt.exp', 'log': 'Flt.log', 'fabs': 'Flt.abs', 'cos': 'Flt.cos', 'sin': 'Flt.sin', 'tan': 'Flt.tan',
         'acos': 'Flt.acos', 'asin': 'Flt.asin', 'atan': 'Flt.atan', 'erf': 'Flt.erf', 'floor': 'Flt.floor', 'abs': 'Flt.abs'}
BUILTIN_CONST = {'inf': '((c 1) / (c 0))', 'pi': 'Flt.pi', 'sqrt2': '(Flt.sqrt (c 2))', 'M_PI': 'Flt.pi', 'M_SQRT2': '(Flt.sqrt (c 2))'}
SCALAR_TYPES = {'DTYPE_t', 'double', 'int', 'long', 'LONG', 'Py_ssize_t', 'float', 'bint', 'bool'}
LEAN_KEYWORDS = {'at', 'from', 'fun', 'have', 'show', 'then', 'else', 'if', 'let', 'in', 'do', 'end', 'open', 'def', 'theorem', 'h', 'c', 'sci',
                 'half', 'dot', 'by', 'with', 'match', 'instance', 'structure', 'class', 'where', 'variable', 'namespace', 'section'}


class Unsupported(Exception):
    pass


def lean_name(n):
    return n + "'" if n in LEAN_KEYWORDS else n


def lit(text):
    """decimal literal -> Lean term (exact rational value of the literal's decimal expansion)"""
    t = text.lower().rstrip('lf')
    m = re.fullmatch(r'(\d*)\.?(\d*)(?:e([+-]?\d+))?', t)
    if not m or (m.group(1) == '' and m.group(2) == ''):
        raise Unsupported('literal %r' % text)
    ip, fp, ex = m.group(1) or '0', m.group(2) or '', int(m.group(3) or 0)
    fp = fp.rstrip('0')
    mant = int(ip + fp)
    e10 = len(fp) - ex            # value = mant * 10^-e10
    if e10 <= 0:
        return '(c %d)' % (mant * 10 ** (-e10))
    return '(sci %d %d)' % (mant, e10)


# ----------------------------------------------------------------------------------------------------------- source extraction

def strip_comment(line):
    out, q = [], None
    for ch in line:
        if q:
            if ch == q:
                q = None
        elif ch in '"\'':
            q = ch
        elif ch == '#':
            break
        out.append(ch)
    return ''.join(out).rstrip()


HEAD = re.compile(r'^\s*(cdef|cpdef)\s+(?:inline\s+)?(?:([A-Za-z_]\w*(?:\s*\[[:,1 ]*\])?)\s+)?([A-Za-z_]\w*)\s*\((.*)\)\s*(nogil)?\s*:\s*$')


def functions(path):
    """[(name, rettype, paramtext, bodylines, indent)] for every cdef/cpdef function (first definition of a name wins)"""
    lines = open(path).read().split('\n')
    out, seen = [], set()
    i = 0
    windows = False            # inside the Windows branch of a compile-time IF (libc replacements): not the code built here
    while i < len(lines):
        raw = strip_comment(lines[i])
        if re.match(r'^IF\s+.*Windows', raw):
            windows = True
        elif re.match(r'^(ELSE|ELIF)\b', raw) or (raw and not raw[0].isspace() and not raw.startswith('@')):
            windows = False
        m = HEAD.match(raw)
        if m and windows:
            m = None
        if m and not raw.lstrip().startswith(('cdef class', 'cdef extern', 'cdef struct')):
            ind = len(raw) - len(raw.lstrip())
            body = []
            j = i + 1
            while j < len(lines):
                l = lines[j]
                if l.strip() == '' or l.strip().startswith('#'):
                    j += 1
                    continue
                li = len(l) - len(l.lstrip())
                if li <= ind:
                    break
                body.append(strip_comment(l))
                j += 1
            name = m.group(3)
            if name not in seen:
                seen.add(name)
                out.append((name, (m.group(2) or 'object').strip(), m.group(4), [b for b in body if b.strip()]))
            i = j
        else:
            i += 1
    return out


def module_constants(path):
    """module-level (possibly inside an IF block) `cdef DTYPE_t NAME=expr` with a purely numeric right-hand side"""
    consts = {}
    for l in open(path).read().split('\n'):
        m = re.match(r'^\s*cdef\s+(?:DTYPE_t|double)\s+([A-Za-z_]\w*)\s*=\s*([^#]+)', l)
        if m and m.group(1) not in consts:
            try:
                tree = ast.parse(m.group(2).strip().rstrip(';'), mode='eval')
            except SyntaxError:
                continue
            consts[m.group(1)] = tree.body
    return consts


def parse_params(text):
    """[(name, kind)] kind in scalar | outptr | vec"""
    params = []
    depth, cur, parts = 0, '', []
    for ch in text:
        if ch in '[(':
            depth += 1
        elif ch in '])':
            depth -= 1
        if ch == ',' and depth == 0:
            parts.append(cur)
            cur = ''
        else:
            cur += ch
    if cur.strip():
        parts.append(cur)
    for p in parts:
        p = p.strip()
        if not p:
            continue
        if '=' in p:
            raise Unsupported('default argument')
        m = re.fullmatch(r'([A-Za-z_]\w*)\s*(\*?)\s*(\[[:,1 ]*\])?\s*(\*?)\s*([A-Za-z_]\w*)', p)
        if not m:
            raise Unsupported('parameter %r' % p)
        typ, star1, mv, star2, name = m.groups()
        if typ.endswith('_ptr') and not (star1 or star2 or mv):
            params.append((name, 'fn'))          # pointer to a scalar kernel: a function argument
            continue
        if typ not in SCALAR_TYPES:
            raise Unsupported('parameter type %s' % typ)
        if mv:
            if mv.count(':') - mv.count('::') * 1 > 1 and ',' in mv:
                raise Unsupported('multi-dimensional memory view')
            params.append((name, 'vec'))
        elif star1 or star2:
            params.append((name, 'outptr'))
        else:
            params.append((name, 'scalar'))
    return params


def body_to_python(body):
    """Cython statements -> Python source"""
    out = []
    for l in body:
        ind = l[:len(l) - len(l.lstrip())]
        s = l.strip().rstrip(';')
        m = re.match(r'^cdef\s+(?:DTYPE_t|double|int|long|Py_ssize_t|float)\s+(.*)$', s)
        if m:
            rest = m.group(1)
            if '=' not in rest:
                continue                                  # pure declaration
            # possibly several initialised declarators:  a=1, b=2  (commas inside calls are kept)
            out.append(ind + rest)
            continue
        if s.startswith('cdef '):
            raise Unsupported('declaration %r' % s)
        if re.match(r'^for\s+\w+\s+from\b', s):
            raise Unsupported('loop')
        # address of a scalar local or of a constant cell of a vector, passed as an output pointer
        s = re.sub(r'&\s*([A-Za-z_]\w*(?:\[\s*\d+\s*\])?)\s*(?=[,)])', r'__ref__(\1)', s)
        out.append(ind + s)
    src = textwrap.dedent('\n'.join(out))
    return src


# ----------------------------------------------------------------------------------------------------------- translation

class Ctx(object):
    def __init__(self, module, consts, known):
        self.module, self.consts, self.known = module, consts, known     # known: name -> (params, outs) of translated kernels
        self.used_consts = set()
        self.calls = set()


def is_int_lit(n):
    return isinstance(n, ast.Constant) and isinstance(n.value, int) and not isinstance(n.value, bool)


def expr(n, env, cx):
    if isinstance(n, ast.Constant):
        if isinstance(n.value, bool):
            raise Unsupported('boolean constant')
        if isinstance(n.value, int):
            return '(c %d)' % n.value if n.value >= 0 else '(-(c %d))' % (-n.value)
        if isinstance(n.value, float):
            return lit(repr(n.value)) if not hasattr(n, '_text') else lit(n._text)
        raise Unsupported('constant %r' % (n.value,))
    if isinstance(n, ast.Name):
        if n.id in env:
            return env[n.id]
        if n.id in BUILTIN_CONST:
            return BUILTIN_CONST[n.id]
        if n.id in cx.consts:
            cx.used_consts.add(n.id)
            return 'k_' + n.id
        raise Unsupported('name %s' % n.id)
    if isinstance(n, ast.Subscript):
        idx = n.slice
        if isinstance(n.value, ast.Name) and isinstance(idx, ast.Name) and ('arr:' + n.value.id) in env and ('idx:' + idx.id) in env:
            return '(%s.getD %s (c 0))' % (env['arr:' + n.value.id], env['idx:' + idx.id])
        if isinstance(n.value, ast.Name) and is_int_lit(idx):
            key = '%s[%d]' % (n.value.id, idx.value)
            if key in env:
                return env[key]
            if env.get('vec:' + n.value.id):
                return '(%s.getD %d (c 0))' % (lean_name(n.value.id), idx.value)
        raise Unsupported('subscript')
    if isinstance(n, ast.UnaryOp):
        if isinstance(n.op, ast.USub):
            return '(-%s)' % expr(n.operand, env, cx)
        if isinstance(n.op, ast.UAdd):
            return expr(n.operand, env, cx)
        raise Unsupported('unary op')
    if isinstance(n, ast.BinOp):
        if isinstance(n.op, ast.Pow):
            if is_int_lit(n.right) and n.right.value == 2:
                a = expr(n.left, env, cx)
                return '(%s * %s)' % (a, a)
            raise Unsupported('power')
        ops = {ast.Add: '+', ast.Sub: '-', ast.Mult: '*', ast.Div: '/'}
        if type(n.op) not in ops:
            raise Unsupported('operator %s' % type(n.op).__name__)
        if isinstance(n.op, ast.Div) and is_int_lit(n.left) and is_int_lit(n.right):
            raise Unsupported('integer division of literals')
        return '(%s %s %s)' % (expr(n.left, env, cx), ops[type(n.op)], expr(n.right, env, cx))
    if isinstance(n, ast.Call):
        if not isinstance(n.func, ast.Name) or n.keywords:
            raise Unsupported('call')
        f = n.func.id
        args = [expr(a, env, cx) for a in n.args]
        if f in MATH1 and len(args) == 1:
            return '(%s %s)' % (MATH1[f], args[0])
        if f == 'atan2' and len(args) == 2:
            return '(Flt.atan2 %s %s)' % tuple(args)
        if f == 'pow' and len(args) == 2:
            return '(Flt.exp (%s * Flt.log %s))' % (args[1], args[0])
        if f == 'fmin' and len(args) == 2:
            return '(fmin %s %s)' % tuple(args)
        if f == 'fmax' and len(args) == 2:
            return '(fmax %s %s)' % tuple(args)
        if f == 'fmod' and len(args) == 2:
            return '(cfmod %s %s)' % tuple(args)
        if env.get('fn:' + f):
            ar = env['fnarity'].setdefault(f, len(args))
            if ar != len(args):
                raise Unsupported('function parameter %s called with different numbers of arguments' % f)
            return '(%s %s)' % (lean_name(f), ' '.join(args))
        if f in cx.known:
            params, outs, ret = cx.known[f]
            if ret == 'void':
                raise Unsupported('void kernel used as a value')
            if any(k != 'scalar' for _n, k in params) or len(args) != len(params):
                raise Unsupported('call of %s with non-scalar parameters' % f)
            cx.calls.add(f)
            return '(%s %s)' % (lean_name(f), ' '.join(args))
        raise Unsupported('call of %s' % f)
    raise Unsupported('expression %s' % type(n).__name__)


def cond(n, env, cx):
    if isinstance(n, ast.BoolOp):
        op = ' && ' if isinstance(n.op, ast.And) else ' || '
        return '(' + op.join(cond(v, env, cx) for v in n.values) + ')'
    if isinstance(n, ast.UnaryOp) and isinstance(n.op, ast.Not):
        return '(!%s)' % cond(n.operand, env, cx)
    if isinstance(n, ast.Compare) and len(n.ops) == 1:
        a, b = expr(n.left, env, cx), expr(n.comparators[0], env, cx)
        op = n.ops[0]
        if isinstance(op, ast.Lt):
            return '(Flt.ltb %s %s)' % (a, b)
        if isinstance(op, ast.Gt):
            return '(Flt.ltb %s %s)' % (b, a)
        if isinstance(op, ast.LtE):
            return '(Flt.leb %s %s)' % (a, b)
        if isinstance(op, ast.GtE):
            return '(Flt.leb %s %s)' % (b, a)
        if isinstance(op, ast.Eq):
            return '(Flt.eqb %s %s)' % (a, b)
        if isinstance(op, ast.NotEq):
            return '(!(Flt.eqb %s %s))' % (a, b)
    raise Unsupported('condition')


class Gen(object):
    """statement list -> Lean term (continuation style)"""

    def __init__(self, cx, result):
        self.cx, self.result, self.fresh = cx, result, 0

    def var(self, base):
        self.fresh += 1
        return '%s_%d' % (re.sub(r'\W', '_', base), self.fresh)

    def block(self, stmts, env, k, ind):
        """k(env) -> term for what follows the block; returns term"""
        if not stmts:
            return k(env)
        s, rest = stmts[0], stmts[1:]
        pad = '  ' * ind
        if isinstance(s, ast.Return):
            if s.value is None:
                return self.result(env)
            if isinstance(s.value, ast.Name) and env.get('vec:' + s.value.id):
                return self.result(env)
            return expr(s.value, env, self.cx)
        if isinstance(s, (ast.Assign, ast.AugAssign)):
            if isinstance(s, ast.Assign):
                if len(s.targets) != 1:
                    raise Unsupported('multiple assignment')
                tgt, val = s.targets[0], s.value
                if isinstance(tgt, ast.Tuple):
                    if not isinstance(val, ast.Tuple) or len(val.elts) != len(tgt.elts):
                        raise Unsupported('tuple assignment')
                    vals = [expr(v, env, self.cx) for v in val.elts]
                    env = dict(env)
                    lets = ''
                    for t, v in zip(tgt.elts, vals):
                        key = self.key(t)
                        nm = self.var(key)
                        lets += '%slet %s := %s\n' % (pad, nm, v)
                        env[key] = nm
                    return lets + self.block(rest, env, k, ind)
                v = expr(val, env, self.cx)
            else:
                ops = {ast.Add: '+', ast.Sub: '-', ast.Mult: '*', ast.Div: '/'}
                if type(s.op) not in ops:
                    raise Unsupported('augmented operator')
                tgt = s.target
                v = '(%s %s %s)' % (expr(tgt, env, self.cx), ops[type(s.op)], expr(s.value, env, self.cx))
            key = self.key(tgt)
            if isinstance(tgt, ast.Subscript) and key not in env:
                raise Unsupported('write to %s' % key)
            nm = self.var(key)
            env = dict(env)
            env[key] = nm
            return '%slet %s := %s\n' % (pad, nm, v) + self.block(rest, env, k, ind)
        if isinstance(s, ast.If):
            c = cond(s.test, env, self.cx)
            cont = lambda e: self.block(rest, e, k, ind + 1)
            a = self.block(s.body, env, cont, ind + 1)
            b = self.block(s.orelse, env, cont, ind + 1)
            return '%sif %s then\n%s\n%selse\n%s' % (pad, c, self.indent(a, ind + 1), pad, self.indent(b, ind + 1))
        if isinstance(s, ast.Expr) and isinstance(s.value, ast.Call) and isinstance(s.value.func, ast.Name) and s.value.func.id in self.cx.known:
            f = s.value.func.id
            params, outs, ret = self.cx.known[f]
            if ret != 'void' or len(s.value.args) != len(params):
                raise Unsupported('statement call of %s' % f)
            args, bind = [], []
            for (pn, kind), a in zip(params, s.value.args):
                if kind == 'scalar':
                    args.append(expr(a, env, self.cx))
                elif kind == 'outptr':
                    cells = [o for o in outs if o[0] == pn]
                    if isinstance(a, ast.Call) and isinstance(a.func, ast.Name) and a.func.id == '__ref__' and len(a.args) == 1:
                        # &local or &vec[const]: the callee's cell 0 is that variable / cell
                        if [i for _pn, i in cells] != [0]:
                            raise Unsupported('address-of argument for a pointer written beyond cell 0')
                        key = self.key(a.args[0])
                        if key not in env:
                            if isinstance(a.args[0], ast.Name):
                                raise Unsupported('address of undeclared local %s' % key)
                            raise Unsupported('pointer %s not an output cell here' % key)
                        args.append(env[key])
                        bind.append(key)
                        continue
                    if not isinstance(a, ast.Name):
                        raise Unsupported('pointer argument expression')
                    for (_pn, i) in cells:
                        key = '%s[%d]' % (a.id, i)
                        if key not in env:
                            raise Unsupported('pointer %s not an output cell here' % key)
                        args.append(env[key])
                        bind.append(key)
                else:
                    raise Unsupported('vector argument')
            self.cx.calls.add(f)
            r = self.var('r')
            env = dict(env)
            out = '%slet %s := %s %s\n' % (pad, r, lean_name(f), ' '.join(args))
            for i, key in enumerate(bind):
                nm = self.var(key)
                env[key] = nm
                out += '%slet %s := %s\n' % (pad, nm, proj(r, i, len(bind)))
            return out + self.block(rest, env, k, ind)
        if isinstance(s, ast.Pass):
            return self.block(rest, env, k, ind)
        raise Unsupported('statement %s' % type(s).__name__)

    @staticmethod
    def indent(t, ind):
        return t

    @staticmethod
    def key(t):
        if isinstance(t, ast.Name):
            return t.id
        if isinstance(t, ast.Subscript) and isinstance(t.value, ast.Name) and is_int_lit(t.slice):
            return '%s[%d]' % (t.value.id, t.slice.value)
        raise Unsupported('assignment target')


def proj(r, i, n):
    if n == 1:
        return r
    return '%s.%s' % (r, '2.' * i + '1' if i < n - 1 else ('2.' * i)[:-1])


def out_cells(params, tree, known):
    """cells written through output pointers / result vectors: [(param, index)] sorted"""
    names = {n for n, k in params if k in ('outptr', 'vec')}
    cells = set()
    for node in ast.walk(tree):
        if isinstance(node, ast.Expr) and isinstance(node.value, ast.Call) and isinstance(node.value.func, ast.Name) and node.value.func.id in known:
            cparams, couts, _r = known[node.value.func.id]
            for (pn, kind), a in zip(cparams, node.value.args):
                if kind == 'outptr' and isinstance(a, ast.Name) and a.id in names:
                    for (qn, i) in couts:
                        if qn == pn:
                            cells.add((a.id, i))
                if kind == 'outptr' and isinstance(a, ast.Call) and isinstance(a.func, ast.Name) and a.func.id == '__ref__' and len(a.args) == 1 \
                        and isinstance(a.args[0], ast.Subscript) and isinstance(a.args[0].value, ast.Name) and a.args[0].value.id in names and is_int_lit(a.args[0].slice):
                    cells.add((a.args[0].value.id, a.args[0].slice.value))
        tgts = []
        if isinstance(node, ast.Assign):
            tgts = node.targets
        elif isinstance(node, ast.AugAssign):
            tgts = [node.target]
        for t in tgts:
            for tt in (t.elts if isinstance(t, ast.Tuple) else [t]):
                if isinstance(tt, ast.Subscript) and isinstance(tt.value, ast.Name) and tt.value.id in names:
                    if not is_int_lit(tt.slice):
                        raise Unsupported('write at a computed index')
                    cells.add((tt.value.id, tt.slice.value))
    order = {n: i for i, (n, _k) in enumerate(params)}
    return sorted(cells, key=lambda c: (order[c[0]], c[1]))


def translate(module, name, ret, ptext, body, consts, known):
    params = parse_params(ptext)
    ret_scalar = ret.split('[')[0].strip() in SCALAR_TYPES and '[' not in ret
    if not ret_scalar and ret != 'void' and '[' not in ret:
        raise Unsupported('return type %s' % ret)
    src = body_to_python(body)
    try:
        tree = ast.parse(src)
    except SyntaxError as e:
        raise Unsupported('syntax: %s' % e.msg)
    for node in ast.walk(tree):
        if isinstance(node, (ast.For, ast.While, ast.With, ast.Try)):
            raise Unsupported('loop')
    # keep the literal text of float constants (repr would do, but the source text is the specification)
    cells = out_cells(params, tree, known)
    cx = Ctx(module, consts, known)
    env, largs = {'fnarity': {}}, []
    for pn, kind in params:
        if kind == 'fn':
            env['fn:' + pn] = True
            largs.append((lean_name(pn), None))        # type filled in once the arity is known from the calls
        elif kind == 'scalar':
            env[pn] = lean_name(pn)
            largs.append((lean_name(pn), 'α'))
        elif kind == 'vec':
            env['vec:' + pn] = True
            largs.append((lean_name(pn), 'List α'))
    for pn, i in cells:
        kind = dict(params)[pn]
        nm = '%s_%d_in' % (pn, i)
        if kind == 'outptr':
            largs.append((nm, 'α'))
            env['%s[%d]' % (pn, i)] = nm
        else:
            env['%s[%d]' % (pn, i)] = '(%s.getD %d (c 0))' % (lean_name(pn), i)
    is_void = not ret_scalar
    if is_void and not cells:
        raise Unsupported('no scalar result')

    def result(e):
        vals = [e['%s[%d]' % cpl] for cpl in cells]
        return '(' + ', '.join(vals) + ')' if len(vals) > 1 else vals[0]
    g = Gen(cx, result)
    if is_void:
        term = g.block(tree.body, env, lambda e: result(e), 1)
        rtype = ' × '.join(['α'] * len(cells))
    else:
        def no_fall(e):
            raise Unsupported('control reaches the end of a non-void function')
        term = g.block(tree.body, env, no_fall, 1)
        rtype = 'α'
    for i_, (an, ty) in enumerate(largs):
        if ty is None:
            raw = [pn for pn, kd in params if kd == 'fn' and lean_name(pn) == an][0]
            if raw not in env['fnarity']:
                raise Unsupported('function parameter %s is never called' % raw)
            largs[i_] = (an, ' → '.join(['α'] * (env['fnarity'][raw] + 1)))
    sig = ' '.join('(%s : %s)' % a for a in largs)
    text = 'def %s %s : %s :=\n%s\n' % (lean_name(name), sig, rtype, term if term.startswith(' ') else '  ' + term)
    return {'name': name, 'lean': text, 'params': params, 'cells': cells, 'ret': 'void' if is_void else 'scalar', 'args': largs,
            'consts': sorted(cx.used_consts), 'calls': sorted(cx.calls)}


# ----------------------------------------------------------------------------------------------------------- one-dimensional loops

LOOP_HEAD = re.compile(r'^(\s*)for\s+(\w+)\s+from\s+0\s*<=\s*\2\s*<\s*(\w+)\s*:\s*$')


def translate_loop_kernel(module, name, ret, ptext, body, consts):
    """`cdef` reductions over C arrays: parameters are `DTYPE_t*` arrays, scalars and one length; the body is scalar
    initialisations and (non-nested) `for i from 0<=i<n:` loops whose statements read/write `arr[i]` and update scalar accumulators.
    Arrays become `List α` (read with `getD`, written with `set`), a loop becomes a left fold over `List.range n` whose state is the
    tuple of the variables the loop assigns; an `if` evaluates both branches and selects per assigned variable."""
    parts = [p.strip() for p in ptext.split(',') if p.strip()]
    params = []
    for p in parts:
        m = re.fullmatch(r'([A-Za-z_]\w*)\s*(\*?)\s*(\*?)\s*([A-Za-z_]\w*)', p)
        if not m:
            raise Unsupported('parameter %r' % p)
        typ, s1, s2, nm = m.groups()
        if typ == 'Py_ssize_t':
            params.append((nm, 'nat'))
        elif typ in ('DTYPE_t', 'double') and (s1 or s2):
            params.append((nm, 'arr'))
        elif typ in ('DTYPE_t', 'double'):
            params.append((nm, 'scalar'))
        else:
            raise Unsupported('parameter type %s' % typ)
    if not any(k == 'arr' for _n, k in params) or not any(k == 'nat' for _n, k in params):
        raise Unsupported('not an array reduction')
    lines = []
    for l in body:
        m = LOOP_HEAD.match(l)
        if m:
            lines.append('%sfor %s in range(%s):' % (m.group(1), m.group(2), m.group(3)))
        else:
            lines.append(l)
    try:
        tree = ast.parse(body_to_python(lines))
    except SyntaxError as e:
        raise Unsupported('syntax: %s' % e.msg)
    cx = Ctx(module, consts, {})
    env = {}
    for nm, k in params:
        if k == 'arr':
            env['arr:' + nm] = lean_name(nm)
        else:
            env[nm] = lean_name(nm)
    # C locals declared without a value: their (unspecified) content is only read after an assignment; model it as 0
    for l in body:
        m = re.match(r'^\s*cdef\s+(?:DTYPE_t|double)\s+([A-Za-z_][\w, ]*)\s*$', l)
        if m:
            for nm in m.group(1).split(','):
                env.setdefault(nm.strip(), '(c 0)')
    counter = [0]
    out = []

    def fresh(base):
        counter[0] += 1
        return '%s_%d' % (re.sub(r'\W', '_', base), counter[0])

    def assigned(stmts):
        names = []
        for st in stmts:
            for node in ast.walk(st):
                tg = None
                if isinstance(node, ast.Assign) and len(node.targets) == 1:
                    tg = node.targets[0]
                elif isinstance(node, ast.AugAssign):
                    tg = node.target
                if tg is None:
                    continue
                key = ('arr:' + tg.value.id) if isinstance(tg, ast.Subscript) else tg.id if isinstance(tg, ast.Name) else None
                if key is None:
                    raise Unsupported('assignment target')
                if key not in names:
                    names.append(key)
        return names

    def run(stmts, env, pad):
        """emit lets for the statements; returns the environment after them"""
        env = dict(env)
        for st in stmts:
            if isinstance(st, (ast.Assign, ast.AugAssign)):
                tg = st.targets[0] if isinstance(st, ast.Assign) else st.target
                if isinstance(st, ast.Assign):
                    v = expr(st.value, env, cx)
                else:
                    ops = {ast.Add: '+', ast.Sub: '-', ast.Mult: '*', ast.Div: '/'}
                    if type(st.op) not in ops:
                        raise Unsupported('augmented operator')
                    v = '(%s %s %s)' % (expr(tg, env, cx), ops[type(st.op)], expr(st.value, env, cx))
                if isinstance(tg, ast.Subscript):
                    if not (isinstance(tg.value, ast.Name) and isinstance(tg.slice, ast.Name) and ('arr:' + tg.value.id) in env and ('idx:' + tg.slice.id) in env):
                        raise Unsupported('array write')
                    nm = fresh(tg.value.id)
                    out.append('%slet %s := %s.set %s %s' % (pad, nm, env['arr:' + tg.value.id], env['idx:' + tg.slice.id], v))
                    env['arr:' + tg.value.id] = nm
                else:
                    nm = fresh(tg.id)
                    out.append('%slet %s := %s' % (pad, nm, v))
                    env[tg.id] = nm
            elif isinstance(st, ast.If):
                c = cond(st.test, env, cx)
                ea = run(st.body, env, pad)
                eb = run(st.orelse, env, pad)
                for key in assigned(st.body + st.orelse):
                    a, b = ea.get(key), eb.get(key)
                    if a is None or b is None:
                        raise Unsupported('variable %s assigned in one branch only and not defined before' % key)
                    if a != b:
                        nm = fresh(key.replace('arr:', ''))
                        out.append('%slet %s := if %s then %s else %s' % (pad, nm, c, a, b))
                        env[key] = nm
            elif isinstance(st, ast.For):
                if not (isinstance(st.iter, ast.Call) and isinstance(st.iter.func, ast.Name) and st.iter.func.id == 'range' and len(st.iter.args) == 1
                        and isinstance(st.iter.args[0], ast.Name) and isinstance(st.target, ast.Name)) or st.orelse:
                    raise Unsupported('loop form')
                if any(isinstance(x, ast.For) for b in st.body for x in ast.walk(b)):
                    raise Unsupported('nested loop')
                bound = st.iter.args[0].id
                if dict(params).get(bound) != 'nat':
                    raise Unsupported('loop bound')
                keys = assigned(st.body)
                for key in keys:
                    if key not in env:
                        raise Unsupported('loop variable %s not initialised' % key)
                stv, iv, res = fresh('st'), fresh(st.target.id), fresh('loop')
                out.append('%slet %s := (List.range %s).foldl (fun %s %s =>' % (pad, res, lean_name(bound), stv, iv))
                inner = dict(env)
                inner['idx:' + st.target.id] = iv
                for j, key in enumerate(keys):
                    nm = fresh(key.replace('arr:', ''))
                    out.append('%s    let %s := %s' % (pad, nm, proj(stv, j, len(keys))))
                    inner[key] = nm
                after = run(st.body, inner, pad + '    ')
                out.append('%s    (%s)) (%s)' % (pad, ', '.join(after[key] for key in keys), ', '.join(env[key] for key in keys)))
                for j, key in enumerate(keys):
                    nm = fresh(key.replace('arr:', ''))
                    out.append('%slet %s := %s' % (pad, nm, proj(res, j, len(keys))))
                    env[key] = nm
            elif isinstance(st, ast.Return):
                if st.value is not None:
                    env['return'] = expr(st.value, env, cx)
            elif isinstance(st, ast.Pass):
                pass
            else:
                raise Unsupported('statement %s' % type(st).__name__)
        return env
    final = run(tree.body, env, '  ')
    written = [nm for nm, k in params if k == 'arr' and final['arr:' + nm] != lean_name(nm)]
    results = [final['arr:' + nm] for nm in written]
    rtypes = ['List α'] * len(written)
    if 'return' in final:
        results.append(final['return'])
        rtypes.append('α')
    if not results:
        raise Unsupported('no result')
    sig = ' '.join('(%s : %s)' % (lean_name(nm), {'arr': 'List α', 'scalar': 'α', 'nat': 'Nat'}[k]) for nm, k in params)
    text = 'def %s %s : %s :=\n%s\n  %s\n' % (lean_name(name), sig, ' × '.join(rtypes), '\n'.join(out),
                                              ('(' + ', '.join(results) + ')') if len(results) > 1 else results[0])
    return {'name': name, 'lean': text, 'params': params, 'written': written, 'has_return': 'return' in final,
            'consts': sorted(cx.used_consts)}


# ----------------------------------------------------------------------------------------------------------- imperative fragment

IMP_FROM = re.compile(r'^(\s*)for\s+(\w+)\s+from\s+0\s*<=\s*\2\s*<\s*([\w.\[\]]+)\s*:\s*$')
NAT_TYPES = {'Py_ssize_t', 'int', 'long', 'LONG'}
FLT_TYPES = {'DTYPE_t', 'double'}


def translate_imp(module, name, ret, ptext, body, consts, known, imp_known):
    """Array kernels with nested loops, as a Lean `Id.run do` block over `Array α` (near one-to-one with the source text).

    parameters: `DTYPE_t* p` and memory views `DTYPE_t[::1]`, `DTYPE_t[:,::1]`, `DTYPE_t[:,:,::1]` become flat (C-contiguous) `Array α`; a memory view brings
    one `Nat` parameter per dimension (`<name>_s<i>`, what `.shape[i]` reads); `Py_ssize_t` / `int` are `Nat`; `DTYPE_t` is `α`.
    statements: typed declarations, assignments and `+= -= *= /=` to scalars and to array cells (`p[e]`, `a[i,j,k]` → row-major offset), `if`, `for i from 0<=i<n`,
    `for i in range(n)` / `range(a,b)`, `break`, `continue`, `return`, statement calls of translated array kernels (`&a[0,0,0]` passes the array).
    reads outside an array give 0 and writes outside are dropped (C: undefined); integer subtraction is truncated at 0 (documented; the translated
    functions only compute `n-1` for positive n); a comparison used as an integer is 0/1.
    result: the tuple of the arrays the function writes (parameter order), followed by the scalar return value if there is one."""
    parts, depth, cur = [], 0, ''
    for ch in ptext:
        depth += ch in '[('
        depth -= ch in '])'
        if ch == ',' and depth == 0:
            parts.append(cur)
            cur = ''
        else:
            cur += ch
    if cur.strip():
        parts.append(cur)
    params = []          # (name, kind) kind: arr | mv2 | mv3 | nat | flt
    for p in parts:
        p = p.strip()
        if '=' in p:
            p = p.split('=')[0].strip()          # a default value: the model takes the argument explicitly
        m = re.fullmatch(r'([A-Za-z_]\w*)\s*(\*?)\s*(\[[:,1 ]*\])?\s*(\*?)\s*([A-Za-z_]\w*)', p)
        if not m:
            raise Unsupported('parameter %r' % p)
        typ, s1, mv, s2, nm = m.groups()
        if typ in FLT_TYPES and mv:
            nd = mv.count(',') + 1
            params.append((nm, 'arr' if nd == 1 else 'mv%d' % nd))
            if nd > 3:
                raise Unsupported('memory view of %d dimensions' % nd)
        elif typ in FLT_TYPES and (s1 or s2):
            params.append((nm, 'arr'))
        elif typ in FLT_TYPES:
            params.append((nm, 'flt'))
        elif typ in NAT_TYPES and not (s1 or s2 or mv):
            params.append((nm, 'nat'))
        else:
            raise Unsupported('parameter type %s' % p)
    if not any(k in ('arr', 'mv2', 'mv3') for _n, k in params):
        raise Unsupported('no array parameter')
    kinds = dict(params)
    mv1_local = set()
    alias = {}
    locarr = []          # (name, ndim, [dim source]) local arrays allocated with np.empty / np.zeros (modelled as zero-filled)
    decl = []            # (name, kind, init-source or None) in order
    lines = []
    for l in body:
        ind = l[:len(l) - len(l.lstrip())]
        s = l.strip().rstrip(';')
        m = IMP_FROM.match(l)
        if m:
            lines.append('%sfor %s in range(%s):' % (m.group(1), m.group(2), m.group(3)))
            decl.append((m.group(2), 'loopfrom', None))
            continue
        m = re.match(r'^cdef\s+(?:DTYPE_t|double)\s*\[[:,1 ]*\]\s*(\w+)\s*=\s*(\w+)$', s)
        if m:
            alias[m.group(1)] = m.group(2)
            continue
        m = re.match(r'^cdef\s+(?:DTYPE_t|double)\s*\[([:,1 ]*)\]\s*(\w+)\s*=\s*np\.(empty|zeros)\(\s*\(?([^()]*?),?\s*\)?\s*\)$', s)
        if m:
            nd = m.group(1).count(',') + 1
            dims = [d.strip() for d in m.group(4).split(',') if d.strip()]
            if len(dims) != nd or nd > 3:
                raise Unsupported('allocation %r' % s)
            locarr.append((m.group(2), nd, dims))
            lines.append(ind + '__alloc__(%s)' % m.group(2))
            continue
        m = re.match(r'^cdef\s+(DTYPE_t|double|Py_ssize_t|int|long|LONG)\s+(.*)$', s)
        if m:
            kind = 'flt' if m.group(1) in FLT_TYPES else 'nat'
            rest = m.group(2)
            if '=' in rest:
                nm = rest.split('=')[0].strip()
                if not re.fullmatch(r'\w+', nm):
                    raise Unsupported('declaration %r' % s)
                decl.append((nm, kind, None))
                lines.append(ind + rest)
            else:
                for nm in rest.split(','):
                    decl.append((nm.strip(), kind, None))
            continue
        if s.startswith('cdef '):
            raise Unsupported('declaration %r' % s)
        s = re.sub(r'&\s*(\w+)\s*\[\s*0+(\s*,\s*0+)*\s*\]', r'\1', s)
        s = re.sub(r'&\s*([A-Za-z_]\w*)\s*(?=[,)])', r'__ref__(\1)', s)       # address of a scalar local: an output cell of a scalar kernel
        s = re.sub(r'&\s*([A-Za-z_]\w*)\s*\[([^\[\]]+)\]', r'__refcell__(\1, \2)', s)   # address of an array cell: output cells from that offset on
        if '&' in s:
            raise Unsupported('address of an array cell')
        lines.append(ind + s)
    try:
        tree = ast.parse(textwrap.dedent('\n'.join(lines)))
    except SyntaxError as e:
        raise Unsupported('syntax: %s' % e.msg)
    # docstrings and `assert` (shape agreement, assumed) carry no computation
    tree.body = [st for st in tree.body if not (isinstance(st, ast.Expr) and isinstance(st.value, ast.Constant) and isinstance(st.value.value, str))
                 and not isinstance(st, ast.Assert)]
    for nm_, nd_, _dims in locarr:
        kinds[nm_] = 'arr' if nd_ == 1 else 'mv%d' % nd_
        if nd_ == 1:
            mv1_local.add(nm_)

    def res(nm):
        seen = set()
        while nm in alias and nm not in seen:
            seen.add(nm)
            nm = alias[nm]
        return nm
    local = {}
    for nm, kind, _i in decl:
        if nm in kinds:
            continue
        local[nm] = 'nat' if kind == 'loopfrom' else kind
    for node in ast.walk(tree):
        if isinstance(node, ast.For) and isinstance(node.target, ast.Name):
            local.setdefault(node.target.id, 'nat')
    from_vars = {nm for nm, kind, _i in decl if kind == 'loopfrom'}

    def kind_of(nm):
        nm = res(nm)
        return kinds.get(nm) or local.get(nm)
    # old-style loop variables must not be read outside their loop (C leaves the bound there, the model does not)
    def check_reads(stmts, bound):
        for st in stmts:
            if isinstance(st, ast.For):
                for x in ast.walk(st.iter):
                    if isinstance(x, ast.Name) and x.id in from_vars and x.id not in bound:
                        raise Unsupported('old-style loop variable %s read outside its loop' % x.id)
                check_reads(st.body, bound | {st.target.id})
            elif isinstance(st, ast.If):
                for x in ast.walk(st.test):
                    if isinstance(x, ast.Name) and x.id in from_vars and x.id not in bound:
                        raise Unsupported('old-style loop variable %s read outside its loop' % x.id)
                check_reads(st.body, bound)
                check_reads(st.orelse, bound)
            else:
                for x in ast.walk(st):
                    if isinstance(x, ast.Name) and x.id in from_vars and x.id not in bound:
                        raise Unsupported('old-style loop variable %s read outside its loop' % x.id)
    check_reads(tree.body, set())
    cx = Ctx(module, consts, known)

    def ln(nm):
        return lean_name(res(nm))

    def is_nat(n):
        if isinstance(n, ast.Constant):
            return isinstance(n.value, int) and not isinstance(n.value, bool)
        if isinstance(n, ast.Name):
            return kind_of(n.id) == 'nat'
        if isinstance(n, ast.Attribute) or (isinstance(n, ast.Subscript) and isinstance(n.value, ast.Attribute)):
            return True
        if isinstance(n, ast.BinOp) and isinstance(n.op, (ast.Add, ast.Sub, ast.Mult)):
            return is_nat(n.left) and is_nat(n.right)
        if isinstance(n, ast.Compare):
            return True
        return False

    def nexpr(n):
        if isinstance(n, ast.Constant) and isinstance(n.value, int) and not isinstance(n.value, bool) and n.value >= 0:
            return '%d' % n.value
        if isinstance(n, ast.Name) and kind_of(n.id) == 'nat':
            return ln(n.id)
        if isinstance(n, ast.Subscript) and isinstance(n.value, ast.Attribute) and n.value.attr == 'shape' and isinstance(n.value.value, ast.Name) and is_int_lit(n.slice):
            a = res(n.value.value.id)
            k = kinds.get(a)
            nd = {'arr': 1, 'mv2': 2, 'mv3': 3}.get(k)
            if nd is None or n.slice.value >= nd:
                raise Unsupported('shape of %s' % a)
            if k == 'arr' and not mv1.get(a):
                raise Unsupported('shape of a pointer')
            return '%s_s%d' % (a, n.slice.value)
        if isinstance(n, ast.BinOp) and isinstance(n.op, (ast.Add, ast.Sub, ast.Mult)):
            op = {ast.Add: '+', ast.Sub: '-', ast.Mult: '*'}[type(n.op)]
            return '(%s %s %s)' % (nexpr(n.left), op, nexpr(n.right))
        if isinstance(n, ast.Compare):
            return '(%s).toNat' % bexpr(n)
        raise Unsupported('integer expression %s' % ast.dump(n)[:60])

    def index(n):
        """flat offset of a subscript on an array"""
        a = res(n.value.id)
        k = kinds.get(a)
        sl = n.slice
        if isinstance(sl, ast.Tuple):
            idx = sl.elts
        else:
            idx = [sl]
        nd = {'arr': 1, 'mv2': 2, 'mv3': 3}.get(k)
        if nd is None:
            raise Unsupported('subscript of %s' % a)
        if len(idx) != nd:
            raise Unsupported('%d indices on %s' % (len(idx), a))
        t = nexpr(idx[0])
        for d in range(1, nd):
            t = '(%s * %s_s%d + %s)' % (t, a, d, nexpr(idx[d]))
        return lean_name(a), t

    def fexpr(n):
        if isinstance(n, ast.Constant):
            if isinstance(n.value, bool):
                raise Unsupported('boolean constant')
            if isinstance(n.value, int):
                return '(c %d)' % n.value if n.value >= 0 else '(-(c %d))' % (-n.value)
            if isinstance(n.value, float):
                return lit(repr(n.value))
        if isinstance(n, ast.Name):
            k = kind_of(n.id)
            if k == 'flt':
                return ln(n.id)
            if k == 'nat':
                return '(Flt.ofNat %s)' % ln(n.id)
            if n.id in BUILTIN_CONST:
                return BUILTIN_CONST[n.id]
            if n.id in cx.consts:
                cx.used_consts.add(n.id)
                return 'k_' + n.id
            raise Unsupported('name %s' % n.id)
        if isinstance(n, ast.Subscript) and isinstance(n.value, ast.Name):
            a, t = index(n)
            return '(%s.getD %s (c 0))' % (a, t)
        if isinstance(n, ast.UnaryOp) and isinstance(n.op, ast.USub):
            return '(-%s)' % fexpr(n.operand)
        if isinstance(n, ast.UnaryOp) and isinstance(n.op, ast.UAdd):
            return fexpr(n.operand)
        if isinstance(n, ast.BinOp):
            if isinstance(n.op, ast.Pow):
                if is_int_lit(n.right) and n.right.value == 2:
                    a = fexpr(n.left)
                    return '(%s * %s)' % (a, a)
                raise Unsupported('power')
            ops = {ast.Add: '+', ast.Sub: '-', ast.Mult: '*', ast.Div: '/'}
            if type(n.op) not in ops:
                raise Unsupported('operator')
            if isinstance(n.op, ast.Div) and is_nat(n.left) and is_nat(n.right):
                raise Unsupported('integer division')
            return '(%s %s %s)' % (fexpr(n.left), ops[type(n.op)], fexpr(n.right))
        if isinstance(n, ast.Call) and isinstance(n.func, ast.Name) and not n.keywords:
            f = n.func.id
            args = [fexpr(a) for a in n.args]
            if f in MATH1 and len(args) == 1:
                return '(%s %s)' % (MATH1[f], args[0])
            if f in ('fmin', 'fmax') and len(args) == 2:
                return '(%s %s %s)' % (f, args[0], args[1])
            if f == 'atan2' and len(args) == 2:
                return '(Flt.atan2 %s %s)' % tuple(args)
            if f in cx.known:
                kp, _outs, kret = cx.known[f]
                if kret == 'void' or any(k != 'scalar' for _n, k in kp) or len(args) != len(kp):
                    raise Unsupported('call of %s' % f)
                cx.calls.add(f)
                return '(%s %s)' % (lean_name(f), ' '.join(args))
            raise Unsupported('call of %s' % f)
        raise Unsupported('expression %s' % type(n).__name__)

    def bexpr(n):
        if isinstance(n, ast.Call) and isinstance(n.func, ast.Attribute) and n.func.attr == 'isnan' and len(n.args) == 1:
            a = fexpr(n.args[0])
            return '(!(Flt.eqb %s %s))' % (a, a)
        if isinstance(n, ast.BoolOp):
            op = ' && ' if isinstance(n.op, ast.And) else ' || '
            return '(' + op.join(bexpr(v) for v in n.values) + ')'
        if isinstance(n, ast.UnaryOp) and isinstance(n.op, ast.Not):
            return '(!%s)' % bexpr(n.operand)
        if isinstance(n, ast.Compare) and len(n.ops) == 1:
            l, r, op = n.left, n.comparators[0], n.ops[0]
            if is_nat(l) and is_nat(r):
                a, b = nexpr(l), nexpr(r)
                return {ast.Lt: '(decide (%s < %s))', ast.Gt: '(decide (%s > %s))', ast.LtE: '(decide (%s ≤ %s))', ast.GtE: '(decide (%s ≥ %s))',
                        ast.Eq: '(%s == %s)', ast.NotEq: '(%s != %s)'}[type(op)] % (a, b)
            a, b = fexpr(l), fexpr(r)
            if isinstance(op, ast.Lt):
                return '(Flt.ltb %s %s)' % (a, b)
            if isinstance(op, ast.Gt):
                return '(Flt.ltb %s %s)' % (b, a)
            if isinstance(op, ast.LtE):
                return '(Flt.leb %s %s)' % (a, b)
            if isinstance(op, ast.GtE):
                return '(Flt.leb %s %s)' % (b, a)
            if isinstance(op, ast.Eq):
                return '(Flt.eqb %s %s)' % (a, b)
            if isinstance(op, ast.NotEq):
                return '(!(Flt.eqb %s %s))' % (a, b)
        raise Unsupported('condition')
    mv1 = {nm: True for p, (nm, k) in zip(parts, params) if k == 'arr' and '[' in p}
    for nm_ in mv1_local:
        mv1[nm_] = True
    # arrays written
    written = []

    def note(a):
        a = res(a)
        if kinds.get(a) not in ('arr', 'mv2', 'mv3'):
            raise Unsupported('write to %s' % a)
        if a not in written:
            written.append(a)
    for node in ast.walk(tree):
        tg = None
        if isinstance(node, ast.Assign) and len(node.targets) == 1:
            tg = node.targets[0]
        elif isinstance(node, ast.AugAssign):
            tg = node.target
        if isinstance(tg, ast.Subscript) and isinstance(tg.value, ast.Name):
            note(tg.value.id)
        if isinstance(node, ast.Expr) and isinstance(node.value, ast.Call) and isinstance(node.value.func, ast.Name):
            f = node.value.func.id
            if f == '__alloc__':
                continue
            if f in known and f not in imp_known:
                for a in node.value.args:
                    if isinstance(a, ast.Call) and isinstance(a.func, ast.Name) and a.func.id == '__refcell__' and isinstance(a.args[0], ast.Name):
                        note(a.args[0].id)
                continue
            if f not in imp_known:
                raise Unsupported('call of %s' % f)
            cp, cw, _cr = imp_known[f]
            for (pn, pk), a in zip(cp, node.value.args):
                if pn in cw:
                    if not isinstance(a, ast.Name):
                        raise Unsupported('array argument expression')
                    note(a.id)
    written = [nm for nm, _k in params if nm in written]
    localnames = [nm_ for nm_, _nd, _d in locarr]
    ret_kind = None
    rt = ret.split('[')[0].strip()
    if '[' not in ret and rt in FLT_TYPES:
        ret_kind = 'flt'
    elif '[' not in ret and rt in NAT_TYPES:
        ret_kind = 'nat'
    elif ret != 'void' and '[' not in ret and ret != 'object':
        raise Unsupported('return type %s' % ret)
    explicit = [None]     # arrays named by `return np.asarray(X)[, np.asarray(Y)…]` (the result of a Python-level function)

    def returned_arrays(v):
        els = v.elts if isinstance(v, ast.Tuple) else [v]
        names = []
        for e in els:
            if isinstance(e, ast.Call) and isinstance(e.func, ast.Attribute) and e.func.attr in ('asarray', 'ascontiguousarray') and len(e.args) == 1 and isinstance(e.args[0], ast.Name):
                e = e.args[0]
            if isinstance(e, ast.Name) and kinds.get(res(e.id)) in ('arr', 'mv2', 'mv3'):
                names.append(res(e.id))
            else:
                return None
        return names
    if ret == 'object' or '[' in ret:
        rets = [returned_arrays(n.value) for n in ast.walk(tree) if isinstance(n, ast.Return) and n.value is not None]
        if ret == 'object' and (not rets or any(r is None for r in rets) or any(r != rets[0] for r in rets)):
            raise Unsupported('Python-object function')
        if rets and all(r is not None and r == rets[0] for r in rets):
            explicit[0] = rets[0]
    out = []

    def result(extra=None):
        vals = [lean_name(a) for a in (explicit[0] if explicit[0] is not None else written)] + ([extra] if extra is not None else [])
        if not vals:
            raise Unsupported('no result')
        return '(' + ', '.join(vals) + ')' if len(vals) > 1 else vals[0]

    def stmts(sts, pad):
        for st in sts:
            if isinstance(st, (ast.Assign, ast.AugAssign)):
                tg = st.targets[0] if isinstance(st, ast.Assign) else st.target
                if isinstance(st, ast.Assign) and len(st.targets) != 1:
                    raise Unsupported('multiple assignment')
                if isinstance(tg, ast.Name):
                    k = kind_of(tg.id)
                    if k not in ('flt', 'nat') or res(tg.id) in kinds:
                        raise Unsupported('assignment to %s' % tg.id)
                    ex = nexpr if k == 'nat' else fexpr
                    if isinstance(st, ast.Assign):
                        v = ex(st.value)
                    else:
                        ops = {ast.Add: '+', ast.Sub: '-', ast.Mult: '*', ast.Div: '/'}
                        if type(st.op) not in ops or (k == 'nat' and isinstance(st.op, ast.Div)):
                            raise Unsupported('augmented operator')
                        v = '(%s %s %s)' % (ln(tg.id), ops[type(st.op)], ex(st.value))
                    out.append('%s%s := %s' % (pad, ln(tg.id), v))
                elif isinstance(tg, ast.Subscript) and isinstance(tg.value, ast.Name):
                    a, t = index(tg)
                    if isinstance(st, ast.Assign):
                        v = fexpr(st.value)
                    else:
                        ops = {ast.Add: '+', ast.Sub: '-', ast.Mult: '*', ast.Div: '/'}
                        if type(st.op) not in ops:
                            raise Unsupported('augmented operator')
                        v = '((%s.getD %s (c 0)) %s %s)' % (a, t, ops[type(st.op)], fexpr(st.value))
                    out.append('%s%s := %s.setIfInBounds %s %s' % (pad, a, a, t, v))
                else:
                    raise Unsupported('assignment target')
            elif isinstance(st, ast.If):
                out.append('%sif %s then' % (pad, bexpr(st.test)))
                if not st.body:
                    raise Unsupported('empty branch')
                stmts(st.body, pad + '  ')
                if st.orelse:
                    out.append('%selse' % pad)
                    stmts(st.orelse, pad + '  ')
            elif isinstance(st, ast.For):
                if not (isinstance(st.iter, ast.Call) and isinstance(st.iter.func, ast.Name) and st.iter.func.id == 'range' and 1 <= len(st.iter.args) <= 2
                        and isinstance(st.target, ast.Name)) or st.orelse:
                    raise Unsupported('loop form')
                lo = nexpr(st.iter.args[0]) if len(st.iter.args) == 2 else '0'
                hi = nexpr(st.iter.args[-1])
                v = ln(st.target.id)
                out.append('%sfor %s_it in [%s:%s] do' % (pad, v, lo, hi))
                out.append('%s  %s := %s_it' % (pad, v, v))
                stmts(st.body, pad + '  ')
            elif isinstance(st, ast.Break):
                out.append('%sbreak' % pad)
            elif isinstance(st, ast.Continue):
                out.append('%scontinue' % pad)
            elif isinstance(st, ast.Return):
                if st.value is None or (isinstance(st.value, ast.Name) and res(st.value.id) in written) or (explicit[0] is not None and returned_arrays(st.value) == explicit[0]):
                    out.append('%sreturn %s' % (pad, result()))
                elif ret_kind:
                    out.append('%sreturn %s' % (pad, result((nexpr if ret_kind == 'nat' else fexpr)(st.value))))
                else:
                    raise Unsupported('return value')
            elif isinstance(st, ast.Expr) and isinstance(st.value, ast.Call) and isinstance(st.value.func, ast.Name) and st.value.func.id == '__alloc__':
                nm_ = st.value.args[0].id
                nd_, dims = [(n2, d2) for n1, n2, d2 in locarr if n1 == nm_][0]
                for d, src in enumerate(dims):
                    out.append('%s%s_s%d := %s' % (pad, nm_, d, nexpr(ast.parse(src, mode='eval').body)))
                out.append('%s%s := Array.replicate (%s) (c 0)' % (pad, lean_name(nm_), ' * '.join('%s_s%d' % (nm_, d) for d in range(nd_))))
            elif isinstance(st, ast.Expr) and isinstance(st.value, ast.Call) and isinstance(st.value.func, ast.Name) and st.value.func.id in cx.known \
                    and st.value.func.id not in imp_known:
                f = st.value.func.id
                kp, kcells, kret = cx.known[f]
                if kret != 'void' or len(st.value.args) != len(kp):
                    raise Unsupported('statement call of %s' % f)
                sargs, refs = [], {}
                for (pn, pk), a in zip(kp, st.value.args):
                    if pk == 'scalar':
                        sargs.append(fexpr(a))
                    elif pk == 'outptr':
                        if isinstance(a, ast.Call) and isinstance(a.func, ast.Name) and a.func.id == '__ref__' and isinstance(a.args[0], ast.Name) \
                                and kind_of(a.args[0].id) == 'flt' and res(a.args[0].id) not in kinds:
                            refs[pn] = ('local', ln(a.args[0].id), None)
                        elif isinstance(a, ast.Call) and isinstance(a.func, ast.Name) and a.func.id == '__refcell__' and isinstance(a.args[0], ast.Name) \
                                and kinds.get(res(a.args[0].id)) == 'arr':
                            note(a.args[0].id)
                            refs[pn] = ('cell', ln(a.args[0].id), nexpr(a.args[1]))
                        elif isinstance(a, ast.Name) and kinds.get(res(a.id)) == 'arr':
                            refs[pn] = ('cell', ln(a.id), '0')
                        else:
                            raise Unsupported('output pointer argument of %s' % f)
                    else:
                        raise Unsupported('argument kind %s of %s' % (pk, f))
                if {pn for pn, _i in kcells} != set(refs) or any(refs[pn][0] == 'local' and i != 0 for pn, i in kcells):
                    raise Unsupported('output cells of %s' % f)

                def cell_in(pn, i):
                    kind_, nm_, off_ = refs[pn]
                    return nm_ if kind_ == 'local' else '(%s.getD (%s + %d) (c 0))' % (nm_, off_, i)
                cx.calls.add(f)
                call = '%s %s' % (lean_name(f), ' '.join(sargs + [cell_in(pn, i) for pn, i in kcells]))
                out.append('%slet r_ := %s' % (pad, call))
                for j, (pn, i) in enumerate(kcells):
                    kind_, nm_, off_ = refs[pn]
                    val = proj('r_', j, len(kcells))
                    if kind_ == 'local':
                        out.append('%s%s := %s' % (pad, nm_, val))
                    else:
                        out.append('%s%s := %s.setIfInBounds (%s + %d) %s' % (pad, nm_, nm_, off_, i, val))
            elif isinstance(st, ast.Expr) and isinstance(st.value, ast.Call) and isinstance(st.value.func, ast.Name):
                f = st.value.func.id
                cp, cw, cr = imp_known[f]
                if cr is not None or len(st.value.args) != len(cp):
                    raise Unsupported('statement call of %s' % f)
                args = []
                for (pn, pk), a in zip(cp, st.value.args):
                    if pk in ('arr', 'mv1', 'mv2', 'mv3'):
                        if not isinstance(a, ast.Name) or kinds.get(res(a.id)) not in ('arr', 'mv2', 'mv3'):
                            raise Unsupported('array argument')
                        args.append(ln(a.id))
                        if pk != 'arr':
                            ck = kinds.get(res(a.id))
                            ck = 'mv1' if (ck == 'arr' and mv1.get(res(a.id))) else ck
                            if ck != pk:
                                raise Unsupported('memory view passed with another rank')
                            args += ['%s_s%d' % (res(a.id), d) for d in range(int(pk[2]))]
                    elif pk == 'nat':
                        args.append(nexpr(a))
                    else:
                        args.append(fexpr(a))
                cx.calls.add(f)
                tgt = [ln(a.id) for (pn, pk), a in zip(cp, st.value.args) if pn in cw]
                call = '%s %s' % (lean_name(f), ' '.join(args))
                if len(tgt) == 1:
                    out.append('%s%s := %s' % (pad, tgt[0], call))
                else:
                    out.append('%slet r_ := %s' % (pad, call))
                    for i, t in enumerate(tgt):
                        out.append('%s%s := %s' % (pad, t, proj('r_', i, len(tgt))))
            elif isinstance(st, ast.Pass):
                pass
            else:
                raise Unsupported('statement %s' % type(st).__name__)
    head = []
    for a in written:
        head.append('  let mut %s := %s' % (lean_name(a), lean_name(a)))
    for nm_, nd_, _dims in locarr:
        head.append('  let mut %s : Array α := #[]' % lean_name(nm_))
        for d in range(nd_):
            head.append('  let mut %s_s%d : Nat := 0' % (nm_, d))
    for nm, k in local.items():
        head.append('  let mut %s : %s := %s' % (lean_name(nm), 'Nat' if k == 'nat' else 'α', '0' if k == 'nat' else '(c 0)'))
    stmts(tree.body, '  ')
    last = tree.body[-1] if tree.body else None
    if not isinstance(last, ast.Return):
        if ret_kind:
            raise Unsupported('control reaches the end of a non-void function')
        out.append('  return %s' % result())
    sig = []
    for nm, k in params:
        if k in ('arr', 'mv2', 'mv3'):
            sig.append('(%s : Array α)' % lean_name(nm))
            if k != 'arr' or mv1.get(nm):
                sig += ['(%s_s%d : Nat)' % (nm, d) for d in range({'arr': 1, 'mv2': 2, 'mv3': 3}[k])]
        else:
            sig.append('(%s : %s)' % (lean_name(nm), 'Nat' if k == 'nat' else 'α'))
    outs = explicit[0] if explicit[0] is not None else written
    rtypes = ['Array α'] * len(outs) + ([{'flt': 'α', 'nat': 'Nat'}[ret_kind]] if ret_kind else [])
    text = 'def %s %s : %s := Id.run do\n%s\n' % (lean_name(name), ' '.join(sig), ' × '.join(rtypes), '\n'.join(head + out))
    pk = [(nm, 'arr' if (k == 'arr' and not mv1.get(nm)) else ('mv1' if k == 'arr' else k)) for nm, k in params]
    return {'name': name, 'lean': text, 'params': pk, 'written': written, 'outs': outs, 'ret_kind': ret_kind, 'consts': sorted(cx.used_consts), 'calls': sorted(cx.calls)}


# ----------------------------------------------------------------------------------------------------------- Python-level glue

def glue_map(path, fname, callee):
    """Data flow of a `def` wrapper that unpacks dictionaries into the arguments of a compiled kernel: for every parameter of `callee`, the set of
    dictionary entries (`source.key`) that can reach it through plain assignments `v = d['k']`, `v = d[i]['k']`, `v = d.get('k', default)`,
    `a[i] = d[i]['k']` inside `fname`.  A table, not a proof: it is compared with the hand-written table of what the Python path reads."""
    lines = open(path).read().split('\n')
    body, on, ind0 = [], False, 0
    for l in lines:
        st = strip_comment(l)
        if re.match(r'^\s*def\s+%s\s*\(' % re.escape(fname), st):
            on, ind0 = True, len(st) - len(st.lstrip())
            continue
        if on:
            if st.strip() and (len(st) - len(st.lstrip())) <= ind0 and not st.lstrip().startswith('#'):
                break
            body.append(st)
    if not body:
        return None
    flows = {}
    pat = re.compile(r"^\s*(?:cdef\s+[\w\[\]:, ]+?\s+)?(\w+)(?:\[[\w, ]+\])?\s*=\s*(?:<\w+>)?\s*(\w+)(?:\[\w+\])*(?:\.get\(\s*|\[)'(\w+)'")
    for l in body:
        m = pat.match(l.rstrip(';'))
        if m:
            flows.setdefault(m.group(1), set()).add('%s.%s' % (m.group(2), m.group(3)))
    call = None
    joined = ' '.join(b.strip() for b in body)
    m = re.search(r'%s\s*\(([^()]*(?:\([^()]*\)[^()]*)*)\)' % re.escape(callee), joined)
    if not m:
        return None
    args = [a.strip() for a in m.group(1).split(',')]
    params = None
    for (nm, _ret, ptext, _b) in functions(path):
        if nm == callee:
            parts_, depth_, cur_ = [], 0, ''
            for ch in ptext:
                depth_ += ch in '[('
                depth_ -= ch in '])'
                if ch == ',' and depth_ == 0:
                    parts_.append(cur_)
                    cur_ = ''
                else:
                    cur_ += ch
            parts_.append(cur_)
            params = [re.split(r'[\s\*\]]+', q.strip())[-1] for q in parts_ if q.strip()]
    if params is None or len(params) != len(args):
        return None
    return {pn: sorted(flows.get(a, [])) for pn, a in zip(params, args)}


def const_term(node, consts, seen=()):
    cx = Ctx('', {k: v for k, v in consts.items() if k not in seen}, {})
    return expr(node, {}, cx), cx.used_consts


def generate():
    modules, report = [], {'translated': {}, 'skipped': {}, 'sources': {}}
    for mod, rel in SOURCES:
        path = os.path.join(REPO, rel)
        if not os.path.exists(path):
            report['skipped'][mod] = {'*': 'source file missing'}
            continue
        report['sources'][rel] = hashlib.sha256(open(path, 'rb').read()).hexdigest()
        consts = module_constants(path)
        funcs = functions(path)
        known, done, skipped = {}, [], {}
        loops, loops_done = [], set()
        imps, imp_known = [], {}
        pending = list(funcs)
        progress = True
        while pending and progress:
            progress = False
            nxt = []
            for (name, ret, ptext, body) in pending:
                try:
                    t = translate(mod, name, ret, ptext, body, consts, known)
                except Unsupported as e:
                    msg = str(e)
                    if msg == 'loop' and name not in loops_done:
                        try:
                            lt = translate_loop_kernel(mod, name, ret, ptext, body, consts)
                            loops.append(lt)
                            loops_done.add(name)
                            skipped.pop(name, None)
                            continue
                        except Unsupported as e2:
                            msg = 'loop: %s' % e2
                    base = msg
                    if name not in loops_done:
                        try:
                            it = translate_imp(mod, name, ret, ptext, body, consts, known, imp_known)
                            imps.append(it)
                            imp_known[name] = (it['params'], it['written'], it['ret_kind'])
                            loops_done.add(name)
                            skipped.pop(name, None)
                            progress = True
                            continue
                        except Unsupported as e3:
                            msg = '%s; as an array kernel: %s' % (msg, e3)
                            if str(e3).startswith('call of ') and str(e3).split()[-1] in {f[0] for f in pending}:
                                nxt.append((name, ret, ptext, body))
                                skipped[name] = msg
                                continue
                    if base.startswith('call of ') and base.split()[-1] in {f[0] for f in pending}:
                        nxt.append((name, ret, ptext, body))          # callee may be translated later
                        skipped[name] = msg
                    else:
                        skipped[name] = msg
                    continue
                skipped.pop(name, None)
                known[name] = (t['params'], t['cells'], t['ret'])
                done.append(t)
                progress = True
            pending = nxt
        # constants used
        cdefs, need = [], []
        for t in done + loops + imps:
            for k in t['consts']:
                if k not in need:
                    need.append(k)
        emitted = []
        i = 0
        while i < len(need):
            k = need[i]
            try:
                term, used = const_term(consts[k], consts, seen=(k,))
            except Unsupported as e:
                term, used = None, set()
                for t in done:
                    if k in t['consts']:
                        skipped[t['name']] = 'constant %s: %s' % (k, e)
                done = [t for t in done if k not in t['consts']]
            for u in used:
                if u not in need:
                    need.append(u)
            if term is not None:
                emitted.append((k, term, used))
            i += 1
        # order constants by dependency
        ordered, names = [], set()
        while emitted:
            for e in emitted:
                if all(u in names for u in e[2]):
                    ordered.append(e)
                    names.add(e[0])
                    emitted.remove(e)
                    break
            else:
                break
        modules.append((mod, rel, ordered, done, loops, imps))
        report['translated'][mod] = [t['name'] for t in done] + [t['name'] for t in loops] + [t['name'] for t in imps]
        report.setdefault('array_kernels', {})[mod] = [t['name'] for t in imps]
        for t in imps:
            report.setdefault('array_kernel_params', {})['%s.%s' % (mod, t['name'])] = {'params': t['params'], 'outs': t['outs'], 'ret': t['ret_kind']}
        report['skipped'][mod] = skipped
    return modules, report


HEADER = '''import MTfitVerif.Model.Flt
/-
  GENERATED by harness/gen_pyx.py from the Cython sources of /repo — do not edit.
  Scalar kernels of the compiled extensions as Lean definitions over `Flt` (C20).
%s
-/
set_option linter.unusedVariables false
namespace MTfitVerif
namespace Pyx
variable {α : Type} [Add α] [Sub α] [Mul α] [Div α] [Neg α] [Flt α]

/-- C `trunc` -/
def ctrunc (x : α) : α := if Flt.ltb x (c 0) then -(Flt.floor (-x)) else Flt.floor x
/-- C `fmod` -/
def cfmod (a b : α) : α := a - b * ctrunc (a / b)
'''


def render(modules):
    src_lines = '\n'.join('  %s' % m[1] for m in modules)
    out = [HEADER % src_lines]
    ops = ['import MTfitVerif.Model.PyxKernels\nimport MTfitVerif.Driver.Proto\n/- GENERATED by harness/gen_pyx.py — evaluation table of the translated kernels -/\nset_option linter.unusedVariables false\n'
           'namespace MTfitVerif.Driver\nopen MTfitVerif Proto\n\ndef pyxTable : List (String × (Nat × (List Float → List Float))) := [']
    rows = []
    lrows = []
    irows = []
    for mod, rel, consts, done, loops, imps in modules:
        out.append('\nnamespace %s\n' % mod)
        for k, term, _u in consts:
            out.append('def k_%s : α := %s\n' % (k, term))
        for t in done:
            out.append(t['lean'])
            n = len(t['args'])
            # all arguments are passed as floats; vectors take 3 floats (only 3-vectors occur in the fragment)
            call, pos = [], 0
            FN = {'transition_ratio_fn': 'gaussian_transition_ratio', 'prior_ratio_fn': 'uniform_prior_ratio', 'jump_params_fn': 'gaussian_jump_prob'}
            names_here = {x['name'] for x in done}
            skip_row = False
            for an, ty in t['args']:
                if '→' in ty:
                    if FN.get(an) in names_here:
                        call.append('Pyx.%s.%s' % (mod, lean_name(FN[an])))
                    else:
                        skip_row = True
                elif ty == 'α':
                    call.append('(a.getD %d 0)' % pos)
                    pos += 1
                else:
                    call.append('[a.getD %d 0, a.getD %d 0, a.getD %d 0, a.getD %d 0, a.getD %d 0, a.getD %d 0, a.getD %d 0]' % tuple(range(pos, pos + 7)))
                    pos += 7
            ncell = len(t['cells']) if t['ret'] == 'void' else 1
            fn = 'Pyx.%s.%s' % (mod, lean_name(t['name']))
            if ncell == 1:
                body = '[%s %s]' % (fn, ' '.join(call))
            else:
                body = 'let r := %s %s; [%s]' % (fn, ' '.join(call), ', '.join(proj('r', i, ncell) for i in range(ncell)))
            if not skip_row:
                rows.append('  ("%s.%s", (%d, fun a => %s))' % (mod, t['name'], pos, body))
        for t in loops:
            out.append(t['lean'])
            fn = 'Pyx.%s.%s' % (mod, lean_name(t['name']))
            call, ai, si = [], 0, 0
            for nm, k in t['params']:
                if k == 'arr':
                    call.append('(arrs.getD %d [])' % ai)
                    ai += 1
                elif k == 'scalar':
                    call.append('(sc.getD %d 0)' % si)
                    si += 1
                else:
                    call.append('n')
            nres = len(t['written']) + (1 if t['has_return'] else 0)
            parts = []
            for j in range(nres):
                pj = proj('r', j, nres)
                parts.append(pj if j < len(t['written']) else '[%s]' % pj)
            lrows.append('  ("%s.%s", fun arrs sc n => let r := %s %s; %s)' % (mod, t['name'], fn, ' '.join(call), ' ++ '.join(parts)))
        for t in imps:
            out.append(t['lean'])
            fn = 'Pyx.%s.%s' % (mod, lean_name(t['name']))
            call, ai, si, ni = [], 0, 0, 0
            for nm, k in t['params']:
                if k in ('arr', 'mv1', 'mv2', 'mv3'):
                    call.append('(arrs.getD %d #[])' % ai)
                    ai += 1
                    for _d in range(0 if k == 'arr' else int(k[2])):
                        call.append('(nats.getD %d 0)' % ni)
                        ni += 1
                elif k == 'flt':
                    call.append('(sc.getD %d 0)' % si)
                    si += 1
                else:
                    call.append('(nats.getD %d 0)' % ni)
                    ni += 1
            nres = len(t['outs']) + (1 if t['ret_kind'] else 0)
            parts = []
            for j in range(nres):
                pj = proj('r', j, nres)
                if j < len(t['outs']):
                    parts.append(pj)
                elif t['ret_kind'] == 'flt':
                    parts.append('#[%s]' % pj)
                else:
                    parts.append('#[Float.ofNat %s]' % pj)
            irows.append('  ("%s.%s", fun arrs sc nats => let r := %s %s; [%s])' % (mod, t['name'], fn, ' '.join(call), ', '.join(parts)))
        out.append('end %s\n' % mod)
    out.append('\nend Pyx\nend MTfitVerif\n')
    ops.append(',\n'.join(rows))
    ops.append(']\n\n/-- array reductions: arrays, scalars, length -/\ndef pyxLoopTable : List (String × (List (List Float) → List Float → Nat → List Float)) := [')
    ops.append(',\n'.join(lrows))
    ops.append(']\n\n/-- array kernels (nested loops): arrays, scalars, naturals (shapes and sizes in signature order) -/\ndef pyxImpTable : List (String × (List (Array Float) → List Float → List Nat → List (Array Float))) := [')
    ops.append(',\n'.join(irows))
    ops.append(']\n\nend MTfitVerif.Driver\n')
    return ''.join(out), '\n'.join(ops)


def write_if_changed(path, text):
    if os.path.exists(path) and open(path).read() == text:
        return False
    with open(path, 'w') as fh:
        fh.write(text)
    return True


def main():
    modules, report = generate()
    model, ops = render(modules)
    ch1 = write_if_changed(os.path.join(VERIF, 'lean', 'MTfitVerif', 'Model', 'PyxKernels.lean'), model)
    ch2 = write_if_changed(os.path.join(VERIF, 'lean', 'MTfitVerif', 'Driver', 'PyxOps.lean'), ops)
    report['changed'] = bool(ch1 or ch2)
    mc_path = os.path.join(REPO, 'src/MTfit/algorithms/cmarkov_chain_monte_carlo.pyx')
    if os.path.exists(mc_path):
        report['glue'] = {'acceptance_check': glue_map(mc_path, 'acceptance_check', 'c_acceptance_check'),
                          'me_acceptance_check': glue_map(mc_path, 'me_acceptance_check', 'c_me_acceptance_check')}
    return report


if __name__ == '__main__':
    import json
    r = main()
    print(json.dumps(r, indent=1))
