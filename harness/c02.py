"""C02 — polarity likelihoods: correspondence and oracle."""
import math

from common import Failure, Prop, bits, close, reply_floats, import_mtfit, NEG_INF, main


def unit6(rng):
    v = [rng.gauss(0, 1) for _ in range(6)]
    n = math.sqrt(sum(x * x for x in v))
    return [x / n for x in v]


class C02(Prop):
    id = 'C02'
    assumptions = ['scipy.special.erf and the Lean Float erf (Kummer series / Laplace continued fraction) agree to 1e-15 '
                   'absolute (checked on a grid every run)',
                   'log-likelihoods are compared with tolerance 1e-9 + 4e-15 * sum_s 1/p_s (the conditioning of log(1+erf)); '
                   'probabilities below 1e-14 are treated as "effectively zero" on both sides']
    unproved = ['NaN-freedom of the IEEE evaluation at overflow scale (A/s ~ 1e300) is tested, not proved (the theorems are over the reals)']
    rule = ('scalar cases: amplitude A in +-{0, 1e-300..1e300}*sigma, sigma in {0, 1e-24..1e3}, w in {0, 0.5, 1, U(0,1)}; '
            'array cases: 1..8 stations x 1..4 location samples x 1..6 tensors, w scalar or per station, zero sigmas mixed in; '
            'polarity-probability cases with p+,p- in [0,1] incl. 0 and 1; non-trivial = amplitude non-zero')

    def setup(self):
        import_mtfit()
        import numpy as np
        from MTfit.probability import probability as pr
        self.np, self.pr = np, pr
        np.seterr(all='ignore')

    # ------------------------------------------------------------------ generation
    def _w(self, rng):
        return rng.choice([0.0, 0.0, 0.5, 1.0, rng.random(), rng.random() * 0.5, 0.1])

    def gen(self, rng, tier):
        n = 500 if tier == 'quick' else 8000
        mags = [0.0, 1e-300, 1e-30, 1e-8, 1e-3, 0.1, 0.5, 1.0, 2.0, 3.0, 4.0, 5.0, 5.5, 5.9, 6.0, 6.5, 8.0, 10.0, 30.0, 1e3, 1e10,
                1e100, 1e300]
        for i in range(n):
            k = rng.random()
            if k < 0.35:
                sigma = rng.choice([0.0, 1e-24, 1e-10, 1e-3, 0.1, 1.0, 10.0, 1e3])
                z = rng.choice(mags) * rng.choice([1.0, -1.0]) * (1.0 if rng.random() < 0.5 else rng.random())
                A = z * (sigma if sigma else 1e-24)
                if math.isinf(A):
                    A = math.copysign(1e300, A)
                yield {'kind': 'pol-scalar', 'A': A, 'sigma': sigma, 'w': self._w(rng),
                       'dA': abs(A) * rng.choice([1e-6, 0.1, 1.0]) + rng.choice([0.0, 1e-3]) * (sigma if sigma else 1e-24)}
            elif k < 0.5:
                A = rng.choice(mags) * rng.choice([1.0, -1.0])
                if math.isinf(A):
                    A = 1e300
                pp = rng.choice([0.0, 1.0, rng.random(), 0.5])
                pn = rng.choice([0.0, 1.0 - pp, rng.random() * (1 - pp)])
                yield {'kind': 'pp-scalar', 'A': A, 'pp': pp, 'pn': pn, 'w': self._w(rng)}
            else:
                ns, nl, nm = rng.randint(1, 8), rng.randint(1, 4), rng.randint(1, 6)
                amp = rng.choice([1.0, 1.0, 1e-3, 50.0])
                coeffs = [[[amp * rng.uniform(-1, 1) for _ in range(6)] for _ in range(nl)] for _ in range(ns)]
                if rng.random() < 0.2:      # a station exactly on a nodal plane of the first tensor
                    coeffs[0] = [[0.0] * 6 for _ in range(nl)]
                mts = [unit6(rng) for _ in range(nm)]
                wmode = rng.choice(['scalar', 'array'])
                ws = [self._w(rng) for _ in range(ns)]
                if wmode == 'scalar':
                    ws = [ws[0]] * ns
                if k < 0.78:
                    sig = [rng.choice([0.0, 0.01, 0.1, 0.5, 1.0, 5.0]) for _ in range(ns)]
                    yield {'kind': 'pol-multi', 'coeffs': coeffs, 'mts': mts, 'sigma': sig, 'w': ws, 'wmode': wmode}
                else:
                    pps = [rng.choice([0.0, 1.0, rng.random()]) for _ in range(ns)]
                    pns = [rng.choice([0.0, 1.0 - p, rng.random() * (1 - p)]) for p in pps]
                    yield {'kind': 'pp-multi', 'coeffs': coeffs, 'mts': mts, 'pp': pps, 'pn': pns, 'w': ws, 'wmode': wmode}

        # many stations, each with a moderately small probability: the joint log-likelihood is far below the underflow threshold of a
        # product of probabilities (ln 1e-308 = -709) although no station has probability zero
        for i in range(6 if tier == 'quick' else 60):
            ns = rng.choice([120, 250, 400])
            mts = [unit6(rng) for _ in range(2)]
            z = rng.choice([1.5, 2.0, 2.5])
            sig = [rng.choice([0.05, 0.2, 1.0]) for _ in range(ns)]
            # coefficient vector = -z*sigma*m0 so that the modelled amplitude for the first tensor is -z sigma (wrong polarity by z sigma)
            coeffs = [[[-z * sg * v for v in mts[0]]] for sg in sig]
            wv = rng.choice([0.0, 0.0, 0.1])
            if rng.random() < 0.6:
                yield {'kind': 'pol-multi', 'coeffs': coeffs, 'mts': mts, 'sigma': sig, 'w': [wv] * ns, 'wmode': 'scalar', 'many': True}
            else:
                pps = [rng.choice([0.02, 0.05, 0.1]) for _ in range(ns)]
                pns = [1.0 - p for p in pps]
                cf = [[[v for v in mts[0]]] for _ in range(ns)]
                yield {'kind': 'pp-multi', 'coeffs': cf, 'mts': mts, 'pp': pps, 'pn': pns, 'w': [0.0] * ns, 'wmode': 'scalar', 'many': True}

    # ------------------------------------------------------------------ implementation
    def _pol(self, coeffs, mts, sigma, w):
        np = self.np
        a = np.array(coeffs, dtype=float)               # (ns, nl, 6)
        mt = np.array(mts, dtype=float).T               # (6, nm)
        r = self.pr.polarity_ln_pdf(a, mt, np.array(sigma, dtype=float), w)
        return [float(v) for v in np.asarray(r, dtype=float).flatten()]

    def _pp(self, coeffs, mts, pp, pn, w):
        np = self.np
        a = np.array(coeffs, dtype=float)
        mt = np.array(mts, dtype=float).T
        r = self.pr.polarity_probability_ln_pdf(a, mt, np.array(pp, dtype=float), np.array(pn, dtype=float), w)
        return [float(v) for v in np.asarray(r, dtype=float).flatten()]

    @staticmethod
    def _one(A):
        return [[[A, 0.0, 0.0, 0.0, 0.0, 0.0]]], [[1.0, 0.0, 0.0, 0.0, 0.0, 0.0]]

    def impl(self, case):
        np = self.np
        k = case['kind']
        if k == 'pol-scalar':
            out = {}
            for tag, A in (('p', case['A']), ('m', -case['A']), ('up', case['A'] + case['dA'])):
                c, m = self._one(A)
                out[tag] = self._pol(c, m, [case['sigma']], case['w'])[0]
            return out
        if k == 'pp-scalar':
            out = {}
            for tag, A in (('p', case['A']), ('m', -case['A'])):
                c, m = self._one(A)
                out[tag] = self._pp(c, m, [case['pp']], [case['pn']], case['w'])[0]
            return out
        w = case['w'][0] if case['wmode'] == 'scalar' else np.array(case['w'])
        if k == 'pol-multi':
            out = {'out': self._pol(case['coeffs'], case['mts'], case['sigma'], w)}
            # station additivity: each station alone
            singles = []
            for s in range(len(case['coeffs'])):
                ws = case['w'][s] if case['wmode'] == 'scalar' else np.array([case['w'][s]])
                singles.append(self._pol([case['coeffs'][s]], case['mts'], [case['sigma'][s]], ws))
            out['singles'] = singles
            return out
        out = {'out': self._pp(case['coeffs'], case['mts'], case['pp'], case['pn'], w)}
        singles = []
        for s in range(len(case['coeffs'])):
            ws = case['w'][s] if case['wmode'] == 'scalar' else np.array([case['w'][s]])
            singles.append(self._pp([case['coeffs'][s]], case['mts'], [case['pp'][s]], [case['pn'][s]], ws))
        out['singles'] = singles
        return out

    # ------------------------------------------------------------------ model
    def requests(self, case, impl):
        k = case['kind']
        if k == 'pol-scalar':
            return ['polprob %s %s %s' % (bits(A), bits(case['sigma']), bits(case['w']))
                    for A in (case['A'], -case['A'], case['A'] + case['dA'])]
        if k == 'pp-scalar':
            return ['polprobp %s %s %s %s' % (bits(A), bits(case['pp']), bits(case['pn']), bits(case['w']))
                    for A in (case['A'], -case['A'])]
        ns, nl, nm = len(case['coeffs']), len(case['coeffs'][0]), len(case['mts'])
        toks = []
        for s in range(ns):
            if k == 'pol-multi':
                toks += [bits(case['sigma'][s]), bits(case['w'][s])]
            else:
                toks += [bits(case['pp'][s]), bits(case['pn'][s]), bits(case['w'][s])]
            toks += [bits(v) for loc in case['coeffs'][s] for v in loc]
        toks += [bits(v) for mt in case['mts'] for v in mt]
        return ['%s %d %d %d %s' % ('polpdf' if k == 'pol-multi' else 'polprobpdf', ns, nl, nm, ' '.join(toks))]

    @staticmethod
    def _ln_close(model_p, impl_ln):
        """compare model probability with implementation log-probability"""
        if model_p < 1e-14:
            return impl_ln == NEG_INF or impl_ln < math.log(3e-14)
        if impl_ln == NEG_INF:
            return False
        return close(math.log(model_p), impl_ln, extra=4e-15 / model_p)

    def compare(self, case, impl, replies):
        if 'exc' in impl:
            return [('implementation raised %s: %s' % (impl['exc'], impl.get('msg')), impl)]
        k = case['kind']
        if k in ('pol-scalar', 'pp-scalar'):
            tags = ('p', 'm', 'up') if k == 'pol-scalar' else ('p', 'm')
            for tag, rep in zip(tags, replies):
                mp = reply_floats(rep)[0]
                if not self._ln_close(mp, impl[tag]):
                    return [('%s(%s): model p=%r (ln %r), implementation ln p=%r' %
                             (k, tag, mp, math.log(mp) if mp > 0 else NEG_INF, impl[tag]), None)]
            return []
        vals = reply_floats(replies[0])
        got = impl['out']
        if k == 'pol-multi':
            n = len(vals) // 2
            model, kappa = vals[:n], vals[n:]
        else:
            model, kappa = vals, [0.0] * len(vals)
        if len(model) != len(got):
            return [('length: model %d, implementation %d' % (len(model), len(got)), None)]
        for i, (m, g, kp) in enumerate(zip(model, got, kappa)):
            if m == NEG_INF or g == NEG_INF or kp > 1e13 or math.isinf(kp):
                if (m == NEG_INF or m < -30) and (g == NEG_INF or g < -30):
                    continue
                if m == g:
                    continue
                return [('%s: entry %d: model %r, implementation %r (kappa %r)' % (k, i, m, g, kp), None)]
            if not close(m, g, extra=4e-15 * kp):
                return [('%s: entry %d: model %r, implementation %r (kappa %r)' % (k, i, m, g, kp), None)]
        return []

    # ------------------------------------------------------------------ oracle
    def oracle(self, case, impl):
        if 'exc' in impl:
            return [('raises', '%s raised %s: %s' % (case['kind'], impl['exc'], impl.get('msg')), impl)]
        k = case['kind']
        out = []
        tol = 1e-12

        def ex(v):
            return math.exp(v) if v != NEG_INF else 0.0
        if k == 'pol-scalar':
            A, s, w = case['A'], case['sigma'], case['w']
            for tag in ('p', 'm', 'up'):
                v = impl[tag]
                if math.isnan(v) or v > tol:
                    out.append(('pol-range', 'ln p(%s) = %r for A=%r sigma=%r w=%r' % (tag, v, A, s, w), None))
            if not out:
                if abs(ex(impl['p']) + ex(impl['m']) - 1.0) > 1e-12:
                    out.append(('pol-complement', 'p(A)+p(-A) = %r for A=%r sigma=%r w=%r' %
                                (ex(impl['p']) + ex(impl['m']), A, s, w), None))
                if w < 0.5 and ex(impl['up']) < ex(impl['p']) - 1e-13:
                    out.append(('pol-monotone', 'p decreased from %r to %r when A rose from %r by %r (w=%r)' %
                                (ex(impl['p']), ex(impl['up']), A, case['dA'], w), None))
                if w > 0.5 and ex(impl['up']) > ex(impl['p']) + 1e-13:
                    out.append(('pol-monotone', 'p increased with A although w=%r > 0.5' % w, None))
                if s == 0.0 and abs(A) >= 1e-22:
                    hard = (1 - w) if A > 0 else w
                    if abs(ex(impl['p']) - hard) > 1e-12:
                        out.append(('pol-sigma0', 'sigma=0, A=%r, w=%r: p = %r, hard limit %r' % (A, w, ex(impl['p']), hard), None))
                if s == 0.0 and A == 0.0 and abs(ex(impl['p']) - 0.5) > 1e-12:
                    out.append(('pol-sigma0', 'sigma=0, A=0: p = %r, expected 1/2' % ex(impl['p']), None))
                # the defining expression
                ss = s if s else 1e-24
                z = A / (math.sqrt(2) * ss)
                ref = 0.5 * (1 + math.erf(z)) * (1 - w) + 0.5 * (1 + math.erf(-z)) * w
                if abs(ex(impl['p']) - ref) > 1e-12:
                    out.append(('pol-expression', 'p = %r, documented expression gives %r' % (ex(impl['p']), ref), None))
        elif k == 'pp-scalar':
            A, pp, pn, w = case['A'], case['pp'], case['pn'], case['w']
            if A > 0:
                ref = pp * (1 - w) + pn * w
            elif A < 0:
                ref = pn * (1 - w) + pp * w
            else:
                ref = 0.5 * (pp + pn)
            v = impl['p']
            if math.isnan(v) or v > tol:
                out.append(('pp-range', 'ln p = %r for A=%r p+=%r p-=%r w=%r' % (v, A, pp, pn, w), None))
            elif abs(ex(v) - ref) > 1e-12:
                out.append(('pp-expression', 'p = %r, step mixture gives %r (A=%r p+=%r p-=%r w=%r)' % (ex(v), ref, A, pp, pn, w), None))
            elif ref == 0.0 and v != NEG_INF:
                out.append(('pp-impossible', 'impossible source has ln p = %r instead of -inf' % v, None))
        else:
            got = impl['out']
            if any(math.isnan(v) or v > tol for v in got):
                out.append(('multi-range', 'NaN or positive log-likelihood in %r' % (got,), None))
            else:
                n = len(got)
                # the documented per-station expression evaluated here, tensor by tensor (amplitude = coefficients . tensor)
                nl_, nm_ = len(case['coeffs'][0]), len(case['mts'])
                if n == nl_ * nm_ and not case.get('many'):
                    for l_ in range(nl_):
                        for j_ in range(nm_):
                            ref, cond = 0.0, 1.0
                            for s_ in range(len(case['coeffs'])):
                                A = math.fsum(c_ * m_ for c_, m_ in zip(case['coeffs'][s_][l_], case['mts'][j_]))
                                w_ = case['w'][s_]
                                if k == 'pol-multi':
                                    sg_ = case['sigma'][s_] or 1e-24
                                    z_ = A / (math.sqrt(2) * sg_)
                                    p_ = 0.5 * (1 + math.erf(z_)) * (1 - w_) + 0.5 * (1 + math.erf(-z_)) * w_
                                    cond += abs(z_)
                                else:
                                    pp_, pn_ = case['pp'][s_], case['pn'][s_]
                                    p_ = (pp_ * (1 - w_) + pn_ * w_) if A > 0 else (pn_ * (1 - w_) + pp_ * w_) if A < 0 else 0.5 * (pp_ + pn_)
                                    if abs(A) < 1e-15:
                                        cond = float('inf')          # the sign of a rounding-level amplitude is not defined
                                ref = NEG_INF if (p_ <= 0 or ref == NEG_INF) else ref + math.log(p_)
                            g_ = got[l_ * nm_ + j_]
                            if cond < 20 and ref > -300 and not close(ref, g_, rtol=1e-6, atol=1e-6 * cond):
                                out.append(('multi-expression', 'location sample %d, tensor %d of %d: ln p = %r, the documented expression summed over stations gives %r'
                                            % (l_, j_, nm_, g_, ref), None))
                                break
                        if out:
                            break
                for i in range(n):
                    parts = [s[i] for s in impl['singles']]
                    tot = NEG_INF if any(p == NEG_INF for p in parts) else math.fsum(parts)
                    if not close(tot, got[i], atol=1e-9):
                        out.append(('multi-additive', 'entry %d: %r, sum of single-station log-likelihoods %r' % (i, got[i], tot), None))
                        break
        return out

    def _extra_glue(self, rng, tier):
        """The same formula reached through the glue that feeds it (data dictionaries -> polarity_matrix -> ForwardTask): an event whose polarity type has one
        station (with amplitude-ratio data next to it), and events whose location samples cover every station, listed in non-alphabetical order, with a
        different mis-pick probability per station.  Expected values from the per-station formula with the coefficients of datagen.coeff_row."""
        import random
        import datagen as dg
        np = self.np
        from MTfit import inversion as inv
        fails, cov = [], {'glue_events': 0}
        rr = random.Random(77)

        def phi(x):
            return 0.5 * (1.0 + math.erf(x / math.sqrt(2)))

        def station_p(row, mt, az=None, toa=None):
            a = sum(c_ * m_ for c_, m_ in zip(dg.coeff_row('p', row['az'] if az is None else az, row['toa'] if toa is None else toa), mt))
            y, sg, w = row['measured'][0], row['error'][0], (row['ipp'] or 0.0)
            return (1 - w) * phi(y * a / sg) + w * phi(-y * a / sg)

        def run(ev, mts, keys=None):
            data, loc = dg.to_mtfit({'types': {k: v for k, v in ev['types'].items() if keys is None or k in keys}, 'loc': ev['loc'], 'weights': None}, np)
            a_pol, err_pol, ipp = inv.polarity_matrix(data, loc)
            a1, a2, ratio, pe1, pe2 = inv.amplitude_ratio_matrix(data, loc)
            res = inv.ForwardTask(np.array(mts, dtype=float).T, a_pol, err_pol, a1, a2, ratio, pe1, pe2, False, False, False, ipp, return_zero=True, marginalise=True)()
            lp = res['ln_pdf']
            return np.asarray(lp._ln_pdf if hasattr(lp, '_ln_pdf') else lp, dtype=float).flatten()
        mts = []
        for _ in range(6):
            v = [rr.gauss(0, 1) for _ in range(6)]
            n_ = math.sqrt(sum(x * x for x in v))
            mts.append([x / n_ for x in v])
        for rep in range(3 if tier == 'quick' else 12):
            # (a) one polarity station, two amplitude-ratio stations
            prow = {'name': 'S07', 'az': rr.uniform(0, 360), 'toa': rr.uniform(20, 160), 'measured': [rr.choice([-1.0, 1.0])], 'error': [rr.choice([0.2, 0.5])],
                    'ipp': rr.choice([None, 0.2])}
            ar = [{'name': nm, 'az': rr.uniform(0, 360), 'toa': rr.uniform(20, 160), 'measured': [rr.uniform(0.5, 2), rr.uniform(0.5, 2)],
                   'error': [rr.uniform(0.1, 0.4), rr.uniform(0.1, 0.4)], 'ipp': None} for nm in ('S03', 'S11')]
            ev = {'types': {'PPolarity': [prow], 'P/SHAmplitudeRatio': ar}, 'loc': None, 'weights': None}
            full, only = run(ev, mts), run(ev, mts, keys=['P/SHAmplitudeRatio'])
            cov['glue_events'] += 1
            for j, mt in enumerate(mts):
                exp = math.log(max(station_p(prow, mt), 1e-300))
                if full.shape != only.shape or not abs((full[j] - only[j]) - exp) < 1e-7 * (1 + abs(exp)):
                    fails.append(Failure('property', {'kind': 'glue-one-station', 'row': prow, 'tensor': mt},
                                         'an event with one polarity station: the polarity factor of the forward task is exp(%r), the formula gives exp(%r)'
                                         % (float(full[j] - only[j]) if full.shape == only.shape else None, exp), key='glue-one-station'))
                    break
            # (b) location samples covering every station, names not in alphabetical order, a different mis-pick probability per station
            names = ['S09', 'S02', 'S15', 'S04']
            ws = [0.0, 0.1, 0.3, 0.45]
            rows = [{'name': nm, 'az': rr.uniform(0, 360), 'toa': rr.uniform(20, 160), 'measured': [rr.choice([-1.0, 1.0])], 'error': [0.3], 'ipp': w}
                    for nm, w in zip(names, ws)]
            order = ['S04', 'S15', 'S09', 'S02']
            samples = [[(rr.uniform(0, 360), rr.uniform(20, 160)) for _nm in order] for _k in range(3)]
            ev = {'types': {'PPolarity': rows}, 'loc': {'names': order, 'samples': samples}, 'weights': None}
            got = run(ev, mts)
            cov['glue_events'] += 1
            exp = []
            for mt in mts:
                tot = 0.0
                for smp in samples:
                    pr_ = 1.0
                    for row in rows:
                        az, toa = smp[order.index(row['name'])]
                        pr_ *= station_p(row, mt, az, toa)
                    tot += pr_
                exp.append(math.log(max(tot, 1e-300)))
            # compare up to the common normalisation of the sample sum
            dev = max(abs((got[j] - got[0]) - (exp[j] - exp[0])) for j in range(len(mts))) if len(got) == len(mts) else float('inf')
            if not dev < 1e-7:
                fails.append(Failure('property', {'kind': 'glue-location-mispick', 'rows': rows, 'location_order': order},
                                     'location samples covering every station (stations not in alphabetical order, a different mis-pick probability per station): '
                                     'log-probabilities relative to the first tensor differ from the per-station formula by %r' % dev, key='glue-location-mispick'))
        return cov, fails[:3]

    def nontrivial(self, case, impl):
        if 'A' in case:
            return case['A'] != 0.0
        return True

    def branch(self, case, impl):
        k = case['kind']
        if k == 'pol-scalar':
            s = case['sigma']
            z = abs(case['A']) / (s if s else 1e-24)
            return '%s/%s/%s' % (k, 'sigma0' if s == 0 else 'sigma+', 'zero' if z == 0 else 'core' if z < 4 else 'tail' if z < 9 else 'far')
        if k == 'pp-scalar':
            return '%s/%s' % (k, 'A0' if case['A'] == 0 else 'A+' if case['A'] > 0 else 'A-')
        return '%s/%s' % (k, case['wmode'])

    def extra(self, rng, tier):
        """erf agreement grid: Lean Float erf vs scipy.special.erf"""
        from scipy.special import erf
        from common import run_driver, Failure
        xs = [i / 250.0 - 8.0 for i in range(4001)] + [rng.gauss(0, 2) for _ in range(1000)] + \
             [0.0, 1e-300, 1e-20, 2.5, 6.5, 30.0, -30.0, 1e300, -1e300]
        rep = run_driver(['erf ' + bits(x) for x in xs])
        worst = 0.0
        for x, r in zip(xs, rep):
            worst = max(worst, abs(reply_floats(r)[0] - float(erf(x))))
        fails = []
        if worst > 2e-15:
            fails.append(Failure('mismatch', {'kind': 'erf-grid'}, 'Lean erf differs from scipy erf by %r' % worst))
        gcov, gfails = self._extra_glue(rng, tier)
        gcov.update({'erf_grid_points': len(xs), 'erf_max_abs_difference': worst})
        return gcov, fails + gfails


if __name__ == '__main__':
    import sys
    sys.exit(main(C02()))
