"""C15 — joint multiple-event forward task: correspondence with the Lean model and the statement as an oracle."""
import copy
import math

import datagen as dg
from common import Prop, bits, unbits, close, import_mtfit, main, Failure
from c02 import unit6

NEG_INF = float('-inf')
REL_KEYS = {'p': 'PAmplitude', 'sh': 'SHAmplitude', 'sv': 'SVRMSAmplitude'}
POOL = ['R%02d' % i for i in range(9)]


def lp_close(a, b, tol=1e-7, extra=0.0):
    if a == b:
        return True
    if (a == NEG_INF or a < -600) and (b == NEG_INF or b < -600):
        return True
    if a == NEG_INF or b == NEG_INF or a != a or b != b:
        return False
    return abs(a - b) <= tol * max(1.0, abs(a), abs(b)) + extra


def cond_extra(case):
    """absolute tolerance on a joint log-probability from the conditioning of the ratio density: the exponent is a difference of terms
    of size 1/e^2 (e the fractional error), so rounding moves it by about 1e-15/e^2 per observation"""
    k = 0.0
    for e in case['events']:
        for r in e['rel']:
            if r['err'] == 0:
                return float('inf')
            k += (abs(r['amp']) / r['err']) ** 2
    return 4e-15 * k


class C15(Prop):
    id = 'C15'
    assumptions = ['each event\'s own log-probability is the result of the single-event forward task on the same data (the subject of C01) and '
                   'enters the model as an input',
                   'one location sample per event (location-sample sets shared between events are not modelled)',
                   'relative amplitudes on one phase, or on two phases observed at the same stations of an event (observations of a station are then paired '
                   'in the order the phases are listed)',
                   'pure-Python path; log-probabilities below -600 count as zero on both sides']
    unproved = []
    rule = ('2..4 events, per-event polarity / polarity-probability / amplitude-ratio data as in C01 (no location samples), relative P, SH or SV '
            'amplitudes on 0..7 stations per event drawn from a pool of 9 names (no / partial / full overlap, independent orders), minimum '
            'intersections 0..5, relative data on/off, zero filtering on/off, 1..6 tuples of unit tensors; a third of the cases have amplitudes '
            'consistent with known scale factors (errors 1e-1..1e-7) to probe the zero-noise limit; per case one station-order probe; '
            'non-trivial = at least one event pair sharing two or more stations')

    def setup(self):
        import_mtfit()
        import numpy as np
        from MTfit import inversion
        from MTfit.probability import probability as pr
        self.np, self.inv, self.pr = np, inversion, pr
        np.seterr(all='ignore')
        import types
        pr.gc = types.SimpleNamespace(collect=lambda *a, **k: 0)
        inversion.gc = types.SimpleNamespace(collect=lambda *a, **k: 0)

    # ------------------------------------------------------------------ generation
    def gen(self, rng, tier):
        n = 150 if tier == 'quick' else 2500
        for i in range(n):
            ne = rng.choice([2, 2, 3, 4])
            phase = rng.choice(['p', 'p', 'sh', 'sv'])
            two_phase = phase == 'p' and rng.random() < 0.3
            phase2 = 'sh'
            nt = rng.randint(1, 6)
            consistent = rng.random() < 0.35
            err_level = 0.0 if rng.random() < 0.15 else 10 ** rng.uniform(-5, -1)
            overlap = rng.choice(['random', 'full', 'none', 'random'])
            common = rng.sample(POOL, rng.randint(2, 7))
            events, truth, scales = [], [], []
            for e in range(ne):
                ev = dg.gen_event(rng, want_loc=False, max_sta=5)
                if overlap == 'full':
                    names = list(common)
                elif overlap == 'none':
                    names = [nm + ('_%d' % e) for nm in rng.sample(POOL, rng.randint(0, 5))]
                else:
                    names = rng.sample(POOL, rng.randint(0, 7))
                rng.shuffle(names)
                m_true = unit6(rng)
                # manual polarities agree with the event's reference source, so that a good share of the candidates has non-zero probability
                for key, prow in ev['types'].items():
                    if 'polarity' in key.lower() and 'prob' not in key.lower():
                        for r in prow:
                            v = sum(a * b for a, b in zip(dg.coeff_row(dg.phase_of_pol_key(key), r['az'], r['toa']), m_true))
                            r['measured'] = [1.0 if v >= 0 else -1.0]
                    elif 'polarityprob' in key.lower().replace('_', ''):
                        for r in prow:
                            v = sum(a * b for a, b in zip(dg.coeff_row(dg.phase_of_pol_key(key), r['az'], r['toa']), m_true))
                            hi = rng.choice([0.9, 0.6, 1.0, rng.random()])
                            r['measured'] = [hi, 1.0 - hi] if v >= 0 else [1.0 - hi, hi]
                    elif 'amplituderatio' in key.lower().replace('_', '') and rng.random() < 0.8:
                        px, py = dg.phases_of_ar_key(key)
                        for r in prow:
                            x = sum(a * b for a, b in zip(dg.coeff_row(px, r['az'], r['toa']), m_true)) * (1 + rng.gauss(0, 0.05))
                            y = sum(a * b for a, b in zip(dg.coeff_row(py, r['az'], r['toa']), m_true)) * (1 + rng.gauss(0, 0.05))
                            r['measured'] = [x, y]
                            r['error'] = [abs(x) * rng.choice([0.1, 0.3]), abs(y) * rng.choice([0.1, 0.3])]
                k = 10 ** rng.uniform(-2, 2)
                rows = []
                for nm in names:
                    az, toa = rng.uniform(0, 360), rng.uniform(5, 175)
                    if consistent:
                        amp = k * abs(sum(a * b for a, b in zip(dg.coeff_row(phase, az, toa), m_true)))
                        err = amp * err_level
                        if rng.random() < 0.3:
                            amp = -amp
                    else:
                        amp = 10 ** rng.uniform(-2, 2) * rng.choice([1, 1, -1])
                        err = abs(amp) * rng.choice([10 ** rng.uniform(-3, 0), 10 ** rng.uniform(-2, -0.5)])
                    rows.append({'name': nm, 'az': az, 'toa': toa, 'amp': amp, 'err': err, 'phase': phase})
                if two_phase:
                    # the same stations observed on a second phase (listed after the first one, as the matrix builder does)
                    extra = []
                    for r in rows:
                        if consistent:
                            amp2 = k * abs(sum(a * b for a, b in zip(dg.coeff_row(phase2, r['az'], r['toa']), m_true)))
                            err2 = amp2 * err_level
                        else:
                            amp2 = 10 ** rng.uniform(-2, 2)
                            err2 = amp2 * 10 ** rng.uniform(-2, -0.5)
                        extra.append({'name': r['name'], 'az': r['az'], 'toa': r['toa'], 'amp': amp2, 'err': err2, 'phase': phase2})
                    rows = rows + extra
                events.append({'abs': ev, 'rel': rows})
                truth.append(m_true)
                scales.append(k)
            tuples = []
            for t in range(nt):
                if t == 0:
                    tuples.append([list(m) for m in truth])
                elif rng.random() < 0.6:
                    tp = []
                    for m in truth:
                        v = [x + rng.gauss(0, 0.15) for x in m]
                        nv = math.sqrt(sum(x * x for x in v))
                        tp.append([x / nv for x in v])
                    tuples.append(tp)
                else:
                    tuples.append([unit6(rng) for _ in range(ne)])
            if i == 0:
                for fc in self.extra_cases(rng, tier):
                    yield fc
            yield {'kind': 'joint', 'events': events, 'tuples': tuples, 'phase': phase, 'relative': rng.random() < 0.8,
                   'min_int': rng.choice([0, 1, 2, 2, 3, 5]), 'return_zero': rng.random() < 0.6,
                   'consistent': consistent, 'scales': scales, 'err_level': err_level if consistent else None,
                   'probe_seed': rng.randrange(1 << 30)}

    def extra_cases(self, rng, tier):
        """joint inversions requested through the Inversion front end (serial random sampling): broad polarity data so that a good share
        of the sampled tuples has non-zero probability, relative P amplitudes on partially overlapping stations"""
        for i in range(4 if tier == 'quick' else 30):
            ne = rng.choice([2, 3]) if i % 2 == 0 else 3
            events, truth = [], []
            for e in range(ne):
                names = rng.sample(POOL, rng.randint(2, 6)) if i % 2 == 0 else rng.sample(POOL[:6], rng.randint(4, 6))
                m_true = unit6(rng)
                k = 10 ** rng.uniform(-1, 1)
                rows, prow = [], []
                for nm in names:
                    az, toa = rng.uniform(0, 360), rng.uniform(10, 80)
                    amp = k * sum(a * b for a, b in zip(dg.coeff_row('p', az, toa), m_true))
                    perr = rng.choice([0.1, 0.2, 0.3])
                    rows.append({'name': nm, 'az': az, 'toa': toa, 'amp': amp * (1 + perr * rng.gauss(0, 0.5)), 'err': perr * abs(amp), 'phase': 'p'})
                    prow.append({'name': nm, 'az': az, 'toa': toa, 'measured': [1.0 if amp >= 0 else -1.0], 'error': [0.5], 'ipp': None})
                events.append({'abs': {'types': {'PPolarity': prow}, 'loc': None, 'weights': None}, 'rel': rows})
                truth.append(m_true)
            if i % 2 == 1:
                # an event that is not the last one carries no absolute amplitudes at all (polarities only): its pairs contribute nothing, the other pairs are unaffected
                events[rng.randrange(ne - 1)]['rel'] = []
            yield {'kind': 'frontend', 'events': events, 'tuples': [], 'phase': 'p', 'relative': True, 'min_int': rng.choice([1, 2, 2, 3, 4]) if i % 2 == 0 else rng.choice([1, 2]),
                   'return_zero': True, 'consistent': False, 'scales': [1.0] * ne, 'err_level': None, 'probe_seed': rng.randrange(1 << 30),
                   'samples': rng.choice([150, 300])}

    # ------------------------------------------------------------------ implementation
    def _frontend(self, case):
        import contextlib
        import io
        import os
        import shutil
        import tempfile
        np, inv = self.np, self.inv
        evs = []
        for n_, e in enumerate(case['events']):
            data, _loc = dg.to_mtfit(e['abs'], np)
            rows = e['rel']
            if rows:
                data['PAmplitude'] = {'Stations': {'Name': [r['name'] for r in rows], 'Azimuth': np.matrix([[r['az']] for r in rows]),
                                                   'TakeOffAngle': np.matrix([[r['toa']] for r in rows])},
                                      'Measured': np.matrix([[r['amp']] for r in rows]), 'Error': np.matrix([[r['err']] for r in rows])}
            data['UID'] = 'ev%d' % n_
            evs.append(data)
        cwd = os.getcwd()
        tmp = tempfile.mkdtemp(prefix='c15fe_')
        sink = io.StringIO()
        try:
            os.chdir(tmp)
            np.random.seed(case['probe_seed'] % (2 ** 32))
            with contextlib.redirect_stdout(sink), contextlib.redirect_stderr(sink):
                I = inv.Inversion(evs, multiple_events=True, algorithm='iterate', max_samples=case['samples'], number_samples=case['samples'] // 2,
                                  parallel=False, phy_mem=0.5, relative_amplitude=True, minimum_number_intersections=case['min_int'], convert=False)
                I._random_sampling_multiple_forward()
            ps = I.algorithm.pdf_sample
            n = len(ps)
            M = np.asarray(ps.moment_tensors[:, :n], dtype=float)
            ln = ps.ln_pdf
            ln = np.asarray(ln._ln_pdf if hasattr(ln, '_ln_pdf') else ln, dtype=float).flatten()[:n]
        finally:
            os.chdir(cwd)
            shutil.rmtree(tmp, ignore_errors=True)
        ne = len(case['events'])
        tuples = [[[float(v) for v in M[6 * e:6 * e + 6, c]] for e in range(ne)] for c in range(min(n, 12))]
        return tuples, [float(v) for v in ln[:len(tuples)]]

    def _matrices(self, e, phase):
        np, inv = self.np, self.inv
        data, _loc = dg.to_mtfit(e['abs'], np)
        for ph in sorted({r.get('phase', phase) for r in e['rel']}):
            rows = [r for r in e['rel'] if r.get('phase', phase) == ph]
            data[REL_KEYS[ph]] = {'Stations': {'Name': [r['name'] for r in rows],
                                               'Azimuth': np.matrix([[r['az']] for r in rows]),
                                               'TakeOffAngle': np.matrix([[r['toa']] for r in rows])},
                                  'Measured': np.matrix([[r['amp']] for r in rows]),
                                  'Error': np.matrix([[r['err']] for r in rows])}
        a_pol, err_pol, ipp = inv.polarity_matrix(data, False)
        a1, a2, ratio, pe1, pe2 = inv.amplitude_ratio_matrix(data, False)
        a_pp, pp, ipp2 = inv.polarity_probability_matrix(data, False)
        if isinstance(a_pol, bool):
            ipp = ipp2
        a_rel, amp, perr, stations = inv.relative_amplitude_ratio_matrix(data, False)
        return dict(a_pol=a_pol, err_pol=err_pol, ipp=ipp, a1=a1, a2=a2, ratio=ratio, pe1=pe1, pe2=pe2, a_pp=a_pp, pp=pp,
                    a_rel=a_rel, amp=amp, perr=perr, stations=stations)

    def _run(self, events, tuples, phase, relative, min_int, return_zero):
        np, inv = self.np, self.inv
        M = [self._matrices(e, phase) for e in events]
        ne = len(events)
        mts = [np.array([t[e] for t in tuples], dtype=float).T for e in range(ne)]
        g = lambda k: [m[k] for m in M]
        # events without relative data: empty arrays / station lists (as the Inversion leaves them when the type is absent)
        a_rel = [m['a_rel'] if not isinstance(m['a_rel'], bool) else np.zeros((0, 1, 6)) for m in M]
        amp = [m['amp'] if not isinstance(m['amp'], bool) else np.zeros((0,)) for m in M]
        perr = [m['perr'] if not isinstance(m['perr'], bool) else np.zeros((0,)) for m in M]
        stn = [m['stations'] if m['stations'] else [] for m in M]
        task = inv.MultipleEventsForwardTask([m.copy() for m in mts], g('a_pol'), g('err_pol'), g('a1'), g('a2'), g('ratio'), g('pe1'), g('pe2'),
                                             g('a_pp'), g('pp'), a_rel, amp, perr, stn, False, g('ipp'), min_int,
                                             return_zero=return_zero, relative=relative, combine=True)
        import io
        import contextlib
        sink = io.StringIO()
        with contextlib.redirect_stdout(sink):
            res = task()
        printed = sink.getvalue()
        lnp = res['ln_pdf']
        lnp = np.asarray(lnp._ln_pdf if hasattr(lnp, '_ln_pdf') else lnp, dtype=float)
        out = {'n': int(res['n']), 'printed': printed[:300]}
        out['ln'] = [float(v) for v in lnp.flatten()] if lnp.size else []
        out['rows'] = int(lnp.shape[0]) if lnp.ndim == 2 and lnp.size else (1 if lnp.size else 0)
        rm = res['moment_tensors']
        idx = []
        if isinstance(rm, list) and len(rm) == ne and all(np.asarray(x).size for x in rm):
            ncol = np.asarray(rm[0]).shape[1]
            for c in range(ncol):
                cand = None
                cols = [[float(v) for v in np.asarray(rm[e], dtype=float)[:, c]] for e in range(ne)]
                for ti, t in enumerate(tuples):
                    if all(cols[e] == [float(v) for v in t[e]] for e in range(ne)):
                        cand = ti
                        break
                idx.append(-1 if cand is None else cand)
            out['shapes'] = [list(np.asarray(x).shape) for x in rm]
        out['idx'] = idx
        sf = res.get('scale_factor', None)
        if sf is not None and sf is not False and len(sf) and isinstance(sf[0], dict):
            out['scale'] = [[[float(v) for v in row] for row in np.asarray(s['mu'], dtype=float).reshape(ne, ne)] for s in sf]
            out['scale_sigma'] = [[[float(v) for v in row] for row in np.asarray(s['sigma'], dtype=float).reshape(ne, ne)] for s in sf]
        return out

    def _single(self, e, mts, phase):
        """log-probability of every candidate of one event on its own (single-event forward task)"""
        np, inv = self.np, self.inv
        m = self._matrices(e, phase)
        mt = np.array(mts, dtype=float).T
        res = inv.ForwardTask(mt, m['a_pol'], m['err_pol'], m['a1'], m['a2'], m['ratio'], m['pe1'], m['pe2'], m['a_pp'], m['pp'], False, m['ipp'],
                              return_zero=True, marginalise=False)()
        lnp = res['ln_pdf']
        lnp = np.asarray(lnp._ln_pdf if hasattr(lnp, '_ln_pdf') else lnp, dtype=float).flatten()
        return [float(v) for v in lnp]

    def _pair_public(self, ei, ej, mi, mj, phase):
        """ratio-likelihood term of an event pair from the public likelihood function on name-matched stations"""
        np, pr = self.np, self.pr
        bj = {}
        for r in ej['rel']:
            bj.setdefault((r['name'], r.get('phase', phase)), r)
        shared = [(r, bj[(r['name'], r.get('phase', phase))]) for r in ei['rel'] if (r['name'], r.get('phase', phase)) in bj]
        if not shared:
            return 0, None
        a1 = np.array([[dg.coeff_row(r.get('phase', phase), r['az'], r['toa'])] for r, _s in shared])
        a2 = np.array([[dg.coeff_row(s.get('phase', phase), s['az'], s['toa'])] for _r, s in shared])
        x1 = np.array([abs(r['amp']) for r, _s in shared])
        x2 = np.array([abs(s['amp']) for _r, s in shared])
        p1 = np.array([r['err'] / abs(r['amp']) for r, _s in shared])
        p2 = np.array([s['err'] / abs(s['amp']) for _r, s in shared])
        lnp, sc, scu = pr.relative_amplitude_ratio_ln_pdf(x1, x2, np.ascontiguousarray(np.array(mi, dtype=float).T), np.ascontiguousarray(np.array(mj, dtype=float).T),
                                                         a1, a2, p1, p2)
        return len(shared), ([float(v) for v in np.asarray(lnp).flatten()], [float(v) for v in np.asarray(sc).flatten()])

    def impl(self, case):
        fe = None
        if case['kind'] == 'frontend':
            tuples, fe_ln = self._frontend(case)
            if not tuples:
                tuples, fe_ln = [[unit6(__import__('random').Random(case['probe_seed'] + e)) for e in range(len(case['events']))]], None
            case['tuples'] = tuples
            fe = fe_ln
        ev, tp, ph = case['events'], case['tuples'], case['phase']
        out = self._run(copy.deepcopy(ev), tp, ph, case['relative'], case['min_int'], case['return_zero'])
        out['full'] = self._run(copy.deepcopy(ev), tp, ph, case['relative'], case['min_int'], True)
        ne = len(ev)
        out['single'] = [self._single(ev[e], [t[e] for t in tp], ph) for e in range(ne)]
        pairs = {}
        for i in range(ne):
            for j in range(i):
                n, val = self._pair_public(ev[i], ev[j], [t[i] for t in tp], [t[j] for t in tp], ph)
                pairs['%d,%d' % (i, j)] = {'n': n, 'ln': val[0] if val else None, 'scale': val[1] if val else None}
        out['pairs'] = pairs
        # probe: the same case with the station order of every event shuffled
        import random
        rng = random.Random(case['probe_seed'])
        ev2 = copy.deepcopy(ev)
        for e in ev2:
            rng.shuffle(e['rel'])
        out['shuffled'] = self._run(ev2, tp, ph, case['relative'], case['min_int'], True)
        if case['kind'] == 'frontend':
            out['frontend_ln'] = fe
        return out

    # ------------------------------------------------------------------ model
    def requests(self, case, impl):
        if 'exc' in impl:
            return []
        ev, ph = case['events'], case['phase']
        ranks = {n: i for i, n in enumerate(sorted({r['name'] for e in ev for r in e['rel']}))}
        reqs = []
        for ti, t in enumerate(case['tuples']):
            toks = ['1' if case['relative'] else '0', str(case['min_int']), str(len(ev))]
            for e in range(len(ev)):
                toks.append(bits(impl['single'][e][ti]))
                toks += [bits(v) for v in t[e]]
                toks.append(str(len(ev[e]['rel'])))
                for r in ev[e]['rel']:
                    toks.append(str(ranks[r['name']]))
                    toks += [bits(v) for v in dg.coeff_row(r.get('phase', ph), r['az'], r['toa'])]
                    toks += [bits(abs(r['amp'])), bits(r['err'] / abs(r['amp']))]
            reqs.append('joint ' + ' '.join(toks))
        return reqs

    def compare(self, case, impl, replies):
        if 'exc' in impl:
            return [('implementation raised %s: %s' % (impl['exc'], impl.get('msg')), impl)]
        out = []
        full = impl['full']
        ne = len(case['events'])
        xt = cond_extra(case) if case['relative'] else 0.0
        if len(full['ln']) != len(case['tuples']):
            return [('implementation returned %d log-probabilities for %d tuples (printed: %r)' % (len(full['ln']), len(case['tuples']), full['printed']), None)]
        for ti, rep in enumerate(replies):
            if rep.startswith('bad') or rep.startswith('err'):
                return [('model rejected the input: %s' % rep, None)]
            t = rep.split()
            total = unbits(t[0])
            if not lp_close(total, full['ln'][ti], extra=xt) and xt != float('inf'):
                out.append(('tuple %d: joint log-probability model %r, implementation %r' % (ti, total, full['ln'][ti]), None))
                break
            p = 1
            finite = total != NEG_INF and total > -600
            for i in range(ne):
                for j in range(i):
                    n, has, sc = int(t[p]), int(t[p + 1]), unbits(t[p + 2])
                    p += 4
                    if n != impl['pairs']['%d,%d' % (i, j)]['n']:
                        out.append(('events %d,%d share %d stations, model pairs %d' % (i, j, impl['pairs']['%d,%d' % (i, j)]['n'], n), None))
                    if has and case['relative'] and finite and 'scale' in full and ti < len(full['scale']):
                        got = full['scale'][ti][i][j]
                        if not close(sc, got, rtol=1e-6, atol=1e-12):
                            out.append(('tuple %d: scale factor of events %d,%d model %r, implementation %r' % (ti, i, j, sc, got), None))
            if out:
                break
        return out[:3]

    # ------------------------------------------------------------------ oracle: the statement on the real code
    def oracle(self, case, impl):
        if 'exc' in impl:
            return [('raises', 'joint forward task raised %s: %s' % (impl['exc'], impl.get('msg')), impl)]
        out = []
        ne, nt = len(case['events']), len(case['tuples'])
        full = impl['full']
        xt = cond_extra(case) if case['relative'] else 0.0
        if len(full['ln']) != nt:
            out.append(('shape', '%d log-probabilities for %d tuples' % (len(full['ln']), nt), None))
            return out
        # expected value: sum of the events' own terms plus one term per pair with enough shared stations
        exp = []
        for ti in range(nt):
            v = sum(impl['single'][e][ti] for e in range(ne))
            if case['relative']:
                for i in range(ne):
                    for j in range(i):
                        pz = impl['pairs']['%d,%d' % (i, j)]
                        if pz['n'] >= case['min_int'] and pz['n'] > 0:
                            x = pz['ln'][ti]
                            v = v + (x if x == x else NEG_INF)
            exp.append(v if v == v else NEG_INF)
        for ti in range(nt):
            if not lp_close(exp[ti], full['ln'][ti], extra=xt) and xt != float('inf'):
                kind = 'additivity' if case['relative'] else 'independence'
                out.append((kind, 'tuple %d: joint log-probability %r, sum of event terms and shared-station pair terms %r (relative=%s, minimum %d, '
                            'shared %r)' % (ti, full['ln'][ti], exp[ti], case['relative'], case['min_int'],
                                            {k: v['n'] for k, v in impl['pairs'].items()}), None))
                break
        # station order must not matter
        sh = impl['shuffled']
        if len(sh['ln']) != nt or (xt != float('inf') and not all(lp_close(a, b, extra=xt) for a, b in zip(sh['ln'], full['ln']))):
            out.append(('station-order', 'listing the stations in another order changes the joint log-probability: %r vs %r' % (full['ln'][:3], sh['ln'][:3]), None))
        if 'scale' in full and 'scale' in sh:
            for ti in range(min(len(full['scale']), len(sh['scale']))):
                if full['ln'][ti] > -600 and not all(close(a, b, rtol=1e-6) for ra, rb in zip(full['scale'][ti], sh['scale'][ti]) for a, b in zip(ra, rb)):
                    out.append(('station-order', 'listing the stations in another order changes the scale factors of tuple %d' % ti, None))
                    break
        # scale factor: agrees with the public estimator on name-matched stations; zero-noise limit
        if case['relative'] and 'scale' in full:
            for i in range(ne):
                for j in range(i):
                    pz = impl['pairs']['%d,%d' % (i, j)]
                    if pz['n'] >= max(case['min_int'], 1):
                        for ti in range(min(nt, len(full['scale']))):
                            if full['ln'][ti] > -600 and not close(full['scale'][ti][i][j], pz['scale'][ti], rtol=1e-6):
                                out.append(('scale', 'tuple %d events %d,%d: reported scale %r, estimator on the shared stations %r' %
                                            (ti, i, j, full['scale'][ti][i][j], pz['scale'][ti]), None))
                                break
                        if case['consistent'] and full['ln'] and full['ln'][0] > -600 and len(full['scale']) > 0:
                            k = case['scales'][i] / case['scales'][j]
                            e = case['err_level']
                            if not close(full['scale'][0][i][j], k, rtol=20 * e * e + 1e-9):
                                out.append(('zero-noise', 'events %d,%d: amplitudes consistent with ratio %r at error level %g, estimated scale %r' %
                                            (i, j, k, e, full['scale'][0][i][j]), None))
        # zero filtering: exactly the tuples of non-zero probability, each with its own value
        if not case['return_zero'] and (xt == float('inf') or any(v != v or v == float('inf') for v in full['ln'])):
            pass            # errors of exactly zero: the ratio density is numerically meaningless, nothing to compare
        elif not case['return_zero']:
            keep = [ti for ti in range(nt) if full['ln'][ti] != NEG_INF]
            got = impl['idx']
            if -1 in got:
                out.append(('filter-pairing', 'a returned tuple is not one of the candidates (events mis-aligned): %r' % impl.get('shapes'), None))
            elif keep and sorted(got) != keep:
                # tuples of "effectively zero" probability may be kept or dropped
                hard = [ti for ti in keep if full['ln'][ti] > -600]
                if not set(hard) <= set(got) or not set(got) <= set(keep):
                    out.append(('filter', 'zero filtering kept tuples %r, tuples with non-zero probability are %r' % (got, keep), None))
            elif not keep and impl['ln']:
                out.append(('filter', 'every tuple has zero probability but %d values were returned' % len(impl['ln']), None))
            if got and -1 not in got and len(impl['ln']) == len(got):
                for c, ti in enumerate(got):
                    if not lp_close(impl['ln'][c], full['ln'][ti], extra=xt) and xt != float('inf'):
                        out.append(('filter-pairing', 'kept tuple %d carries log-probability %r, its own is %r' % (ti, impl['ln'][c], full['ln'][ti]), None))
                        break
        elif impl['idx'] and impl['idx'] != list(range(nt)):
            out.append(('filter', 'without zero filtering the returned tuples are %r' % impl['idx'], None))
        if impl['n'] != nt:
            out.append(('count', 'n is %d for %d tuples' % (impl['n'], nt), None))
        if impl.get('frontend_ln') is not None:
            fl_ = impl['frontend_ln']
            bad = [ti for ti in range(min(nt, len(fl_))) if not lp_close(fl_[ti], exp[ti], extra=xt)]
            if bad:
                out.append(('frontend', 'the inversion front end stored %r for tuple %d, the sum of event terms and pair terms with the configured minimum '
                            'of %d shared stations is %r (shared %r)' % (fl_[bad[0]], bad[0], case['min_int'], exp[bad[0]],
                                                                        {k: v['n'] for k, v in impl['pairs'].items()}), None))
        return out[:4]

    def nontrivial(self, case, impl):
        return isinstance(impl, dict) and any(v['n'] >= 2 for v in impl.get('pairs', {}).values())

    def branch(self, case, impl):
        if not isinstance(impl, dict) or 'pairs' not in impl:
            return 'error'
        if case['kind'] == 'frontend':
            return 'frontend/E%d/min%d/%s' % (len(case['events']), case['min_int'], 'values' if impl.get('frontend_ln') else 'no-samples')
        ns = [v['n'] for v in impl['pairs'].values()]
        used = [n for n in ns if n >= case['min_int'] and n > 0]
        return 'E%d/%s/%s/%s' % (len(case['events']), 'rel' if case['relative'] else 'norel',
                                 'pairs-used' if used and case['relative'] else 'no-pairs', 'rz' if case['return_zero'] else 'filter')

    # ------------------------------------------------------------------ a joint task object that is re-used for a sequence of tuples (Markov-chain driver)
    def _reuse_history(self, seed, ne):
        import contextlib
        import io as _io
        np = self.np
        from MTfit import inversion as inv
        n = 5
        evs = []
        for e in range(ne):
            r = np.random.RandomState(seed * 10 + e)
            st = {'Name': ['S%d' % i for i in range(n)], 'Azimuth': np.matrix(r.uniform(0, 360, n)).T, 'TakeOffAngle': np.matrix(r.uniform(20, 160, n)).T}
            m = r.randn(6)
            m /= np.linalg.norm(m)
            a = np.asarray(inv.station_angles(st, 'P'))
            data = {'PPolarity': {'Stations': st, 'Measured': np.matrix(np.sign(a.dot(m))).T, 'Error': np.matrix(0.05 * np.ones((n, 1)))}}
            evs.append((inv.polarity_matrix(data), m))
        a_pol, err, ipp = [e[0][0] for e in evs], [e[0][1] for e in evs], [e[0][2] for e in evs]
        F = [False] * ne
        emp3, emp1 = [np.zeros((0, 1, 6))] * ne, [np.zeros((0,))] * ne

        def make(reuse):
            return inv.MultipleEventsForwardTask([np.zeros((6, 1))] * ne, a_pol, err, F, F, F, F, F, F, F, emp3, emp1, emp1, [[] for _ in range(ne)], False, ipp, 2,
                                                 return_zero=True, reuse=reuse, relative=False, combine=True)

        def run(task, mts):
            task.mts = [np.array(np.matrix(m).T, dtype=float) for m in mts]
            with contextlib.redirect_stdout(_io.StringIO()):
                r = task()
            lp = r['ln_pdf']
            return [float(v) for v in np.asarray(lp._ln_pdf if hasattr(lp, '_ln_pdf') else lp, dtype=float).flatten()]
        true = [e[1] for e in evs]
        rs = np.random.RandomState(seed)
        tuples = []
        bad_event = 0 if seed % 2 == 1 else seed % ne
        tuples.append([(-m if i == bad_event else m) for i, m in enumerate(true)])       # first tuple: impossible for one event
        tuples.append(list(true))
        tuples.append([true[0]] * ne)                                                      # every event gets the source that fits event 0
        for _t in range(3):
            tuples.append([(m + 0.2 * rs.randn(6)) for m in true])
        t = make(True)
        out = []
        for k_, tp in enumerate(tuples):
            tp = [m / np.linalg.norm(m) for m in tp]
            out.append({'call': k_, 'reused': run(t, tp), 'fresh': run(make(False), tp)})
        return out

    def extra(self, rng, tier):
        runs, fails = [], []
        for seed, ne in ([(41, 2), (42, 3)] if tier == 'quick' else [(41, 2), (42, 3), (43, 2), (44, 3), (45, 4)]):
            hist = self._reuse_history(seed, ne)
            runs.append({'seed': seed, 'events': ne, 'calls': len(hist)})
            for h in hist:
                same = len(h['reused']) == len(h['fresh']) and all((a_ == b_) or close(a_, b_, atol=1e-9) for a_, b_ in zip(h['reused'], h['fresh']))
                if not same:
                    fails.append(Failure('property', {'kind': 'reuse-history', 'seed': seed, 'events': ne},
                                         'a joint forward task re-used for a sequence of tuples (%d events; the first tuple is impossible for one event) gives %r at call %d, a fresh task on the '
                                         'same tuple %r: the events are no longer evaluated with their own data' % (ne, h['reused'], h['call'], h['fresh']), key='reuse-history'))
                    break
        return {'reuse_histories': runs}, fails


if __name__ == '__main__':
    import sys
    sys.exit(main(C15()))
