"""C20 — compiled kernels versus the pure-Python paths.

The Cython toolchain is not available, so the compiled code cannot be run.  Instead the scalar kernels of the .pyx sources are
translated to Lean on every run (gen_pyx.py), theorems state that they equal the models of the Python paths over the reals, and
this harness evaluates the translated kernels at Float against the real Python functions on generated inputs (which is also the
search for a failing input when a theorem stops checking)."""
import math

import gen_pyx
from common import Prop, bits, close, reply_floats, import_mtfit, main

PI = math.pi
NEG_INF = float('-inf')


class C20(Prop):
    id = 'C20'
    assumptions = ['the translator harness/gen_pyx.py renders the C semantics of the scalar kernels faithfully (operator trees, libc.math calls, '
                   'cdivision, output pointers as returned tuples); it is part of the trusted base',
                   'array kernels are rendered as Lean do-blocks over Array (flat C-contiguous indexing, shapes as naturals); reads outside an array give 0 and '
                   'writes outside are dropped (undefined behaviour in C); np.empty storage is modelled as zeros; OpenMP, the C random number generators, the def-level '
                   'memory-view plumbing and the C compiler are outside the model',
                   'the Windows-only replacements of libc functions (erf approximation) are not the code modelled',
                   'constant ND of the uniform prior is taken from its numeric definition (the gamma-function form is not evaluated)']
    unproved = ['the 22 translated array kernels (station / location-sample / tensor loops of all likelihoods, ln_prod / ln_combine / ln_multipliers, relative-amplitude loops, scatter binning) are '
                'evaluated against the Python paths at Float; loop theorems (Props/C20Loops, C20LoopsCombined, C20Relative, C20Binning) C20Misc) cover all station kernels, all seven wrappers, the relative-amplitude loops, binning, ln_prod / ln_combine / ln_multipliers and the reductions; the batched conversions cMultipleTape_MT6 / SDR_SDR have the Float evaluation only; the *_gen variants, relative_amplitude_loop and random generation are not '
                'translated (listed per function in the evidence)',
                'one-dimensional array reductions c_ln_normalise, c_dkl, c_dkl_uniform are translated (left folds) and evaluated against '
                'ln_normalise / dkl of the Python path, without an equality theorem',
                'cTP_SDR is translated but not evaluated; uniform_prior_ratio in the dimension-jump cases is equal only up to the rounding of the Beta normalisation constant']
    rule = ('every translated kernel on 40 (thorough 600) generated argument tuples from the domain of the Python function it replaces '
            '(signs, zeros where admitted, magnitudes 1e-3..1e3, angles over their ranges); non-trivial = all arguments non-zero')

    KERNELS = ['cprobability.gaussian_pdf', 'cprobability.gaussian_cdf', 'cprobability.pol_pdf', 'cprobability.pol_prob_pdf',
               'cprobability.ar_pdf', 'cprobability.combine', 'cprobability.estimate_scale_mu_s',
               'cmcmc.gaussian_transition_ratio', 'cmcmc.uniform_prior_ratio', 'cmcmc.flat_prior_ratio', 'cmcmc.gaussian_jump_prob',
               'cconvert.cE_gd', 'cconvert.cE_tk', 'cconvert.ctk_uv', 'cconvert.cTape_MT6', 'cconvert.csingleSDR_SDR', 'cconvert.cN_SDR',
               'cprobability.c_ln_normalise', 'cprobability.dkl', 'cmcmc.acceptance']
    HORIZONTAL_OK = True
    LOOPS = {'cprobability.c_ln_normalise': ['cprobability.c_ln_normalise'], 'cprobability.dkl': ['cprobability.c_ln_normalise', 'cprobability.c_dkl']}

    def setup(self):
        self.report = gen_pyx.main()              # regenerate the Lean kernels from /repo's .pyx files
        from common import lake_build
        b = lake_build(('mtfit_driver',))         # the executable model must contain the kernels as they are now
        if not b['ok']:
            raise RuntimeError('cannot build the driver with the regenerated kernels: %s' % (b['errors'] or b['tail']))
        import_mtfit()
        import numpy as np
        from MTfit.probability import probability as pr
        from MTfit.algorithms import markov_chain_monte_carlo as mc
        from MTfit.convert import moment_tensor_conversion as conv
        self.np, self.pr, self.mc, self.conv = np, pr, mc, conv
        np.seterr(all='ignore')
        import types
        nogc = types.SimpleNamespace(collect=lambda *a, **k: 0)
        pr.gc = nogc
        mc.gc = nogc
        self.alg = mc.IterativeTransDMetropolisHastingsGaussianTape(initial_sample='random')
        self.translated = {'%s.%s' % (m, f) for m, fs in self.report['translated'].items() for f in fs}

    # ------------------------------------------------------------------ generation
    def gen(self, rng, tier):
        n = 40 if tier == 'quick' else 600
        mag = lambda: 10 ** rng.uniform(-3, 3)
        sgn = lambda: rng.choice([1, -1])
        for k in self.KERNELS:
            for i in range(n):
                if k.endswith('gaussian_pdf') or k.endswith('gaussian_cdf'):
                    s = 10 ** rng.uniform(-2, 2)
                    mu = rng.uniform(-3, 3)
                    a = [mu + s * rng.uniform(-6, 6), mu, s]
                elif k.endswith('.pol_pdf'):
                    a = [rng.choice([0.0, rng.uniform(-1, 1), rng.uniform(-1e-3, 1e-3)]), 10 ** rng.uniform(-3, 0.3), rng.choice([0.0, 0.5, 1.0, rng.random()])]
                elif k.endswith('.pol_prob_pdf'):
                    p = rng.random()
                    a = [rng.choice([rng.uniform(-1, 1), rng.uniform(-1, 1), 0.0]), p, rng.choice([1 - p, rng.random() * (1 - p)]), rng.choice([0.0, rng.random()])]
                elif k.endswith('.ar_pdf'):
                    a = [mag() * sgn(), rng.uniform(-1, 1), rng.uniform(-1, 1), 10 ** rng.uniform(-2, 0), 10 ** rng.uniform(-2, 0)]
                elif k.endswith('.combine'):
                    a = [rng.uniform(-5, 5), rng.uniform(-5, 5), mag(), mag()]
                elif k.endswith('.estimate_scale_mu_s'):
                    a = [mag(), mag(), rng.uniform(-1, 1), rng.uniform(-1, 1), 10 ** rng.uniform(-3, -0.3), 10 ** rng.uniform(-3, -0.3)]
                elif k.endswith('gaussian_transition_ratio'):
                    dc = rng.random() < 0.3
                    w = [PI / 12 * 10 ** rng.uniform(-2, 0), PI / 4 * 10 ** rng.uniform(-2, 0), 0.5 * 10 ** rng.uniform(-2, 0), PI / 4 * 10 ** rng.uniform(-2, 0)]
                    x = [0.0 if dc else rng.uniform(-PI / 6, PI / 6), 0.0 if dc else rng.uniform(-PI / 2, PI / 2), rng.random(), rng.uniform(-PI / 2, PI / 2)]
                    lo, hi = [-PI / 6, -PI / 2, 0.0, -PI / 2], [PI / 6, PI / 2, 1.0, PI / 2]
                    # the proposal is a few widths away from the state it was drawn from
                    x0 = [min(hi[j], max(lo[j], x[j] + w[j] * rng.gauss(0, 1.5))) for j in range(4)]
                    if dc:
                        x0[0], x0[1] = 0.0, 0.0
                    a = x + x0 + w
                elif k.endswith('uniform_prior_ratio'):
                    mode = rng.choice(['mt', 'mt', 'up', 'down', 'dc'])
                    x = [0.0, 0.0] if mode in ('down', 'dc') else [rng.uniform(-PI / 6, PI / 6), rng.uniform(-PI / 2, PI / 2) * 0.98]
                    x0 = [0.0, 0.0] if mode in ('up', 'dc') else [rng.uniform(-PI / 6, PI / 6) * 0.98, rng.uniform(-PI / 2, PI / 2) * 0.98]
                    a = x + x0
                elif k.endswith('flat_prior_ratio'):
                    a = [rng.uniform(-PI / 6, PI / 6), rng.uniform(-PI / 2, PI / 2), rng.uniform(-PI / 6, PI / 6), rng.uniform(-PI / 2, PI / 2)]
                elif k.endswith('gaussian_jump_prob'):
                    a = [rng.uniform(-PI / 6, PI / 6), rng.uniform(-PI / 2, PI / 2), 10 ** rng.uniform(-1.5, 0), 10 ** rng.uniform(-1.5, 0)]
                elif k.endswith('cE_gd') or k.endswith('cE_tk'):
                    e = sorted([rng.gauss(0, 1) for _ in range(3)], reverse=True)
                    r = rng.random()
                    if r < 0.1:
                        e = [e[0]] * 3
                    elif r < 0.2:
                        e[1] = e[0]
                    elif r < 0.3:
                        e[1] = e[2]
                    elif r < 0.4:
                        m = sum(e) / 3
                        e = [v - m for v in e]
                        e[1] = -e[0] - e[2]
                    elif r < 0.5 and k.endswith('cE_gd'):
                        # almost isotropic: the cosine of the lune co-latitude can exceed 1 by rounding
                        sg_ = rng.choice([1.0, -1.0])
                        eps = 10 ** rng.uniform(-12, -7)
                        e = sorted([sg_ + eps * rng.gauss(0, 1) for _ in range(3)], reverse=True)
                    a = e
                elif k.endswith('ctk_uv'):
                    a = [rng.uniform(-1, 1), rng.uniform(-1, 1)]
                    if rng.random() < 0.15:
                        a[rng.randrange(2)] = 0.0
                elif k.endswith('cTape_MT6'):
                    a = [rng.uniform(-PI / 6, PI / 6), rng.uniform(-PI / 2, PI / 2), rng.uniform(0, 2 * PI), rng.random(), rng.uniform(-PI / 2, PI / 2)]
                    if rng.random() < 0.2:
                        a[0], a[1] = 0.0, 0.0
                elif k.endswith('.acceptance'):
                    mode = rng.choice(['shift-mt', 'shift-dc', 'up', 'down'])
                    w = [PI / 12 * 10 ** rng.uniform(-1.5, 0), PI / 4 * 10 ** rng.uniform(-1.5, 0), 0.5 * 10 ** rng.uniform(-1.5, 0), PI / 4 * 10 ** rng.uniform(-1.5, 0)]
                    mt = [rng.uniform(-PI / 6, PI / 6) * 0.95, rng.uniform(-PI / 2, PI / 2) * 0.95, rng.random(), rng.uniform(-PI / 2, PI / 2)]
                    lo, hi = [-PI / 6, -PI / 2, 0.0, -PI / 2], [PI / 6, PI / 2, 1.0, PI / 2]
                    near = [min(hi[j], max(lo[j], mt[j] + w[j] * rng.gauss(0, 1.0))) for j in range(4)]
                    if mode == 'shift-mt':
                        x, x0 = near, mt
                    elif mode == 'shift-dc':
                        x, x0 = [0.0, 0.0] + near[2:], [0.0, 0.0] + mt[2:]
                    elif mode == 'up':
                        x, x0 = mt, [0.0, 0.0] + mt[2:]
                    else:
                        x, x0 = [0.0, 0.0] + mt[2:], mt
                    L0 = rng.uniform(-20, 0)
                    L1 = L0 + rng.choice([rng.gauss(0, 0.5), rng.gauss(0, 3), rng.uniform(-30, 5)])
                    yield {'kind': 'kernel', 'kernel': k, 'args': x + x0 + w + [L1, L0], 'mode': mode, 'sg': 10 ** rng.uniform(-1.2, -0.3),
                           'sd': 10 ** rng.uniform(-1.2, -0.3), 'pn': rng.choice([1.0, 0.98, 1.3]), 'p_dc': rng.choice([0.5, 0.2, 0.35, 0.8])}
                    continue
                elif k.endswith('c_ln_normalise') or k.endswith('.dkl'):
                    ln_ = lambda: [rng.choice([rng.uniform(-30, 3), rng.uniform(-5, 0), NEG_INF]) + sh for _ in range(nn)]
                    nn = rng.randint(1, 12)
                    sh = rng.choice([0.0, 0.0, -700.0, 650.0, rng.uniform(-50, 50)])
                    p_ = ln_()
                    if all(v == NEG_INF for v in p_):
                        p_[0] = sh
                    q_ = [v if v != NEG_INF else -40.0 + sh for v in ln_()]
                    yield {'kind': 'kernel', 'kernel': k, 'args': [rng.choice([1.0, 0.5, 2.0, 1e-3])], 'p': p_, 'q': q_}
                    continue
                elif k.endswith('cN_SDR'):
                    # unit normal and a unit slip vector in the fault plane; HORIZONTAL_OK is switched on once the compiled kernel has the in-plane rake branch
                    st_, dp_, rk_ = rng.uniform(0, 2 * PI), rng.uniform(0.02, PI / 2 - 0.02), rng.uniform(-PI, PI)
                    if self.HORIZONTAL_OK and rng.random() < 0.25:
                        dp_ = rng.choice([0.0, 0.0, 1e-9, 3e-7])
                    nrm = [-math.sin(dp_) * math.sin(st_), math.sin(dp_) * math.cos(st_), -math.cos(dp_)]
                    slp = [math.cos(rk_) * math.cos(st_) + math.sin(rk_) * math.cos(dp_) * math.sin(st_),
                           math.cos(rk_) * math.sin(st_) - math.sin(rk_) * math.cos(dp_) * math.cos(st_), -math.sin(rk_) * math.sin(dp_)]
                    if rng.random() < 0.3:
                        nrm, slp = [-v for v in nrm], [-v for v in slp]        # upward normal: the kernel flips both
                    a = nrm + slp
                else:
                    a = [rng.uniform(0, 2 * PI), rng.uniform(0.02, PI / 2 - 0.02), rng.uniform(-PI, PI)]
                yield {'kind': 'kernel', 'kernel': k, 'args': a}
        # ---- array kernels (nested loops over stations, location samples and tensors; binning)
        na = 10 if tier == 'quick' else 150
        fams = ['pol', 'polprob', 'ar', 'pol+ar', 'polprob+ar', 'all', 'pol+polprob', 'ln_prod', 'ln_combine', 'ln_multipliers', 'bins', 'rel', 'tape_batch', 'sdr_batch']
        for fam in fams:
            for i in range(na):
                c = {'kind': 'array', 'family': fam, 'kernel': 'array:' + fam, 'args': [1.0]}
                if fam == 'bins':
                    ns, nsta = rng.randint(1, 9), rng.randint(1, 3)
                    b = rng.choice([0.5, 1.0, 2.0, 4.0])
                    centres = [[(rng.uniform(20, 160), rng.uniform(10, 350)) for _ in range(nsta)] for _c in range(rng.randint(1, 3))]
                    recs = []
                    for _s in range(ns):
                        ce = rng.choice(centres)
                        w = rng.choice([0.1, 0.4, 0.6, 1.2]) * b
                        recs.append([[round(t + rng.uniform(-w, w), 3), round(z + rng.uniform(-w, w), 3)] for (t, z) in ce])
                    c.update(records=recs, bin=b, mult=[float(rng.randint(1, 9)) for _ in range(ns)])
                    yield c
                    continue
                nloc, nmt = rng.randint(1, 3), rng.choice([1, 2, 3, 5, 6, 7])
                coeff = lambda nst: [[[rng.uniform(-1, 1) for _ in range(6)] for _v in range(nloc)] for _u in range(nst)]
                mts = []
                for _w in range(nmt):
                    g = [rng.gauss(0, 1) for _ in range(6)]
                    nn_ = math.sqrt(sum(v * v for v in g))
                    mts.append([v / nn_ for v in g])
                c['mt'] = [[mts[w][k_] for w in range(nmt)] for k_ in range(6)]
                c['marg'] = rng.choice([0, 0, 1])
                c['lsm'] = [0.0] * nloc if rng.random() < 0.4 else [math.log(rng.uniform(0.2, 3.0)) for _ in range(nloc)]
                if fam in ('tape_batch', 'sdr_batch'):
                    nb = rng.choice([1, 2, 3, 6, 7])
                    if fam == 'tape_batch':
                        c['tape'] = [[rng.uniform(-PI / 6, PI / 6) for _ in range(nb)], [rng.uniform(-PI / 2, PI / 2) for _ in range(nb)],
                                     [rng.uniform(0, 2 * PI) for _ in range(nb)], [rng.random() for _ in range(nb)], [rng.uniform(-PI / 2, PI / 2) for _ in range(nb)]]
                    else:
                        c['sdr'] = [[rng.uniform(0, 2 * PI) for _ in range(nb)], [rng.uniform(0.02, PI / 2 - 0.02) for _ in range(nb)], [rng.uniform(-PI, PI) for _ in range(nb)]]
                    yield c
                    continue
                if fam == 'rel':
                    # relative amplitudes of two events: per-station scale estimate, its combination and the ratio likelihood
                    nst = rng.randint(1, 4)
                    c['a1'], c['a2'] = coeff(nst), coeff(nst)
                    mts2 = []
                    for _w in range(nmt):
                        g = [rng.gauss(0, 1) for _ in range(6)]
                        nn_ = math.sqrt(sum(v * v for v in g))
                        mts2.append([v / nn_ for v in g])
                    c['mt2'] = [[mts2[w][k_] for w in range(nmt)] for k_ in range(6)]
                    c['x'] = [10 ** rng.uniform(-1, 1) for _ in range(nst)]
                    c['y'] = [10 ** rng.uniform(-1, 1) for _ in range(nst)]
                    c['psx'] = [10 ** rng.uniform(-1.3, -0.5) for _ in range(nst)]
                    c['psy'] = [10 ** rng.uniform(-1.3, -0.5) for _ in range(nst)]
                    yield c
                    continue
                if fam in ('ln_prod', 'ln_combine', 'ln_multipliers'):
                    nst = rng.randint(1, 4)
                    lnv = lambda: rng.choice([rng.uniform(-30, 0), rng.uniform(-2, 0), NEG_INF])
                    c['p3'] = [[[lnv() for _w in range(nmt)] for _v in range(nloc)] for _u in range(nst)]
                    c['q2'] = [[lnv() for _w in range(nmt)] for _v in range(nloc)]
                    c['mult'] = [rng.uniform(0.1, 5.0) for _ in range(nloc)]
                    yield c
                    continue
                if 'pol' in fam.split('+') or fam == 'all':
                    nst = rng.randint(1, 4)
                    c['a'] = coeff(nst)
                    c['sigma'] = [10 ** rng.uniform(-2, 0) for _ in range(nst)]
                if 'polprob' in fam.split('+') or fam == 'all':
                    nst = rng.randint(1, 3)
                    c['a_prob'] = coeff(nst)
                    pos = [rng.random() for _ in range(nst)]
                    c['pos'] = pos
                    c['neg'] = [rng.choice([1 - q_, (1 - q_) * rng.random()]) for q_ in pos]
                if 'ar' in fam.split('+') or fam == 'all':
                    nst = rng.randint(1, 3)
                    c['ax'], c['ay'] = coeff(nst), coeff(nst)
                    c['z'] = [10 ** rng.uniform(-1.5, 1.5) for _ in range(nst)]
                    c['psx'] = [10 ** rng.uniform(-1.3, -0.3) for _ in range(nst)]
                    c['psy'] = [10 ** rng.uniform(-1.3, -0.3) for _ in range(nst)]
                # mispick probabilities: one value for all stations (the ipmax == 1 branch) or one per polarity station
                npol = len(c.get('sigma', c.get('pos', [0])))
                c['ipp'] = [rng.choice([0.0, 0.1, rng.random() * 0.5])] if rng.random() < 0.5 else [rng.choice([0.0, rng.random() * 0.5]) for _ in range(npol)]
                if fam in ('all', 'pol+polprob') and len(c['ipp']) != 1:
                    c['ipp'] = c['ipp'][:1]         # the combined polarity kernels index one mispick array by both station counters
                yield c
        yield {'kind': 'glue'}
        yield {'kind': 'inventory'}

    # what the Python acceptance path reads: the current state's parameters, the widths of the same name, the balancing widths for the balancing
    # variables (gamma_dc for gamma, delta_dc for delta; jump_params / transition_pdf in markov_chain_monte_carlo.py), the stored g0 / d0 of a jump
    GLUE = {'gamma': ['x.gamma'], 'delta': ['x.delta'], 'h': ['x.h'], 'sigma': ['x.sigma'], 'kappa': ['x.kappa'], 'g0': ['x0.gamma'], 'g_s': ['alpha.gamma'],
            'd0': ['x0.delta'], 'd_s': ['alpha.delta'], 'h0': ['x0.h'], 'h_s': ['alpha.h'], 's0': ['x0.sigma'], 's_s': ['alpha.sigma'], 'k0': ['x0.kappa'],
            'qg': ['x.g0', 'x.gamma'], 'qd': ['x.d0', 'x.delta'], 'sg': ['alpha.gamma_dc'], 'sd': ['alpha.delta_dc'],
            'proposal_normalisation': ['alpha.proposal_normalisation']}

    # ------------------------------------------------------------------ the Python paths
    def impl(self, case):
        np, pr, conv, alg = self.np, self.pr, self.conv, self.alg
        if case['kind'] == 'inventory':
            return {'translated': sorted(self.translated), 'skipped': self.report['skipped']}
        if case['kind'] == 'glue':
            return {'glue': self.report.get('glue')}
        if case['kind'] == 'array':
            return self.impl_array(case)
        k, a = case['kernel'], case['args']
        unit = lambda i: [1.0 if j == i else 0.0 for j in range(6)]
        if k.endswith('gaussian_pdf'):
            return {'v': [float(pr.gaussian_pdf(a[0], a[1], a[2]))]}
        if k.endswith('gaussian_cdf'):
            return {'v': [float(pr.gaussian_cdf(a[0], a[1], a[2]))]}
        if k.endswith('.pol_pdf'):
            # one station with coefficient vector e1 and the tensor (x,0,..): modelled amplitude x
            ln = pr.polarity_ln_pdf(np.array([[unit(0)]]), np.array([[a[0]], [0], [0], [0], [0], [0.0]]), np.array([a[1]]), np.array([a[2]]), _use_c=False)
            return {'v': [float(np.exp(np.asarray(ln).flatten()[0]))]}
        if k.endswith('.pol_prob_pdf'):
            ln = pr.polarity_probability_ln_pdf(np.array([[unit(0)]]), np.array([[a[0]], [0], [0], [0], [0], [0.0]]), np.array([a[1]]), np.array([a[2]]),
                                                np.array([a[3]]), _use_c=False)
            return {'v': [float(np.exp(np.asarray(ln).flatten()[0]))]}
        if k.endswith('.ar_pdf'):
            ln = pr.amplitude_ratio_ln_pdf(np.array([a[0]]), np.array([[a[1]], [a[2]], [0], [0], [0], [0.0]]), np.array([[unit(0)]]), np.array([[unit(1)]]),
                                           np.array([a[3]]), np.array([a[4]]), _use_c=False)
            return {'v': [float(np.exp(np.asarray(ln).flatten()[0]))], 'ln': float(np.asarray(ln).flatten()[0])}
        if k.endswith('.combine'):
            m, s = pr.combine_mu(np.array([[a[0]], [a[1]]]), np.array([[a[2]], [a[3]]]))
            return {'v': [float(np.asarray(m).flatten()[0]), float(np.asarray(s).flatten()[0])]}
        if k.endswith('.estimate_scale_mu_s'):
            m, s = pr.scale_estimator(np.array([[[a[0] / a[1]]]]), np.array([[[abs(a[2])]]]), np.array([[[abs(a[3])]]]), np.array([[[a[4]]]]), np.array([[[a[5]]]]))
            return {'v': [float(np.asarray(m).flatten()[0]), float(np.asarray(s).flatten()[0])]}
        keys = ['gamma', 'delta', 'h', 'sigma']
        if k.endswith('gaussian_transition_ratio'):
            x = dict(zip(keys, a[0:4]), kappa=1.0)
            x0 = dict(zip(keys, a[4:8]), kappa=2.0)
            alg.alpha = dict(zip(keys, a[8:12]), kappa=0.3)
            dc = a[0] == 0 and a[1] == 0 and a[4] == 0 and a[5] == 0
            alg.dc = dc
            return {'v': [float(alg.transition_pdf(x0, x, dc)) / float(alg.transition_pdf(x, x0, dc))]}
        if k.endswith('uniform_prior_ratio') or k.endswith('flat_prior_ratio'):
            fn = self.mc.uniform_prior if k.endswith('uniform_prior_ratio') else self.mc.flat_prior
            st = lambda g, d: ({'kappa': 1.0, 'h': 0.5, 'sigma': 0.1} if (g == 0 and d == 0) else {'gamma': g, 'delta': d, 'kappa': 1.0, 'h': 0.5, 'sigma': 0.1})
            alg.dc = False
            px = float(fn(st(a[0], a[1]), dc=(a[0] == 0 and a[1] == 0)))
            p0 = float(fn(st(a[2], a[3]), dc=(a[2] == 0 and a[3] == 0)))
            return {'v': [px / p0]}
        if k.endswith('gaussian_jump_prob'):
            alg.gaussian_jump_params = True
            pn = 1.0
            alg.alpha = {'gamma_dc': a[2], 'delta_dc': a[3], 'proposal_normalisation': pn, 'gamma': 0.1, 'delta': 0.1, 'kappa': 0.1, 'h': 0.1, 'sigma': 0.1}
            return {'v': [float(alg.jump_params({'gamma': a[0], 'delta': a[1]}))]}
        if k.endswith('.acceptance'):
            x, x0, w, (L1, L0) = a[0:4], a[4:8], a[8:12], a[12:14]
            tkeys = ['gamma', 'delta', 'h', 'sigma']
            alg.alpha = dict(zip(tkeys, w), kappa=0.3, gamma_dc=case['sg'], delta_dc=case['sd'], proposal_normalisation=case['pn'])
            alg.gaussian_jump_params = True
            alg.xi = dict(zip(tkeys, x0), kappa=1.0)
            alg.ln_likelihood_xi = L0
            alg.dc = case['mode'] == 'shift-dc'
            alg.jump = case['mode'] in ('up', 'down')
            try:
                return {'v': [float(alg.acceptance(dict(zip(tkeys, x), kappa=1.0), L1, dc_prior=case['p_dc']))]}
            finally:
                alg.jump = False
                alg.dc = False
        if k.endswith('c_ln_normalise'):
            return {'v': [float(v) for v in np.asarray(pr.ln_normalise(np.array(case['p'], dtype=float), a[0]), dtype=float).flatten()]}
        if k.endswith('.dkl'):
            return {'v': [float(pr.dkl(np.array(case['p'], dtype=float), np.array(case['q'], dtype=float), a[0]))]}
        if k.endswith('cE_gd'):
            g, d = conv.E_GD(np.array(a, dtype=float))
            return {'v': [float(np.asarray(g).flatten()[0]), float(np.asarray(d).flatten()[0])]}
        if k.endswith('cE_tk'):
            t, kk = conv.E_tk(np.array(a, dtype=float))
            return {'v': [float(np.asarray(kk).flatten()[0]), float(np.asarray(t).flatten()[0])]}
        if k.endswith('ctk_uv'):
            u, v = conv.tk_uv(a[1], a[0])        # kernel cells: 5 = k, 6 = tau; Python signature tk_uv(tau, k)
            return {'v': [float(np.asarray(u).flatten()[0]), float(np.asarray(v).flatten()[0])]}
        if k.endswith('cTape_MT6'):
            m = conv.Tape_MT6(*[np.array([v]) for v in a])
            return {'v': [float(v) for v in np.asarray(m, dtype=float).flatten()]}
        if k.endswith('cN_SDR'):
            s_, d_, r_ = conv.FP_SDR(np.matrix(a[0:3], dtype=float).T, np.matrix(a[3:6], dtype=float).T)
            return {'v': [float(np.asarray(s_).flatten()[0]), float(np.asarray(d_).flatten()[0]), float(np.asarray(r_).flatten()[0])]}
        if k.endswith('csingleSDR_SDR'):
            s2, d2, r2 = conv.SDR_SDR(a[0], a[1], a[2])
            return {'v': [float(np.asarray(s2).flatten()[0]), float(np.asarray(d2).flatten()[0]), float(np.asarray(r2).flatten()[0])]}
        raise ValueError(k)

    # ------------------------------------------------------------------ array kernels: Python paths and requests
    ARRAY_KERNEL = {'pol': 'cprobability.c_polarity_ln_pdf', 'polprob': 'cprobability.c_polarity_probability_ln_pdf',
                    'ar': 'cprobability.c_amplitude_ratio_ln_pdf', 'pol+ar': 'cprobability.c_polarity_ar_ln_pdf',
                    'polprob+ar': 'cprobability.c_polarity_prob_combined_ln_pdf', 'all': 'cprobability.c_all_combined_ln_pdf',
                    'pol+polprob': 'cprobability.c_combined_pol_ln_pdf', 'ln_prod': 'cprobability.ln_prod', 'ln_combine': 'cprobability.ln_combine',
                    'ln_multipliers': 'cprobability.ln_multipliers', 'bins': 'cscatangle.get_multipliers', 'rel': 'cprobability.relative_amplitude_ratio_ln_pdf',
                    'tape_batch': 'cconvert.cMultipleTape_MT6', 'sdr_batch': 'cconvert.SDR_SDR'}

    ARRAY_CALLEES = ['cprobability.station_polarity_ln_pdf', 'cprobability.station_polarity_probability_ln_pdf', 'cprobability.station_ar_ln_pdf',
                     'cprobability.station_combined_polarity_ar_ln_pdf', 'cprobability.station_combined_polarity_probability_ar_ln_pdf',
                     'cprobability.station_combined_all_ln_pdf', 'cprobability.station_combined_pol_ln_pdf']

    def impl_array(self, case):
        np, pr = self.np, self.pr
        fam = case['family']
        A = lambda key: np.array(case[key], dtype=float)
        if fam == 'bins':
            import os, tempfile
            from MTfit.extensions import scatangle as sc
            recs = [{'Name': ['S%d' % j for j in range(len(r))], 'TakeOffAngle': np.array([[v[0]] for v in r]), 'Azimuth': np.array([[v[1]] for v in r])} for r in case['records']]
            d = tempfile.mkdtemp(prefix='c20bins_')
            fn = os.path.join(d, 'x.scatangle')
            try:
                sc._output_scatangle(fn, recs, case['mult'])
                raw, rawm = sc.parse_scatangle(fn, bin_size=0, _use_c=False)
                binned, bm = sc.parse_scatangle(fn, bin_size=case['bin'], _use_c=False)
            finally:
                import shutil
                shutil.rmtree(d, ignore_errors=True)
            ang = [[[float(v) for v in np.asarray(r['TakeOffAngle']).flatten()], [float(v) for v in np.asarray(r['Azimuth']).flatten()]] for r in raw]
            return {'angles': ang, 'mult_in': [float(v) for v in rawm], 'v': [float(v) for v in bm],
                    'kept': [[float(v) for v in np.asarray(r['TakeOffAngle']).flatten()] + [float(v) for v in np.asarray(r['Azimuth']).flatten()] for r in binned]}
        if fam == 'tape_batch':
            m = np.asarray(self.conv.Tape_MT6(*[np.array(v, dtype=float) for v in case['tape']]), dtype=float)      # 6 x n
            return {'v': [float(m[j, i]) for i in range(m.shape[1]) for j in range(6)]}
        if fam == 'sdr_batch':
            s2, d2, r2 = self.conv.SDR_SDR(*[np.array(v, dtype=float) for v in case['sdr']])
            return {'v': [float(x) for x in np.asarray(s2).flatten()] + [float(x) for x in np.asarray(d2).flatten()] + [float(x) for x in np.asarray(r2).flatten()]}
        if fam == 'rel':
            lnp, sc, su = pr.relative_amplitude_ratio_ln_pdf(A('x'), A('y'), A('mt'), A('mt2'), A('a1'), A('a2'), A('psx'), A('psy'), _use_c=False)
            # the Python fallback of scale_estimator alone, on the same modelled amplitudes
            mux = np.abs(np.tensordot(A('a1'), A('mt'), 1))
            muy_same = np.abs(np.tensordot(A('a1'), A('mt2'), 1))     # the compiled scale_estimator has ONE coefficient array for both events
            e3 = lambda v: np.expand_dims(np.expand_dims(v, 1), 1)
            sc2, su2 = pr.scale_estimator(e3(A('x') / A('y')), mux, muy_same, e3(A('psx')), e3(A('psy')))
            return {'v': [float(v) for v in np.asarray(lnp, dtype=float).flatten()], 'scale': [float(v) for v in np.asarray(sc, dtype=float).flatten()],
                    'scale_s': [float(v) for v in np.asarray(su, dtype=float).flatten()], 'scale2': [float(v) for v in np.asarray(sc2, dtype=float).flatten()],
                    'scale2_s': [float(v) for v in np.asarray(su2, dtype=float).flatten()]}
        if fam == 'ln_prod':
            # the Python fallback of every likelihood function: np.sum(ln_p, 0)
            return {'v': [float(v) for v in np.sum(A('p3'), 0).flatten()]}
        if fam == 'ln_combine':
            return {'v': [float(v) for v in (np.sum(A('p3'), 0) + A('q2')).flatten()]}
        if fam == 'ln_multipliers':
            return {'v': [float(v) for v in (A('q2') + np.log(A('mult'))[:, None]).flatten()]}
        mt = A('mt')
        tot = 0
        parts = fam.split('+') if fam != 'all' else ['pol', 'polprob', 'ar']
        ipp = A('ipp')
        for part in parts:
            if part == 'pol':
                tot = tot + pr.polarity_ln_pdf(A('a'), mt.copy(), A('sigma'), ipp if len(case['ipp']) > 1 else float(case['ipp'][0]), _use_c=False)
            elif part == 'polprob':
                tot = tot + pr.polarity_probability_ln_pdf(A('a_prob'), mt.copy(), A('pos'), A('neg'),
                                                           ipp if len(case['ipp']) > 1 else float(case['ipp'][0]), _use_c=False)
            else:
                tot = tot + pr.amplitude_ratio_ln_pdf(A('z'), mt.copy(), A('ax'), A('ay'), A('psx'), A('psy'), _use_c=False)
        tot = np.asarray(tot, dtype=float) + A('lsm')[:, None]
        if case['marg']:
            tot = np.asarray(pr.ln_marginalise(tot, axis=0), dtype=float)
        return {'v': [float(v) for v in np.asarray(tot).flatten()]}

    def array_request(self, kernel, values):
        """request line of a translated array kernel: parameters by name (arrays as nested lists, scalars, naturals)"""
        np = self.np
        spec = self.report['array_kernel_params'][kernel]
        arrs, sc, nats = [], [], []
        for nm, kind in spec['params']:
            v = values[nm]
            if kind in ('arr', 'mv1', 'mv2', 'mv3'):
                arr = np.array(v, dtype=float)
                flat = [float(x) for x in arr.flatten()]
                arrs.append('%d %s' % (len(flat), ' '.join(bits(x) for x in flat)) if flat else '0')
                if kind != 'arr':
                    nd = int(kind[2])
                    shp = list(arr.shape) + [0] * nd
                    nats += [int(x) for x in shp[:nd]]
            elif kind == 'flt':
                sc.append(float(v))
            else:
                nats.append(int(v))
        return ('pyxi %s %d %s %d %s %d %s' % (kernel, len(arrs), ' '.join(arrs), len(sc), ' '.join(bits(x) for x in sc), len(nats), ' '.join(str(x) for x in nats))).replace('  ', ' ').strip()

    def array_requests(self, case, impl):
        fam = case['family']
        k = self.ARRAY_KERNEL[fam]
        if k not in self.report.get('array_kernel_params', {}):
            return ['pyxi %s 0 0 0' % k]
        if fam == 'bins':
            return [self.array_request(k, {'angles': impl['angles'], 'bin_size': case['bin'], 'multipliers': impl['mult_in']})]
        if fam == 'tape_batch':
            g, d, kp, h, sg = case['tape']
            return [self.array_request(k, {'M': [0.0] * (6 * len(g)), 'gamma': g, 'delta': d, 'kappa': kp, 'h': h, 'sigma': sg, 'n': len(g)})]
        if fam == 'sdr_batch':
            return [self.array_request(k, {'s': case['sdr'][0], 'd': case['sdr'][1], 'r': case['sdr'][2]})]
        if fam == 'rel':
            vals = {'x': case['x'], 'y': case['y'], 'mt1': case['mt'], 'mt2': case['mt2'], 'a1': case['a1'], 'a2': case['a2'], 'psx': case['psx'], 'psy': case['psy']}
            reqs = [self.array_request(k, vals)]
            k2 = 'cprobability.scale_estimator'
            if k2 in self.report.get('array_kernel_params', {}):
                # the compiled scale_estimator takes ONE coefficient array for both events
                reqs.append(self.array_request(k2, {'x': case['x'], 'y': case['y'], 'mt1': case['mt'], 'mt2': case['mt2'], 'a': case['a1'], 'psx': case['psx'], 'psy': case['psy']}))
            return reqs
        if fam == 'ln_prod':
            return [self.array_request(k, {'p': case['p3']})]
        if fam == 'ln_combine':
            s0 = [[sum(col) for col in zip(*rows)] for rows in zip(*case['p3'])]
            return [self.array_request(k, {'ln_p_1': s0, 'ln_p_2': case['q2']})]
        if fam == 'ln_multipliers':
            return [self.array_request(k, {'ln_p': case['q2'], 'multipliers': case['mult']})]
        nloc, nmt = len(case['lsm']), len(case['mt'][0])
        vals = {'ln_P': [0.0] * (nmt if case['marg'] else nloc * nmt), 'mt': case['mt'], 'marginalised': case['marg'], 'ln_P_loc_samples': [0.0] * nloc,
                'location_samples_multiplier': case['lsm'], 'incorrect_polarity_prob_arr': case['ipp']}
        if fam in ('polprob', 'polprob+ar'):
            vals['a_arr'] = case['a_prob']
        elif 'a' in case:
            vals['a_arr'] = case['a']
        for src, dst in (('sigma', 'sigma_arr'), ('a_prob', 'a_prob_arr'), ('pos', 'positive_probability_arr'), ('neg', 'negative_probability_arr'), ('z', 'z_arr'),
                         ('ax', 'ax_arr'), ('ay', 'ay_arr'), ('psx', 'psx_arr'), ('psy', 'psy_arr')):
            if src in case:
                vals[dst] = case[src]
        return [self.array_request(k, vals)]

    # ------------------------------------------------------------------ the translated kernels
    def requests(self, case, impl):
        if case['kind'] in ('inventory', 'glue'):
            return []
        if case['kind'] == 'array':
            return self.array_requests(case, impl) if isinstance(impl, dict) and 'exc' not in impl else []
        k, a = case['kernel'], case['args']
        b = lambda xs: ' '.join(bits(float(v)) for v in xs)
        if k.endswith('.acceptance'):
            x, x0, w, (L1, L0) = a[0:4], a[4:8], a[8:12], a[12:14]
            jump = 1.0 if case['mode'] in ('up', 'down') else 0.0
            q = x[0:2] if case['mode'] == 'up' else x0[0:2]           # the balancing variables are the full tensor's gamma, delta
            order = [x[0], x[1], x[2], x[3], x0[0], w[0], x0[1], w[1], x0[2], w[2], x0[3], w[3], L1, L0, jump, q[0], q[1], case['sg'], case['sd'],
                     case['pn'], case['p_dc']]
            return ['pyx cmcmc.acceptance %s' % b(order)]
        if k.endswith('c_ln_normalise'):
            return ['pyxl cprobability.c_ln_normalise %d 1 %s 1 %s' % (len(case['p']), b(case['p']), b(a))]
        if k.endswith('.dkl'):
            # the compiled dkl() normalises both arrays in place and then sums: three requests, chained in compare
            return ['pyxl cprobability.c_ln_normalise %d 1 %s 1 %s' % (len(case['p']), b(case['p']), b(a)),
                    'pyxl cprobability.c_ln_normalise %d 1 %s 1 %s' % (len(case['q']), b(case['q']), b(a))]
        if k.endswith('.combine'):
            return ['pyx cprobability.combine_mu ' + b(a), 'pyx cprobability.combine_s ' + b(a[2:4])]
        if k.endswith('.estimate_scale_mu_s'):
            return ['pyx %s %s' % (k, b(a + [0.0, 0.0]))]
        if k.endswith('gaussian_transition_ratio'):
            x, x0, w = a[0:4], a[4:8], a[8:12]
            order = [x[0], x[1], x[2], x[3], x0[0], w[0], x0[1], w[1], x0[2], w[2], x0[3], w[3]]
            return ['pyx %s %s' % (k, b(order))]
        if k.endswith('gaussian_jump_prob'):
            return ['pyx %s %s' % (k, b(a + [1.0]))]
        if k.endswith('cE_gd'):
            return ['pyx %s %s' % (k, b(a + [0.0] * 4 + [0.0, 0.0]))]
        if k.endswith('cE_tk'):
            return ['pyx %s %s' % (k, b(a + [0.0] * 4 + [0.0] * 7))]
        if k.endswith('ctk_uv'):
            return ['pyx %s %s' % (k, b([0.0] * 5 + [a[0], a[1]]))]
        if k.endswith('cTape_MT6'):
            return ['pyx %s %s' % (k, b(a + [0.0] * 6))]
        if k.endswith('csingleSDR_SDR') or k.endswith('cN_SDR'):
            return ['pyx %s %s' % (k, b(a + [0.0] * 3))]
        return ['pyx %s %s' % (k, b(a))]

    def compare(self, case, impl, replies):
        if case['kind'] == 'glue':
            return []
        if case['kind'] != 'inventory':
            impl['replies'] = list(replies)
            return []
        return self._compare(case, impl, replies)

    def oracle(self, case, impl):
        if case['kind'] == 'glue':
            out = []
            for fn in ('acceptance_check', 'me_acceptance_check'):
                g = (impl.get('glue') or {}).get(fn)
                if g is None:
                    out.append(('glue', 'the dictionary unpacking of %s in the .pyx could not be read any more (data flow table unavailable)' % fn, None))
                    continue
                for par, want in self.GLUE.items():
                    if g.get(par) != want:
                        out.append(('glue', '%s hands the compiled acceptance kernel parameter %s from %r; the Python path reads %r for it' % (fn, par, g.get(par), want), None))
                        break
            return out
        if case['kind'] == 'inventory' or not isinstance(impl, dict):
            return []
        out = []
        for what, detail in self._compare(case, impl, impl.get('replies', [])):
            k = case['kernel']
            key = k
            if k.endswith('pol_prob_pdf') and case['args'][0] == 0:
                key = 'pol_prob_pdf@zero-amplitude'
            if k.endswith('cE_gd') and 'nan' in what and max(case['args']) - min(case['args']) < 1e-5 * max(abs(v) for v in case['args']):
                key = 'cE_gd@near-isotropic'
            out.append((key, what, detail))
        return out

    def _compare(self, case, impl, replies):
        if case['kind'] == 'inventory':
            missing = [k for k in self.KERNELS if k != 'cprobability.combine' and k not in self.LOOPS and k not in impl['translated']]
            for k, needs in self.LOOPS.items():
                missing += [x for x in needs if x not in impl['translated'] and x not in missing]
            for k in ('cprobability.combine_mu', 'cprobability.combine_s'):
                if k not in impl['translated']:
                    missing.append(k)
            for k in sorted(set(self.ARRAY_KERNEL.values())) + self.ARRAY_CALLEES:
                if k not in impl['translated']:
                    missing.append(k)
            if missing:
                return [('kernels no longer translated from the .pyx sources: %s' % ', '.join('%s (%s)' % (k, impl['skipped'].get(k.split('.')[0], {}).get(k.split('.')[1], '?')) for k in missing), None)]
            return []
        if 'exc' in impl:
            return [('Python path raised %s: %s' % (impl['exc'], impl.get('msg')), impl)]
        vals = []
        for r in replies:
            if r.startswith('bad'):
                return [('translated kernel unavailable: %s' % r, None)]
            vals += reply_floats(r)
        k = case['kernel']
        if case['kind'] == 'array':
            return self._compare_array(case, impl, replies)
        if k.endswith('.dkl'):
            from common import run_driver
            n = len(case['p'])
            pn, qn = vals[:n], vals[n:]
            bb = lambda xs: ' '.join(bits(float(v)) for v in xs)
            r = run_driver(['pyxl cprobability.c_dkl %d 2 %s %s 1 %s' % (n, bb(pn), bb(qn), bb(case['args']))])[0]
            if r.startswith('bad'):
                return [('translated kernel unavailable: %s' % r, None)]
            vals = reply_floats(r)
        want = impl['v']
        if k.endswith('ctk_uv'):
            # the kernel leaves (u-like, v-like) in cells 5, 6 in the order tau-expression, k-expression = Python's (u, v)
            pass
        tol = 1e-9
        if k.endswith('.ar_pdf'):
            tol = 1e-7 + 4e-15 * (1 / case['args'][3] ** 2 + 1 / case['args'][4] ** 2)
        if k.endswith('uniform_prior_ratio'):
            tol = 1e-9
        if k.endswith('csingleSDR_SDR') or k.endswith('cE_gd') or k.endswith('cN_SDR'):
            tol = 1e-7
        out = []
        if len(vals) != len(want):
            return [('%s: kernel returned %d values, Python path %d' % (k, len(vals), len(want)), None)]
        if k.endswith('cN_SDR') and abs(want[1]) < 1e-6 and abs(vals[1]) < 1e-6:
            # a horizontal plane has no strike of its own: strike and rake only enter through the slip direction (cos(s - r), sin(s - r), 0)
            dm, dp_ = vals[0] - vals[2], want[0] - want[2]
            if abs(((dm - dp_ + PI) % (2 * PI)) - PI) > 1e-6:
                return [('%s%r: horizontal plane: the translated kernel gives slip direction strike - rake = %r, the Python path %r' % (k, tuple(case['args']), dm, dp_), None)]
            return []
        for i, (m, p) in enumerate(zip(vals, want)):
            if (m != m) and (p != p):
                continue
            ok = close(m, p, rtol=tol, atol=1e-300 if k.endswith('.ar_pdf') else 1e-12)
            if not ok and (k.endswith('csingleSDR_SDR') or k.endswith('cN_SDR')):
                # angles modulo 2 pi
                ok = abs(((m - p + PI) % (2 * PI)) - PI) < 1e-7
            if not ok:
                out.append(('%s%r: translated kernel gives %r, Python path %r (component %d)' % (k, tuple(case['args']), m, p, i), None))
                break
        return out

    def _compare_array(self, case, impl, replies):
        fam = case['family']
        if not replies:
            return [('no reply for the array kernel %s' % self.ARRAY_KERNEL[fam], None)]
        toks = replies[0].split()
        arrs, i = [], 0
        try:
            while i < len(toks):
                n = int(toks[i])
                arrs.append(reply_floats(' '.join(toks[i + 1:i + 1 + n])) if n else [])
                i += 1 + n
        except ValueError:
            return [('translated kernel unavailable: %s' % replies[0][:80], None)]
        got = arrs[0] if arrs else []
        want = impl['v']
        if fam in ('tape_batch', 'sdr_batch'):
            flat = [v for a_ in arrs for v in a_]
            if len(flat) != len(want):
                return [('%s: array kernel returned %d values, Python path %d' % (self.ARRAY_KERNEL[fam], len(flat), len(want)), None)]
            nb = len(want) // (6 if fam == 'tape_batch' else 3)
            for j, (m, p_) in enumerate(zip(flat, want)):
                ok = close(m, p_, rtol=1e-9, atol=1e-9)
                if not ok and fam == 'sdr_batch':
                    ok = abs(((m - p_ + PI) % (2 * PI)) - PI) < 1e-7
                if not ok:
                    return [('%s on %d sources: translated loop gives %r, Python path %r at flat index %d' % (self.ARRAY_KERNEL[fam], nb, m, p_, j), None)]
            return []
        if fam == 'rel':
            nst, nloc, nmt = len(case['x']), len(case['a1'][0]), len(case['mt'][0])
            if len(arrs) != 3 or len(arrs[0]) != nst * nloc * nmt:
                return [('relative_amplitude_ratio_ln_pdf: array kernel returned %r arrays' % ([len(a_) for a_ in arrs],), None)]
            tot = [sum(arrs[0][(u * nloc + v) * nmt + w] for u in range(nst)) for v in range(nloc) for w in range(nmt)]
            for nm_, g_, w_ in (('joint log-likelihood', tot, impl['v']), ('scale factor', arrs[1], impl['scale']), ('scale uncertainty', arrs[2], impl['scale_s'])):
                if len(g_) != len(w_):
                    return [('relative amplitudes: %s has %d values in the translated kernel, %d on the Python path' % (nm_, len(g_), len(w_)), None)]
                for j, (m, p_) in enumerate(zip(g_, w_)):
                    if not ((m != m and p_ != p_) or (m < -600 and p_ < -600) or close(m, p_, rtol=1e-6, atol=1e-6)):
                        return [('relative_amplitude_ratio_ln_pdf: %s of the translated loops %r, Python path %r at flat index %d (stations %d)' % (nm_, m, p_, j, nst), None)]
            if len(replies) > 1:
                t2 = replies[1].split()
                a2, i2 = [], 0
                try:
                    while i2 < len(t2):
                        n2 = int(t2[i2])
                        a2.append(reply_floats(' '.join(t2[i2 + 1:i2 + 1 + n2])) if n2 else [])
                        i2 += 1 + n2
                except ValueError:
                    return [('translated kernel unavailable: %s' % replies[1][:80], None)]
                for nm_, g_, w_ in (('scale factor', a2[0] if a2 else [], impl['scale2']), ('scale uncertainty', a2[1] if len(a2) > 1 else [], impl['scale2_s'])):
                    if len(g_) != len(w_) or any(not ((m != m and p_ != p_) or close(m, p_, rtol=1e-6, atol=1e-9)) for m, p_ in zip(g_, w_)):
                        return [('scale_estimator: %s of the translated loops %r, Python path %r (stations %d)' % (nm_, g_[:4], w_[:4], nst), None)]
            return []
        if fam == 'bins':
            kept = [(m, a) for m, a in zip(got, impl['angles']) if m > 0]
            if [m for m, _a in kept] != want:
                return [('binning kernel get_multipliers gives bin weights %r, Python path %r (bin %s, records %r)' % ([m for m, _a in kept], want, case['bin'], case['records']), None)]
            if [a[0] + a[1] for _m, a in kept] != impl['kept']:
                return [('binning kernel keeps other records than the Python path (bin %s, records %r)' % (case['bin'], case['records']), None)]
            return []
        if len(got) != len(want):
            return [('%s: array kernel returned %d values, Python path %d' % (self.ARRAY_KERNEL[fam], len(got), len(want)), None)]
        for j, (m, p_) in enumerate(zip(got, want)):
            if (m != m and p_ != p_) or (m < -600 and p_ < -600) or m == p_:
                continue
            tol = 1e-9 if 'ar' not in fam and fam != 'all' else 1e-7
            if not close(m, p_, rtol=tol, atol=tol):
                return [('%s (%s, marginalised=%s): translated loops give %r, Python path %r at flat index %d' % (self.ARRAY_KERNEL[fam], fam, case.get('marg'), m, p_, j), None)]
        return []

    def nontrivial(self, case, impl):
        if case['kind'] == 'glue':
            return True
        if case['kind'] == 'array':
            return True
        return case['kind'] == 'kernel' and all(v != 0 for v in case['args'])

    def branch(self, case, impl):
        return case.get('kernel', case['kind'])


if __name__ == '__main__':
    import sys
    sys.exit(main(C20()))
