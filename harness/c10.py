"""C10 — evidence, model probabilities, divergences: correspondence and oracle."""
import math

from common import Prop, bits, close, reply_floats, import_mtfit, NEG_INF, main
from c04 import lse


def entropy_form(xs, N):
    """ln N - H(w) for weights w ∝ exp(x) over finite x"""
    fin = [v for v in xs if v != NEG_INF]
    n = lse(fin)
    ws = [math.exp(v - n) for v in fin]
    return math.log(N) + math.fsum(w * math.log(w) for w in ws if w > 0)


class C10(Prop):
    id = 'C10'
    assumptions = ['prior() == 1 (sampling from the prior), as in the shipped 6-sphere prior',
                   'dkl is defined only where q is finite wherever p is (otherwise the divergence is infinite)']
    unproved = ['floating-point rounding (tolerance 1e-9 relative; probabilities below exp(-700) may underflow to 0)']
    rule = ('log-likelihood vectors of length 1..40 with base level {-1e5..700}, spread {0..1e4}, -inf pattern '
            'none/random; N >= number of finite entries; V log-uniform; 2..5 models with log evidences in +-1e3; '
            'Sample.output() end-to-end cases; non-trivial = at least two finite entries')

    def setup(self):
        import_mtfit()
        import numpy as np
        from MTfit.probability import probability as pr
        from MTfit import sampling
        self.np, self.pr, self.sampling = np, pr, sampling
        np.seterr(all='ignore')

    def _vec(self, rng, n, allow_inf=True):
        base = rng.choice([-1e5, -3e4, -1e3, -745.0, -50.0, -1.0, 0.0, 5.0, 300.0, 700.0])
        spread = rng.choice([0.0, 1.0, 5.0, 30.0, 700.0, 800.0, 1e4])
        xs = [max(-1e5, base - rng.random() * spread) for _ in range(n)]
        if allow_inf and rng.random() < 0.4:
            xs = [NEG_INF if rng.random() < 0.3 else v for v in xs]
        if all(v == NEG_INF for v in xs):
            xs[rng.randrange(n)] = base
        return xs

    def gen(self, rng, tier):
        n = 300 if tier == 'quick' else 4000
        # evidence reported for the results of the forward model itself (tried counts as the forward task reports them)
        for i in range(12 if tier == 'quick' else 150):
            nst = rng.randint(3, 8)
            yield {'kind': 'forward', 'az': [rng.uniform(0, 360) for _ in range(nst)], 'toa': [rng.uniform(5, 175) for _ in range(nst)],
                   'pol': [rng.choice([-1, 1]) for _ in range(nst)], 'err': [rng.choice([0.001, 0.05, 0.3, 1.0]) for _ in range(nst)],
                   'batches': [rng.choice([1, 4, 10, 50]) for _ in range(rng.randint(1, 3))], 'seed': rng.randrange(1 << 30),
                   'joint': (i % 3 == 2)}
        for i in range(n):
            k = rng.random()
            if k < 0.25:
                xs = self._vec(rng, rng.randint(1, 40))
                nfin = sum(1 for v in xs if v != NEG_INF)
                N = nfin + rng.choice([0, 1, 10, 1000, 10 ** 6])
                yield {'kind': 'lnbe', 'xs': xs, 'N': N, 'shift': rng.choice([0.0, 100.0, -2000.0]),
                       'perm_seed': rng.randrange(1 << 30)}
            elif k < 0.45:
                m = rng.randint(2, 5)
                scale = rng.choice([1.0, 10.0, 300.0, 1000.0])
                es = [rng.uniform(-scale, scale) for _ in range(m)]
                yield {'kind': 'modelprob', 'es': es, 'shift': rng.choice([0.0, 500.0, -500.0])}
            elif k < 0.65:
                xs = self._vec(rng, rng.randint(1, 40))
                nfin = sum(1 for v in xs if v != NEG_INF)
                N = nfin + rng.choice([0, 0, 1, 10, 1000, 10 ** 6])
                yield {'kind': 'dklest', 'xs': xs, 'N': N, 'V': 10 ** rng.uniform(-3, 3),
                       'container': rng.choice(['array', 'lnpdf'])}
            elif k < 0.85:
                n1 = rng.randint(1, 25)
                ps = self._vec(rng, n1)
                if rng.random() < 0.3:
                    qs = list(ps)
                elif rng.random() < 0.25:
                    # q vanishes on part of the support of p: the divergence is +inf
                    qs = self._vec(rng, n1, allow_inf=False)
                    mxp = max([v for v in ps if v != NEG_INF] or [0.0])
                    fin = [i for i, v in enumerate(ps) if v != NEG_INF and v > mxp - 600]       # where P is a representable positive number
                    if fin and len(qs) > 1:
                        qs[rng.choice(fin)] = NEG_INF
                        if all(v == NEG_INF for v in qs):
                            qs[(fin[0] + 1) % len(qs)] = 0.0
                else:
                    qs = self._vec(rng, n1, allow_inf=False)
                yield {'kind': 'dkl', 'ps': ps, 'qs': qs, 'dV': 10 ** rng.uniform(-3, 3) if rng.random() < 0.5 else 1.0,
                       'container': rng.choice(['array', 'lnpdf'])}
            else:
                # end-to-end through Sample
                nb = rng.randint(1, 4)
                batches = []
                for _ in range(nb):
                    b = rng.randint(1, 8)
                    batches.append(self._vec(rng, b))
                yield {'kind': 'sample', 'batches': batches, 'extra_n': rng.choice([0, 5, 1000]), 'discard': rng.choice([0, 0, 7, 100, 10000])}

    # ------------------------------------------------------------------ implementation
    def impl(self, case):
        np, pr = self.np, self.pr
        k = case['kind']
        if k == 'lnbe':
            def f(xs):
                return float(self.sampling.ln_bayesian_evidence({'ln_pdf': np.array(xs)}, case['N']))
            out = {'out': f(case['xs'])}
            if case['shift']:
                out['shifted'] = f([v + case['shift'] for v in case['xs']])
            import random
            xs2 = list(case['xs'])
            random.Random(case['perm_seed']).shuffle(xs2)
            out['perm'] = f(xs2)
            # the same result object evaluated twice (plain array and LnPDF container): the evidence is a function of the stored log-likelihoods, which it must leave alone
            for tag, mk in (('arr', lambda: np.array(case['xs'], dtype=float)), ('lnpdf', lambda: pr.LnPDF(np.array([case['xs']], dtype=float)))):
                obj = {'ln_pdf': mk()}
                first = float(self.sampling.ln_bayesian_evidence(obj, case['N']))
                second = float(self.sampling.ln_bayesian_evidence(obj, case['N']))
                held = np.asarray(obj['ln_pdf']._ln_pdf if hasattr(obj['ln_pdf'], '_ln_pdf') else obj['ln_pdf'], dtype=float).flatten()
                out['twice_' + tag] = [first, second, bool(np.array_equal(held, np.array(case['xs'], dtype=float)))]
            return out
        if k == 'modelprob':
            out = {'out': [float(v) for v in pr.model_probabilities(*case['es'])]}
            if case['shift']:
                out['shifted'] = [float(v) for v in pr.model_probabilities(*[e + case['shift'] for e in case['es']])]
            return out
        if k == 'dklest':
            arg = np.array(case['xs']) if case['container'] == 'array' else pr.LnPDF(np.array(case['xs']))
            return {'out': float(pr.dkl_estimate(arg, case['V'], case['N']))}
        if k == 'dkl':
            if case['container'] == 'array':
                p, q = np.array(case['ps']), np.array(case['qs'])
            else:
                p, q = pr.LnPDF(np.array(case['ps'])), pr.LnPDF(np.array(case['qs']))
            return {'out': float(pr.dkl(p, q, case['dV']))}
        if k == 'sample':
            s = self.sampling.Sample(initial_sample_size=4)
            tot = 0
            col = 0
            for b in case['batches']:
                mts = np.matrix(np.arange(col, col + len(b), dtype=float) * np.ones((6, 1)))
                col += len(b)
                s.append(mts, np.array([b]), len(b))
                tot += len(b)
            N = tot + case['extra_n']
            out, _txt = s.output(normalise=True, convert=False, n_samples=N, discard=0)
            res = {'lnbe': float(out['ln_bayesian_evidence']) if 'ln_bayesian_evidence' in out else None,
                   'dkl': float(out['dkl']) if 'dkl' in out else None, 'N': N}
            # the same history through a sampling algorithm's own output() (what an inversion reports), with a discard factor
            from MTfit.algorithms import monte_carlo as mcs
            alg = mcs.IterationSample(number_samples=5, max_samples=10 ** 9)
            alg.initialise()
            col = 0
            for b in case['batches']:
                mts = np.matrix(np.arange(col, col + len(b), dtype=float) * np.ones((6, 1)))
                col += len(b)
                alg.iterate({'moment_tensors': mts, 'ln_pdf': np.array([b]), 'n': len(b)})
            ao, _t = alg.output(normalise=True, convert=False, discard=case.get('discard', 0))
            res['alg_lnbe'] = float(ao['ln_bayesian_evidence']) if 'ln_bayesian_evidence' in ao else None
            res['alg_dkl'] = float(ao['dkl']) if 'dkl' in ao else None
            res['alg_N'] = tot
            return res
        if k == 'forward':
            from MTfit import inversion as inv
            from MTfit.algorithms import monte_carlo as mcs
            st = {'Name': ['S%d' % i for i in range(len(case['az']))], 'Azimuth': np.matrix(case['az']).T,
                  'TakeOffAngle': np.matrix(case['toa']).T}
            data = {'PPolarity': {'Stations': st, 'Measured': np.matrix(case['pol']).T, 'Error': np.matrix(case['err']).T}}
            a_pol, e_pol, ipp = inv.polarity_matrix(data)
            rs = np.random.RandomState(case['seed'])
            if case.get('joint'):
                # a joint inversion of two events (the same picks seen by both, without relative amplitudes): tried counts and evidence of the joint samples
                alg = mcs.IterationSample(number_samples=5, max_samples=10 ** 9, number_events=2)
                alg.initialise()
                allp, tried, reported = [], 0, 0
                ev = lambda v: [v, v]
                emp3, emp1 = [np.zeros((0, 1, 6)), np.zeros((0, 1, 6))], [np.zeros((0,)), np.zeros((0,))]
                for nb in case['batches']:
                    ms = []
                    for _e in range(2):
                        m = rs.randn(6, nb)
                        ms.append(m / np.sqrt((m * m).sum(axis=0)))

                    def joint(rz):
                        import contextlib, io as _io
                        with contextlib.redirect_stdout(_io.StringIO()):
                            return inv.MultipleEventsForwardTask([m.copy() for m in ms], ev(a_pol), ev(e_pol), ev(False), ev(False), ev(False), ev(False), ev(False), ev(False), ev(False),
                                                                 emp3, emp1, emp1, [[], []], False, ev(ipp), 2, return_zero=rz, relative=False, combine=True)()
                    ref = joint(True)
                    lp = ref['ln_pdf']
                    allp.extend(float(v) for v in np.asarray(lp._ln_pdf if hasattr(lp, '_ln_pdf') else lp, dtype=float).flatten())
                    r = joint(False)
                    reported += int(r['n'])
                    tried += nb
                    alg.iterate(r)
                ao, _t = alg.output(normalise=True, convert=False, discard=0)
                return {'tried': tried, 'reported': reported, 'all_ln_p': allp,
                        'lnbe': float(ao['ln_bayesian_evidence']) if 'ln_bayesian_evidence' in ao else None,
                        'total_number_samples': int(ao.get('total_number_samples', -1))}
            alg = mcs.IterationSample(number_samples=5, max_samples=10 ** 9)
            alg.initialise()
            allp, tried, reported = [], 0, 0
            for nb in case['batches']:
                m = rs.randn(6, nb)
                m = m / np.sqrt((m * m).sum(axis=0))
                ref = inv.ForwardTask(m.copy(), a_pol, e_pol, False, False, False, False, False, False, False, False, ipp, return_zero=True)()
                lp = ref['ln_pdf']
                allp.extend(float(v) for v in np.asarray(lp._ln_pdf if hasattr(lp, '_ln_pdf') else lp, dtype=float).flatten())
                r = inv.ForwardTask(m.copy(), a_pol, e_pol, False, False, False, False, False, False, False, False, ipp)()
                reported += int(r['n'])
                tried += nb
                alg.iterate(r)
            ao, _t = alg.output(normalise=True, convert=False, discard=0)
            return {'tried': tried, 'reported': reported, 'all_ln_p': allp,
                    'lnbe': float(ao['ln_bayesian_evidence']) if 'ln_bayesian_evidence' in ao else None,
                    'total_number_samples': int(ao.get('total_number_samples', -1))}
        raise ValueError(k)

    # ------------------------------------------------------------------ model
    def requests(self, case, impl):
        k = case['kind']
        if k == 'lnbe':
            xs = case['xs']
            return ['lnbe %d %s %s' % (len(xs), bits(case['N']), ' '.join(bits(v) for v in xs))]
        if k == 'modelprob':
            return ['modelprob %d %s' % (len(case['es']), ' '.join(bits(v) for v in case['es']))]
        if k == 'dklest':
            xs = case['xs']
            return ['dklest %d %s %s %s' % (len(xs), bits(case['V']), bits(case['N']), ' '.join(bits(v) for v in xs))]
        if k == 'dkl':
            return ['dkl %d %s %s %s' % (len(case['ps']), bits(case['dV']), ' '.join(bits(v) for v in case['ps']),
                                         ' '.join(bits(v) for v in case['qs']))]
        if k == 'forward' and isinstance(impl, dict) and 'all_ln_p' in impl:
            xs = [v for v in impl['all_ln_p'] if v != NEG_INF]
            return ['lnbe %d %s %s' % (len(xs), bits(float(impl['tried'])), ' '.join(bits(v) for v in xs))] if xs else []
        if k == 'sample':
            xs = [v for b in case['batches'] for v in b]
            N = sum(len(b) for b in case['batches']) + case['extra_n']
            return ['lnbe %d %s %s' % (len(xs), bits(N), ' '.join(bits(v) for v in xs)),
                    'dklest %d %s %s %s' % (len(xs), bits(1.0), bits(N), ' '.join(bits(v) for v in xs))]
        return []

    def compare(self, case, impl, replies):
        if 'exc' in impl:
            return [('implementation raised %s: %s' % (impl['exc'], impl.get('msg')), impl)]
        k = case['kind']
        out = []
        if k == 'forward':
            if replies and impl['lnbe'] is not None:
                m1 = reply_floats(replies[0])[0]
                if not close(m1, impl['lnbe'], atol=1e-9):
                    out.append(('evidence of forward-model results: model %r (over %d tried), implementation %r' % (m1, impl['tried'], impl['lnbe']), None))
            return out
        if k == 'sample':
            m1 = reply_floats(replies[0])[0]
            m2 = reply_floats(replies[1])[0]
            if impl['lnbe'] is None or not close(m1, impl['lnbe'], atol=1e-9):
                out.append(('Sample.output ln_bayesian_evidence: model %r, implementation %r' % (m1, impl['lnbe']), None))
            if impl['dkl'] is None or not close(m2, impl['dkl'], atol=1e-9):
                out.append(('Sample.output dkl: model %r, implementation %r' % (m2, impl['dkl']), None))
            return out
        if replies[0].startswith('err'):
            # undefined in the model: q = -inf where p finite
            return []
        model = reply_floats(replies[0])
        got = impl['out'] if isinstance(impl['out'], list) else [impl['out']]
        if len(model) != len(got):
            return [('length: model %d, implementation %d' % (len(model), len(got)), None)]
        for i, (m, g) in enumerate(zip(model, got)):
            if not close(m, g, atol=1e-9):
                return [('%s: value %d: model %r, implementation %r' % (k, i, m, g), {'model': model, 'impl': got})]
        return []

    # ------------------------------------------------------------------ oracle
    def oracle(self, case, impl):
        if 'exc' in impl:
            return [('raises', '%s raised %s: %s' % (case['kind'], impl['exc'], impl.get('msg')), impl)]
        k = case['kind']
        out = []
        if k == 'lnbe':
            ref = lse(case['xs']) - math.log(case['N'])
            g = impl['out']
            if not close(ref, g, atol=1e-9):
                out.append(('lnbe-value', 'ln evidence %r, log of mean likelihood %r' % (g, ref), None))
            if case['shift'] and not close(g + case['shift'], impl['shifted'], atol=1e-9):
                out.append(('lnbe-shift', 'shift by %r moved the evidence from %r to %r' % (case['shift'], g, impl['shifted']), None))
            if not close(g, impl['perm'], atol=1e-9):
                out.append(('lnbe-perm', 'permuting the samples changed the evidence from %r to %r' % (g, impl['perm']), None))
            for tag in ('twice_arr', 'twice_lnpdf'):
                if tag in impl:
                    f1, f2, same = impl[tag]
                    if not ((f1 == f2 or close(f1, f2, atol=1e-9)) and same):
                        out.append(('lnbe-repeat', 'evaluating the evidence of the same result twice gives %r then %r (stored log-likelihoods unchanged: %s)' % (f1, f2, same), None))
                        break
        elif k == 'modelprob':
            es, ps = case['es'], impl['out']
            m = max(es)
            if any((math.isnan(p) or p < 0) for p in ps):
                out.append(('modelprob-range', 'model probabilities %r' % (ps,), None))
            elif any(p == 0 and e - m > -700 for p, e in zip(ps, es)):
                out.append(('modelprob-range', 'zero model probability for finite evidence %r' % (ps,), None))
            elif not close(math.fsum(ps), 1.0):
                out.append(('modelprob-sum', 'model probabilities sum to %r' % math.fsum(ps), None))
            else:
                for i in range(len(es)):
                    for j in range(len(es)):
                        if ps[j] > 1e-300 and ps[i] > 1e-300 and abs(es[i] - es[j]) < 600:
                            if not close(ps[i] / ps[j], math.exp(es[i] - es[j]), rtol=1e-8):
                                out.append(('modelprob-ratio', 'p[%d]/p[%d] = %r, exp(difference) = %r' %
                                            (i, j, ps[i] / ps[j], math.exp(es[i] - es[j])), None))
                                break
                    if out:
                        break
            if not out and case['shift']:
                if not all(close(a, b, rtol=1e-8) for a, b in zip(ps, impl['shifted'])):
                    out.append(('modelprob-shift', 'common shift changed %r to %r' % (ps, impl['shifted']), None))
        elif k == 'dklest':
            ref = entropy_form(case['xs'], case['N'])
            g = impl['out']
            if not close(ref, g, atol=1e-9):
                out.append(('dklest-value', 'dkl_estimate %r, ln N - H(w) = %r' % (g, ref), None))
            if g < -1e-9 or g > math.log(case['N']) + 1e-9:
                out.append(('dklest-bounds', 'dkl_estimate %r outside [0, ln N = %r]' % (g, math.log(case['N'])), None))
        elif k == 'dkl':
            g = impl['out']
            same = case['ps'] == case['qs']
            if math.isnan(g):
                out.append(('dkl-nan', 'dkl is NaN', None))
            elif same and abs(g) > 1e-9:
                out.append(('dkl-self', 'dkl(p, p) = %r' % g, None))
            elif g < -1e-9:
                out.append(('dkl-negative', 'dkl = %r < 0' % g, None))
            else:
                # reference: sum over the support of p of P (ln P - ln Q) dV with both normalised to unit integral
                ps_, qs_, dV = case['ps'], case['qs'], case['dV']
                lp, lq = lse(ps_) + math.log(dV), lse(qs_) + math.log(dV)
                ref = 0.0
                for a_, b_ in zip(ps_, qs_):
                    if a_ != NEG_INF:
                        ref = float('inf') if b_ == NEG_INF else ref + math.exp(a_ - lp) * ((a_ - lp) - (b_ - lq)) * dV
                if not (g == ref or close(g, ref, atol=1e-8, rtol=1e-8)):
                    out.append(('dkl-value', 'dkl = %r, sum over the support of p of P ln(P/Q) dV = %r' % (g, ref), None))
        elif k == 'forward':
            xs = impl['all_ln_p']
            if impl['reported'] != impl['tried']:
                out.append(('forward-n', 'forward tasks on %d sources report %d tried' % (impl['tried'], impl['reported']), None))
            if any(v != NEG_INF for v in xs):
                ref = lse(xs) - math.log(impl['tried'])
                if impl['lnbe'] is None or not close(ref, impl['lnbe'], atol=1e-9):
                    out.append(('forward-lnbe', 'evidence reported for forward-model results %r, log mean likelihood over all %d tried sources %r'
                                % (impl['lnbe'], impl['tried'], ref), None))
                if impl['total_number_samples'] != impl['tried']:
                    out.append(('forward-n', 'output reports %d tried sources, %d were tried' % (impl['total_number_samples'], impl['tried']), None))
        elif k == 'sample':
            xs = [v for b in case['batches'] for v in b]
            ref = lse(xs) - math.log(impl['N'])
            if impl['lnbe'] is None or not close(ref, impl['lnbe'], atol=1e-9):
                out.append(('sample-lnbe', 'Sample.output evidence %r, log mean likelihood over all %d tried samples %r' %
                            (impl['lnbe'], impl['N'], ref), None))
            ref2 = entropy_form(xs, impl['N'])
            if impl['dkl'] is None or not close(ref2, impl['dkl'], atol=1e-9):
                out.append(('sample-dkl', 'Sample.output dkl %r, ln N - H(w) = %r' % (impl['dkl'], ref2), None))
            if any(v != NEG_INF for v in xs) and 'alg_N' in impl:
                # the algorithm's own output: N is the number of tried samples; with a discard factor only samples below
                # max/(discard N) are dropped, which changes the evidence by less than 1/discard
                tol = 1e-9 if not case.get('discard') else 2.0 / case['discard']
                ra = lse(xs) - math.log(impl['alg_N'])
                if impl['alg_lnbe'] is None or not close(ra, impl['alg_lnbe'], atol=tol):
                    out.append(('sample-lnbe', 'algorithm output (discard %r) reports evidence %r, log mean likelihood over the %d tried samples is %r' %
                                (case.get('discard'), impl['alg_lnbe'], impl['alg_N'], ra), None))
                rd = entropy_form(xs, impl['alg_N'])
                if not case.get('discard') and (impl['alg_dkl'] is None or not close(rd, impl['alg_dkl'], atol=1e-9)):
                    out.append(('sample-dkl', 'algorithm output reports dkl %r, ln N - H(w) = %r' % (impl['alg_dkl'], rd), None))
        return out

    def nontrivial(self, case, impl):
        k = case['kind']
        if k == 'modelprob':
            return True
        if k == 'forward':
            return isinstance(impl, dict) and sum(1 for v in impl.get('all_ln_p', []) if v != NEG_INF) >= 2
        xs = case.get('xs') or case.get('ps') or [v for b in case.get('batches', []) for v in b]
        return sum(1 for v in xs if v != NEG_INF) >= 2

    def branch(self, case, impl):
        if case['kind'] == 'forward' and isinstance(impl, dict) and 'all_ln_p' in impl:
            z = sum(1 for v in impl['all_ln_p'] if v == NEG_INF)
            return 'forward/%s' % ('all-zero' if z == len(impl['all_ln_p']) else 'some-zero' if z else 'no-zero')
        return case['kind']


if __name__ == '__main__':
    import sys
    sys.exit(main(C10()))
