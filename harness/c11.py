"""C11 — station coefficients and observation matrices: correspondence and oracle."""
import math

from common import Prop, bits, close, reply_floats, import_mtfit, main
import datagen as dg


def flat(x, np):
    return [float(v) for v in np.asarray(x, dtype=float).flatten()]


class C11(Prop):
    id = 'C11'
    assumptions = ['station names are mapped to their rank in sorted order before they reach the model (order-isomorphic)',
                   'all location samples list their stations in the order of the first sample (the code indexes every sample with '
                   'positions found in the first one)']
    unproved = []
    rule = ('angle cases: azimuth any real (degrees or radians), take-off in [0,180] deg, phases P/SH/SV with Q suffix and mixed case; '
            'matrix cases: random events with 1..3 polarity or polarity-probability types (mispick probability for all/none/some types), '
            '1..2 amplitude-ratio types with documented key spellings, 1..8 stations per type, optional location records that are a '
            'permuted superset (occasionally a strict subset) of the stations; non-trivial = more than one station or a location record')

    def setup(self):
        import_mtfit()
        import numpy as np
        from MTfit import inversion
        self.np, self.inv = np, inversion
        np.seterr(all='ignore')

    def gen(self, rng, tier):
        n = 300 if tier == 'quick' else 4000
        for i in range(n):
            if rng.random() < 0.35:
                npts = rng.randint(1, 6)
                rad = rng.random() < 0.3
                pts = []
                for _ in range(npts):
                    az = rng.choice([rng.uniform(0, 360), rng.uniform(-1000, 1000), float(rng.randrange(0, 361, 45))])
                    toa = rng.choice([rng.uniform(0, 180), float(rng.randrange(0, 181, 45))])
                    if rad:
                        az, toa = az * math.pi / 180, toa * math.pi / 180
                    pts.append([az, toa])
                M = [[rng.gauss(0, 1) for _ in range(3)] for _ in range(3)]
                M = [[0.5 * (M[i][j] + M[j][i]) for j in range(3)] for i in range(3)]
                intdeg = (not rad) and rng.random() < 0.25
                if intdeg:
                    pts = [[float(rng.randrange(0, 360)), float(rng.randrange(0, 181))] for _ in pts]
                yield {'kind': 'angles', 'phase': rng.choice(['P', 'SH', 'SV', 'p', 'PQ', 'SHQ', 'svq', 'Sh']), 'radians': rad,
                       'pts': pts, 'M': M, 'psi': rng.uniform(-360, 360), 'intdeg': intdeg}
            elif rng.random() < 0.12:
                # a ratio phase returns the coefficient rows of numerator and denominator, in degrees or radians
                rad = rng.random() < 0.5
                pts = []
                for _ in range(rng.randint(1, 5)):
                    az, toa = rng.uniform(-360, 720), rng.uniform(0, 180)
                    if rad:
                        az, toa = az * math.pi / 180, toa * math.pi / 180
                    pts.append([az, toa])
                yield {'kind': 'angles-ratio', 'phase': rng.choice(['P/SH', 'P/SV', 'SH/SV', 'PQ/SHQ', 'SH/P', 'sv/p']), 'radians': rad, 'pts': pts}
            elif rng.random() < 0.15:
                # relative-amplitude observations: one or two amplitude types, signed measurements
                types = {}
                for key in rng.sample(['PAmplitude', 'SHAmplitude', 'SVRMSAmplitude', 'PQAmplitude'], rng.randint(1, 2)):
                    rows = []
                    for nm in dg.station_names(rng, rng.randint(1, 6)):
                        m = 10 ** rng.uniform(-2, 2) * rng.choice([1, -1])
                        rows.append({'name': nm, 'az': rng.uniform(0, 360), 'toa': rng.uniform(0, 180), 'measured': [m],
                                     'error': [abs(m) * 10 ** rng.uniform(-2, 0)], 'ipp': None})
                    types[key] = rows
                ev = {'types': types, 'loc': None, 'weights': None}
                if rng.random() < 0.5:
                    # location samples: a permuted superset of the stations (one data station may be missing)
                    names = sorted({r['name'] for rows in types.values() for r in rows})
                    extra = [n_ for n_ in dg.station_names(rng, 2) if n_ not in names]
                    lnames = names + extra
                    rng.shuffle(lnames)
                    base = {}
                    for rows in types.values():
                        for r in rows:
                            base.setdefault(r['name'], (r['az'], r['toa']))
                    samples = [[(base.get(n_, (10.0, 20.0))[0] + rng.gauss(0, 5), min(180.0, max(0.0, base.get(n_, (10.0, 20.0))[1] + rng.gauss(0, 3))))
                                for n_ in lnames] for _k in range(rng.randint(1, 3))]
                    ev['loc'] = {'names': lnames, 'samples': samples}
                yield {'kind': 'relmatrix', 'event': ev}
            else:
                which = rng.choice(['pol', 'pp', 'ar'])
                ev = dg.gen_event(rng, want_pol={'pol': 'pol', 'pp': 'pp', 'ar': 'none'}[which], want_ar=(which == 'ar'))
                yield {'kind': which + 'matrix', 'event': ev}

    # ------------------------------------------------------------------ implementation
    def impl(self, case):
        np, inv = self.np, self.inv
        k = case['kind']
        if k == 'angles':
            dt = int if case.get('intdeg') else float
            st = {'Azimuth': np.matrix([[dt(p[0])] for p in case['pts']]), 'TakeOffAngle': np.matrix([[dt(p[1])] for p in case['pts']])}
            keep = (np.array(st['Azimuth'], dtype=float).copy(), np.array(st['TakeOffAngle'], dtype=float).copy())
            a = inv.station_angles(st, case['phase'], radians=case['radians'])
            out = {'a': [flat(r, np) for r in np.asarray(a)]}
            # the (azimuth, take-off) tuple form with the caller's own arrays: they must come back unchanged
            tup = (np.matrix([[float(p[0])] for p in case['pts']]), np.matrix([[float(p[1])] for p in case['pts']]))
            inv.station_angles(tup, case['phase'], radians=case['radians'])
            out['inputs_changed'] = bool(not np.array_equal(np.array(st['Azimuth'], dtype=float), keep[0]) or
                                         not np.array_equal(np.array(st['TakeOffAngle'], dtype=float), keep[1]) or
                                         not np.array_equal(np.asarray(tup[0]), keep[0]) or not np.array_equal(np.asarray(tup[1]), keep[1]))
            psi = case['psi'] if not case['radians'] else case['psi'] * math.pi / 180
            st2 = {'Azimuth': st['Azimuth'] + psi, 'TakeOffAngle': st['TakeOffAngle']}
            out['rot'] = [flat(r, np) for r in np.asarray(inv.station_angles(st2, case['phase'], radians=case['radians']))]
            return out
        if k == 'angles-ratio':
            st = {'Azimuth': np.matrix([[p[0]] for p in case['pts']]), 'TakeOffAngle': np.matrix([[p[1]] for p in case['pts']])}
            pair = inv.station_angles(st, case['phase'], radians=case['radians'])
            num, den = case['phase'].split('/')
            return {'pair': [[flat(r, np) for r in np.asarray(a)] for a in pair],
                    'single': [[flat(r, np) for r in np.asarray(inv.station_angles(st, ph, radians=case['radians']))] for ph in (num, den)]}
        if k == 'relmatrix':
            import copy as _copy
            data, loc = dg.to_mtfit(case['event'], np)
            keep = _copy.deepcopy(data)
            a, amp, perr, names = inv.relative_amplitude_ratio_matrix(data, loc)
            a = np.asarray(a)
            res = {'a': [[flat(a[i, kk, :], np) for kk in range(a.shape[1])] for i in range(a.shape[0])], 'amp': flat(amp, np), 'perr': flat(perr, np),
                   'names': list(names)}
            # the event dictionary is converted again later (a second pass over the same data, e.g. double-couple then full-tensor inversion): it must be left as it was,
            # and the second conversion must give the same matrices
            def same(x, y):
                if isinstance(x, dict):
                    return isinstance(y, dict) and sorted(x) == sorted(y) and all(same(x[kk], y[kk]) for kk in x)
                if isinstance(x, (list, tuple)):
                    return isinstance(y, (list, tuple)) and len(x) == len(y) and all(same(u, v) for u, v in zip(x, y))
                if hasattr(x, 'shape') or hasattr(y, 'shape'):
                    return np.asarray(x).shape == np.asarray(y).shape and bool(np.all(np.asarray(x) == np.asarray(y)))
                return x == y
            res['input_unchanged'] = bool(same(keep, data))
            try:
                a2, amp2, perr2, names2 = inv.relative_amplitude_ratio_matrix(data, loc)
                res['second_pass_same'] = bool(np.asarray(a2).shape == a.shape and np.array_equal(np.asarray(a2), a) and flat(amp2, np) == res['amp'] and flat(perr2, np) == res['perr']
                                               and list(names2) == res['names'])
            except Exception as e:
                res['second_pass_same'] = False
                res['second_pass_exc'] = '%s: %s' % (type(e).__name__, e)
            return res
        data, loc = dg.to_mtfit(case['event'], np)
        if k == 'polmatrix':
            a, err, ipp = inv.polarity_matrix(data, loc)
            n = a.shape[0]
            ippl = flat(ipp, np) if not np.isscalar(ipp) else [float(ipp)] * n
            if len(ippl) != n:
                return {'shape_error': 'IncorrectPolarityProbability has %d entries for %d stations' % (len(ippl), n)}
            return {'rows': [{'coeffs': [flat(a[s, i, :], np) for i in range(a.shape[1])], 'vals': [float(err[s]), ippl[s]]}
                             for s in range(n)]}
        if k == 'ppmatrix':
            a, (pp, pn), ipp = inv.polarity_probability_matrix(data, loc)
            n = a.shape[0]
            ippl = flat(ipp, np) if not np.isscalar(ipp) else [float(ipp)] * n
            if len(ippl) != n or len(pp) != n or len(pn) != n:
                return {'shape_error': 'lengths: stations %d, p+ %d, p- %d, mispick %d' % (n, len(pp), len(pn), len(ippl))}
            return {'rows': [{'coeffs': [flat(a[s, i, :], np) for i in range(a.shape[1])],
                              'vals': [float(pp[s]), float(pn[s]), ippl[s]]} for s in range(n)]}
        a1, a2, ratio, pe1, pe2 = inv.amplitude_ratio_matrix(data, loc)
        n = a1.shape[0]
        return {'rows': [{'coeffs': [flat(a1[s, i, :], np) for i in range(a1.shape[1])] +
                          [flat(a2[s, i, :], np) for i in range(a2.shape[1])],
                          'vals': [float(ratio[s]), float(pe1[s]), float(pe2[s])]} for s in range(n)]}

    # ------------------------------------------------------------------ model
    def requests(self, case, impl):
        k = case['kind']
        if k == 'angles':
            toks = ' '.join('%s %s' % (bits(a), bits(t)) for a, t in case['pts'])
            return ['stationangles %s %d %d %s' % (case['phase'], 1 if case['radians'] else 0, len(case['pts']), toks)]
        if k == 'relmatrix':
            return []
        if k == 'angles-ratio':
            toks = ' '.join('%s %s' % (bits(a), bits(t)) for a, t in case['pts'])
            return ['stationangles %s %d %d %s' % (ph, 1 if case['radians'] else 0, len(case['pts']), toks) for ph in case['phase'].split('/')]
        op = {'polmatrix': 'polmatrix', 'ppmatrix': 'polprobmatrix', 'armatrix': 'armatrix'}[k]
        return ['%s %s %s' % (op, ' '.join(dg.encode_data(case['event'])), ' '.join(dg.encode_loc(case['event'])))]

    @staticmethod
    def _parse_rows(reply, nvals, ncoef):
        toks = reply.split()
        n = int(toks[0])
        i = 1
        rows = []
        from common import unbits
        for _ in range(n):
            nl = int(toks[i]); i += 1
            vals = [unbits(t) for t in toks[i:i + nvals]]; i += nvals
            cs = []
            for _b in range(ncoef):
                for _l in range(nl):
                    cs.append([unbits(t) for t in toks[i:i + 6]]); i += 6
            rows.append({'coeffs': cs, 'vals': vals})
        return rows

    def _rows_equal(self, a, b):
        if len(a) != len(b):
            return 'number of stations: %d vs %d' % (len(a), len(b))
        for s, (ra, rb) in enumerate(zip(a, b)):
            if len(ra['coeffs']) != len(rb['coeffs']):
                return 'station %d: %d vs %d coefficient rows' % (s, len(ra['coeffs']), len(rb['coeffs']))
            for i, (ca, cb) in enumerate(zip(ra['coeffs'], rb['coeffs'])):
                if not all(close(x, y, atol=1e-12) for x, y in zip(ca, cb)):
                    return 'station %d coefficient row %d: %r vs %r' % (s, i, ca, cb)
            if not all(close(x, y, atol=1e-12) for x, y in zip(ra['vals'], rb['vals'])):
                return 'station %d values: %r vs %r' % (s, ra['vals'], rb['vals'])
        return None

    def compare(self, case, impl, replies):
        if 'exc' in impl:
            return [('implementation raised %s: %s' % (impl['exc'], impl.get('msg')), impl)]
        if 'shape_error' in impl:
            return [('implementation output is inconsistent: ' + impl['shape_error'], None)]
        k = case['kind']
        if k == 'relmatrix':
            return []
        if k == 'angles-ratio':
            for j, rep in enumerate(replies):
                model = reply_floats(rep)
                got = [v for r in impl['pair'][j] for v in r] if j < len(impl['pair']) else []
                if model is None or len(model) != len(got) or not all(close(m, g, atol=1e-12) for m, g in zip(model, got)):
                    return [('station_angles(%s)[%d]: model %r, implementation %r' % (case['phase'], j, (model or [])[:6], got[:6]), None)]
            return []
        if k == 'angles':
            model = reply_floats(replies[0])
            if model is None:
                return [('model: %s' % replies[0], None)]
            got = [v for r in impl['a'] for v in r]
            if len(model) != len(got) or not all(close(m, g, atol=1e-12) for m, g in zip(model, got)):
                return [('station_angles(%s): model %r, implementation %r' % (case['phase'], model[:6], got[:6]), None)]
            return []
        if replies[0].startswith('err'):
            return [('model rejected the keys: %s' % replies[0], None)]
        nv, nc = {'polmatrix': (2, 1), 'ppmatrix': (3, 1), 'armatrix': (3, 2)}[k]
        rows = self._parse_rows(replies[0], nv, nc)
        d = self._rows_equal(rows, impl['rows'])
        return [('%s: model vs implementation: %s' % (k, d), None)] if d else []

    # ------------------------------------------------------------------ oracle
    def _spec_rows(self, ev, k):
        rows = []
        if k == 'polmatrix':
            keys = sorted(u for u in ev['types'] if 'polarity' in u.lower() and 'prob' not in u.lower())
            for key in keys:
                ph = dg.phase_of_pol_key(key)
                for r, angs in dg.spec_stations(ev, key):
                    y = r['measured'][0]
                    rows.append({'coeffs': [[v * y for v in dg.coeff_row(ph, a, t)] for a, t in angs],
                                 'vals': [r['error'][0], r['ipp'] if r['ipp'] is not None else 0.0]})
        elif k == 'ppmatrix':
            keys = sorted(u for u in ev['types'] if 'polarity' in u.lower() and 'prob' in u.lower())
            for key in keys:
                ph = dg.phase_of_pol_key(key)
                for r, angs in dg.spec_stations(ev, key):
                    rows.append({'coeffs': [dg.coeff_row(ph, a, t) for a, t in angs],
                                 'vals': [r['measured'][0], r['measured'][1], r['ipp'] if r['ipp'] is not None else 0.0]})
        else:
            keys = sorted(u for u in ev['types'] if 'amplituderatio' in u.lower() or 'amplitude_ratio' in u.lower())
            for key in keys:
                p1, p2 = dg.phases_of_ar_key(key)
                for r, angs in dg.spec_stations(ev, key):
                    m0, m1 = r['measured']
                    rows.append({'coeffs': [dg.coeff_row(p1, a, t) for a, t in angs] + [dg.coeff_row(p2, a, t) for a, t in angs],
                                 'vals': [abs(m0 / m1), r['error'][0] / abs(m0), r['error'][1] / abs(m1)]})
        return rows

    def oracle(self, case, impl):
        if 'exc' in impl:
            return [('raises', '%s raised %s: %s' % (case['kind'], impl['exc'], impl.get('msg')), impl)]
        k = case['kind']
        out = []
        if k == 'relmatrix':
            # by-name specification: types in sorted key order, stations in file order; |amplitude|, error / |amplitude| >= 0
            exp = []
            loc = case['event']['loc']
            for key in sorted(case['event']['types']):
                ph = key.lower().replace('_', '').split('amplitude')[0]
                if ph.endswith('rms'):
                    ph = ph[:-3]
                ph = ph.rstrip('q')
                rows = case['event']['types'][key]
                if loc is None:
                    for r in rows:
                        exp.append((r['name'], [dg.coeff_row(ph, r['az'], r['toa'])], abs(r['measured'][0]), r['error'][0] / abs(r['measured'][0])))
                else:
                    # with location samples: the stations present in both, in sorted name order, with the angles of every sample
                    byname = {r['name']: r for r in rows}
                    pos = {n_: i for i, n_ in enumerate(loc['names'])}
                    for n_ in sorted(set(byname) & set(pos)):
                        r = byname[n_]
                        exp.append((n_, [dg.coeff_row(ph, smp[pos[n_]][0], smp[pos[n_]][1]) for smp in loc['samples']], abs(r['measured'][0]),
                                    r['error'][0] / abs(r['measured'][0])))
            if impl['names'] != [e[0] for e in exp] or len(impl['a']) != len(exp):
                return [('misaligned', 'relative-amplitude stations %r, the rows belong to %r' % (impl['names'], [e[0] for e in exp]), None)]
            for j, e in enumerate(exp):
                if not (len(impl['a'][j]) == len(e[1]) and all(close(x, y, atol=1e-12) for ra, rb in zip(impl['a'][j], e[1]) for x, y in zip(ra, rb)) and
                        close(impl['amp'][j], e[2], rtol=1e-12) and close(impl['perr'][j], e[3], rtol=1e-12)):
                    out.append(('misaligned', 'relative-amplitude row %d (%s): coefficients / amplitude / fractional error %r, %r, %r; the '
                                'station\'s own values are %r, %r, %r' % (j, e[0], impl['a'][j][0][:3], impl['amp'][j], impl['perr'][j], e[1][0][:3], e[2], e[3]), None))
                    break
            if not out and impl.get('input_unchanged') is False:
                out.append(('purity', 'relative_amplitude_ratio_matrix changed the event dictionary it was given (station lists / measurements are used again by the next pass)', None))
            if not out and impl.get('second_pass_same') is False:
                out.append(('second-pass', 'converting the same event dictionary a second time gives different relative-amplitude matrices%s'
                            % (' (%s)' % impl['second_pass_exc'] if impl.get('second_pass_exc') else ''), None))
            return out
        if k == 'angles-ratio':
            if len(impl['pair']) != 2:
                return [('radiation', 'a ratio phase returned %d coefficient arrays' % len(impl['pair']), None)]
            for j in range(2):
                a = [v for r in impl['pair'][j] for v in r]
                b = [v for r in impl['single'][j] for v in r]
                if len(a) != len(b) or not all(close(x, y, atol=1e-12) for x, y in zip(a, b)):
                    out.append(('radiation', 'station_angles(%r, radians=%r): coefficients of %s differ from those of the single phase (%r vs %r)' %
                                (case['phase'], case['radians'], 'numerator' if j == 0 else 'denominator', a[:6], b[:6]), None))
                    break
            return out
        if k == 'angles':
            ph = case['phase'].lower().rstrip('q')
            M = case['M']
            m6 = [M[0][0], M[1][1], M[2][2], math.sqrt(2) * M[0][1], math.sqrt(2) * M[0][2], math.sqrt(2) * M[1][2]]
            f = 180 / math.pi if case['radians'] else 1.0
            psi = case['psi'] * math.pi / 180
            c, s = math.cos(psi), math.sin(psi)
            R = [[c, -s, 0], [s, c, 0], [0, 0, 1]]
            Mr = [[sum(R[i][a] * M[a][b] * R[j][b] for a in range(3) for b in range(3)) for j in range(3)] for i in range(3)]
            m6r = [Mr[0][0], Mr[1][1], Mr[2][2], math.sqrt(2) * Mr[0][1], math.sqrt(2) * Mr[0][2], math.sqrt(2) * Mr[1][2]]
            if impl.get('inputs_changed'):
                out.append(('radiation', 'station_angles modified the caller\'s azimuth / take-off arrays', None))
            for (az, toa), row, rrow in zip(case['pts'], impl['a'], impl['rot']):
                amp = sum(a * b for a, b in zip(row, m6))
                ref = dg.radiation(ph, az * f, toa * f, M)
                if not close(amp, ref, atol=1e-9):
                    out.append(('radiation', '%s amplitude %r but %s.M.g = %r at az=%r toa=%r' %
                                (ph, amp, {'p': 'g', 'sh': 'phi', 'sv': 'theta'}[ph], ref, az, toa), None))
                    break
                amp2 = sum(a * b for a, b in zip(rrow, m6r))
                if not close(amp, amp2, atol=1e-9):
                    out.append(('rotation', 'rotating source and station by %r deg changed the %s amplitude from %r to %r' %
                                (case['psi'], ph, amp, amp2), None))
                    break
            return out
        if 'shape_error' in impl:
            return [('misaligned', impl['shape_error'], None)]
        spec = self._spec_rows(case['event'], k)
        d = self._rows_equal(spec, impl['rows'])
        if d:
            out.append(('misaligned', '%s: a row does not carry its own station\'s coefficients / measurement / error '
                        '(by-name specification vs implementation): %s' % (k, d), None))
        return out

    def nontrivial(self, case, impl):
        if case['kind'] in ('angles', 'angles-ratio'):
            return True
        if case['kind'] == 'relmatrix':
            return sum(len(r) for r in case['event']['types'].values()) > 1
        ev = case['event']
        return ev['loc'] is not None or any(len(r) > 1 for r in ev['types'].values())

    def branch(self, case, impl):
        k = case['kind']
        if k == 'angles':
            return 'angles/%s/%s' % (case['phase'].lower().rstrip('q'), 'rad' if case['radians'] else 'deg')
        if k == 'angles-ratio':
            return 'angles-ratio/%s' % ('rad' if case['radians'] else 'deg')
        if k == 'relmatrix':
            return 'relmatrix/%dtypes/%s' % (len(case['event']['types']), 'loc' if case['event']['loc'] else 'noloc')
        ev = case['event']
        return '%s/%dtypes/%s' % (k, len(ev['types']), 'loc' if ev['loc'] else 'noloc')


if __name__ == '__main__':
    import sys
    sys.exit(main(C11()))
