"""C17 — CSV / hyp parsing and binary result files: correspondence and oracle."""
import math
import os
import pickle
import struct
import tempfile

from common import Prop, bits, close, unbits, import_mtfit, main, Failure

POL = {'u': 1, '?': 0, 'd': -1, '+': 1, 'c': 1, '-': -1, '.': 0, 'p': 1, 'n': -1}


def hx(s):
    return 'x' + s.encode('utf-8').hex()


def unhx(t):
    return bytes.fromhex(t[1:]).decode('utf-8')


def num(rng):
    k = rng.random()
    if k < 0.3:
        return str(rng.randint(-180, 360))
    if k < 0.6:
        return repr(round(rng.uniform(-180, 360), rng.choice([1, 2, 4])))
    if k < 0.8:
        return '%.3e' % rng.uniform(1e-3, 1e3)
    return repr(rng.uniform(-1, 1))


class C17(Prop):
    id = 'C17'
    assumptions = ['numbers are compared after Python float() on both sides; struct byte layout (QQQ? = 25 bytes, native) and pickle are trusted',
                   'CSV lines reach the model as text lines (newline removed); event separators are lines whose first two fields are empty']
    unproved = ['String-level glue of the CSV model (comma splitting, lower-casing, whitespace splitting, UID extraction) is executable model '
                'code covered by the correspondence run only; the theorems are about classified lines']
    rule = ('CSV: 1..5 events, 1..4 types, 1..20 stations, header columns permuted with 0..2 extra columns and mixed case, one- and two-valued '
            'measured/error cells with irregular spacing, UID lines (= and : forms) or none; csv2inv round trip; hyp: 1..3 events with 0..25 '
            'phase lines, all polarity codes; binary: 1..3 concatenated records, 0..12 samples, converted or not, with/without evidence and dkl; '
            'non-trivial = more than one event/record or more than one type')

    def setup(self):
        import_mtfit()
        import numpy as np
        from MTfit.utilities import file_io
        self.np, self.io = np, file_io
        np.seterr(all='ignore')
        self.tmp = tempfile.mkdtemp(prefix='c17_')

    # ------------------------------------------------------------------ generation
    def _gen_csv(self, rng):
        nev = rng.randint(1, 5)
        events = []
        cols_base = ['Name', 'Azimuth', 'TakeOffAngle', 'Measured', 'Error']
        for e in range(nev):
            uid = None
            if rng.random() < 0.6:
                uid = (rng.choice(['=', ':', '= ', '']), rng.choice(['123', 'ev_%d' % e, '20150126222324275', 'a b']))
            types = []
            keys = rng.sample(['PPolarity', 'SHPolarity', 'P/SHRMSAmplitudeRatio', 'P/SVAmplitudeRatio', 'PPolarityProbability',
                               'SVPolarity', 'P/SHQAmplitudeRatio'], rng.randint(1, 4))
            for k in keys:
                extra = rng.sample(['Quality', 'Comment'], rng.randint(0, 2))
                cols = cols_base + extra
                rng.shuffle(cols)
                header = [c if c == 'Name' else rng.choice([c, c.lower(), c.upper()]) for c in cols]
                two = 'Ratio' in k or 'Prob' in k
                rows = []
                for _s in range(rng.randint(1, 20)):
                    cell = {'Name': 'S%03d' % rng.randint(0, 999), 'Azimuth': rng.choice(['', ' ']) + num(rng), 'TakeOffAngle': num(rng) + rng.choice(['', ' ']),
                            'Quality': rng.choice(['A', 'B']), 'Comment': rng.choice(['-', 'x y'])}
                    if two:
                        cell['Measured'] = num(rng) + rng.choice([' ', '  ', '\t']) + num(rng)
                        cell['Error'] = num(rng) + ' ' + num(rng)
                    else:
                        cell['Measured'] = rng.choice(['1', '-1', ' 1'])
                        cell['Error'] = num(rng)
                    rows.append([cell[c] for c in cols])
                types.append({'key': k, 'keypad': rng.choice(['', ' ']), 'header': header, 'cols': cols, 'rows': rows})
            events.append({'uid': uid, 'types': types})
        return {'kind': rng.choice(['csv', 'csv', 'csv2inv']), 'events': events, 'leading_sep': rng.random() < 0.2,
                'double_sep': rng.random() < 0.2, 'trailing_sep': rng.random() < 0.3}

    def _gen_hyp(self, rng):
        events = []
        for e in range(rng.randint(1, 3)):
            lines = []
            for _p in range(rng.randint(0, 25)):
                lines.append({'sta': 'S%04d' % rng.randint(0, 999), 'phase': rng.choice(['P', 'P', 'S', 'SH']),
                              'fm': rng.choice(['U', 'D', '?', '+', '-', 'c', '.', 'u', 'd', 'P', 'N']),
                              'err': rng.choice(['0.01', '0.02', '0.1', '1.5e-2']), 'az': '%.1f' % rng.uniform(0, 360),
                              'toa': '%.1f' % rng.uniform(0, 180), 'short': rng.random() < 0.05})
            events.append({'ot': (2015, 1, 26, 22, 23, '24.2751') if rng.random() < 0.8 else None, 'phases': lines,
                           'second': '%02d.%04d' % (rng.randint(0, 59), rng.randint(0, 9999))})
        return {'kind': 'hyp', 'events': events}

    def _gen_bin(self, rng):
        recs = []
        for _r in range(rng.randint(1, 3)):
            n = rng.choice([0, 1, 2, 5, 12])
            conv = rng.random() < 0.5
            samples = []
            for _s in range(n):
                mt = [rng.gauss(0, 1) for _ in range(6)]
                samples.append({'p': rng.random(), 'lnp': -rng.expovariate(0.1), 'mt': mt,
                                'conv': [rng.uniform(-3, 7) for _ in range(13)] if conv else []})
            recs.append({'total': rng.choice([n, n + 7, 10 ** 9 + n]), 'converted': conv,
                         'lbe': rng.choice([None, rng.uniform(-50, 5)]), 'dkl': rng.choice([None, rng.uniform(0, 12)]),
                         'samples': samples, 'prob_2d': rng.random() < 0.5})
        multi = len(recs) >= 2 and rng.random() < 0.5
        if multi:
            # results of a joint inversion: one record per event written from ONE dictionary with '_<event>' suffixed tensors and converted
            # parameters; sample count, probabilities, evidence and counts are shared by the events
            n0 = len(recs[0]['samples'])
            for r in recs[1:]:
                r.update(total=recs[0]['total'], converted=recs[0]['converted'], lbe=recs[0]['lbe'], dkl=recs[0]['dkl'], prob_2d=recs[0]['prob_2d'])
                r['samples'] = [{'p': s0['p'], 'lnp': s0['lnp'], 'mt': [rng.gauss(0, 1) for _ in range(6)],
                                 'conv': [rng.uniform(-3, 7) for _ in range(13)] if recs[0]['converted'] else []} for s0 in recs[0]['samples']]
                assert len(r['samples']) == n0
        return {'kind': 'binary', 'recs': recs, 'multi': multi}

    def gen(self, rng, tier):
        n = 150 if tier == 'quick' else 2500
        for i in range(n):
            k = rng.random()
            if k < 0.45:
                yield self._gen_csv(rng)
            elif k < 0.6:
                yield self._gen_hyp(rng)
            else:
                yield self._gen_bin(rng)

    # ------------------------------------------------------------------ text builders
    def _csv_lines(self, case):
        lines = []
        if case['leading_sep']:
            lines.append(',,,,')
        for e, ev in enumerate(case['events']):
            if e:
                lines.append(',,,,')
                if case['double_sep']:
                    lines.append(',,,,,')
            w = 4
            if ev['uid'] is not None:
                lines.append('UID' + ev['uid'][0] + ev['uid'][1] + ',' * w)
            for t in ev['types']:
                nc = len(t['cols'])
                lines.append(t['key'] + t['keypad'] + ',' * (nc - 1))
                lines.append(','.join(t['header']))
                for r in t['rows']:
                    lines.append(','.join(r))
        if case['trailing_sep']:
            lines.append(',,,,')
        return lines

    def _hyp_text(self, case):
        out = []
        for ev in case['events']:
            out.append('NLLOC "obs" "LOCATED" "Location completed."')
            if ev['ot']:
                y, mo, d, h, mi, _s = ev['ot']
                out.append('GEOGRAPHIC  OT %04d %02d %02d  %02d %02d   %s  Lat 0.03 Long 0.03 Depth 3.3' % (y, mo, d, h, mi, ev['second']))
            out.append('QUALITY  Pmax 2.8e+141 MFmin 82.0 MFmax 86.6 RMS 0.009 Nphs 37 Gap 36.7 Dist 0.26 Mamp  -9.9 0 Mdur  -9.9 0')
            out.append('PHASE ID Ins Cmp On Pha  FM Date     HrMn   Sec     Err  ErrMag    Coda      Amp       Per  >   TTpred    Res       '
                       'Weight    StaLoc(X  Y         Z)        SDist    SAzim  RAz  RDip RQual    Tcorr')
            for p in ev['phases']:
                if p['short']:
                    out.append('%s  ?    ?    ? %s      %s 20150126 2223' % (p['sta'], p['phase'], p['fm']))
                else:
                    out.append('%s  ?    ?    ? %s      %s 20150126 2223        25 GAU      %s        -1        -1        -1 >    0.7224    '
                               '0.0004    1.2751   -0.1600   -0.1600    0.0000    0.2650 226.19 %s %s  9     0.0000' %
                               (p['sta'], p['phase'], p['fm'], p['err'], p['az'], p['toa']))
            out.append('END_PHASE')
            out.append('END_NLLOC')
            out.append('')
        return '\n'.join(out) + '\n'

    # ------------------------------------------------------------------ canonical forms
    def _canon_events(self, evs):
        np = self.np
        out = []
        for ev in evs:
            types = []
            for k, v in ev.items():
                if k in ('UID', 'hyp_file'):
                    continue
                st = v['Stations']
                types.append({'key': k, 'names': list(st['Name']),
                              'az': [float(x) for x in np.asarray(st['Azimuth']).flatten()],
                              'toa': [float(x) for x in np.asarray(st['TakeOffAngle']).flatten()],
                              'measured': [[float(x) for x in r] for r in np.asarray(v['Measured']).tolist()],
                              'error': [[float(x) for x in r] for r in np.asarray(v['Error']).tolist()]})
            out.append({'uid': ev.get('UID'), 'types': types})
        return out

    def _dict_of(self, rec):
        np = self.np
        n = len(rec['samples'])
        d = {'total_number_samples': rec['total'],
             'moment_tensor_space': np.matrix([[s['mt'][i] for s in rec['samples']] for i in range(6)]).reshape(6, n),
             'probability': (np.matrix([[s['p'] for s in rec['samples']]]).reshape(1, n) if rec['prob_2d']
                             else np.array([s['p'] for s in rec['samples']])),
             'ln_pdf': (np.matrix([[s['lnp'] for s in rec['samples']]]).reshape(1, n) if rec['prob_2d']
                        else np.array([s['lnp'] for s in rec['samples']]))}
        if rec['lbe'] is not None:
            d['ln_bayesian_evidence'] = rec['lbe']
        if rec['dkl'] is not None:
            d['dkl'] = rec['dkl']
        if rec['converted']:
            for j, key in enumerate(['g', 'd', 'k', 'h', 's', 'u', 'v', 'S1', 'D1', 'R1', 'S2', 'D2', 'R2']):
                d[key] = np.array([s['conv'][j] for s in rec['samples']])
        return d

    @staticmethod
    def _words_of_bytes(b):
        """split the writer's bytes into words using the documented layout"""
        words = []
        off = 0
        while off < len(b):
            ver, total, n, conv = struct.unpack_from('QQQ?', b, off)
            off += 25
            words += ['Q%d' % ver, 'Q%d' % total, 'Q%d' % n, 'B%d' % (1 if conv else 0)]
            per = 8 + (13 if conv else 0)
            vals = struct.unpack_from('%dd' % (2 + n * per), b, off)
            off += 8 * (2 + n * per)
            for v in vals:
                words.append('Dnan' if math.isnan(v) else 'D' + bits(v))
        return words

    def impl(self, case):
        np, io = self.np, self.io
        k = case['kind']
        if k in ('csv', 'csv2inv'):
            fn = os.path.join(self.tmp, 'f.csv')
            with open(fn, 'w') as fh:
                fh.write('\n'.join(self._csv_lines(case)) + '\n')
            res = {'events': self._canon_events(io.parse_csv(fn))}
            if k == 'csv2inv':
                inv_fn = os.path.join(self.tmp, 'f.inv')
                if os.path.exists(inv_fn):
                    # an .inv of an earlier conversion is lying around and the new CSV carries an older time stamp (restored / copied file):
                    # the conversion must still produce the data of the CSV that is there now
                    t_inv = os.path.getmtime(inv_fn)
                    os.utime(fn, (t_inv - 50, t_inv - 50))
                io.csv2inv(fn)
                with open(os.path.join(self.tmp, 'f.inv'), 'rb') as fh:
                    res['inv'] = self._canon_events(pickle.load(fh))
            return res
        if k == 'hyp':
            fn = os.path.join(self.tmp, 'f.hyp')
            with open(fn, 'w') as fh:
                fh.write(self._hyp_text(case))
            evs = io.parse_hyp(fn)
            return {'events': self._canon_events(evs), 'nlines': [len(e.get('hyp_file', [])) for e in evs]}
        # binary
        if case.get('multi'):
            joint = self._dict_of(case['recs'][0])
            for key in ['moment_tensor_space', 'g', 'd', 'k', 'h', 's', 'u', 'v', 'S1', 'D1', 'R1', 'S2', 'D2', 'R2']:
                joint.pop(key, None)
            for i, r in enumerate(case['recs']):
                one = self._dict_of(r)
                for key in ['moment_tensor_space', 'g', 'd', 'k', 'h', 's', 'u', 'v', 'S1', 'D1', 'R1', 'S2', 'D2', 'R2']:
                    if key in one:
                        joint['%s_%d' % (key, i + 1)] = one[key]
            blobs = [io._convert_mt_space_to_struct(joint, i + 1)[0] for i in range(len(case['recs']))]
        else:
            blobs = []
            self._rewrite = None
            for r in case['recs']:
                d_ = self._dict_of(r)
                keep_ = np.array(d_['moment_tensor_space'], dtype=float).copy()
                b1 = io._convert_mt_space_to_struct(d_)[0]
                b2 = io._convert_mt_space_to_struct(d_)[0]         # the same result dictionary written a second time (another file name, a retry)
                if b1 != b2 or not np.array_equal(keep_, np.asarray(d_['moment_tensor_space'], dtype=float)):
                    self._rewrite = 'writing a result dictionary twice gives different bytes or changes the caller\'s tensors'
                blobs.append(b1)
        fn = os.path.join(self.tmp, 'f.mt')
        with open(fn, 'wb') as fh:
            for b in blobs:
                fh.write(b)
        back = io.read_binary_output(fn)
        recs = []
        for o in back:
            n = o['moment_tensor_space'].shape[1]
            conv = 'g' in o
            samples = []
            for i in range(n):
                samples.append({'p': float(o['probability'][0, i]), 'lnp': float(o['ln_pdf'][0, i]),
                                'mt': [float(o['moment_tensor_space'][j, i]) for j in range(6)],
                                'conv': [float(o[key][i]) for key in ['g', 'd', 'k', 'h', 's', 'u', 'v', 'S1', 'D1', 'R1', 'S2', 'D2', 'R2']] if conv else []})
            recs.append({'total': int(o['total_number_samples']), 'converted': conv, 'lbe': o.get('ln_bayesian_evidence'),
                         'dkl': o.get('dkl'), 'samples': samples})
        return {'words': [self._words_of_bytes(b) for b in blobs], 'back': recs, 'rewrite': getattr(self, '_rewrite', None) if not case.get('multi') else None}

    # ------------------------------------------------------------------ model
    def requests(self, case, impl):
        k = case['kind']
        if k in ('csv', 'csv2inv'):
            lines = self._csv_lines(case)
            return ['csv %d %s' % (len(lines), ' '.join(hx(l) for l in lines))]
        if k == 'hyp':
            reqs = []
            text = self._hyp_text(case)
            events, cur = [], []
            for line in text.split('\n'):
                t = line.split()
                if t:
                    cur.append(t)
                    if t[0] == 'END_NLLOC':
                        events.append(cur)
                        cur = []
            if cur:
                events.append(cur)
            for ev in events:
                reqs.append('hyp %d %s' % (len(ev), ' '.join('%d %s' % (len(t), ' '.join(hx(x) for x in t)) for t in ev)))
            return reqs
        toks = [str(len(case['recs']))]
        for r in case['recs']:
            toks += [str(r['total']), '1' if r['converted'] else '0',
                     bits(r['lbe'] if r['lbe'] is not None else float('nan')), bits(r['dkl'] if r['dkl'] is not None else float('nan')),
                     str(len(r['samples']))]
            for s in r['samples']:
                toks += [bits(s['p']), bits(s['lnp'])] + [bits(v) for v in s['mt']] + [bits(v) for v in s['conv']]
        reqs = ['binwrite ' + ' '.join(toks)]
        if isinstance(impl, dict) and 'words' in impl:
            allw = [w for ws in impl['words'] for w in ws]
            reqs.append('binread %d %s' % (len(allw), ' '.join(allw)))
        return reqs

    @staticmethod
    def _parse_csv_reply(reply):
        t = reply.split()
        p = 0
        nev = int(t[p]); p += 1
        evs = []
        for _e in range(nev):
            uid = unhx(t[p]); nt = int(t[p + 1]); p += 2
            types = []
            for _t in range(nt):
                key = unhx(t[p]); nr = int(t[p + 1]); p += 2
                ty = {'key': key, 'names': [], 'az': [], 'toa': [], 'measured': [], 'error': []}
                for _r in range(nr):
                    ty['names'].append(unhx(t[p])); ty['toa'].append(float(unhx(t[p + 1]))); ty['az'].append(float(unhx(t[p + 2])))
                    nm = int(t[p + 3]); p += 4
                    ty['measured'].append([float(unhx(x)) for x in t[p:p + nm]]); p += nm
                    ne = int(t[p]); p += 1
                    ty['error'].append([float(unhx(x)) for x in t[p:p + ne]]); p += ne
                types.append(ty)
            evs.append({'uid': uid, 'types': types})
        return evs

    @staticmethod
    def _parse_recs(reply):
        t = reply.split()
        n = int(t[0]); p = 1
        recs = []
        for _ in range(n):
            total = int(t[p]); conv = t[p + 1] == '1'
            lbe = None if t[p + 2] == 'nan' else unbits(t[p + 2])
            dkl = None if t[p + 3] == 'nan' else unbits(t[p + 3])
            ns = int(t[p + 4]); p += 5
            samples = []
            per = 8 + (13 if conv else 0)
            for _s in range(ns):
                v = [unbits(x) for x in t[p:p + per]]; p += per
                samples.append({'p': v[0], 'lnp': v[1], 'mt': v[2:8], 'conv': v[8:]})
            recs.append({'total': total, 'converted': conv, 'lbe': lbe, 'dkl': dkl, 'samples': samples})
        return recs

    def compare(self, case, impl, replies):
        if 'exc' in impl:
            return [('implementation raised %s: %s' % (impl['exc'], impl.get('msg')), impl)]
        k = case['kind']
        if k in ('csv', 'csv2inv'):
            if replies[0].startswith('err') or replies[0].startswith('bad'):
                return [('model rejected the file: %s' % replies[0], None)]
            m = self._parse_csv_reply(replies[0])
            if m != impl['events']:
                return [('parse_csv: model %r ... implementation %r' % (str(m)[:300], str(impl['events'])[:300]), None)]
            return []
        if k == 'hyp':
            # model picks per event -> expected polarity types
            exp = []
            for rep in replies:
                t = rep.split()
                n = int(t[0])
                picks = [[unhx(x) for x in t[1 + 6 * i:7 + 6 * i]] for i in range(n)]
                exp.append(picks)
            got = impl['events']
            evs = []
            for picks in exp:
                types = {}
                for sta, ph, fm, err, az, toa in picks:
                    pol = POL[fm.lower()]
                    if pol != 0:
                        ty = types.setdefault(ph + 'Polarity', {'key': ph + 'Polarity', 'names': [], 'az': [], 'toa': [], 'measured': [], 'error': []})
                        ty['names'].append(sta); ty['az'].append(float(az)); ty['toa'].append(float(toa))
                        ty['measured'].append([float(pol)]); ty['error'].append([float(err) * 3.0])
                evs.append(list(types.values()))
            got_types = [e['types'] for e in got]
            exp_types = [e for e in evs]
            # events without UID and without picks are dropped by the code
            if [e for e in exp_types if e] != [e for e in got_types if e]:
                return [('parse_hyp picks: model %r ... implementation %r' % (str(exp_types)[:300], str(got_types)[:300]), None)]
            return []
        mw = replies[0].split()
        iw = [w for ws in impl['words'] for w in ws]
        if mw != iw:
            j = next((i for i, (a, b) in enumerate(zip(mw, iw)) if a != b), min(len(mw), len(iw)))
            return [('binary writer: word %d: model %s, implementation %s (lengths %d / %d)' %
                     (j, mw[j] if j < len(mw) else None, iw[j] if j < len(iw) else None, len(mw), len(iw)), None)]
        if len(replies) > 1:
            if replies[1].startswith('err'):
                return [('model cannot read the stream: %s' % replies[1], None)]
            mr = self._parse_recs(replies[1])
            d = self._recs_diff(mr, impl['back'], exact=True)
            if d:
                return [('binary reader: model vs implementation: %s' % d, None)]
        return []

    @staticmethod
    def _recs_diff(a, b, exact=False):
        if len(a) != len(b):
            return 'record count %d vs %d' % (len(a), len(b))
        for i, (x, y) in enumerate(zip(a, b)):
            if x['total'] != y['total'] or x['converted'] != y['converted'] or len(x['samples']) != len(y['samples']):
                return 'record %d header: %r vs %r' % (i, (x['total'], x['converted'], len(x['samples'])),
                                                       (y['total'], y['converted'], len(y['samples'])))
            for j, (s, t) in enumerate(zip(x['samples'], y['samples'])):
                va = [s['p'], s['lnp']] + s['mt'] + s['conv']
                vb = [t['p'], t['lnp']] + t['mt'] + t['conv']
                if len(va) != len(vb) or not all((p == q) if exact else close(p, q, rtol=1e-15, atol=0) for p, q in zip(va, vb)):
                    return 'record %d sample %d: %r vs %r' % (i, j, va, vb)
            for key in ('dkl',):
                p, q = x.get(key), y.get(key)
                pn = p is None or (isinstance(p, float) and math.isnan(p))
                qn = q is None or (isinstance(q, float) and math.isnan(q))
                if pn != qn or (not pn and p != q):
                    return 'record %d %s: %r vs %r' % (i, key, p, q)
        return None

    # ------------------------------------------------------------------ oracle
    def oracle(self, case, impl):
        if 'exc' in impl:
            return [('raises', '%s raised %s: %s' % (case['kind'], impl['exc'], impl.get('msg')), impl)]
        k = case['kind']
        out = []
        if k in ('csv', 'csv2inv'):
            exp = []
            for e, ev in enumerate(case['events']):
                types = []
                for t in ev['types']:
                    c = t['cols']
                    ty = {'key': t['key'], 'names': [], 'az': [], 'toa': [], 'measured': [], 'error': []}
                    for r in t['rows']:
                        cell = dict(zip(c, r))
                        ty['names'].append(cell['Name']); ty['az'].append(float(cell['Azimuth'])); ty['toa'].append(float(cell['TakeOffAngle']))
                        ty['measured'].append([float(x) for x in cell['Measured'].split()])
                        ty['error'].append([float(x) for x in cell['Error'].split()])
                    types.append(ty)
                exp.append({'uid': ev['uid'][1].strip() if ev['uid'] else None, 'types': types})
            got = impl['events']
            if len(got) != len(exp):
                out.append(('csv-events', '%d events parsed from a file with %d' % (len(got), len(exp)), None))
            else:
                for e, (g, x) in enumerate(zip(got, exp)):
                    if x['uid'] is not None and g['uid'] != x['uid']:
                        out.append(('csv-uid', 'event %d UID %r, file says %r' % (e, g['uid'], x['uid']), None))
                    if g['types'] != x['types']:
                        out.append(('csv-data', 'event %d: parsed data differ from the file rows: %r vs %r' %
                                    (e, str(g['types'])[:200], str(x['types'])[:200]), None))
                        break
            if 'inv' in impl and impl['inv'] != got:
                out.append(('csv2inv', 'pickled inversion file loads to different data than parse_csv', None))
            return out[:3]
        if k == 'hyp':
            got = [e for e in impl['events']]
            exp = []
            for ev in case['events']:
                types = {}
                for p in ev['phases']:
                    if p['short']:
                        continue
                    pol = POL[p['fm'].lower()]
                    if pol != 0:
                        ty = types.setdefault(p['phase'] + 'Polarity', {'key': p['phase'] + 'Polarity', 'names': [], 'az': [], 'toa': [],
                                                                        'measured': [], 'error': []})
                        ty['names'].append(p['sta']); ty['az'].append(float(p['az'])); ty['toa'].append(float(p['toa']))
                        ty['measured'].append([float(pol)]); ty['error'].append([float(p['err']) * 3.0])
                exp.append(list(types.values()))
            exp = [e for e in exp if e]
            if [e['types'] for e in got if e['types']] != exp:
                out.append(('hyp-picks', 'hyp picks differ from the phase lines: %r vs %r' % (str([e['types'] for e in got])[:200], str(exp)[:200]), None))
            return out
        exp = [{'total': r['total'], 'converted': r['converted'], 'lbe': r['lbe'], 'dkl': r['dkl'], 'samples': r['samples']} for r in case['recs']]
        d = self._recs_diff(exp, impl['back'])
        if d:
            out.append(('binary-roundtrip', 'binary write/read changed the data: %s' % d, None))
        if impl.get('rewrite'):
            out.append(('binary-rewrite', impl['rewrite'], None))
        return out

    def nontrivial(self, case, impl):
        k = case['kind']
        if k == 'binary':
            return len(case['recs']) > 1 or any(len(r['samples']) > 1 for r in case['recs'])
        return len(case['events']) > 1 or any(len(e.get('types', e.get('phases', []))) > 1 for e in case['events'])

    def branch(self, case, impl):
        k = case['kind']
        if k == 'binary':
            return 'binary/%drec/%s' % (len(case['recs']), 'conv' if any(r['converted'] for r in case['recs']) else 'plain')
        return '%s/%dev' % (k, len(case['events']))

    # ------------------------------------------------------------------ the result files of a real inversion run
    def _front_end(self, seed, ntypes):
        """Inversion.forward() writes its results in the pickle and in the hyp (.mt binary) format: both files must carry the same tensors,
        probabilities, log-probabilities, counts and converted parameters, and the log-probabilities must be those of the tensors stored with them."""
        import contextlib
        import io as _io
        import shutil
        np, io = self.np, self.io
        from MTfit.inversion import Inversion
        from MTfit.probability import probability as pr
        from MTfit import inversion as invm
        rs = np.random.RandomState(seed)
        n = 6
        st = {'Name': ['S%d' % i for i in range(n)], 'Azimuth': np.matrix(rs.uniform(0, 360, n)).T, 'TakeOffAngle': np.matrix(rs.uniform(20, 160, n)).T}
        data = {'PPolarity': {'Stations': st, 'Measured': np.matrix(np.sign(rs.randn(n))).T, 'Error': np.matrix(0.3 * np.ones((n, 1)))}, 'UID': 'c17fe'}
        cwd = os.getcwd()
        d = tempfile.mkdtemp(prefix='c17fe_')
        os.chdir(d)
        o_seed = np.random.seed
        res = {}
        try:
            for fmt in ('pickle', 'hyp'):
                o_seed(seed)
                np.random.seed = lambda *a, **k: None         # the samplers reseed from the clock: keep both runs on the same stream
                try:
                    with contextlib.redirect_stdout(_io.StringIO()), contextlib.redirect_stderr(_io.StringIO()):
                        I = Inversion(data, algorithm='iterate', parallel=False, max_samples=400, phy_mem=0.001, convert=True, output_format=fmt)
                        I.forward()
                finally:
                    np.random.seed = o_seed
            res['files'] = sorted(os.listdir(d))
            if 'c17feMT.out' in res['files'] and 'c17feMT.mt' in res['files']:
                with open('c17feMT.out', 'rb') as fh:
                    ev = pickle.load(fh)['Events']
                recs = io.read_binary_output('c17feMT.mt')
                res['n_records'] = len(recs)
                b = recs[0]
                M1, M2 = np.asarray(ev['MTSpace'], dtype=float), np.asarray(b['moment_tensor_space'], dtype=float)
                res['shapes'] = [list(M1.shape), list(M2.shape)]
                if M1.shape == M2.shape:
                    res['mt_dev'] = float(np.abs(M1 - M2).max())
                    res['p_dev'] = float(np.abs(np.asarray(ev['Probability'], dtype=float).flatten() - np.asarray(b['probability'], dtype=float).flatten()).max())
                    res['lnp_dev'] = float(np.abs(np.asarray(ev['ln_pdf'], dtype=float).flatten() - np.asarray(b['ln_pdf'], dtype=float).flatten()).max())
                    res['conv_dev'] = float(max(np.abs(np.asarray(ev[k], dtype=float).flatten() - np.asarray(b[k], dtype=float).flatten()).max()
                                                for k in ('g', 'd', 'k', 'h', 's', 'u', 'v', 'S1', 'D1', 'R1', 'S2', 'D2', 'R2')))
                    res['counts'] = [int(ev['NSamples']), int(b['total_number_samples'])]
                    # the stored log-probabilities are those of the stored tensors (differences: the files hold normalised values)
                    a_pol, err_pol, ipp = invm.polarity_matrix(data)
                    ref = np.asarray(pr.polarity_ln_pdf(a_pol, M2.copy(), err_pol, ipp, _use_c=False), dtype=float).flatten()
                    got = np.asarray(b['ln_pdf'], dtype=float).flatten()
                    res['lnp_vs_forward_dev'] = float(np.abs((got - got[0]) - (ref - ref[0])).max())
        finally:
            os.chdir(cwd)
            shutil.rmtree(d, ignore_errors=True)
        return res

    def extra(self, rng, tier):
        runs, fails = [], []
        for seed in ([31] if tier == 'quick' else [31, 32, 33]):
            r = self._front_end(seed, 1)
            runs.append(r)
            what = None
            if 'c17feMT.out' not in r['files'] or 'c17feMT.mt' not in r['files']:
                what = 'an inversion run with pickle and hyp output left the files %r: no result file / no binary .mt file was written' % (r['files'],)
            elif r['shapes'][0] != r['shapes'][1] or r.get('n_records') != 1:
                what = 'the pickle result holds tensors of shape %r, the binary .mt file %r (%r records)' % (r['shapes'][0], r['shapes'][1], r.get('n_records'))
            elif max(r['mt_dev'], r['p_dev'], r['lnp_dev'], r['conv_dev']) > 1e-12 or r['counts'][0] != r['counts'][1]:
                what = ('pickle and binary result files of the same run differ: tensors %r, probabilities %r, log-probabilities %r, converted parameters %r, sample counts %r'
                        % (r['mt_dev'], r['p_dev'], r['lnp_dev'], r['conv_dev'], r['counts']))
            elif r['lnp_vs_forward_dev'] > 1e-7:
                what = 'log-probabilities in the binary result file are not those of the tensors stored with them (off by up to %r)' % r['lnp_vs_forward_dev']
            if what:
                fails.append(Failure('property', {'kind': 'front-end-output', 'seed': seed}, what, key='front-end-output'))
        return {'front_end_output_runs': runs}, fails


if __name__ == '__main__':
    import sys
    sys.exit(main(C17()))
