"""Generation and encoding of MTfit event data dictionaries (shared by C01, C11, C15).

An abstract event is
  {'types': {key: [row, ...]}, 'loc': None | {'names': [...], 'samples': [[(az, toa), ...], ...]}, 'weights': None | [...]}
with row = {'name': str, 'az': float, 'toa': float, 'measured': [..], 'error': [..], 'ipp': float | None}.
"""
import math

from common import bits

POL_KEYS = ['PPolarity', 'SHPolarity', 'SVPolarity', 'PQPolarity', 'PPolarity2']
PP_KEYS = ['PPolarityProbability', 'SHPolarityProbability', 'SVPolarityProbability']
AR_KEYS = ['P/SHRMSAmplitudeRatio', 'P/SVAmplitudeRatio', 'SH/SVQ_Amplitude_Ratio', 'P/SHQAmplitudeRatio',
           'P/SVQRMSAmplitudeRatio', 'SH/P_AmplitudeRatio', 'P/SHAmplitudeRatio']


def station_names(rng, n, pool=40):
    ids = rng.sample(range(pool), n)
    return ['S%04d' % i for i in ids]


def gen_rows(rng, kind, n, names=None, ipp_mode='none', zero_sigma=False):
    names = names or station_names(rng, n)
    rows = []
    for nm in names:
        az = rng.choice([rng.uniform(0, 360), rng.uniform(-720, 720), float(rng.randrange(0, 360, 45))])
        toa = rng.choice([rng.uniform(0, 180), float(rng.randrange(0, 181, 30))])
        if kind == 'pol':
            measured = [float(rng.choice([1, -1]))]
            error = [rng.choice([0.0, 0.001, 0.05, 0.2, 0.5, 1.0]) if zero_sigma else rng.choice([0.001, 0.05, 0.2, 0.5, 1.0])]
        elif kind == 'pp':
            pp = rng.choice([0.0, 1.0, rng.random(), rng.random()])
            pn = rng.choice([1.0 - pp, rng.random() * (1 - pp)])
            measured = [pp, pn]
            error = [0.1, 0.1]
        else:
            m0 = 10 ** rng.uniform(-2, 2) * rng.choice([1, -1])
            m1 = 10 ** rng.uniform(-2, 2) * rng.choice([1, -1])
            measured = [m0, m1]
            error = [abs(m0) * 10 ** rng.uniform(-2, 0), abs(m1) * 10 ** rng.uniform(-2, 0)]
        ipp = None
        if ipp_mode == 'all':
            ipp = rng.choice([0.0, 0.05, 0.3, 0.5, rng.random()])
        rows.append({'name': nm, 'az': az, 'toa': toa, 'measured': measured, 'error': error, 'ipp': ipp})
    return rows


def gen_event(rng, want_pol=None, want_ar=None, want_loc=None, max_sta=8, max_loc=5):
    """A random event: polarity xor polarity-probability types, amplitude-ratio types, optional location samples."""
    types = {}
    pol_kind = want_pol if want_pol is not None else rng.choice(['pol', 'pp', 'none', 'pol'])
    use_ar = want_ar if want_ar is not None else (rng.random() < 0.5 or pol_kind == 'none')
    if pol_kind == 'pol':
        keys = rng.sample(POL_KEYS, rng.randint(1, 3))
        # mispick probability given for all, none or only some types
        mode = rng.choice(['none', 'all', 'some'])
        for i, k in enumerate(keys):
            m = 'all' if mode == 'all' or (mode == 'some' and rng.random() < 0.5) else 'none'
            types[k] = gen_rows(rng, 'pol', rng.randint(1, max_sta), ipp_mode=m, zero_sigma=True)
    elif pol_kind == 'pp':
        keys = rng.sample(PP_KEYS, rng.randint(1, 2))
        mode = rng.choice(['none', 'all', 'some'])
        for k in keys:
            m = 'all' if mode == 'all' or (mode == 'some' and rng.random() < 0.5) else 'none'
            types[k] = gen_rows(rng, 'pp', rng.randint(1, max_sta), ipp_mode=m)
    if use_ar:
        for k in rng.sample(AR_KEYS, rng.randint(1, 2)):
            types[k] = gen_rows(rng, 'ar', rng.randint(1, max_sta))
    loc = None
    weights = None
    has_loc = want_loc if want_loc is not None else rng.random() < 0.6
    if has_loc:
        all_names = sorted({r['name'] for rows in types.values() for r in rows})
        extra = [n for n in station_names(rng, rng.randint(0, 3)) if n not in all_names]
        names = all_names + extra
        if rng.random() < 0.15 and len(all_names) > 1:
            # a data station missing from the location records (every type keeps at least one station)
            victim = rng.choice(all_names)
            if all(any(r['name'] != victim for r in rows) for rows in types.values()):
                names.remove(victim)
        rng.shuffle(names)
        nloc = rng.randint(1, max_loc)
        base = {}
        for rows in types.values():
            for r in rows:
                base.setdefault(r['name'], (r['az'], r['toa']))
        samples = []
        for k in range(nloc):
            s = []
            for n in names:
                az, toa = base.get(n, (rng.uniform(0, 360), rng.uniform(0, 180)))
                s.append((az + rng.gauss(0, 8), min(180.0, max(0.0, toa + rng.gauss(0, 5)))))
            samples.append(s)
        if rng.random() < 0.2 and nloc >= 2:
            samples[1] = list(samples[0])              # duplicated sample
        loc = {'names': names, 'samples': samples}
        wmode = rng.choice(['none', 'ones', 'random', 'mean1', 'ints'])
        if wmode == 'ones':
            weights = [1.0] * nloc
        elif wmode == 'random':
            weights = [10 ** rng.uniform(-2, 2) for _ in range(nloc)]
        elif wmode == 'ints':
            weights = [float(rng.randint(1, 5)) for _ in range(nloc)]
        elif wmode == 'mean1' and nloc >= 2:
            # non-uniform weights whose mean is exactly one
            w = [0.5 + rng.randrange(0, 4) * 0.25 for _ in range(nloc - 1)]
            last = nloc - sum(w)
            if last > 0 and any(x != 1.0 for x in w + [last]):
                weights = w + [last]
    return {'types': types, 'loc': loc, 'weights': weights}


# ----------------------------------------------------------------------------- to MTfit

def to_mtfit(event, np):
    data = {}
    for key, rows in event['types'].items():
        d = {'Stations': {'Name': [r['name'] for r in rows],
                          'Azimuth': np.matrix([[r['az']] for r in rows]),
                          'TakeOffAngle': np.matrix([[r['toa']] for r in rows])},
             'Measured': np.matrix([r['measured'] for r in rows]),
             'Error': np.matrix([r['error'] for r in rows])}
        if rows and rows[0]['ipp'] is not None:
            d['IncorrectPolarityProbability'] = np.matrix([[r['ipp']] for r in rows])
        data[key] = d
    loc = False
    if event['loc'] is not None:
        loc = []
        for s in event['loc']['samples']:
            loc.append({'Name': list(event['loc']['names']),
                        'Azimuth': np.matrix([[a] for a, _t in s]),
                        'TakeOffAngle': np.matrix([[t] for _a, t in s])})
    return data, loc


# ----------------------------------------------------------------------------- to the driver

def name_ranks(event):
    names = {r['name'] for rows in event['types'].values() for r in rows}
    if event['loc'] is not None:
        names |= set(event['loc']['names'])
    return {n: i for i, n in enumerate(sorted(names))}


def encode_data(event, keys=None):
    rk = name_ranks(event)
    toks = []
    items = [(k, v) for k, v in event['types'].items() if keys is None or k in keys]
    toks.append(str(len(items)))
    for key, rows in items:
        nm = len(rows[0]['measured']) if rows else 1
        ne = len(rows[0]['error']) if rows else 1
        has = 1 if rows and rows[0]['ipp'] is not None else 0
        toks += [key, str(len(rows)), str(nm), str(ne), str(has)]
        for r in rows:
            toks += [str(rk[r['name']]), bits(r['az']), bits(r['toa'])]
            toks += [bits(v) for v in r['measured']] + [bits(v) for v in r['error']]
            if has:
                toks.append(bits(r['ipp']))
    return toks


def encode_loc(event):
    loc = event['loc']
    if loc is None:
        return ['0']
    rk = name_ranks(event)
    toks = ['1', str(len(loc['names']))] + [str(rk[n]) for n in loc['names']] + [str(len(loc['samples']))]
    for s in loc['samples']:
        for a, t in s:
            toks += [bits(a), bits(t)]
    return toks


# ----------------------------------------------------------------------------- independent spec (by-name lookup)

def coeff_row(phase, az_deg, toa_deg):
    az = az_deg * math.pi / 180
    t = toa_deg * math.pi / 180
    ca, sa, ct, st = math.cos(az), math.sin(az), math.cos(t), math.sin(t)
    r2 = math.sqrt(2)
    if phase == 'p':
        return [ca * ca * st * st, sa * sa * st * st, ct * ct, r2 * sa * ca * st * st, r2 * ca * ct * st, r2 * sa * ct * st]
    if phase == 'sh':
        return [-sa * ca * st, sa * ca * st, 0.0, math.cos(2 * az) * st / r2, -sa * ct / r2, ca * ct / r2]
    if phase == 'sv':
        return [ca * ca * st * ct, sa * sa * st * ct, -st * ct, r2 * ca * sa * st * ct, ca * math.cos(2 * t) / r2,
                sa * math.cos(2 * t) / r2]
    raise ValueError(phase)


def radiation(phase, az_deg, toa_deg, M):
    """g.M.g, phi.M.g, theta.M.g from first principles (NED axes, take-off from down)"""
    az = az_deg * math.pi / 180
    t = toa_deg * math.pi / 180
    g = [math.cos(az) * math.sin(t), math.sin(az) * math.sin(t), math.cos(t)]
    if phase == 'p':
        u = g
    elif phase == 'sh':
        u = [-math.sin(az), math.cos(az), 0.0]
    else:
        u = [math.cos(az) * math.cos(t), math.sin(az) * math.cos(t), -math.sin(t)]
    return sum(u[i] * M[i][j] * g[j] for i in range(3) for j in range(3))


def phase_of_pol_key(key):
    return key.lower().split('polarity')[0].rstrip('q')


def phases_of_ar_key(key):
    p = key.replace('_', '').lower().split('amplituderatio')[0]
    if p.endswith('rms'):
        p = p[:-3]
    a, b = p.split('/')
    return a.rstrip('q'), b.rstrip('q')


def spec_stations(event, key):
    """(row, [(az, toa) per sample]) per output station of one data type, by name lookup"""
    rows = event['types'][key]
    loc = event['loc']
    if loc is None:
        return [(r, [(r['az'], r['toa'])]) for r in rows]
    byname = {}
    for r in rows:
        byname.setdefault(r['name'], r)
    pos = {}
    for i, n in enumerate(loc['names']):
        pos.setdefault(n, i)
    out = []
    for n in sorted(set(byname) & set(pos)):
        out.append((byname[n], [s[pos[n]] for s in loc['samples']]))
    return out
