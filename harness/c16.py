"""C16 — worker pool: trace validation against the Lean transition system, and the property on the observed runs."""
import json
import os
import subprocess
import sys
import tempfile

from common import Prop, main, VERIF, REPO


class C16(Prop):
    id = 'C16'
    level = 'proof'
    assumptions = ['multiprocessing.Queue is a reliable multi-producer multi-consumer queue (nothing lost or duplicated); queues are bags in the model',
                   'queue operations of every process are logged by monkey-patching Queue.put/get in the harness before the pool forks; events are '
                   'ordered by the shared monotonic clock (a put is stamped before the call, a get after it returns)',
                   'a run that does not finish within the timeout counts as a hang (schedules take well under a second of task time)']
    unproved = ['CPython multiprocessing itself and real OS scheduling: covered by trace validation of real runs, not by proof']
    rule = ('schedules with 1..16 workers, 0..40 tasks (thorough: up to 200) of duration 0..20 ms and payload 0..200 kB, any subset raising or '
            'returning a reserved status code (including the last outstanding one), submissions interleaved with result() calls, then '
            'all_results() and close(); single worker with raising tasks first; non-trivial = at least three tasks')

    def setup(self):
        self.tmp = tempfile.mkdtemp(prefix='c16_')
        self.py = sys.executable

    def gen(self, rng, tier):
        n = 14 if tier == 'quick' else 120
        for i in range(n):
            nw = rng.choice([1, 1, 2, 3, 4, 8, 16])
            nt = rng.choice([0, 1, 2, 3, 5, 8, 12, 20, 40] if tier == 'quick' else [0, 1, 3, 8, 20, 40, 100, 200])
            pr, pc = rng.choice([(0, 0), (0.2, 0), (0, 0.2), (0.3, 0.3), (0.6, 0.2)])
            tasks = []
            for t in range(nt):
                u = rng.random()
                kind = 'raise' if u < pr else 'code' if u < pr + pc else rng.choice(['num', 'num', 'none']) if rng.random() < 0.18 else 'ok'
                tk = {'tid': t, 'kind': kind, 'dur': rng.choice([0.0, 0.001, 0.005, 0.02]) * (0.2 if nt > 50 else 1), 'size': rng.choice([0, 10, 1000, 200000])}
                if kind == 'ok' and rng.random() < 0.4:
                    tk['lnpdf'] = {'values': [rng.uniform(-50, 0), float('-inf'), rng.uniform(-5, 5)], 'dV': rng.choice([1, 0.5, 2.0, 1e-3])}
                    if rng.random() < 0.4:      # a result holding two log-PDF objects (one per event, say)
                        tk['lnpdf']['second'] = {'values': [rng.uniform(-50, 0), rng.uniform(-5, 5)], 'dV': rng.choice([1, 0.25, 3.0])}
                tasks.append(tk)
            if tasks and rng.random() < 0.5:
                tasks[-1]['kind'] = rng.choice(['code', 'raise', 'code'])      # the last outstanding result is a status code / exception
                tasks[-1].pop('lnpdf', None)
            ops = []
            pending_real = 0
            for tk in tasks:
                ops.append(['submit', tk['tid']])
                if tk['kind'] != 'code':
                    pending_real += 1
                while pending_real > 0 and rng.random() < 0.25:
                    ops.append(['result'])
                    pending_real -= 1
            ops.append(['all'])
            yield {'kind': 'schedule', 'workers': nw, 'tasks': tasks, 'ops': ops}
        # fixed shapes every run sees: tasks without a return value, and results that hold two log-PDF objects
        for nw in (1, 3):
            tasks = []
            for t in range(7):
                tk = {'tid': t, 'kind': 'none' if t in (1, 3, 6) else 'ok', 'dur': rng.choice([0.0, 0.002, 0.01]), 'size': rng.choice([0, 100, 50000])}
                if t in (0, 4):
                    tk['lnpdf'] = {'values': [rng.uniform(-50, 0), float('-inf'), rng.uniform(-5, 5)], 'dV': rng.choice([0.5, 2.0]),
                                   'second': {'values': [rng.uniform(-50, 0), rng.uniform(-5, 5)], 'dV': rng.choice([0.25, 3.0])}}
                tasks.append(tk)
            ops = [['submit', t] for t in range(4)] + [['result']] + [['submit', t] for t in range(4, 7)] + [['all']]
            yield {'kind': 'schedule', 'workers': nw, 'tasks': tasks, 'ops': ops}

    def corpus(self):
        base = super(C16, self).corpus()
        return base

    # ------------------------------------------------------------------ run the real pool
    def impl(self, case):
        cf = os.path.join(self.tmp, 'case.json')
        of = os.path.join(self.tmp, 'out.json')
        lf = os.path.join(self.tmp, 'log.txt')
        for f in (of, lf):
            if os.path.exists(f):
                os.remove(f)
        json.dump(case, open(cf, 'w'))
        total = sum(t['dur'] for t in case['tasks'])
        # every raising task kills a worker that has to be detected (0.5 s poll) and replaced (a fork under load)
        n_raise = sum(1 for t in case['tasks'] if t['kind'] == 'raise')
        timeout = 60 + 4 * total + 4 * n_raise + 0.5 * len(case['tasks'])
        env = dict(os.environ)
        env['MTFIT_REPO'] = REPO
        p = subprocess.Popen([self.py, os.path.join(VERIF, 'harness', 'c16_runner.py'), cf, of, lf], stdout=subprocess.DEVNULL,
                             stderr=subprocess.PIPE, env=env, start_new_session=True)
        try:
            _o, err = p.communicate(timeout=timeout)
            hung = False
        except subprocess.TimeoutExpired:
            hung = True
            import signal
            try:
                os.killpg(p.pid, signal.SIGKILL)
            except Exception:
                p.kill()
            p.communicate()
            err = b''
        log = open(lf).read().splitlines() if os.path.exists(lf) else []
        res = {'hung': hung, 'log': log}
        if not hung:
            if p.returncode != 0 or not os.path.exists(of):
                res['crash'] = err.decode(errors='replace')[-600:]
            else:
                res.update(json.load(open(of)))
        return res

    # ------------------------------------------------------------------ log -> events
    def _events(self, case, impl):
        qmap, mainpid = {}, None
        rows = []
        for line in impl['log']:
            t = line.split()
            if t[0] == 'MAP':
                qmap[t[1]] = t[2]
            elif t[0] == 'MAIN':
                mainpid = t[1]
            elif t[0] == 'CALL':
                continue
            else:
                rows.append((int(t[0]), t[1], t[2], t[3], t[4]))
        rows.sort(key=lambda r: r[0])
        kinds = {t['tid']: t['kind'] for t in case['tasks']}
        kcode = {'ok': 0, 'raise': 1, 'code': 2, 'num': 0, 'none': 0}
        nw = case['workers']
        slot_of, owner, shadow = {}, [None] * nw, ['i'] * nw
        last_task = {}
        code_ready = []
        num_ready = {}
        ev = []
        closed = False
        for _ts, pid, op, qid, payload in rows:
            q = qmap.get(qid)
            if q is None:
                continue
            if pid == mainpid:
                if op == 'put' and q == 'T':
                    if payload.startswith('task:'):
                        k = int(payload[5:])
                        ev.append('S %d %d' % (k, kcode[kinds[k]]))
                    elif payload == 'pill' and not closed:
                        closed = True
                        ev.append('X')
                elif op == 'get' and q == 'R':
                    if payload.startswith('ok:'):
                        ev.append('C %d' % int(payload[3:]))
                    elif payload.startswith('exc:'):
                        ev.append('C %d' % int(payload.split('=')[1]))
                    elif payload.startswith('num:'):
                        q_ = num_ready.get(payload, [])
                        ev.append('C %d' % (q_.pop(0) if q_ else 999999))
                    elif payload.startswith('code:'):
                        if code_ready:
                            ev.append('C %d' % code_ready.pop(0))
                        else:
                            ev.append('C 999999')
            else:
                if pid not in slot_of:
                    free = [i for i in range(nw) if owner[i] is None and shadow[i] == 'i']
                    if not free:
                        dead = [i for i in range(nw) if owner[i] is None and shadow[i] == 'd']
                        if dead:
                            ev.append('K')
                            for i in range(nw):
                                if shadow[i] == 'd':
                                    shadow[i] = 'i'
                            free = dead
                    if not free:
                        ev.append('T 999 0')      # more live worker processes than slots: not a behaviour of the model
                        continue
                    slot_of[pid] = free[0]
                    owner[free[0]] = pid
                w = slot_of[pid]
                if op == 'get' and q == 'T':
                    if payload.startswith('task:'):
                        k = int(payload[5:])
                        last_task[pid] = k
                        ev.append('T %d %d' % (w, k))
                        shadow[w] = 'r'
                    elif payload == 'pill':
                        ev.append('P %d' % w)
                        shadow[w] = 'x'
                elif op == 'put' and q == 'R':
                    k = last_task.get(pid)
                    ev.append('F %d' % w)
                    if k is not None and kinds[k] == 'raise':
                        shadow[w] = 'd'
                        owner[w] = None
                    else:
                        shadow[w] = 'i'
                    if k is not None and kinds[k] == 'code':
                        code_ready.append(k)
                    if k is not None and kinds[k] in ('num', 'none'):
                        num_ready.setdefault(payload, []).append(k)
        return ev

    def requests(self, case, impl):
        if not isinstance(impl, dict) or 'log' not in impl:
            return []
        ev = self._events(case, impl)
        return ['jobpool %d %d %s' % (case['workers'], len(ev), ' '.join(ev))]

    def compare(self, case, impl, replies):
        if 'exc' in impl:
            return [('harness: %s %s' % (impl['exc'], impl.get('msg')), impl)]
        if impl.get('hung') or 'crash' in impl:
            return []          # reported by the oracle
        t = replies[0].split()
        out = []
        if t[0] != 'ok':
            ev = self._events(case, impl)
            idx = int(t[0].split(':')[1])
            out.append(('logged event %d (%s) of the real run is not an enabled step of the model' % (idx, ev[idx] if idx < len(ev) else '?'),
                        {'events': ev[max(0, idx - 6):idx + 2]}))
            return out
        nj, ntask, nres, pills = int(t[1]), int(t[2]), int(t[3]), int(t[4])
        nc = int(t[5])
        collected = [int(x) for x in t[6:6 + nc]]
        p = 6 + nc
        ns = int(t[p])
        p += 1 + ns
        nwk = int(t[p])
        states = t[p + 1:p + 1 + nwk]
        real = [r['tid'] for r in impl['returned']]
        knd = {t['tid']: t['kind'] for t in case['tasks']}
        collected = [None if knd.get(t) in ('num', 'none') else t for t in collected]      # numeric results carry no task id
        if collected != real:
            out.append(('results handed to the caller: model %r, implementation %r' % (collected, real), None))
        if nj != impl['number_jobs']:
            out.append(('number_jobs: model %d, implementation %d' % (nj, impl['number_jobs']), None))
        if ntask or nres:
            out.append(('model ends with %d queued tasks and %d uncollected results' % (ntask, nres), None))
        # liveness after close is judged on the implementation (oracle key 'close'): a worker that is terminated between taking its
        # pill and writing the log line leaves the replayed model with an idle slot, which is an artefact of the logging
        if any(s == 'r' for s in states) and not any(impl['alive_after_close']):
            out.append(('worker state after close: the model still has a running task %r, every implementation worker has ended' % (states,), None))
        return out

    # ------------------------------------------------------------------ oracle
    def oracle(self, case, impl):
        if 'exc' in impl:
            return []
        if impl.get('hung'):
            kinds = [t['kind'] for t in case['tasks']]
            last = kinds[-1] if kinds else None
            key = 'hang-last-code' if last == 'code' and 'raise' not in kinds else 'hang-raise' if 'raise' in kinds and 'code' not in kinds else 'hang'
            return [(key, 'the pool did not return: %d workers, task kinds %r' % (case['workers'], kinds[:30]), None)]
        if 'crash' in impl:
            return [('crash', 'the pool run failed: %s' % impl['crash'][-300:], None)]
        out = []
        kinds = {t['tid']: t for t in case['tasks']}
        real = impl['returned']
        expect = sorted(t['tid'] for t in case['tasks'] if t['kind'] not in ('code', 'num', 'none'))
        got = sorted(r['tid'] for r in real if r['tid'] is not None)
        if any(r['tid'] is None and r.get('type') != 'num' for r in real):
            out.append(('foreign-result', 'a value that is no task result was returned: %r' % [r for r in real if r['tid'] is None and r.get('type') != 'num'][:2], None))
        for v in (10.0, 20.0):
            want = sum(1 for t in case['tasks'] if t['kind'] == 'num' and (10.0 if t['tid'] % 2 else 20.0) == v)
            have = sum(1 for r in real if r.get('type') == 'num' and r.get('value') == v)
            if want != have:
                out.append(('numeric-result', '%d tasks returned the number %r as their result, %d such results were delivered' % (want, v, have), None))
        want = sum(1 for t in case['tasks'] if t['kind'] == 'none')
        have = sum(1 for r in real if r.get('type') == 'num' and r.get('value') is None)
        if want != have:
            out.append(('none-result', '%d tasks returned None as their result, %d such results were delivered' % (want, have), None))
        if got != expect:
            missing = sorted(set(expect) - set(got))
            dup = sorted({x for x in got if got.count(x) > 1})
            out.append(('exactly-once', 'results returned %d, submitted non-code tasks %d; missing %r duplicated %r' %
                        (len(got), len(expect), missing[:8], dup[:8]), None))
        for r in real:
            if r['tid'] is None:
                continue
            t = kinds[r['tid']]
            if t['kind'] == 'raise' and r['type'] != 'exc':
                out.append(('exception-result', 'raising task %d did not yield its exception' % r['tid'], None))
            if t['kind'] == 'ok':
                if r['type'] != 'ok' or r.get('size') != t['size']:
                    out.append(('payload', 'task %d returned a different payload' % r['tid'], None))
                if 'lnpdf' in t:
                    lp = r.get('lnpdf')
                    exp = t['lnpdf']
                    if not lp or lp['cls'] != 'LnPDF' or lp['values'] != exp['values'] or lp['dV'] != exp['dV']:
                        out.append(('lnpdf', 'log-PDF of task %d arrived as %r, sent %r' % (r['tid'], lp, exp), None))
                    if 'second' in exp:
                        lp, e2 = r.get('lnpdf_b'), exp['second']
                        if not lp or lp['cls'] != 'LnPDF' or lp['values'] != e2['values'] or lp['dV'] != e2['dV']:
                            out.append(('lnpdf', 'second log-PDF of task %d arrived as %r, sent %r' % (r['tid'], lp, e2), None))
        if impl['number_jobs'] != 0:
            out.append(('count', 'number_jobs is %d after collecting everything' % impl['number_jobs'], None))
        if any(impl['alive_after_close']):
            out.append(('close', 'workers still alive after close: %r' % impl['alive_after_close'], None))
        return out[:3]

    def nontrivial(self, case, impl):
        return len(case['tasks']) >= 3

    def branch(self, case, impl):
        kinds = {t['kind'] for t in case['tasks']}
        return 'w%s/%s' % ('1' if case['workers'] == 1 else 'N', '+'.join(sorted(kinds)) or 'none')


if __name__ == '__main__':
    sys.exit(main(C16()))
