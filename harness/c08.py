"""C08 — random source sampling: correspondence under replayed draws, oracle, and uniformity statistics."""
import math

from common import Prop, bits, close, reply_floats, import_mtfit, main
from c13 import vbits


class C08(Prop):
    id = 'C08'
    assumptions = ['np.random.randn / rand are replaced by prepared arrays and np.random.seed by a no-op for the correspondence cases; NumPy is '
                   'assumed to deliver i.i.d. standard normal draws',
                   'numpy.linalg.eigh is used by the oracle to read the eigenvalue pattern of sampled tensors']
    unproved = ['that NumPy delivers i.i.d. standard normal draws and that separate calls are independent: Kolmogorov-Smirnov / correlation tests on '
                '1e5 (thorough: 4e5) seeded draws in this run (GIVEN i.i.d. normal input, rotation invariance of the sampled laws and their support on the unit sphere are proved in Props/C08Measure)',
                'uniqueness of the rotation-invariant probability measure on the sphere / rotation group (invariant = uniform / Haar) is classical but not available in Mathlib']
    rule = ('replayed Gaussian draws for 1..7 samples per call (including tiny and huge scales and a draw parallel to the first axis to trigger '
            'the redraw loop), all sampler entry points (random_mt, random_dc, random_clvd, random_sample for dc/mt), requested counts 1..50; '
            'non-trivial = more than one sample')

    def setup(self):
        import_mtfit()
        import numpy as np
        from MTfit.algorithms import base
        self.np, self.base = np, base
        np.seterr(all='ignore')

    def gen(self, rng, tier):
        n = 150 if tier == 'quick' else 3000
        for i in range(n):
            ns = rng.choice([1, 2, 3, 7])
            sc = rng.choice([1.0, 1.0, 1e-8, 1e6])
            k = rng.choice(['mt', 'dc', 'clvd', 'sample-dc', 'sample-mt'])
            if k in ('mt', 'sample-mt'):
                yield {'kind': k, 'n': ns, 'draws': [[[rng.gauss(0, 1) * sc for _ in range(ns)] for _ in range(6)]]}
            else:
                a = [[rng.gauss(0, 1) * sc for _ in range(ns)] for _ in range(3)]
                x = [[rng.gauss(0, 1) for _ in range(ns)] for _ in range(3)]
                draws = [a]
                if rng.random() < 0.15:
                    # first x exactly parallel to a in column 0 (axis-aligned so that the cross product is exactly zero):
                    # b vanishes there and the code redraws x for all columns
                    a[0][0], a[1][0] = 0.0, 0.0
                    xp = [[x[r][c] for c in range(ns)] for r in range(3)]
                    xp[0][0], xp[1][0], xp[2][0] = 0.0, 0.0, 2.5
                    draws.append(xp)
                draws.append(x)
                yield {'kind': k, 'n': ns, 'draws': draws, 'u': rng.random()}
        for j in range(1 if tier == 'quick' else 3):
            yield {'kind': 'stats', 'seed': 777 + j, 'n': 100000 if tier == 'quick' else 400000}
        for cnt in [1, 2, 5, 50]:
            yield {'kind': 'count', 'n': cnt}
        # the generator as the code seeds it (nothing patched): consecutive calls, and the events of one call, are different draws
        for cnt in [1, 3, 40]:
            yield {'kind': 'fresh', 'n': cnt}

    # ------------------------------------------------------------------ implementation
    def _alg(self, ns, dc=False):
        return self.base.BaseAlgorithm(number_samples=ns, dc=dc)

    def impl(self, case):
        np = self.np
        k = case['kind']
        if k == 'count':
            alg = self._alg(case['n'])
            return {'shapes': [list(np.asarray(f()).shape) for f in (alg.random_mt, alg.random_dc, alg.random_clvd, alg.random_sample)]}
        if k == 'fresh':
            alg = self._alg(case['n'])
            res = {}
            for name in ('random_mt', 'random_dc', 'random_clvd', 'random_sample'):
                calls = [np.asarray(getattr(alg, name)(), dtype=float).copy() for _ in range(4)]
                res[name] = sum(1 for i in range(4) for j in range(i) if calls[i].shape == calls[j].shape and np.array_equal(calls[i], calls[j]))
            from MTfit.algorithms.monte_carlo import IterationSample
            for flag in (False, True):
                ev = IterationSample(number_events=3, number_samples=case['n'], dc=flag).random_sample()
                arrs = [np.asarray(e, dtype=float) for e in ev]
                res['events/%s' % ('dc' if flag else 'mt')] = sum(1 for i in range(len(arrs)) for j in range(i) if np.array_equal(arrs[i], arrs[j]))
            return res
        if k == 'stats':
            from scipy import stats
            np.random.seed(case['seed'])
            o_seed = np.random.seed
            np.random.seed = lambda *a, **kw: None
            try:
                alg = self._alg(case['n'])
                mt = np.asarray(alg.random_mt())
                dc = np.asarray(alg.random_dc())
            finally:
                np.random.seed = o_seed
            res = {'norm_err': float(np.abs(np.sum(mt * mt, axis=0) - 1).max())}
            # marginal of each component of a uniform point on S^5: density ~ (1-x^2)^(3/2) on [-1,1]  (Beta(5/2,5/2) in (x+1)/2)
            pv = [float(stats.kstest((mt[i] + 1) / 2, stats.beta(2.5, 2.5).cdf).pvalue) for i in range(6)]
            res['p_components'] = pv
            res['max_corr'] = float(np.abs(np.corrcoef(mt) - np.eye(6)).max())
            # a fixed rotation of six-space: components of the rotated sample must follow the same law
            q, _ = np.linalg.qr(np.random.RandomState(5).randn(6, 6))
            rot = q.dot(mt)
            res['p_rotated'] = [float(stats.kstest((rot[i] + 1) / 2, stats.beta(2.5, 2.5).cdf).pvalue) for i in range(6)]
            # double-couples: T axis uniform on the sphere -> each component uniform on [-1,1]
            m33 = np.zeros((dc.shape[1], 3, 3))
            r2 = 1 / math.sqrt(2)
            m33[:, 0, 0], m33[:, 1, 1], m33[:, 2, 2] = dc[0], dc[1], dc[2]
            m33[:, 0, 1] = m33[:, 1, 0] = r2 * dc[3]
            m33[:, 0, 2] = m33[:, 2, 0] = r2 * dc[4]
            m33[:, 1, 2] = m33[:, 2, 1] = r2 * dc[5]
            w, v = np.linalg.eigh(m33[:20000])
            res['dc_eig_err'] = float(np.abs(w - np.array([-r2, 0, r2])).max())
            t = v[:, :, 2]
            t = t * np.sign(np.random.RandomState(1).randn(t.shape[0]))[:, None]      # axes are sign-free: randomise the sign
            res['p_taxis'] = [float(stats.kstest((t[:, i] + 1) / 2, 'uniform').pvalue) for i in range(3)]
            # the whole frame must be Haar-uniform: the P and N axes too, and the six-vector components have zero mean
            sg = np.sign(np.random.RandomState(2).randn(v.shape[0]))[:, None]
            res['p_paxis'] = [float(stats.kstest((v[:, i, 0] * sg[:, 0] + 1) / 2, 'uniform').pvalue) for i in range(3)]
            res['p_naxis'] = [float(stats.kstest((v[:, i, 1] * sg[:, 0] + 1) / 2, 'uniform').pvalue) for i in range(3)]
            res['dc_mean_z'] = float(np.abs(dc.mean(axis=1) / (dc.std(axis=1) / np.sqrt(dc.shape[1]))).max())
            # independence: squared inner products between samples a fixed lag apart, between two calls and between the events of a
            # multiple-event sample must be distributed like those of randomly paired samples
            perm = np.random.RandomState(9).permutation(mt.shape[1])

            def dep(x, y, ref):
                d = np.sum(x * y, axis=0) ** 2
                r = np.sum(ref * ref[:, perm[:ref.shape[1]] % ref.shape[1]], axis=0) ** 2
                return float(abs(d.mean() - r.mean()) / math.sqrt(d.var() / len(d) + r.var() / len(r) + 1e-300))
            res['lag_z'] = {}
            for name, arr in (('mt', mt), ('dc', dc)):
                for lag in (1, 2, 3, 7):
                    res['lag_z']['%s/%d' % (name, lag)] = dep(arr[:, lag:], arr[:, :-lag], arr)
            np.random.seed = lambda *a, **kw: None
            try:
                res['lag_z']['mt/call'] = dep(mt, np.asarray(alg.random_mt()), mt)
                res['lag_z']['dc/call'] = dep(dc, np.asarray(alg.random_dc()), dc)
                from MTfit.algorithms.monte_carlo import IterationSample
                res['events'] = {}
                for name, flag, ref in (('mt', False, mt), ('dc', True, dc)):
                    ev = IterationSample(number_events=3, number_samples=case['n'] // 4, dc=flag).random_sample()
                    res['events'][name] = {'blocks': len(ev), 'shapes': [list(np.asarray(e).shape) for e in ev],
                                           'distinct_objects': len(set(id(e) for e in ev)) == len(ev)}
                    for i in range(len(ev)):
                        for j in range(i):
                            res['lag_z']['%s/event%d%d' % (name, j, i)] = dep(np.asarray(ev[i]), np.asarray(ev[j]), ref)
            finally:
                np.random.seed = o_seed
            return res
        ns = case['n']
        draws = [np.array(d, dtype=float) for d in case['draws']]
        pos = [0]

        def randn(*shape):
            d = draws[pos[0]]
            pos[0] += 1
            assert tuple(shape) == d.shape, (shape, d.shape)
            return d.copy()
        o = (np.random.randn, np.random.rand, np.random.seed)
        np.random.randn = randn
        np.random.rand = lambda *a: (np.full(a, case.get('u', 0.5)) if a else case.get('u', 0.5))
        np.random.seed = lambda *a, **kw: None
        try:
            if k == 'mt':
                out = self._alg(ns).random_mt()
            elif k == 'dc':
                out = self._alg(ns).random_dc()
            elif k == 'clvd':
                out = self._alg(ns).random_clvd()
            elif k == 'sample-dc':
                out = self._alg(ns, dc=True).random_sample()
            else:
                out = self._alg(ns).random_sample()
        finally:
            np.random.randn, np.random.rand, np.random.seed = o
        out = np.asarray(out, dtype=float)
        return {'cols': [[float(v) for v in out[:, j]] for j in range(out.shape[1])], 'consumed': pos[0]}

    # ------------------------------------------------------------------ model
    def requests(self, case, impl):
        k = case['kind']
        if k in ('stats', 'count', 'fresh'):
            return []
        ns = case['n']
        d = case['draws']
        reqs = []
        for j in range(ns):
            if k in ('mt', 'sample-mt'):
                reqs.append('random mt %s' % vbits([d[0][r][j] for r in range(6)]))
            else:
                a = [d[0][r][j] for r in range(3)]
                x = [d[-1][r][j] for r in range(3)]
                if k == 'clvd':
                    reqs.append('random clvd %s %s %s' % (bits(case['u']), vbits(a), vbits(x)))
                else:
                    reqs.append('random dc %s %s' % (vbits(a), vbits(x)))
        return reqs

    def compare(self, case, impl, replies):
        if 'exc' in impl:
            return [('implementation raised %s: %s' % (impl['exc'], impl.get('msg')), impl)]
        if case['kind'] in ('stats', 'count', 'fresh'):
            return []
        out = []
        if len(impl['cols']) != case['n']:
            out.append(('sample count: requested %d, returned %d' % (case['n'], len(impl['cols'])), None))
        if impl['consumed'] != len(case['draws']):
            out.append(('draw blocks consumed: model %d, implementation %d' % (len(case['draws']), impl['consumed']), None))
        for j, rep in enumerate(replies):
            m = reply_floats(rep)
            if j < len(impl['cols']) and not all(close(a, b, atol=1e-9) for a, b in zip(m, impl['cols'][j])):
                out.append(('%s sample %d: model %r, implementation %r' % (case['kind'], j, m, impl['cols'][j]), None))
                break
        return out

    # ------------------------------------------------------------------ oracle
    def oracle(self, case, impl):
        if 'exc' in impl:
            return [('raises', '%s raised %s: %s' % (case['kind'], impl['exc'], impl.get('msg')), impl)]
        k = case['kind']
        out = []
        if k == 'count':
            for shp in impl['shapes']:
                if shp != [6, case['n']]:
                    out.append(('count', 'requested %d samples, got an array of shape %r' % (case['n'], shp), None))
            return out
        if k == 'fresh':
            for name, same in sorted(impl.items()):
                if same:
                    out.append(('independent-calls', '%s (%d samples): %d pairs of consecutive calls / events returned bit-identical samples' % (name, case['n'], same), None))
            return out[:3]
        if k == 'stats':
            if impl['norm_err'] > 1e-12:
                out.append(('norm', 'sampled tensors are not unit: max deviation %r' % impl['norm_err'], None))
            if min(impl['p_components'] + impl['p_rotated']) < 1e-5:
                out.append(('uniformity', 'six-vector components do not follow the uniform-on-S5 marginal: p-values %r / rotated %r' %
                            (impl['p_components'], impl['p_rotated']), None))
            if impl['max_corr'] > 5.0 / math.sqrt(case['n']):
                out.append(('uniformity', 'components are correlated: %r' % impl['max_corr'], None))
            if impl['dc_eig_err'] > 1e-9:
                out.append(('dc-pattern', 'sampled double-couples do not have eigenvalues (1,0,-1)/sqrt2: deviation %r' % impl['dc_eig_err'], None))
            if min(impl['p_taxis'] + impl['p_paxis'] + impl['p_naxis']) < 1e-5:
                out.append(('orientation', 'double-couple axes are not uniform on the sphere: p-values T %r P %r N %r' %
                            (impl['p_taxis'], impl['p_paxis'], impl['p_naxis']), None))
            bad = {k: round(v, 1) for k, v in impl['lag_z'].items() if v > 6.0}
            if bad:
                out.append(('independence', 'samples are not independent: squared inner products of paired samples (lag within a call / between '
                            'calls / between the events of a multiple-event sample) differ from those of randomly paired samples, z = %r' % bad, None))
            for name, e in impl['events'].items():
                if e['blocks'] != 3 or any(sh != [6, case['n'] // 4] for sh in e['shapes']) or not e['distinct_objects']:
                    out.append(('count', 'multiple-event %s sample for three events: %r' % (name, e), None))
            if impl['dc_mean_z'] > 6.0:
                out.append(('orientation', 'a six-vector component of the sampled double-couples has a non-zero mean (z = %.1f)' % impl['dc_mean_z'], None))
            return out
        np = self.np
        for j, col in enumerate(impl['cols']):
            if not close(sum(v * v for v in col), 1.0, atol=1e-9):
                out.append(('norm', 'sample %d has norm^2 %r' % (j, sum(v * v for v in col)), None))
                break
            if k in ('dc', 'clvd', 'sample-dc'):
                r2 = 1 / math.sqrt(2)
                m = np.array([[col[0], r2 * col[3], r2 * col[4]], [r2 * col[3], col[1], r2 * col[5]], [r2 * col[4], r2 * col[5], col[2]]])
                w = sorted(np.linalg.eigvalsh(m))
                if k == 'clvd':
                    s6 = 1 / math.sqrt(6)
                    ok = all(abs(a - b) < 1e-7 for a, b in zip(w, [-s6, -s6, 2 * s6])) or all(abs(a - b) < 1e-7 for a, b in zip(w, [-2 * s6, s6, s6]))
                else:
                    ok = all(abs(a - b) < 1e-7 for a, b in zip(w, [-r2, 0.0, r2]))
                if not ok:
                    out.append(('pattern', '%s sample %d has eigenvalues %r' % (k, j, w), None))
                    break
        return out

    def nontrivial(self, case, impl):
        return case.get('n', 0) > 1

    def branch(self, case, impl):
        return case['kind'] + ('/redraw' if len(case.get('draws', [])) > 2 else '')


if __name__ == '__main__':
    import sys
    sys.exit(main(C08()))
