"""Shared machinery of the MTfit verification checks.

* Lean side: build, source scan, axiom audit of the property theorems (the proof obligations).
* Tie: the executable Lean model (`mtfit_driver`, the same definitions the theorems are about,
  instantiated at Float) is run on the same cases as the real MTfit code and the outputs are
  compared (correspondence).
* Search: the property statement itself, written as an executable predicate over MTfit's public
  API (the oracle), is evaluated on every case; an oracle failure is a concrete failing input.
"""
import hashlib
import json
import math
import os
import random
import re
import struct
import subprocess
import sys
import time
import traceback

VERIF = os.path.dirname(os.path.dirname(os.path.abspath(__file__)))
LEAN_DIR = os.path.join(VERIF, 'lean')
REPO = os.environ.get('MTFIT_REPO', '/repo')
REPO_SRC = os.path.join(REPO, 'src')
DRIVER = os.path.join(LEAN_DIR, '.lake', 'build', 'bin', 'mtfit_driver')
AUDIT_DIR = os.path.join(LEAN_DIR, '.lake', 'audit')
ALLOWED_AXIOMS = {'propext', 'Classical.choice', 'Quot.sound'}
GUARD = 'DJPUGH_MTFIT_VERIF'

NEG_INF = float('-inf')


# --------------------------------------------------------------------------- floats

def bits(x):
    return str(struct.unpack('<Q', struct.pack('<d', float(x)))[0])


def unbits(s):
    return struct.unpack('<d', struct.pack('<Q', int(s)))[0]


def close(a, b, rtol=1e-9, atol=1e-12, extra=0.0):
    """Tolerant comparison of two floats; infinities must match exactly, NaN never matches."""
    if isinstance(a, complex) or isinstance(b, complex):
        return False
    if math.isnan(a) or math.isnan(b):
        return False
    if math.isinf(a) or math.isinf(b):
        return a == b
    return abs(a - b) <= atol + rtol * max(abs(a), abs(b)) + extra


def close_list(a, b, **kw):
    return len(a) == len(b) and all(close(x, y, **kw) for x, y in zip(a, b))


def jsonable(x):
    """Convert numpy things to plain python for replay / evidence files."""
    try:
        import numpy as np
    except Exception:  # pragma: no cover
        np = None
    if np is not None:
        if isinstance(x, np.ndarray):
            return jsonable(x.tolist())
        if isinstance(x, (np.floating,)):
            return float(x)
        if isinstance(x, (np.integer,)):
            return int(x)
        if isinstance(x, (np.bool_,)):
            return bool(x)
        if isinstance(x, (np.complexfloating,)):
            return {'complex': [float(x.real), float(x.imag)]}
    if isinstance(x, complex):
        return {'complex': [x.real, x.imag]}
    if isinstance(x, dict):
        return {str(k): jsonable(v) for k, v in x.items()}
    if isinstance(x, (list, tuple)):
        return [jsonable(v) for v in x]
    if isinstance(x, (str, int, float, bool)) or x is None:
        return x
    return repr(x)


# --------------------------------------------------------------------------- lean

def _run(cmd, cwd=None, timeout=3600, env=None):
    p = subprocess.run(cmd, cwd=cwd, timeout=timeout, env=env, stdout=subprocess.PIPE,
                       stderr=subprocess.STDOUT, text=True)
    return p.returncode, p.stdout


def lean_sources():
    out = []
    for root, _dirs, files in os.walk(os.path.join(LEAN_DIR, 'MTfitVerif')):
        for f in sorted(files):
            if f.endswith('.lean'):
                out.append(os.path.join(root, f))
    out.append(os.path.join(LEAN_DIR, 'Main.lean'))
    out.append(os.path.join(LEAN_DIR, 'lakefile.toml'))
    return sorted(out)


def lean_hash():
    h = hashlib.sha256()
    for p in lean_sources():
        h.update(p.encode())
        with open(p, 'rb') as fh:
            h.update(fh.read())
    return h.hexdigest()


_FORBIDDEN = re.compile(r'\b(sorry|admit|native_decide|bv_decide|implemented_by|unsafe)\b|^\s*axiom\s|maxHeartbeats\s+0\b',
                        re.M)


def strip_comments(src):
    # remove nested block comments and line comments
    out = []
    i = 0
    depth = 0
    n = len(src)
    while i < n:
        if src.startswith('/-', i):
            depth += 1
            i += 2
        elif depth and src.startswith('-/', i):
            depth -= 1
            i += 2
        elif depth:
            if src[i] == '\n':
                out.append('\n')
            i += 1
        elif src.startswith('--', i):
            while i < n and src[i] != '\n':
                i += 1
        else:
            out.append(src[i])
            i += 1
    return ''.join(out)


def scan_sources():
    """grep for escape hatches outside comments; returns list of 'file:line: text'."""
    hits = []
    for p in lean_sources():
        if not p.endswith('.lean'):
            continue
        with open(p) as fh:
            src = strip_comments(fh.read())
        for m in _FORBIDDEN.finditer(src):
            line = src.count('\n', 0, m.start()) + 1
            hits.append('%s:%d: %s' % (os.path.relpath(p, VERIF), line, m.group(0).strip()))
    return hits


def lake_build(targets=('MTfitVerif', 'mtfit_driver')):
    t0 = time.time()
    rc, out = _run(['lake', 'build'] + list(targets), cwd=LEAN_DIR, timeout=7200)
    errs = [l for l in out.splitlines() if l.startswith('error') or ': error' in l]
    return {'ok': rc == 0, 'wall_s': round(time.time() - t0, 1), 'errors': errs[:40],
            'tail': out.splitlines()[-15:] if rc != 0 else []}


AUDIT_TEMPLATE = '''import Lean
%(imports)s
open Lean Elab Command in
run_cmd do
  let env ← getEnv
  let pre : Name := `MTfitVerif.%(pid)s
  let names := env.constants.fold (init := (#[] : Array Name)) fun acc n ci =>
    if pre.isPrefixOf n && !n.isInternalDetail then
      match ci with
      | .thmInfo _ => acc.push n
      | _ => acc
    else acc
  for n in names.qsort (fun a b => a.toString < b.toString) do
    let ax ← Lean.collectAxioms n
    let ci := (env.find? n).get!
    let ty ← liftTermElabM (do
      let f ← Lean.Meta.ppExpr ci.type
      pure (f.pretty 100))
    let ty1 := (ty.replace "\\n" " ")
    logInfo m!"AUDIT|{n}|{", ".intercalate (ax.toList.map toString)}|{ty1}"
'''


def prop_modules(pid):
    d = os.path.join(LEAN_DIR, 'MTfitVerif', 'Props')
    return sorted('MTfitVerif.Props.' + f[:-5] for f in os.listdir(d) if f.startswith(pid) and f.endswith('.lean'))


def audit(pid, force=False):
    """Axiom audit of every theorem in namespace MTfitVerif.<pid>.  Cached by source hash."""
    os.makedirs(AUDIT_DIR, exist_ok=True)
    h = lean_hash()
    cache = os.path.join(AUDIT_DIR, pid + '.json')
    if not force and os.path.exists(cache):
        try:
            with open(cache) as fh:
                c = json.load(fh)
            if c.get('hash') == h:
                c['cached'] = True
                return c
        except Exception:
            pass
    src = os.path.join(AUDIT_DIR, 'Audit_%s.lean' % pid)
    with open(src, 'w') as fh:
        fh.write(AUDIT_TEMPLATE % {'pid': pid, 'imports': '\n'.join('import ' + m for m in prop_modules(pid))})
    t0 = time.time()
    rc, out = _run(['lake', 'env', 'lean', src], cwd=LEAN_DIR, timeout=3600)
    theorems = {}
    # messages may wrap; join continuation lines
    text = out.replace('\n  ', ' ')
    for line in text.splitlines():
        if 'AUDIT|' in line:
            parts = line.split('AUDIT|', 1)[1].split('|', 2)
            if len(parts) == 3:
                name, ax, ty = parts
                axs = [a.strip() for a in ax.split(',') if a.strip()]
                theorems[name.strip()] = {'axioms': axs, 'statement': re.sub(r'\s+', ' ', ty).strip()[:600]}
    res = {'hash': h, 'rc': rc, 'theorems': theorems, 'wall_s': round(time.time() - t0, 1),
           'raw_tail': out.splitlines()[-10:] if rc != 0 else [], 'cached': False}
    if rc == 0:
        with open(cache, 'w') as fh:
            json.dump(res, fh)
    return res


def load_obligations():
    with open(os.path.join(LEAN_DIR, 'obligations.json')) as fh:
        return json.load(fh)


def lean_side(pid, tier):
    """Build, scan, audit.  Returns (coverage dict, problems list)."""
    problems = []
    # only this property's theorem files (with what they import) and the executable model: a broken proof of another
    # property is that property's alarm, not this one's
    b = lake_build(tuple(prop_modules(pid)) + ('mtfit_driver',))
    if not b['ok']:
        problems.append({'kind': 'lean-build-failed', 'detail': b['errors'] or b['tail']})
        return ({'obligations': len(load_obligations().get(pid, [])) or 1, 'discharged': 0,
                 'build': b}, problems)
    hits = scan_sources()
    if hits:
        problems.append({'kind': 'forbidden-construct', 'detail': hits})
    a = audit(pid)
    if a['rc'] != 0:
        problems.append({'kind': 'audit-failed', 'detail': a['raw_tail']})
    required = load_obligations().get(pid, [])
    found = a['theorems']
    discharged = 0
    rows = []
    names = set(found) | {'MTfitVerif.%s.%s' % (pid, r) for r in required}
    for full in sorted(names):
        info = found.get(full)
        if info is None:
            problems.append({'kind': 'theorem-missing', 'detail': full})
            rows.append({'theorem': full, 'status': 'missing'})
            continue
        bad = [x for x in info['axioms'] if x not in ALLOWED_AXIOMS]
        if bad:
            problems.append({'kind': 'axioms', 'detail': '%s depends on %s' % (full, bad)})
            rows.append({'theorem': full, 'status': 'bad-axioms', 'axioms': info['axioms']})
        else:
            discharged += 1
            rows.append({'theorem': full, 'status': 'proved', 'axioms': info['axioms'],
                         'statement': info['statement']})
    cov = {'obligations': len(names), 'discharged': discharged, 'theorems': rows,
           'lean_build_s': b['wall_s'], 'audit_s': a['wall_s'], 'audit_cached': a['cached'],
           'checker_cmd': 'cd lean && lake build && lake env lean .lake/audit/Audit_%s.lean  '
                          '(collectAxioms on every theorem of namespace MTfitVerif.%s)' % (pid, pid)}
    if tier == 'thorough':
        t0 = time.time()
        rc, out = _run(['lake', 'env', 'leanchecker'] + prop_modules(pid), cwd=LEAN_DIR, timeout=7200)
        cov['leanchecker'] = {'rc': rc, 'wall_s': round(time.time() - t0, 1), 'tail': out.splitlines()[-3:]}
        if rc != 0:
            problems.append({'kind': 'leanchecker-failed', 'detail': out.splitlines()[-5:]})
    return cov, problems


# --------------------------------------------------------------------------- driver

def run_driver(lines):
    """Feed request lines to the executable Lean model; returns reply lines."""
    if not lines:
        return []
    if not os.path.exists(DRIVER):
        b = lake_build(('mtfit_driver',))
        if not b['ok']:
            raise RuntimeError('cannot build driver: %s' % b)
    p = subprocess.run([DRIVER], input='\n'.join(lines) + '\n', stdout=subprocess.PIPE,
                       stderr=subprocess.PIPE, text=True, timeout=3600)
    out = p.stdout.split('\n')
    if out and out[-1] == '':
        out.pop()
    if len(out) != len(lines):
        raise RuntimeError('driver returned %d replies for %d requests (rc=%s, stderr=%s)' %
                           (len(out), len(lines), p.returncode, p.stderr[-400:]))
    return out


def reply_floats(reply):
    if reply.startswith('bad-op') or reply.startswith('err'):
        return None
    return [unbits(t) for t in reply.split()]


# --------------------------------------------------------------------------- MTfit import

def import_mtfit():
    """Import MTfit from the current working tree of /repo (pure-Python path)."""
    os.environ[GUARD] = '1'
    if REPO_SRC not in sys.path:
        sys.path.insert(0, REPO_SRC)
    import warnings
    warnings.filterwarnings('ignore')
    import logging
    logging.disable(logging.CRITICAL)
    import MTfit  # noqa
    assert os.path.abspath(MTfit.__file__).startswith(os.path.abspath(REPO_SRC)), MTfit.__file__
    return MTfit


# --------------------------------------------------------------------------- known findings

def load_known_findings(pid):
    path = os.path.join(VERIF, 'KNOWN_FINDINGS.jsonl')
    out = []
    if os.path.exists(path):
        with open(path) as fh:
            for line in fh:
                line = line.strip()
                if not line or line.startswith('#'):
                    continue
                rec = json.loads(line)
                if rec.get('property') == pid:
                    out.append(rec)
    return out


# --------------------------------------------------------------------------- property base class

class Failure(object):
    def __init__(self, kind, case, what, detail=None, key=None):
        self.kind = kind          # 'property' (oracle on real code) | 'mismatch' (model vs impl) | 'lean'
        self.case = case
        self.what = what
        self.detail = detail
        self.key = key            # class of the failure, matched against KNOWN_FINDINGS keys

    def to_json(self):
        return {'kind': self.kind, 'what': self.what, 'key': self.key, 'case': jsonable(self.case),
                'detail': jsonable(self.detail)}


class Prop(object):
    """Base class of a property check.  Subclasses define:

    id, title
    gen(rng, tier)           -> iterable of case dicts (JSON-serialisable)
    corpus()                 -> list of case dicts that always run first
    impl(case)               -> canonical result of the real MTfit code (exceptions are caught by the runner)
    requests(case, impl)     -> list of driver request lines (may be empty)
    compare(case, impl, replies) -> list of (what, detail) correspondence disagreements
    oracle(case, impl)       -> list of (key, what, detail) property failures on the real code
    nontrivial(case, impl)   -> bool
    branch(case, impl)       -> short string naming the branch / class the case exercises
    """
    id = None
    assumptions = []
    unproved = []           # sub-claims that are tested only
    level = 'proof'

    def corpus(self):
        path = os.path.join(VERIF, 'corpus', self.id)
        out = []
        if os.path.isdir(path):
            for f in sorted(os.listdir(path)):
                if f.endswith('.json'):
                    with open(os.path.join(path, f)) as fh:
                        d = json.load(fh)
                    cases = d['cases'] if isinstance(d, dict) and 'cases' in d else [d]
                    for c in cases:
                        c.setdefault('origin', 'corpus/' + f)
                        out.append(c)
        return out

    def gen(self, rng, tier):
        return []

    def requests(self, case, impl):
        return []

    def compare(self, case, impl, replies):
        return []

    def oracle(self, case, impl):
        return []

    def nontrivial(self, case, impl):
        return True

    def branch(self, case, impl):
        return case.get('kind', '?')

    def extra(self, rng, tier):
        """Additional whole-run checks (statistics, trace validation); returns (coverage dict, failures)."""
        return {}, []

    def setup(self):
        pass


def _case_key(case):
    c = {k: v for k, v in case.items() if k not in ('origin',)}
    return hashlib.sha1(json.dumps(jsonable(c), sort_keys=True, default=repr).encode()).hexdigest()


def call_impl(prop, case):
    try:
        return prop.impl(case)
    except Exception as e:  # the real code raised
        return {'exc': type(e).__name__, 'msg': str(e)[:300],
                'tb': traceback.format_exc().splitlines()[-6:]}


def evaluate(prop, cases):
    """Run impl, model and oracle on the cases.  Returns (failures, stats)."""
    impls = []
    reqs = []
    spans = []
    for case in cases:
        r = call_impl(prop, case)
        impls.append(r)
        try:
            q = list(prop.requests(case, r))
        except Exception as e:
            q = []
            r = dict(r) if isinstance(r, dict) else {'value': r}
            r['requests_error'] = repr(e)
        spans.append((len(reqs), len(reqs) + len(q)))
        reqs.extend(q)
    replies = run_driver(reqs)
    failures = []
    branches = {}
    distinct = set()
    nontrivial = 0
    for case, r, (a, b) in zip(cases, impls, spans):
        try:
            for what, detail in prop.compare(case, r, replies[a:b]):
                failures.append(Failure('mismatch', case, what, detail))
        except Exception as e:
            failures.append(Failure('mismatch', case, 'compare raised %r' % e, traceback.format_exc().splitlines()[-4:]))
        try:
            for key, what, detail in prop.oracle(case, r):
                failures.append(Failure('property', case, what, detail, key=key))
        except Exception as e:
            failures.append(Failure('mismatch', case, 'oracle raised %r' % e, traceback.format_exc().splitlines()[-4:]))
        try:
            br = prop.branch(case, r)
        except Exception:
            br = '?'
        branches[br] = branches.get(br, 0) + 1
        k = _case_key(case)
        if k not in distinct:
            distinct.add(k)
            try:
                if prop.nontrivial(case, r):
                    nontrivial += 1
            except Exception:
                pass
    stats = {'evaluations': len(cases), 'distinct': len(distinct), 'distinct_nontrivial': nontrivial,
             'branches': branches, 'model_requests': len(reqs)}
    return failures, stats


def finding_matches(rec, failure):
    """An open finding suppresses exactly the failures whose key equals its key."""
    return failure.key is not None and rec.get('key') == failure.key


def main(prop, argv=None):
    import argparse
    ap = argparse.ArgumentParser()
    ap.add_argument('--tier', default=os.environ.get('VERIF_TIER', 'quick'), choices=['quick', 'thorough'])
    ap.add_argument('--replay', default=None)
    ap.add_argument('--no-lean', action='store_true', help='development only: skip the Lean side')
    args = ap.parse_args(argv)
    seed = int(os.environ.get('VERIF_SEED', '0') or 0)
    t0 = time.time()
    pid = prop.id
    # development aid (seeded-change runs in parallel with ordinary runs): evidence and replays go elsewhere when asked
    OUT = os.environ.get('VERIF_SCRATCH_OUT') or VERIF
    os.makedirs(os.path.join(OUT, 'evidence'), exist_ok=True)
    os.makedirs(os.path.join(OUT, 'replays'), exist_ok=True)

    try:
        prop.setup()
        if args.replay:
            with open(args.replay) as fh:
                rp = json.load(fh)
            cases = [f['case'] for f in rp.get('failures', []) if f.get('case')]
            failures, stats = evaluate(prop, cases)
            for f in failures:
                print('REPLAY %s: %s' % (f.kind, f.what))
            print('replayed %d cases, %d failures' % (len(cases), len(failures)))
            return 1 if failures else 0

        if args.no_lean:
            lean_cov, lean_problems = {'obligations': 0, 'discharged': 0, 'skipped': True}, []
        else:
            lean_cov, lean_problems = lean_side(pid, args.tier)
        rng = random.Random(seed * 1000003 + int(hashlib.sha1(pid.encode()).hexdigest()[:6], 16))
        cases = list(prop.corpus()) + list(prop.gen(rng, args.tier))
        failures, stats = evaluate(prop, cases)
        try:
            extra_cov, extra_fail = prop.extra(rng, args.tier)
        except Exception as e:
            # an exception whose innermost frame is MTfit's own code (the implementation raised on an input of the property's domain, as in
            # the per-case 'raises' failures) is a failure of the property on that input; anything else is an error of the harness
            tb = traceback.extract_tb(sys.exc_info()[2])
            hdir = os.path.dirname(os.path.abspath(__file__))
            last_h = max([i for i, fr in enumerate(tb) if os.path.abspath(fr.filename).startswith(hdir)] or [-1])
            below = [fr for fr in tb[last_h + 1:] if os.path.abspath(fr.filename).startswith(os.path.abspath(REPO_SRC))]
            if not below or not os.path.abspath(tb[last_h + 1].filename).startswith(os.path.abspath(REPO_SRC)):
                raise
            tb = [below[-1]]
            inner = os.path.abspath(tb[-1].filename)
            traceback.print_exc()
            extra_cov = {}
            extra_fail = [Failure('property', {'kind': 'whole-run-check-raised', 'where': '%s:%s' % (inner, tb[-1].lineno)},
                                  'a whole-run check of this property could not be evaluated: MTfit raised %s: %s at %s:%s (%s)'
                                  % (type(e).__name__, e, os.path.relpath(inner, REPO), tb[-1].lineno, tb[-1].name), key='whole-run-check-raised')]
        failures.extend(extra_fail)
    except subprocess.TimeoutExpired as e:
        print('TIMEOUT %r' % e)
        return 2
    except Exception:
        traceback.print_exc()
        print('HARNESS-ERROR (not a violation)')
        return 2

    known = load_known_findings(pid)
    open_k = [k for k in known if k.get('status') == 'open']
    prop_fail = [f for f in failures if f.kind == 'property']
    mism = [f for f in failures if f.kind == 'mismatch']
    listed = [f for f in prop_fail if any(finding_matches(k, f) for k in open_k)]
    unlisted = [f for f in prop_fail if f not in listed]
    # correspondence disagreements explained by a listed finding (same case) are not fresh alarms
    listed_cases = {_case_key(f.case) for f in listed if f.case}
    mism_unexplained = [f for f in mism if not (f.case and _case_key(f.case) in listed_cases)]
    # an open finding that no longer fails: the property is neither proved nor listed -> report
    stale = []
    for k in open_k:
        if not any(finding_matches(k, f) for f in prop_fail):
            stale.append(k)

    violations = 0
    lines = []
    replay_path = None

    def write_replay(tag, flist, note):
        path = os.path.join('replays', '%s-%d-%s.json' % (pid, seed, tag))
        with open(os.path.join(OUT, path), 'w') as fh:
            json.dump({'property': pid, 'seed': seed, 'tier': args.tier, 'note': note,
                       'rerun': './check %s --replay %s' % (pid, path),
                       'failures': [f.to_json() for f in flist[:50]]}, fh, indent=1, default=repr)
        return path

    if unlisted:
        replay_path = write_replay('violation', unlisted,
                                   'the property statement fails on the real code for these inputs')
        lines.append('VIOLATION property=%s replay=%s' % (pid, replay_path))
        violations = len(unlisted)
    elif mism_unexplained or lean_problems or stale:
        flist = list(mism_unexplained)
        for p in lean_problems:
            flist.append(Failure('lean', None, p['kind'], p['detail']))
        for k in stale:
            flist.append(Failure('lean', None, 'open known finding no longer fails on the implementation; '
                                 'the counterexample theorem / finding is stale', k))
        replay_path = write_replay('unproved', flist,
                                   'a proof obligation or the model/implementation correspondence no longer '
                                   'checks; the search found no input on which the property itself fails')
        lines.append('VIOLATION property=%s replay=%s no-failing-input-found' % (pid, replay_path))
        violations = len(flist)
    for k in open_k:
        if k not in stale:
            lines.append('KNOWN-FINDING: property=%s %s' % (pid, k.get('line', k.get('key'))))

    wall = time.time() - t0
    cov = dict(lean_cov)
    cov.update({
        'evaluations': max(stats['evaluations'], 1),
        'distinct_nontrivial': stats['distinct_nontrivial'],
        'rule': getattr(prop, 'rule', 'cases = committed corpus + generator seeded by VERIF_SEED; distinct by hash of '
                        'the canonical case; non-trivial by the property-specific predicate'),
        'samples': [jsonable(c) for c in cases[:2]] + [jsonable(c) for c in cases[-2:]],
        'branches': stats['branches'],
        'model_requests': stats['model_requests'],
        'correspondence_disagreements': len(mism),
        'oracle_failures': len(prop_fail),
        'oracle_failures_listed_as_known': len(listed),
        'trusted_base': [
            'Lean 4.33 kernel; Mathlib v4.33 as compiled in the image',
            'axioms: propext, Classical.choice, Quot.sound (audited per theorem on this run)',
            'hand-written model tied to /repo by this correspondence run (Float instance of the same definitions)',
            'real vs IEEE-754 arithmetic: theorems are over the reals; rounding is not modelled',
        ] + list(prop.assumptions),
        'unproved_subclaims_tested_only': list(prop.unproved),
    })
    cov.update(extra_cov)
    ev = {'property_id': pid, 'tier': args.tier, 'seed': seed, 'level': prop.level, 'coverage': cov,
          'assumptions': list(prop.assumptions), 'wall_s': round(wall, 2), 'violations': violations}
    with open(os.path.join(OUT, 'evidence', pid + '.json'), 'w') as fh:
        json.dump(jsonable(ev), fh, indent=1, default=repr)
    print('%s tier=%s seed=%d cases=%d nontrivial=%d model_requests=%d obligations=%s discharged=%s '
          'mismatches=%d oracle_failures=%d wall=%.1fs' %
          (pid, args.tier, seed, stats['evaluations'], stats['distinct_nontrivial'], stats['model_requests'],
           cov.get('obligations'), cov.get('discharged'), len(mism), len(prop_fail), wall))
    for l in lines:
        print(l)
    if violations:
        for f in (unlisted or mism_unexplained)[:5]:
            print('  e.g. %s: %s' % (f.kind, f.what))
        for p in lean_problems[:5]:
            print('  lean: %s %s' % (p['kind'], str(p['detail'])[:300]))
        return 1
    return 0
