"""C12 — Tape parameters <-> six-vector: correspondence and oracle."""
import math

from common import Failure, Prop, bits, close, reply_floats, import_mtfit, main
from c13 import PI, angdiff, fl, vbits
from c02 import unit6


def mt33_of_6(v):
    k = 1 / math.sqrt(2)
    return [[v[0], k * v[3], k * v[4]], [k * v[3], v[1], k * v[5]], [k * v[4], k * v[5], v[2]]]


class C12(Prop):
    id = 'C12'
    assumptions = ['numpy.linalg.eigh is an external routine: its output is checked on every case (real, orthonormal, descending, rebuilds the '
                   'tensor) and then handed to the model, which covers everything after the decomposition',
                   'parameter comparisons: strike modulo 2*pi, the two nodal-plane descriptions are identified when the tensor is unchanged']
    unproved = ['full MT6 -> Tape -> MT6 round trip is proved only up to the eigen-decomposition (source-type pair exactly; orientation through '
                'the C13 theorems); the complete statement is evaluated on the implementation by this run']
    rule = ('unit six-vectors: generic (normalised Gaussian), double-couple, CLVD, isotropic, near-isotropic (isotropic + 1e-9..1e-3 deviatoric), '
            'repeated eigenvalues, vertical / horizontal nodal planes; Tape parameter sets uniform in the box with every face mixed in; single '
            'and batched calls; non-trivial = generic interior point')

    def setup(self):
        import_mtfit()
        import numpy as np
        from MTfit.convert import moment_tensor_conversion as cv
        self.np, self.cv = np, cv
        np.seterr(all='ignore')

    # ------------------------------------------------------------------ generation
    def _tape(self, rng, face=0.25):
        def pick(lo, hi):
            r = rng.random()
            return lo if r < face / 2 else hi if r < face else rng.uniform(lo, hi)
        return [pick(-PI / 6, PI / 6), pick(-PI / 2, PI / 2), rng.choice([rng.uniform(0, 2 * PI), 0.0, 2 * PI - 1e-9]),
                pick(0.0, 1.0), pick(-PI / 2, PI / 2)]

    def _mt(self, rng):
        np = self.np
        k = rng.choice(['generic', 'generic', 'dc', 'clvd', 'iso', 'neariso', 'repeat', 'vertical', 'horizontal'])
        if k == 'generic':
            return k, unit6(rng)
        q, _ = np.linalg.qr(np.array([[rng.gauss(0, 1) for _ in range(3)] for _ in range(3)]))
        if k in ('vertical', 'horizontal'):
            s = rng.uniform(0, 2 * PI)
            r = rng.uniform(-PI, PI)
            d = PI / 2 if k == 'vertical' else 0.0
            T, N, P = self.cv.SDR_TNP(s, d, r)
            q = np.hstack([np.asarray(T), np.asarray(N), np.asarray(P)])
            e = [1.0, 0.0, -1.0]
        else:
            e = {'dc': [1.0, 0.0, -1.0], 'clvd': rng.choice([[2.0, -1.0, -1.0], [1.0, 1.0, -2.0]]), 'iso': [1.0, 1.0, 1.0],
                 'neariso': [1.0 + 10 ** rng.uniform(-9, -3) * rng.gauss(0, 1) for _ in range(3)],
                 'repeat': rng.choice([[1.0, 1.0, -0.3], [0.7, -0.2, -0.2]])}[k]
            if k == 'iso' and rng.random() < 0.5:
                e = [-1.0, -1.0, -1.0]
        m = sum(e[i] * np.outer(q[:, i], q[:, i]) for i in range(3))
        v = [m[0, 0], m[1, 1], m[2, 2], math.sqrt(2) * m[0, 1], math.sqrt(2) * m[0, 2], math.sqrt(2) * m[1, 2]]
        n = math.sqrt(sum(x * x for x in v))
        return k, [float(x / n) for x in v]

    def gen(self, rng, tier):
        n = 300 if tier == 'quick' else 5000
        for i in range(n):
            if rng.random() < 0.5:
                kind, v = self._mt(rng)
                yield {'kind': 'mt6', 'sub': kind, 'mt': v, 'batched': rng.random() < 0.3, 'nbatch': rng.choice([2, 3, 6, 6, 7])}
            else:
                yield {'kind': 'tape', 'p': self._tape(rng), 'batched': rng.random() < 0.3, 'nbatch': rng.choice([2, 3, 6, 6, 7])}

    # ------------------------------------------------------------------ implementation
    def _eig(self, m33):
        np, cv = self.np, self.cv
        T, N, P, E = cv.MT33_TNPE(np.matrix(m33))
        return fl(T, np), fl(N, np), fl(P, np), [float(x) for x in np.asarray(E).flatten()], [str(np.asarray(x).dtype) for x in (T, E)]

    def impl(self, case):
        np, cv = self.np, self.cv
        if case['kind'] == 'mt6':
            v = np.matrix(case['mt']).T
            if case['batched']:
                # batches of 2..8 columns (among them exactly 6, where a 6 x n array is square): the tensor first, fillers after it
                nb = case.get('nbatch', 2)
                rs = np.random.RandomState(nb * 7919 + 1)
                fill = [np.array([[1.0], [0], [-1.0], [0], [0], [0]]) / math.sqrt(2)]
                for _j in range(nb - 2):
                    f = rs.randn(6, 1)
                    fill.append(f / np.sqrt((f * f).sum()))
                arr = np.hstack([np.array(v)] + fill)
                g, d, k, h, s = cv.MT6_Tape(arr)
                tape = [float(x[0]) for x in (g, d, k, h, s)]
            else:
                tape = [fl(x, np)[0] for x in cv.MT6_Tape(v)]
            m33 = cv.MT6_MT33(v)
            T, N, P, E, dt = self._eig(np.asarray(m33).tolist())
            back = fl(cv.Tape_MT6(np.array([tape[0]]), np.array([tape[1]]), np.array([tape[2]]), np.array([tape[3]]), np.array([tape[4]])), np)
            six = fl(cv.MT33_MT6(m33), np)
            oc = cv.output_convert(np.array(v))
            return {'tape': tape, 'm33': [float(x) for x in np.asarray(m33).flatten()], 'T': T, 'N': N, 'P': P, 'E': E, 'dtypes': dt,
                    'back': back, 'six': six,
                    'oc': {kk: float(np.asarray(vv).flatten()[0]) for kk, vv in oc.items()}}
        p = case['p']
        if case['batched']:
            arrs = [np.array([x] * case.get('nbatch', 2)) for x in p]
            mt = [float(x) for x in np.asarray(cv.Tape_MT6(*arrs))[:, 0]]
        else:
            mt = fl(cv.Tape_MT6(*[np.array([x]) for x in p]), np)
        m33 = np.asarray(cv.Tape_MT33(*p))
        tape = [fl(x, np)[0] for x in cv.MT6_Tape(np.matrix(mt).T)]
        back = fl(cv.Tape_MT6(*[np.array([x]) for x in tape]), np)
        T, N, P, E, dt = self._eig(mt33_of_6(mt))
        e = fl(cv.GD_E(p[0], p[1]), np)
        gd = [float(np.asarray(x).flatten()[0]) for x in cv.E_GD(np.array(e))]
        return {'mt': mt, 'm33': [float(x) for x in m33.flatten()], 'tape': tape, 'back': back, 'T': T, 'N': N, 'P': P, 'E': E,
                'dtypes': dt, 'e': e, 'gd': gd}

    # ------------------------------------------------------------------ model
    def requests(self, case, impl):
        if not isinstance(impl, dict) or 'T' not in impl:
            return []
        reqs = ['conv eigtape %s %s %s' % (vbits(impl['T']), vbits(impl['P']), vbits(impl['E']))]
        if case['kind'] == 'mt6':
            m = impl['m33']
            reqs += ['conv mt6mt33 %s' % vbits(case['mt']), 'conv mt33mt6 %s' % vbits([m[0], m[4], m[8], m[1], m[2], m[5]]),
                     'tapemt6 %s' % vbits(impl['tape'])]
        else:
            p = case['p']
            reqs += ['tapemt6 %s' % vbits(p), 'conv tapemt33 %s' % vbits(p), 'conv gde %s' % vbits(p[:2]), 'conv egd %s' % vbits(impl['e'])]
        return reqs

    def _tape_close(self, a, b, tol=1e-6):
        return (abs(a[0] - b[0]) < tol and abs(a[1] - b[1]) < tol and angdiff(a[2], b[2]) < tol and abs(a[3] - b[3]) < tol and
                abs(a[4] - b[4]) < tol)

    def compare(self, case, impl, replies):
        if 'exc' in impl:
            return [('implementation raised %s: %s' % (impl['exc'], impl.get('msg')), impl)]
        out = []
        m = reply_floats(replies[0])
        degenerate = self._degenerate(impl)
        if not degenerate and not self._tape_close(m, impl['tape']):
            out.append(('MT6_Tape after the eigen-decomposition: model %r, implementation %r' % (m, impl['tape']), None))
        elif degenerate and not (abs(m[0] - impl['tape'][0]) < 1e-6 and abs(m[1] - impl['tape'][1]) < 1e-6) and not self._isoish(impl):
            out.append(('source type after the eigen-decomposition: model %r, implementation %r' % (m[:2], impl['tape'][:2]), None))
        if case['kind'] == 'mt6':
            m33 = reply_floats(replies[1])
            i33 = impl['m33']
            if not all(close(a, b, atol=1e-12) for a, b in zip(m33, [i33[0], i33[4], i33[8], i33[1], i33[2], i33[5]])):
                out.append(('MT6_MT33: model %r, implementation %r' % (m33, i33), None))
            six = reply_floats(replies[2])
            if not all(close(a, b, atol=1e-12) for a, b in zip(six, impl['six'])):
                out.append(('MT33_MT6: model %r, implementation %r' % (six, impl['six']), None))
            back = reply_floats(replies[3])
            if not all(close(a, b, atol=1e-9) for a, b in zip(back, impl['back'])):
                out.append(('Tape_MT6: model %r, implementation %r' % (back, impl['back']), None))
        else:
            mt = reply_floats(replies[1])
            if not all(close(a, b, atol=1e-9) for a, b in zip(mt, impl['mt'])):
                out.append(('Tape_MT6: model %r, implementation %r' % (mt, impl['mt']), None))
            m33 = reply_floats(replies[2])
            i33 = impl['m33']
            if not all(close(a, b, atol=1e-9) for a, b in zip(m33, [i33[0], i33[4], i33[8], i33[1], i33[2], i33[5]])):
                out.append(('Tape_MT33: model %r, implementation %r' % (m33, i33), None))
            e = reply_floats(replies[3])
            if not all(close(a, b, atol=1e-12) for a, b in zip(e, impl['e'])):
                out.append(('GD_E: model %r, implementation %r' % (e, impl['e']), None))
            gd = reply_floats(replies[4])
            if not all(abs(a - b) < 1e-7 for a, b in zip(gd, impl['gd'])) and abs(abs(case['p'][1]) - PI / 2) > 1e-6:
                out.append(('E_GD: model %r, implementation %r' % (gd, impl['gd']), None))
        return out[:3]

    @staticmethod
    def _isoish(impl):
        e = impl['E']
        return max(e) - min(e) < 1e-6 * max(1e-300, max(abs(x) for x in e))

    def _degenerate(self, impl):
        """orientation is not unique: repeated eigenvalues, or a nodal plane that is horizontal / has |slip| = pi/2"""
        e = impl['E']
        sc = max(abs(x) for x in e) or 1.0
        if min(abs(e[0] - e[1]), abs(e[1] - e[2])) < 1e-6 * sc:
            return True
        t = impl['tape']
        return t[3] > 1 - 1e-9 or t[3] < 1e-9 or abs(abs(t[4]) - PI / 2) < 1e-6

    # ------------------------------------------------------------------ oracle
    def oracle(self, case, impl):
        if 'exc' in impl:
            return [('raises', 'conversion raised %s: %s' % (impl['exc'], impl.get('msg')), impl)]
        out = []
        t = impl['tape']
        eps = 1e-9
        if any(math.isnan(x) for x in t):
            out.append(('nan', 'Tape parameters contain NaN: %r' % (t,), None))
            return out
        if not (abs(t[0]) <= PI / 6 + eps and abs(t[1]) <= PI / 2 + eps and -eps <= t[2] < 2 * PI + eps and -eps <= t[3] <= 1 + eps and
                abs(t[4]) <= PI / 2 + eps):
            only_slip = (abs(t[0]) <= PI / 6 + eps and abs(t[1]) <= PI / 2 + eps and -eps <= t[2] < 2 * PI + eps and -eps <= t[3] <= 1 + eps)
            key = 'range-horizontal-plane' if (only_slip and t[3] > 1 - 1e-9) else 'range'
            out.append((key, 'Tape parameters out of their documented ranges: %r' % (t,), None))
        ref = case['mt'] if case['kind'] == 'mt6' else impl['mt']
        nrm = math.sqrt(sum(x * x for x in ref))
        if not close(nrm, 1.0, atol=1e-9):
            out.append(('norm', 'six-vector norm %r' % nrm, None))
        if not all(close(a, b, atol=1e-7) for a, b in zip(ref, impl['back'])):
            out.append(('tensor-roundtrip', 'tensor -> Tape parameters -> tensor changed the tensor: %r vs %r' % (ref, impl['back']), None))
        if case['kind'] == 'tape':
            p = case['p']
            same_type = abs(t[0] - p[0]) < 1e-6 and abs(t[1] - p[1]) < 1e-6
            if abs(abs(p[1]) - PI / 2) < 1e-9:
                same_type = abs(t[1] - p[1]) < 1e-6
            if not same_type:
                out.append(('params-roundtrip', 'source-type parameters %r came back as %r' % (p[:2], t[:2]), None))
            elif not self._degenerate(impl) and not self._tape_close(t, p) and abs(abs(p[1]) - PI / 2) > 1e-9 and abs(abs(p[0]) - PI / 6) > 1e-9:
                out.append(('params-roundtrip', 'parameters %r came back as %r although the orientation is unique' % (p, t), None))
        else:
            if case['sub'] in ('dc', 'vertical', 'horizontal') and (abs(t[0]) > 1e-7 or abs(t[1]) > 1e-7):
                out.append(('dc-zero', 'double-couple tensor maps to gamma=%r delta=%r' % (t[0], t[1]), None))
            oc = impl['oc']
            for a, b in zip(['g', 'd', 'k', 'h', 's'], t):
                if not (abs(oc[a] - b) < 1e-9 or (a == 'k' and angdiff(oc[a], b) < 1e-9)):
                    out.append(('output-convert', 'batched output conversion gives %s=%r, MT6_Tape gives %r' % (a, oc[a], b), None))
                    break
            # the two reported nodal planes are each other's auxiliary plane: unit normals perpendicular, and the slip vector of one is
            # the normal of the other (both describe the tensor's double-couple orientation)
            if all(kk in oc for kk in ('S1', 'D1', 'R1', 'S2', 'D2', 'R2')) and not self._degenerate(impl):
                rad = PI / 180

                def nrm(sd, dp):
                    return [-math.sin(sd) * math.sin(dp), math.cos(sd) * math.sin(dp), -math.cos(dp)]

                def slip(sd, dp, rk):
                    return [math.cos(rk) * math.cos(sd) + math.sin(rk) * math.cos(dp) * math.sin(sd),
                            math.cos(rk) * math.sin(sd) - math.sin(rk) * math.cos(dp) * math.cos(sd), -math.sin(rk) * math.sin(dp)]
                n1, n2 = nrm(oc['S1'] * rad, oc['D1'] * rad), nrm(oc['S2'] * rad, oc['D2'] * rad)
                s1 = slip(oc['S1'] * rad, oc['D1'] * rad, oc['R1'] * rad)
                dot = sum(a * b for a, b in zip(n1, n2))
                par = abs(sum(a * b for a, b in zip(s1, n2)))
                if abs(dot) > 1e-6 or abs(par - 1) > 1e-6:
                    out.append(('output-planes', 'output conversion reports planes (%r, %r, %r) and (%r, %r, %r) that are not each other\'s auxiliary '
                                'plane (n1.n2 = %r, |slip1.n2| = %r)' % (oc['S1'], oc['D1'], oc['R1'], oc['S2'], oc['D2'], oc['R2'], dot, par), None))
            six = impl['six']
            if not all(close(a, b, atol=1e-12) for a, b in zip(six, case['mt'])):
                out.append(('six-33-six', 'six-vector -> 3x3 -> six-vector changed the tensor', None))
        # the eigen-solver's output (external routine): real, orthonormal, descending, rebuilds the tensor
        T, N, P, E = impl['T'], impl['N'], impl['P'], impl['E']
        if any('complex' in d for d in impl['dtypes']):
            out.append(('eig-complex', 'eigen-decomposition returned complex arrays', None))

        def dot(a, b):
            return sum(x * y for x, y in zip(a, b))
        if max(abs(dot(T, T) - 1), abs(dot(N, N) - 1), abs(dot(P, P) - 1), abs(dot(T, N)), abs(dot(T, P)), abs(dot(N, P))) > 1e-9:
            out.append(('eig-orthonormal', 'eigenvectors are not orthonormal', None))
        if not (E[0] >= E[1] - 1e-12 and E[1] >= E[2] - 1e-12):
            out.append(('eig-order', 'eigenvalues are not in descending order: %r' % (E,), None))
        return out[:3]

    def extra(self, rng, tier):
        """Batches that are not float64 (axis-aligned tensors typed without decimal points): the batched conversion must give what the float64 batch gives."""
        np, cv = self.np, self.cv
        cols = [[1, -1, 0, 0, 0, 0], [0, 1, -1, 0, 0, 0], [2, -1, -1, 0, 0, 0], [1, 0, 0, 0, 0, 0], [0, 0, 0, 1, 0, 0], [1, 1, -2, 0, 0, 0], [3, 1, -2, 0, 0, 0]]
        fails, cov = [], {'non_float_batches': 0}
        for nb in (2, 3, 6, 7):
            for dt in (np.int64, np.int32, np.float32):
                arr = np.array(cols[:nb], dtype=dt).T
                ref = [np.asarray(x, dtype=float).flatten() for x in cv.MT6_Tape(arr.astype(np.float64))]
                for container in ('array', 'matrix'):
                    a = arr.copy() if container == 'array' else np.matrix(arr.copy())
                    got = [np.asarray(x, dtype=float).flatten() for x in cv.MT6_Tape(a)]
                    cov['non_float_batches'] += 1
                    dev = max(float(np.max(np.abs(g - r))) if g.shape == r.shape else float('inf') for g, r in zip(got, ref))
                    if not dev < (1e-5 if dt is np.float32 else 1e-12):
                        fails.append(Failure('property', {'kind': 'dtype-batch', 'columns': nb, 'dtype': np.dtype(dt).name, 'container': container},
                                             'MT6_Tape on a batch of %d tensors of type %s (%s) differs from the same batch as float64 by %r in a Tape parameter'
                                             % (nb, np.dtype(dt).name, container, dev), key='dtype-batch'))
        return cov, fails[:3]

    def nontrivial(self, case, impl):
        return isinstance(impl, dict) and 'E' in impl and not self._degenerate(impl)

    def branch(self, case, impl):
        if case['kind'] == 'mt6':
            return 'mt6/%s/%s' % (case['sub'], 'batched' if case['batched'] else 'single')
        p = case['p']
        face = abs(abs(p[0]) - PI / 6) < 1e-12 or abs(abs(p[1]) - PI / 2) < 1e-12 or p[3] in (0.0, 1.0) or abs(abs(p[4]) - PI / 2) < 1e-12
        return 'tape/%s' % ('face' if face else 'interior')


if __name__ == '__main__':
    import sys
    sys.exit(main(C12()))
