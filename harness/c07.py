"""C07 — Markov-chain run bookkeeping: correspondence (event histories) and oracle; posterior agreement (statistics)."""
import itertools
import math

from common import Prop, close, import_mtfit, NEG_INF, main, Failure
from c05 import KEYS


class C07(Prop):
    id = 'C07'
    assumptions = ['accept/reject outcomes are steered through the log-likelihoods handed to iterate() (huge for an acceptance, -inf or '
                   'tiny for a rejection); the event fed to the model is the outcome observed on the real algorithm',
                   'sources and log-likelihoods are opaque tokens in the model; the harness maps recorded tensor columns back to proposals']
    unproved = ['convergence of a finite chain to the posterior (invariance of the posterior under the sampler\'s kernel IS proved in Props/C07Stationary / C07TransD from the detailed balance of C05, and one step of the model has that kernel\'s law: Props/C07Step): tested by comparing '
                'expectations over a real chain (six-station polarity data, real forward task) with likelihood-weighted random sampling of 4e5 '
                'sources, in units of the combined Monte Carlo error (batch means): one 3000-entry double-couple chain in the quick tier, 20000-entry '
                'double-couple and full-tensor chains in the thorough tier; trans-dimensional chains through the front-end task (5000 entries quick; 20000-60000, five runs, '
                'pooled, thorough): share of double-couple entries against the posterior model probability from 2e5 + 2e5 likelihood-weighted random samples']
    rule = ('every accept/reject history up to length 7 (thorough: 9) for small learning lengths / windows / chain lengths, random histories up '
            'to length 400, single-try double-couple / full-tensor / trans-dimensional chains and multiple-try iterations with 2..4 '
            'candidates, random and grid initialisation; non-trivial = the chain records at least three entries')

    def setup(self):
        import_mtfit()
        import numpy as np
        from MTfit.algorithms import markov_chain_monte_carlo as mc
        from MTfit.probability import LnPDF
        self.np, self.mc, self.LnPDF = np, mc, LnPDF
        np.seterr(all='ignore')
        import types
        mc.gc = types.SimpleNamespace(collect=lambda *a, **k: 0)

    # ------------------------------------------------------------------ generation
    def gen(self, rng, tier):
        depth = 7 if tier == 'quick' else 9
        cfgs = [(0, 3, 3), (1, 2, 3), (2, 2, 2), (2, 4, 4), (3, 2, 1)]
        for (L, W, C) in cfgs:
            for ln in ([depth] if tier == 'quick' else [depth - 2, depth]):
                for pat in itertools.product([1, 0], repeat=ln):
                    if tier == 'quick' and rng.random() > 0.35:
                        continue
                    yield {'kind': 'history', 'cls': rng.choice(['mt', 'dc', 'transd']), 'L': L, 'W': W, 'C': C, 'plan': list(pat),
                           'init': 'random', 'seed': rng.randrange(1 << 30)}
        n = 40 if tier == 'quick' else 600
        for i in range(n):
            L, W, C = rng.randint(0, 12), rng.randint(1, 8), rng.randint(1, 60)
            ln = rng.choice([20, 60, 150, 400])
            pacc = rng.choice([0.1, 0.3, 0.6, 0.9])
            yield {'kind': 'history', 'cls': rng.choice(['mt', 'dc', 'transd', 'multi']), 'L': L, 'W': W, 'C': C,
                   'plan': [1 if rng.random() < pacc else 0 for _ in range(ln)], 'init': rng.choice(['random', 'random', 'grid']),
                   'seed': rng.randrange(1 << 30), 'ntry': rng.randint(2, 4)}

    # ------------------------------------------------------------------ implementation
    def _col(self, mt):
        return tuple(float(v) for v in self.np.asarray(mt, dtype=float).flatten())

    def impl(self, case):
        np, mc = self.np, self.mc
        kw = dict(learning_length=case['L'], acceptance_rate_window=case['W'], chain_length=case['C'])
        if case['init'] == 'grid':
            kw.update(initial_sample='grid', min_number_initialisation_samples=20, number_samples=30)
        else:
            kw.update(initial_sample='random')
        cls = case['cls']
        if cls == 'transd':
            alg = mc.IterativeTransDMetropolisHastingsGaussianTape(dimension_jump_prob=0.4, dc_prior=0.5, **kw)
        elif cls == 'multi':
            kw.pop('number_samples', None)
            alg = mc.IterativeMultipleTryMetropolisHastingsGaussianTape(number_samples=4, **kw)
            if case['init'] == 'grid':
                alg._initialiser.number_samples = 30
        else:
            alg = mc.IterativeMetropolisHastingsGaussianTape(dc=(cls == 'dc'), **kw)
        np.random.seed(case['seed'] % (2 ** 32))
        task, end = alg.initialise()
        # grid initialisation: feed random-sampling results until the chain proper starts
        guard = 0
        while alg._initialising and guard < 50:
            mts = np.asarray(task, dtype=float)
            lnp = -np.sum(mts * mts, axis=0) * 0 - np.arange(mts.shape[1], dtype=float) / 7.0
            lnp[::3] = -np.inf
            task, end = alg.iterate({'moment_tensors': mts, 'ln_pdf': self.LnPDF(np.array([lnp])), 'n': mts.shape[1]})
            guard += 1
        if alg._initialising:
            raise RuntimeError('grid initialisation did not finish')
        x0 = alg.xi
        toks = [{'mt': self._col(alg.convert_sample(x0)), 'ln': float(alg.ln_likelihood_xi), 'dc': self._is_dc(x0)}]
        events = []
        bad_props = []
        level = 0.0
        ended = False
        for k, want in enumerate(case['plan']):
            if ended:
                break
            multi = cls == 'multi' and k > 0 and (k % 3 == 1)
            if multi:
                ntry = case.get('ntry', 3)
                cands = [alg._new_sample_single() for _ in range(ntry)]
                alg.xi_1 = cands
                u = (k // 3) % ntry if want else None
                lns = []
                for j in range(ntry):
                    cur_ln = float(alg.ln_likelihood_xi)
                    if want and j == u:
                        level = max(level, cur_ln if cur_ln != NEG_INF else level) + 1000.0
                        lns.append(level)
                    else:
                        lns.append(NEG_INF if (j % 2 == 0 or cur_ln == NEG_INF) else cur_ln - 1e6 - k - j)
                mts = np.hstack([np.asarray(alg.convert_sample(c), dtype=float).reshape(6, 1) for c in cands])
                before = alg.xi
                task, ended = alg.iterate({'moment_tensors': mts, 'ln_pdf': self.LnPDF(np.array([lns])), 'n': ntry})
                if alg.xi is not before:
                    j = next(i for i, c in enumerate(cands) if c is alg.xi)
                    toks.append({'mt': self._col(mts[:, j]), 'ln': lns[j], 'dc': self._is_dc(cands[j])})
                    events.append(('A', j, len(toks) - 1))
                else:
                    events.append(('R', ntry))
                continue
            prop = alg.xi_1
            cur_ln = float(alg.ln_likelihood_xi)
            if cls == 'transd' and isinstance(prop, dict) and isinstance(alg.xi, dict):
                # a chain that sits on the double-couple model proposes double-couples, except for a model jump (which keeps
                # strike, dip and slip); this holds during the learning period too
                same = all(float(np.asarray(prop[kk]).flatten()[0]) == float(np.asarray(alg.xi[kk]).flatten()[0]) for kk in ('kappa', 'h', 'sigma'))
                if self._is_dc(alg.xi) and not self._is_dc(prop) and not same:
                    bad_props.append(k)
            if want:
                level = max(level, cur_ln if cur_ln != NEG_INF else level) + 1000.0
                ln = level
            else:
                ln = NEG_INF if (k % 2 == 0 or cur_ln == NEG_INF) else cur_ln - 1e6 - k
            mt = np.asarray(alg.convert_sample(prop), dtype=float).reshape(6, 1)
            task, ended = alg.iterate({'moment_tensors': mt, 'ln_pdf': self.LnPDF(np.array([[ln]])), 'n': 1})
            accepted = ln != NEG_INF and float(alg.ln_likelihood_xi) == ln
            if accepted:
                toks.append({'mt': self._col(mt), 'ln': ln, 'dc': self._is_dc(prop)})
                events.append(('A', 0, len(toks) - 1))
            else:
                events.append(('R', 1))
        out, _txt = alg.output(normalise=True, convert=False)
        res = {'toks': toks, 'events': events, 'ended': bool(ended), 'bad_props': bad_props, 'tried': int(out['total_number_samples']),
               'accepted': int(out['accepted']), 'rate': float(out['acceptance_rate']), 'pdc': out.get('pDC')}
        if isinstance(out.get('probability'), list) and not out['probability']:
            res['chain'] = []
        else:
            mts = np.asarray(out['moment_tensor_space'], dtype=float)
            lns = np.asarray(out['ln_pdf'], dtype=float).flatten()
            res['chain'] = [{'mt': self._col(mts[:, j]), 'ln': float(lns[j])} for j in range(mts.shape[1])]
            res['prob_sum'] = float(np.sum(np.asarray(out['probability'], dtype=float)))
        return res

    # ------------------------------------------------------------------ the chain samples the posterior (statistical, not proved)
    def _posterior_run(self, dc, chain_length, seed):
        """A real chain on a synthetic six-station polarity data set against likelihood-weighted random sampling;
        returns z-scores of six expectations (chain minus reference, in units of the combined Monte Carlo error)."""
        import types
        np, mc = self.np, self.mc
        from MTfit import inversion as inv
        from MTfit.algorithms import base
        from MTfit.probability import probability as pr
        nogc = types.SimpleNamespace(collect=lambda *a, **k: 0)
        inv.gc = nogc
        pr.gc = nogc
        rs = np.random.RandomState(seed)
        n = 6
        st = {'Name': ['S%d' % i for i in range(n)], 'Azimuth': np.matrix(rs.uniform(0, 360, n)).T, 'TakeOffAngle': np.matrix(rs.uniform(20, 160, n)).T}
        mtrue = np.array([1, -1, 0, 0.2, 0.1, 0.3])
        mtrue = mtrue / np.linalg.norm(mtrue)
        a = np.asarray(inv.station_angles(st, 'P'))
        data = {'PPolarity': {'Stations': st, 'Measured': np.matrix(np.sign(a.dot(mtrue))).T, 'Error': np.matrix((0.3 if dc else 0.6) * np.ones((n, 1)))}}
        a_pol, err_pol, ipp = inv.polarity_matrix(data)

        def forward(mts):
            return inv.ForwardTask(mts, a_pol, err_pol, False, False, False, False, False, False, False, False, ipp, return_zero=True)()
        # second moments of the six-vector and the size of the isotropic part (sensitive to the source-type prior)
        f = lambda m: np.vstack([m[0] * m[0], m[1] * m[1], m[2] * m[2], m[0] * m[1], m[3] * m[3], m[4] * m[5],
                                 np.abs(m[0] + m[1] + m[2]) / math.sqrt(3)])
        np.random.seed(seed)
        nref = 400000
        b = base.BaseAlgorithm(number_samples=nref, dc=dc)
        mts = np.asarray(b.random_sample())
        lnp = np.asarray(forward(mts)['ln_pdf']._ln_pdf).flatten()
        w = np.exp(lnp - lnp.max())
        w /= w.sum()
        ess = 1.0 / np.sum(w * w)
        F = f(mts)
        ref = (F * w).sum(1)
        refvar = ((F - ref[:, None]) ** 2 * w).sum(1)
        alg = mc.IterativeMetropolisHastingsGaussianTape(dc=dc, learning_length=1500, chain_length=chain_length, acceptance_rate_window=500,
                                                         initial_sample='grid', number_samples=5000, min_number_initialisation_samples=5000)
        m, end = alg.initialise()
        while not end:
            m, end = alg.iterate(forward(np.asarray(m)))
        out, _txt = alg.output(normalise=True, convert=False)
        M = np.asarray(out['moment_tensor_space'], dtype=float)
        G = f(M)
        est = G.mean(1)
        nb = 25
        L = G.shape[1] // nb
        bm = np.array([G[:, i * L:(i + 1) * L].mean(1) for i in range(nb)])
        se = bm.std(0, ddof=1) / math.sqrt(nb)
        z = (est - ref) / np.sqrt(se ** 2 + refvar / ess)
        if dc:
            z = z[:6]            # a double-couple has no isotropic part: the seventh statistic is identically zero
        return [float(v) for v in z], float(out['acceptance_rate']), float(ess)

    def _driver_run(self, dc, seed, mispick=0.0):
        """The chain driver used by the inversion front end (McMCForwardTask) on data with a hard-edged posterior: every proposal the
        forward model evaluates after the learning period must be a tried proposal of the chain."""
        import types
        np = self.np
        from MTfit import inversion as inv
        from MTfit.probability import probability as pr
        nogc = types.SimpleNamespace(collect=lambda *a, **k: 0)
        inv.gc = nogc
        pr.gc = nogc
        rs = np.random.RandomState(seed)
        n = 7
        st = {'Name': ['S%d' % i for i in range(n)], 'Azimuth': np.matrix(rs.uniform(0, 360, n)).T, 'TakeOffAngle': np.matrix(rs.uniform(20, 160, n)).T}
        mtrue = np.array([0.6, -0.7, 0.1, 0.2, -0.1, 0.3])
        mtrue = mtrue / np.linalg.norm(mtrue)
        a = np.asarray(inv.station_angles(st, 'P'))
        # tiny uncertainties: a large part of the source space has exactly zero likelihood
        data = {'PPolarity': {'Stations': st, 'Measured': np.matrix(np.sign(a.dot(mtrue))).T, 'Error': np.matrix(1e-4 * np.ones((n, 1)))}}
        if mispick:
            # per-station mispick probabilities: the posterior is no longer hard-edged, and the driver has to hand them to the forward model
            data['PPolarity']['IncorrectPolarityProbability'] = np.matrix(mispick * (1 + 0.5 * np.arange(n) / n)).T
            data['PPolarity']['Error'] = np.matrix(0.35 * np.ones((n, 1)))      # soft picks: the mispick term varies from entry to entry
        a_pol, err_pol, ipp = inv.polarity_matrix(data)
        # amplitude ratios with different fractional errors on numerator and denominator
        asv = np.asarray(inv.station_angles(st, 'SH'))
        x_, y_ = a.dot(mtrue), asv.dot(mtrue)
        data['P/SHAmplitudeRatio'] = {'Stations': st, 'Measured': np.matrix(np.vstack([np.abs(x_), np.abs(y_)]).T),
                                      'Error': np.matrix(np.vstack([0.4 * np.abs(x_), 0.15 * np.abs(y_)]).T)}
        a1, a2, ratio, pe1, pe2 = inv.amplitude_ratio_matrix(data)
        kw = dict(learning_length=40, chain_length=400, acceptance_rate_window=20, initial_sample='grid', number_samples=2000,
                  min_number_initialisation_samples=2000, dc=dc)
        task = inv.McMCForwardTask(kw, a_pol, err_pol, a1, a2, ratio, pe1, pe2, False, False, ipp, normalise=True, convert=False)
        counts = {'chain': 0, 'zero': 0}
        orig = inv.ForwardTask.__call__

        def counting(ft):
            res = orig(ft)
            alg = getattr(task, 'algorithm', None)
            if alg is not None and not alg._initialising and not alg.learning_check():
                counts['chain'] += 1
                lp = res['ln_pdf']
                lp = np.asarray(lp._ln_pdf if hasattr(lp, '_ln_pdf') else lp, dtype=float)
                if lp.size == 0 or not np.isfinite(lp).any():
                    counts['zero'] += 1
            return res
        np.random.seed(seed)
        inv.ForwardTask.__call__ = counting
        try:
            out = task()['algorithm_output_data']
        finally:
            inv.ForwardTask.__call__ = orig
        # every chain entry carries the likelihood of exactly that source: recompute it with the single-event forward task
        M = np.asarray(out['moment_tensor_space'], dtype=float)
        uniq = M[:, :: max(1, M.shape[1] // 25)]
        ref = orig(inv.ForwardTask(uniq, a_pol, err_pol, a1, a2, ratio, pe1, pe2, False, False, False, ipp, return_zero=True))
        ref = np.asarray(ref['ln_pdf']._ln_pdf, dtype=float).flatten()
        got = np.asarray(out['ln_pdf'], dtype=float).flatten()[:: max(1, M.shape[1] // 25)]
        # normalised output: compare differences between entries
        dev = float(np.max(np.abs((got - got[0]) - (ref - ref[0])))) if len(got) else 0.0
        return {'evaluated_after_learning': counts['chain'], 'zero_likelihood_proposals': counts['zero'],
                'reported_tried': int(out['total_number_samples']), 'entries': int(np.asarray(out['moment_tensor_space']).shape[1]),
                'accepted': int(out['accepted']), 'entry_likelihood_dev': dev}

    def _front_end_constraint(self, want_dc, algname, seed):
        """The double-couple constraint requested from the inversion front end must reach the chain it builds."""
        import os
        import tempfile
        np = self.np
        from MTfit import inversion as inv
        rs = np.random.RandomState(seed)
        n = 6
        st = {'Name': ['S%d' % i for i in range(n)], 'Azimuth': np.matrix(rs.uniform(0, 360, n)).T, 'TakeOffAngle': np.matrix(rs.uniform(20, 160, n)).T}
        data = {'PPolarity': {'Stations': st, 'Measured': np.matrix(np.sign(rs.randn(n))).T, 'Error': np.matrix(0.5 * np.ones((n, 1)))}, 'UID': 'c07fe'}
        cwd = os.getcwd()
        d = tempfile.mkdtemp(prefix='c07fe_')
        os.chdir(d)
        try:
            I = inv.Inversion(data, dc=want_dc, algorithm=algname, parallel=False, chain_length=60, burn_length=0, learning_length=20, acceptance_rate_window=10,
                              phy_mem=0.1, convert=False, initial_sample='grid', min_number_initialisation_samples=200)
            a_pol, err_pol, ipp = inv.polarity_matrix(data)
            np.random.seed(seed)
            task = inv.McMCForwardTask(I.kwargs, a_pol, err_pol, False, False, False, False, False, False, False, ipp, normalise=True, convert=False)
            out = task()['algorithm_output_data']
        finally:
            os.chdir(cwd)
            import shutil
            shutil.rmtree(d, ignore_errors=True)
        M = np.asarray(out['moment_tensor_space'], dtype=float)
        r2 = 1 / math.sqrt(2)
        m33 = np.zeros((M.shape[1], 3, 3))
        m33[:, 0, 0], m33[:, 1, 1], m33[:, 2, 2] = M[0], M[1], M[2]
        m33[:, 0, 1] = m33[:, 1, 0] = r2 * M[3]
        m33[:, 0, 2] = m33[:, 2, 0] = r2 * M[4]
        m33[:, 1, 2] = m33[:, 2, 1] = r2 * M[5]
        w = np.linalg.eigvalsh(m33)
        non_dc = int(np.sum((np.abs(w[:, 1]) > 1e-7) | (np.abs(w.sum(1)) > 1e-7)))
        return {'algorithm': algname, 'requested_dc': want_dc, 'algorithm_dc_flag': bool(getattr(I.algorithm, 'dc', None)), 'entries': int(M.shape[1]),
                'entries_not_double_couple': non_dc}

    def _prior_mass(self):
        """Total mass of the sampling prior density of the full-tensor model over the source-type parameters (gamma, delta) of the
        Tape parameterisation (strike, dip cosine and slip are uniform and cancel): Gauss-Legendre quadrature, 200 x 400 nodes."""
        np, mc = self.np, self.mc
        xg, wg = np.polynomial.legendre.leggauss(200)
        xd, wd = np.polynomial.legendre.leggauss(400)
        g = xg * math.pi / 6
        d = xd * math.pi / 2
        tot = 0.0
        for gi, wi in zip(g, wg):
            vals = np.array([float(mc.uniform_prior({'gamma': float(gi), 'delta': float(dj), 'kappa': 1.0, 'h': 0.5, 'sigma': 0.1}, dc=False)) for dj in d])
            tot += wi * math.pi / 6 * float(np.sum(wd * vals)) * math.pi / 2
        return tot

    def _transd_run(self, chain_length, seed, predecessor, mass=1.0, own=None):
        """A trans-dimensional chain through the front-end task against the posterior double-couple probability obtained from
        likelihood-weighted random sampling of the two models (equal model priors).  `predecessor` keyword arguments, when given,
        are those of another trans-dimensional chain run earlier in the same process (state must not leak between chain objects)."""
        import types
        np = self.np
        from MTfit import inversion as inv
        from MTfit.algorithms import base
        from MTfit.probability import probability as pr
        nogc = types.SimpleNamespace(collect=lambda *a, **k: 0)
        inv.gc = nogc
        pr.gc = nogc
        rs = np.random.RandomState(seed)
        n = 5
        st = {'Name': ['S%d' % i for i in range(n)], 'Azimuth': np.matrix(rs.uniform(0, 360, n)).T, 'TakeOffAngle': np.matrix(rs.uniform(20, 160, n)).T}
        mtrue = np.array([1, -1, 0, 0.2, 0.1, 0.3])
        mtrue = mtrue / np.linalg.norm(mtrue)
        a = np.asarray(inv.station_angles(st, 'P'))
        data = {'PPolarity': {'Stations': st, 'Measured': np.matrix(np.sign(a.dot(mtrue))).T, 'Error': np.matrix(0.25 * np.ones((n, 1)))}}
        a_pol, err_pol, ipp = inv.polarity_matrix(data)

        def like(mts):
            r = inv.ForwardTask(mts, a_pol, err_pol, False, False, False, False, False, False, False, False, ipp, return_zero=True)()
            return np.exp(np.asarray(r['ln_pdf']._ln_pdf, dtype=float).flatten())
        np.random.seed(seed)
        nref = 200000
        ldc = like(np.asarray(base.BaseAlgorithm(number_samples=nref, dc=True).random_sample()))
        lmt = like(np.asarray(base.BaseAlgorithm(number_samples=nref, dc=False).random_sample()))
        zdc, zmt = ldc.mean(), lmt.mean()
        ref_unit = float(zdc / (zdc + zmt))
        zmt = mass * zmt          # the chain's full-tensor model carries the coded prior density, whose total mass is `mass`
        ref = zdc / (zdc + zmt)
        ref_se = math.sqrt((ldc.std() / math.sqrt(nref) * zmt) ** 2 + (mass * lmt.std() / math.sqrt(nref) * zdc) ** 2) / (zdc + zmt) ** 2
        base_kw = dict(learning_length=200, acceptance_rate_window=50, dc=False, number_samples=1000, trans_dimensional=True,
                       dimension_jump_prob=0.3, initial_sample='random')
        if predecessor:
            kw0 = dict(base_kw, chain_length=50)
            kw0.update(predecessor)
            inv.McMCForwardTask(kw0, a_pol, err_pol, False, False, False, False, False, False, False, ipp)()
        out = inv.McMCForwardTask(dict(base_kw, chain_length=chain_length, **(own or {})), a_pol, err_pol, False, False, False, False, False, False, False,
                                  ipp)()['algorithm_output_data']
        M = np.asarray(out['moment_tensor_space'], dtype=float)
        r2 = 1 / math.sqrt(2)
        m33 = np.zeros((M.shape[1], 3, 3))
        m33[:, 0, 0], m33[:, 1, 1], m33[:, 2, 2] = M[0], M[1], M[2]
        m33[:, 0, 1] = m33[:, 1, 0] = r2 * M[3]
        m33[:, 0, 2] = m33[:, 2, 0] = r2 * M[4]
        m33[:, 1, 2] = m33[:, 2, 1] = r2 * M[5]
        w = np.linalg.eigvalsh(m33)
        scale = np.maximum(np.abs(w).max(1), 1e-300)
        d = ((np.abs(w[:, 1]) < 1e-7 * scale) & (np.abs(w.sum(1)) < 1e-7 * scale)).astype(float)
        nb = 20
        L = len(d) // nb
        bm = d[:nb * L].reshape(nb, L).mean(1)
        share, se = float(d.mean()), float(bm.std(ddof=1) / math.sqrt(nb))
        z = (share - ref) / math.sqrt(se ** 2 + ref_se ** 2) if se + ref_se > 0 else 0.0
        return {'chain_length': chain_length, 'seed': seed, 'predecessor': predecessor or None, 'own_widths': own or None, 'entries': int(M.shape[1]),
                'reported_pDC': int(out['pDC']), 'double_couple_entries': int(d.sum()), 'share': share, 'share_se': se,
                'reference': float(ref), 'reference_se': float(ref_se), 'z': float(z), 'prior_mass_used': mass,
                'reference_with_unit_mass_prior': ref_unit, 'z_with_unit_mass_prior': float((share - ref_unit) / math.sqrt(se ** 2 + ref_se ** 2))}

    def extra(self, rng, tier):
        fe = []
        fe_fails = []
        for want_dc, algname, seed in ([(True, 'mcmc', 21)] if tier == 'quick' else [(True, 'mcmc', 21), (True, 'transdmcmc', 22), (False, 'mcmc', 23)]):
            r = self._front_end_constraint(want_dc, algname, seed)
            fe.append(r)
            if want_dc and algname == 'mcmc' and (r['entries_not_double_couple'] or not r['algorithm_dc_flag']):
                fe_fails.append(Failure('property', {'kind': 'front-end-dc', 'algorithm': algname, 'seed': seed},
                                        'a double-couple constrained Markov-chain run requested from the inversion front end (Inversion(dc=True, algorithm=%r)) built a chain '
                                        'with dc=%s; %d of its %d recorded entries are not double-couples' % (algname, r['algorithm_dc_flag'], r['entries_not_double_couple'], r['entries']),
                                        key='front-end-dc'))
        cov0, fails0 = self._extra_rest(rng, tier)
        cov0['front_end_constraint'] = fe
        td = []
        wide = {'dc_sigma_g': 1.0, 'dc_sigma_d': 1.0}
        # the model prior dc_prior means what it says only if the sampling prior density of the full-tensor model has total mass one
        mass = self._prior_mass()
        cov0['transd_full_tensor_prior_mass'] = mass
        if abs(mass - 1.0) > 2e-3:
            fe_fails.append(Failure('property', {'kind': 'transd-prior-mass', 'mass': mass},
                                    'trans-dimensional chain: the sampling prior density of the full-tensor model (uniform_prior) integrates to %.6f over the '
                                    'source-type parameters, not 1: the double-couple : full-tensor odds of the recorded chain are those of likelihood-weighted '
                                    'random sampling divided by that factor' % mass, key='transd-prior-mass-%.4f' % mass))
        narrow = {'dc_sigma_g': 0.05, 'dc_sigma_d': 0.05}
        # (chain length, seed, widths of the balancing draw of an earlier chain of the process, widths of the chain under test): other chain
        # objects with the default widths have been built in this process before (the history cases above)
        for n, seed, pred, own in ([(5000, 31, narrow, wide)] if tier == 'quick' else [(20000, 31, narrow, wide), (20000, 32, None, None), (20000, 33, wide, narrow),
                                                                                       (60000, 35, None, None), (60000, 36, wide, None)]):
            r = self._transd_run(n, seed, pred, mass, own)
            td.append(r)
            if r['reported_pDC'] != r['double_couple_entries']:
                fe_fails.append(Failure('property', {'kind': 'transd-posterior', 'seed': seed, 'chain_length': n, 'predecessor': pred, 'own_widths': own},
                                        'trans-dimensional chain: reported pDC %d but %d of the %d recorded entries are double-couples'
                                        % (r['reported_pDC'], r['double_couple_entries'], r['entries']), key='transd-pdc'))
            if abs(r['z']) > (6.0 if tier == 'quick' else 5.0) and abs(r['share'] - r['reference']) > 0.06:
                fe_fails.append(Failure('property', {'kind': 'transd-posterior', 'seed': seed, 'chain_length': n, 'predecessor': pred, 'own_widths': own},
                                        'trans-dimensional chain%s: share of double-couple entries %.3f +- %.3f against %.3f +- %.3f from '
                                        'likelihood-weighted random sampling of the two models (%.1f combined standard errors)'
                                        % (' run after another chain with %r' % pred if pred else '', r['share'], r['share_se'], r['reference'],
                                           r['reference_se'], r['z']), key='transd-posterior'))
        cov0['transd_posterior_runs'] = td
        # pooled over the runs: a bias too small for one run (for instance a mis-normalised prior density of the full-tensor model)
        pooled = sum(r['z'] for r in td) / math.sqrt(len(td))
        cov0['transd_posterior_pooled_z'] = pooled
        if len(td) >= 3 and abs(pooled) > 4.5:
            fe_fails.append(Failure('property', {'kind': 'transd-posterior-pooled', 'runs': [(r['chain_length'], r['seed'], r['predecessor']) for r in td]},
                                    'trans-dimensional chains: over %d runs the share of double-couple entries differs from likelihood-weighted random sampling of the '
                                    'two models by %s standard errors, pooled %.1f (shares %s against %s)'
                                    % (len(td), ['%.1f' % r['z'] for r in td], pooled, ['%.3f' % r['share'] for r in td], ['%.3f' % r['reference'] for r in td]),
                                    key='transd-posterior-pooled'))
        return cov0, fe_fails + fails0

    def _extra_rest(self, rng, tier):
        runs = [(True, 3000, 11), (False, 4000, 12)] if tier == 'quick' else [(True, 20000, 11), (False, 40000, 12), (False, 40000, 13)]
        cov, fails = {'posterior_runs': [], 'driver_runs': []}, []
        for dc, seed, mis in ([(False, 5, 0.0), (True, 8, 0.1)] if tier == 'quick' else [(False, 5, 0.0), (True, 6, 0.0), (False, 7, 0.0), (True, 8, 0.1), (False, 9, 0.05)]):
            d = self._driver_run(dc, seed, mis)
            d['dc'] = dc
            d['mispick'] = mis
            cov['driver_runs'].append(d)
            # the evaluation that ends the learning period and the one that ends the run are not chain proposals
            if abs(d['evaluated_after_learning'] - d['reported_tried']) > 2 or d['entries'] != d['reported_tried'] + 1:
                fails.append(Failure('property', {'kind': 'driver', 'dc': dc, 'seed': seed},
                                     'chain driver of the front end: %d proposals were evaluated after the learning period (%d of them with zero '
                                     'likelihood) but the chain reports %d tried proposals and holds %d entries' %
                                     (d['evaluated_after_learning'], d['zero_likelihood_proposals'], d['reported_tried'], d['entries']), key='driver-count'))
            if d['entry_likelihood_dev'] > 1e-6:
                fails.append(Failure('property', {'kind': 'driver', 'dc': dc, 'seed': seed},
                                     'chain driver of the front end: the log-likelihoods attached to the chain entries differ from those of the '
                                     'single-event forward task on the same sources by up to %r' % d['entry_likelihood_dev'], key='entry-likelihood'))
        for dc, n, seed in runs:
            z, rate, ess = self._posterior_run(dc, n, seed)
            cov['posterior_runs'].append({'dc': dc, 'chain_length': n, 'seed': seed, 'z': z, 'acceptance_rate': rate, 'reference_ess': ess})
            if max(abs(v) for v in z) > (6.0 if tier == 'quick' else 5.0):
                fails.append(Failure('property', {'kind': 'stat-posterior', 'dc': dc, 'chain_length': n, 'seed': seed},
                                     'expectations over the recorded chain differ from likelihood-weighted random sampling by %s combined '
                                     'Monte Carlo standard errors (acceptance rate %.3f)' % (['%.1f' % v for v in z], rate), key='posterior'))
        return cov, fails


    @staticmethod
    def _is_dc(x):
        import numpy as np
        return bool(float(np.asarray(x['gamma']).flatten()[0]) == 0.0 and float(np.asarray(x['delta']).flatten()[0]) == 0.0)

    # ------------------------------------------------------------------ model
    def requests(self, case, impl):
        if not isinstance(impl, dict) or 'events' not in impl:
            return []
        t = impl['toks']
        ev = []
        for e in impl['events']:
            if e[0] == 'A':
                ev.append('A %d %d %d %d' % (e[1], e[2], e[2], 1 if t[e[2]]['dc'] else 0))
            else:
                ev.append('R %d' % e[1])
        return ['chain %d %d %d 0 0 %d %d %s' % (case['L'], case['W'], case['C'], 1 if t[0]['dc'] else 0, len(ev), ' '.join(ev))]

    def compare(self, case, impl, replies):
        if 'exc' in impl:
            return [('implementation raised %s: %s' % (impl['exc'], impl.get('msg')), impl)]
        r = replies[0].split()
        used, tried, accepted, pdc, _adapt, nchain = int(r[0]), int(r[1]) - 1, int(r[2]) - 1, int(r[3]), int(r[4]), int(r[5])
        chain = [(int(r[6 + 2 * i]), int(r[7 + 2 * i])) for i in range(nchain)]
        out = []
        t = impl['toks']
        if used != len(impl['events']):
            out.append(('model consumed %d events, implementation ran %d iterations' % (used, len(impl['events'])), None))
        # entries with zero likelihood are not stored by the sample store
        exp = [(t[a]['mt'], t[b]['ln']) for a, b in chain if t[b]['ln'] != NEG_INF]
        got = [(c['mt'], c['ln']) for c in impl['chain']]
        if max(tried, 0) != impl['tried'] and not (tried == -1 and impl['tried'] in (0, -1)):
            out.append(('tried: model %d, implementation %d' % (tried, impl['tried']), None))
        if accepted != impl['accepted']:
            out.append(('accepted: model %d, implementation %d' % (accepted, impl['accepted']), None))
        if exp != got:
            out.append(('recorded chain differs: model %d entries, implementation %d; first difference at %s' %
                        (len(exp), len(got), next((i for i, (a, b) in enumerate(zip(exp, got)) if a != b), min(len(exp), len(got)))), None))
        if impl['pdc'] is not None and impl['pdc'] != pdc:
            out.append(('pDC count: model %d, implementation %r' % (pdc, impl['pdc']), None))
        return out[:3]

    # ------------------------------------------------------------------ oracle: the statement evaluated on the observed history
    def oracle(self, case, impl):
        if 'exc' in impl:
            return [('raises', 'chain run raised %s: %s' % (impl['exc'], impl.get('msg')), impl)]
        out = []
        t = impl['toks']
        L, C = case['L'], case['C']
        # replay the history according to the statement
        nacc = 0
        cur = 0
        recorded = []
        tried = 0
        accepted = 0
        first = True
        for e in impl['events']:
            learning = nacc < L
            if learning:
                if e[0] == 'A':
                    cur = e[2]
                    nacc += 1
                continue
            if tried >= C:
                break
            if e[0] == 'A':
                recorded += [cur] * e[1] + [e[2]]
                cur = e[2]
                tried += e[1] + 1
                accepted += 1
            else:
                recorded += [cur] * max(e[1], 1)
                tried += max(e[1], 1)
            if first:
                # the state reached by the first chain iteration is held one extra time (single-try: the first recorded state)
                recorded = recorded + [recorded[-1]]
                first = False
        exp = [(t[k]['mt'], t[k]['ln']) for k in recorded if t[k]['ln'] != NEG_INF]
        got = [(c['mt'], c['ln']) for c in impl['chain']]
        # states of zero likelihood (a random starting point that was never left) are not stored by the sample store
        if exp != got:
            i = next((i for i, (a, b) in enumerate(zip(exp, got)) if a != b), min(len(exp), len(got)))
            out.append(('chain-entries', 'recorded chain (%d entries) is not "state after every tried proposal, first held once more" '
                        '(%d expected); first difference at entry %d' % (len(got), len(exp), i), None))
        if tried and impl['tried'] != tried:
            out.append(('tried-count', 'reported %d tried proposals, the history has %d after learning' % (impl['tried'], tried), None))
        if impl['ended'] and tried < C:
            out.append(('stops-early', 'run ended after %d tried proposals, chain length is %d' % (tried, C), None))
        if not impl['ended'] and tried >= C and len(impl['events']) == len(case['plan']):
            out.append(('stops-late', 'run did not end although %d proposals were tried (chain length %d)' % (tried, C), None))
        if impl.get('bad_props'):
            out.append(('transd-proposal', 'iterations %r: the chain sits on a double-couple state but proposes a full tensor that is not a model '
                        'jump' % impl['bad_props'][:5], None))
        # every entry carries the likelihood of exactly that source
        known = {(tk['mt'], tk['ln']) for tk in t}
        for c in impl['chain']:
            if (c['mt'], c['ln']) not in known:
                out.append(('entry-likelihood', 'a recorded entry pairs a source with a log-likelihood that was never computed for it (%r)' % c['ln'], None))
                break
        if case['cls'] == 'dc':
            # a double-couple constrained run records double-couples only: eigenvalues (1, 0, -1)/sqrt2
            np = self.np
            r2 = 1 / math.sqrt(2)
            for c in impl['chain']:
                v = c['mt']
                m = np.array([[v[0], r2 * v[3], r2 * v[4]], [r2 * v[3], v[1], r2 * v[5]], [r2 * v[4], r2 * v[5], v[2]]])
                w = np.linalg.eigvalsh(m)
                if max(abs(w[0] + r2), abs(w[1]), abs(w[2] - r2)) > 1e-7:
                    out.append(('dc-constraint', 'a double-couple constrained run (%s initialisation) recorded a tensor with eigenvalues %r' %
                                (case['init'], [float(x) for x in w]), None))
                    break
        if impl['tried'] > 0 and not close(impl['rate'], impl['accepted'] / float(impl['tried']), atol=1e-12):
            out.append(('rate', 'acceptance rate %r is not accepted/tried = %d/%d' % (impl['rate'], impl['accepted'], impl['tried']), None))
        if impl['pdc'] is not None and impl['chain']:
            dcs = sum(1 for c in impl['chain'] if any(tk['mt'] == c['mt'] and tk['dc'] for tk in t))
            if impl['pdc'] != dcs:
                out.append(('pdc', 'reported double-couple count %r, chain has %d double-couple entries of %d' % (impl['pdc'], dcs, len(impl['chain'])), None))
        if impl['chain'] and 'prob_sum' in impl and not close(impl['prob_sum'], 1.0, atol=1e-9):
            out.append(('prob-sum', 'chain probabilities sum to %r' % impl['prob_sum'], None))
        return out[:3]

    def nontrivial(self, case, impl):
        return isinstance(impl, dict) and len(impl.get('chain', [])) >= 3

    def branch(self, case, impl):
        n = len(impl.get('chain', [])) if isinstance(impl, dict) else -1
        return '%s/%s/%s' % (case['cls'], case['init'], 'empty' if n == 0 else 'short' if n < 3 else 'chain')


if __name__ == '__main__':
    import sys
    sys.exit(main(C07()))
