import MTfitVerif.Model.RatioPdf
import MTfitVerif.Real.LogPSem
/-
  C03 — the amplitude-ratio likelihood is the density of |X/Y| for two independent Gaussians.
  Property theorems only; helpers in `Real/RatioPdfLemmas.lean`.
-/
namespace MTfitVerif.C03
open MTfitVerif LogP RatioPdf Real

/-- Hinkley's coefficient `a` is strictly positive, so every divisor in the closed form is
    non-zero: the density is defined (no 0/0) for every positive `σx, σy`. -/
theorem coefA_pos (z : ℝ) {σx σy : ℝ} (hx : 0 < σx) (hy : 0 < σy) : 0 < coefA z σx σy := by
  sorry

/-- the algebraic heart of Hinkley's derivation: completing the square in `y` -/
theorem exponent_identity (z μx μy : ℝ) {σx σy : ℝ} (hx : 0 < σx) (hy : 0 < σy) (y : ℝ) :
    let a := coefA z σx σy
    let b := coefB z μx μy σx σy
    let cc := coefC μx μy σx σy
    (z * y - μx)^2 / σx^2 + (y - μy)^2 / σy^2 = a^2 * (y - b / a^2)^2 + cc - b^2 / a^2 := by
  sorry

/-- Cauchy–Schwarz: the exponent of `d` is never positive (`d ≤ 1`, no overflow) -/
theorem d_exponent_nonpos (z μx μy : ℝ) {σx σy : ℝ} (hx : 0 < σx) (hy : 0 < σy) :
    let a := coefA z σx σy
    let b := coefB z μx μy σx σy
    let cc := coefC μx μy σx σy
    (b * b - cc * (a * a)) / (2 * (a * a)) ≤ 0 := by
  sorry

/-- the constant prefactor relation `d · e^{-b²/2a²} = e^{-c/2}` used in the factorisation -/
theorem d_factor (z μx μy : ℝ) {σx σy : ℝ} (hx : 0 < σx) (hy : 0 < σy) :
    let a := coefA z σx σy
    let b := coefB z μx μy σx σy
    let cc := coefC μx μy σx σy
    Real.exp ((b * b - cc * (a * a)) / (2 * (a * a))) * Real.exp (-(b^2) / (2 * a^2)) = Real.exp (-cc / 2) := by
  sorry

/-- `b · (Φ(b/a) − Φ(−b/a)) ≥ 0` -/
theorem b_cdf_term_nonneg (b : ℝ) {a : ℝ} (ha : 0 < a) :
    0 ≤ b * (stdCdf (b / a) - stdCdf (-b / a)) := by
  sorry

/-- non-negativity (indeed positivity) of the closed-form density -/
theorem ratioPdf_pos (z μx μy : ℝ) {σx σy : ℝ} (hx : 0 < σx) (hy : 0 < σy) :
    0 < ratioPdf z μx μy σx σy := by
  sorry

theorem arPdf_nonneg (r μx μy px py : ℝ) : 0 ≤ arPdf r μx μy px py := by
  sorry

/-- the likelihood depends on the modelled amplitudes only through their magnitudes -/
theorem arPdf_abs (r μx μy px py : ℝ) : arPdf r μx μy px py = arPdf r |μx| |μy| px py := by
  sorry

theorem arPdf_neg_left (r μx μy px py : ℝ) : arPdf r (-μx) μy px py = arPdf r μx μy px py := by
  sorry

theorem arPdf_neg_right (r μx μy px py : ℝ) : arPdf r μx (-μy) px py = arPdf r μx μy px py := by
  sorry

/-- symmetric in the sign of the observed ratio -/
theorem arPdf_neg_ratio (r μx μy px py : ℝ) : arPdf (-r) μx μy px py = arPdf r μx μy px py := by
  sorry

/-- for non-zero modelled amplitudes and any fractional error (zero included: it is replaced by
    `10⁻²⁴`) both standard deviations are strictly positive, so the density is defined and
    strictly positive: finite and NaN-free -/
theorem arPdf_pos (r : ℝ) {μx μy : ℝ} (hμx : μx ≠ 0) (hμy : μy ≠ 0) (px py : ℝ) :
    0 < arPdf r μx μy px py := by
  sorry

/-- sum of logs over stations = log of the product of the station densities -/
theorem lnArAt_toProb (sts : List (ArStation ℝ)) (k : Nat) (mt : List ℝ) :
    toProb (lnArAt sts k mt)
      = (sts.map fun s => arPdf s.ratio (dot (s.cx.getD k []) mt) (dot (s.cy.getD k []) mt) s.px s.py).prod := by
  sorry

end MTfitVerif.C03
