import MTfitVerif.Model.Convert
import MTfitVerif.Real.Inst
/-
  C13 — strike/dip/rake, principal axes and normal/slip describe one and the same source.
-/
namespace MTfitVerif.C13
open MTfitVerif Convert Real

/-- the (unnormalised) double-couple tensor of a fault normal `n` and slip vector `s`:
    `n sᵀ + s nᵀ` -/
def dcTensor (n s : V3 ℝ) : Sym3 ℝ :=
  ⟨2 * n.x * s.x, 2 * n.y * s.y, 2 * n.z * s.z,
   n.x * s.y + n.y * s.x, n.x * s.z + n.z * s.x, n.y * s.z + n.z * s.y⟩

/-- the slip vector and the fault normal built from strike, dip, rake are unit and perpendicular,
    for every strike, dip and rake -/
theorem sdrVecs_unit_perp (s d r : ℝ) :
    V3.dot (sdrVec1 s d r) (sdrVec1 s d r) = 1 ∧ V3.dot (sdrVec2 s d) (sdrVec2 s d) = 1 ∧
    V3.dot (sdrVec1 s d r) (sdrVec2 s d) = 0 := by
  sorry

/-- closed form of the principal axes: `T = (v₁+v₂)/√2`, `P = (v₁−v₂)/√2`, `N = −T×P` -/
theorem sdrToTnp_closed (s d r : ℝ) :
    (sdrToTnp s d r).1 = V3.sdiv (V3.add (sdrVec1 s d r) (sdrVec2 s d)) (√2) ∧
    (sdrToTnp s d r).2.2 = V3.sdiv (V3.sub (sdrVec1 s d r) (sdrVec2 s d)) (√2) := by
  sorry

/-- the tension, null and pressure axes are orthonormal for every strike, dip and rake -/
theorem sdrToTnp_orthonormal (s d r : ℝ) :
    let T := (sdrToTnp s d r).1; let N := (sdrToTnp s d r).2.1; let P := (sdrToTnp s d r).2.2
    V3.dot T T = 1 ∧ V3.dot N N = 1 ∧ V3.dot P P = 1 ∧ V3.dot T N = 0 ∧ V3.dot T P = 0 ∧ V3.dot N P = 0 := by
  sorry

/-- axes → normal/slip returns the two vectors the angles were built from -/
theorem sdrToFp_eq (s d r : ℝ) : sdrToFp s d r = (sdrVec1 s d r, sdrVec2 s d) := by
  sorry

/-- both normal/slip orderings give the same tensor -/
theorem dcTensor_symm (n s : V3 ℝ) : dcTensor n s = dcTensor s n := by
  sorry

/-- the axes rebuild the same double-couple tensor: `T Tᵀ − P Pᵀ = n sᵀ + s nᵀ` -/
theorem axes_same_tensor (s d r : ℝ) :
    let T := (sdrToTnp s d r).1; let N := (sdrToTnp s d r).2.1; let P := (sdrToTnp s d r).2.2
    rebuild T N P ⟨1, 0, -1⟩ = dcTensor (sdrVec2 s d) (sdrVec1 s d r) := by
  sorry

/-- the angle ranges of the returned plane: strike in [0, 2π), dip in [0, π/2], rake in [−π, π] -/
theorem fpToSdr_ranges (n s : V3 ℝ) :
    0 ≤ (fpToSdr n s).1 ∧ (fpToSdr n s).1 < 2 * π ∧ 0 ≤ (fpToSdr n s).2.1 ∧ (fpToSdr n s).2.1 ≤ π / 2 ∧
    -π ≤ (fpToSdr n s).2.2 ∧ (fpToSdr n s).2.2 ≤ π := by
  sorry

/-- converting normal/slip back gives the original angles (non-horizontal planes) -/
theorem fpToSdr_of_sdr {s d r : ℝ} (hs0 : 0 ≤ s) (hs1 : s < 2 * π) (hd0 : 0 < d) (hd1 : d ≤ π / 2)
    (hr0 : -π < r) (hr1 : r ≤ π) :
    fpToSdr (sdrVec2 s d) (sdrVec1 s d r) = (s, d, r) := by
  sorry

/-- the auxiliary-plane conversion returns the other nodal plane: the one whose normal is the
    slip vector of the input -/
theorem sdrToSdr_is_aux {s d r : ℝ} (hs0 : 0 ≤ s) (hs1 : s < 2 * π) (hd0 : 0 < d) (hd1 : d ≤ π / 2)
    (hr0 : -π < r) (hr1 : r ≤ π) :
    sdrToSdr s d r = fpToSdr (sdrVec1 s d r) (sdrVec2 s d) := by
  sorry

/-- axes → angles returns a nodal plane of the same source (the auxiliary one) -/
theorem tnpToSdr_of_sdr (s d r : ℝ) :
    tnpToSdr (sdrToTnp s d r).1 (sdrToTnp s d r).2.2 = fpToSdr (sdrVec1 s d r) (sdrVec2 s d) := by
  sorry

/-- for a plane with slip angle strictly inside (−π/2, π/2) the auxiliary plane has rake outside
    [−π/2, π/2]: exactly one nodal plane lies in the Tape slip range -/
theorem aux_rake_outside {s d r : ℝ} (hd0 : 0 < d) (hd1 : d < π / 2) (hr : |r| < π / 2) :
    π / 2 < |(fpToSdr (sdrVec1 s d r) (sdrVec2 s d)).2.2| := by
  sorry

/-- right inverse: the angles returned for a unit normal `n` (pointing up, `n.z < 0`, not
    vertical) and a unit slip vector perpendicular to it reproduce `n` and the slip vector -/
theorem sdrVecs_of_fpToSdr (n sl : V3 ℝ) (hn : V3.dot n n = 1) (hs : V3.dot sl sl = 1) (hp : V3.dot n sl = 0)
    (hz : n.z < 0) (hxy : n.x ≠ 0 ∨ n.y ≠ 0) :
    let p := fpToSdr n sl
    sdrVec2 p.1 p.2.1 = n ∧ sdrVec1 p.1 p.2.1 p.2.2 = sl := by
  sorry

/-- the auxiliary-plane conversion is an involution and both planes give the same tensor
    (generic planes: `0 < dip < π/2`, rake not a multiple of π/2·… see hypotheses) -/
theorem sdrToSdr_involutive {s d r : ℝ} (hs0 : 0 ≤ s) (hs1 : s < 2 * π) (hd0 : 0 < d) (hd1 : d < π / 2)
    (hr0 : -π < r) (hr1 : r < π) (hr : r ≠ 0) :
    let a := sdrToSdr s d r
    sdrToSdr a.1 a.2.1 a.2.2 = (s, d, r) ∧
    dcTensor (sdrVec2 a.1 a.2.1) (sdrVec1 a.1 a.2.1 a.2.2) = dcTensor (sdrVec2 s d) (sdrVec1 s d r) := by
  sorry

end MTfitVerif.C13
