import MTfitVerif.Model.Convert
import MTfitVerif.Real.Inst
/-
  C12 — Tape-parameter and six-vector descriptions of a source are mutually inverse.
-/
namespace MTfitVerif.C12
open MTfitVerif MTfitVerif.Convert Real

/-- Frobenius norm squared of a symmetric tensor -/
def frob2 (m : Sym3 ℝ) : ℝ := m.xx^2 + m.yy^2 + m.zz^2 + 2 * (m.xy^2 + m.xz^2 + m.yz^2)

/-- the six-vector has the Frobenius norm of the tensor: the conversion preserves the tensor up to
    normalisation, and is the identity on unit tensors -/
theorem mt6_of_mt33_of_unit (m : Sym3 ℝ) (h : frob2 m = 1) : mt6ToMt33 (mt33ToMt6 m) = m := by
  sorry

theorem mt33_of_mt6_of_unit (v : V6 ℝ) (h : v.a^2 + v.b^2 + v.c^2 + v.d^2 + v.e^2 + v.f^2 = 1) :
    mt33ToMt6 (mt6ToMt33 v) = v := by
  sorry

/-- the six-vector produced always has unit norm (non-zero tensor) -/
theorem mt33ToMt6_unit (m : Sym3 ℝ) (h : frob2 m ≠ 0) :
    let v := mt33ToMt6 m
    v.a^2 + v.b^2 + v.c^2 + v.d^2 + v.e^2 + v.f^2 = 1 := by
  sorry

/-- eigenvalues from lune coordinates have unit norm … -/
theorem gdToE_unit (γ δ : ℝ) : (gdToE γ δ).x^2 + (gdToE γ δ).y^2 + (gdToE γ δ).z^2 = 1 := by
  sorry

/-- … and are ordered from largest to smallest on the fundamental lune -/
theorem gdToE_sorted {γ δ : ℝ} (hγ : |γ| ≤ π / 6) (hδ : |δ| ≤ π / 2) :
    (gdToE γ δ).z ≤ (gdToE γ δ).y ∧ (gdToE γ δ).y ≤ (gdToE γ δ).x := by
  sorry

/-- a double-couple (eigenvalues proportional to (1, 0, −1)) maps to zero longitude and latitude,
    and `(γ, δ) = (0, 0)` gives exactly the double-couple pattern -/
theorem dc_maps_to_zero {k : ℝ} (hk : 0 < k) : eToGd ⟨k, 0, -k⟩ = (0, 0) := by
  sorry

theorem zero_is_dc : gdToE 0 0 = ⟨1 / √2, 0, -(1 / √2)⟩ := by
  sorry

/-- lune coordinates always lie in their documented ranges -/
theorem eToGd_range (e : V3 ℝ) :
    |(eToGd e).1| ≤ π / 6 ∧ |(eToGd e).2| ≤ π / 2 := by
  sorry

/-- lune coordinates invert the eigenvalue map away from the isotropic poles -/
theorem eToGd_gdToE {γ δ : ℝ} (hγ : |γ| ≤ π / 6) (hδ : |δ| < π / 2) : eToGd (gdToE γ δ) = (γ, δ) := by
  sorry

/-- at the poles the latitude is recovered and the longitude is reported as 0 -/
theorem eToGd_gdToE_pole (γ : ℝ) : eToGd (gdToE γ (π / 2)) = (0, π / 2) ∧ eToGd (gdToE γ (-(π / 2))) = (0, -(π / 2)) := by
  sorry

/-- the tensor built from in-domain Tape parameters has unit Frobenius norm, so its six-vector is
    not rescaled and has unit norm -/
theorem tapeToMt33_unit (γ δ κ σ : ℝ) {h : ℝ} (hh : -1 ≤ h ∧ h ≤ 1) : frob2 (tapeToMt33 γ δ κ h σ) = 1 := by
  sorry

/-- parameters → tensor → parameters, given the eigen-decomposition the tensor was built from
    (axes up to the solver's sign freedom are handled by `tnpToSdr`'s normalisation): the source-type
    pair is recovered exactly -/
theorem eigToTape_source_type {γ δ : ℝ} (hγ : |γ| ≤ π / 6) (hδ : |δ| < π / 2) (T P : V3 ℝ) :
    (eigToTape T P (gdToE γ δ)).1 = γ ∧ (eigToTape T P (gdToE γ δ)).2.1 = δ := by
  sorry

/-- the returned dip cosine and slip always lie in the Tape ranges when the slip switch fires
    correctly: `h ∈ [0,1]` -/
theorem eigToTape_h_range (T P e : V3 ℝ) :
    0 ≤ (eigToTape T P e).2.2.2.1 ∧ (eigToTape T P e).2.2.2.1 ≤ 1 := by
  sorry

end MTfitVerif.C12
