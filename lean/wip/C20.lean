import MTfitVerif.Model.PyxKernels
import MTfitVerif.Model.Polarity
import MTfitVerif.Model.RatioPdf
import MTfitVerif.Model.Acceptance
import MTfitVerif.Model.Convert
import MTfitVerif.Model.MultiEvent
import MTfitVerif.Real.Inst
/-
  C20 — the scalar kernels of the compiled extensions (translated from the .pyx sources on every
  run, `Model/PyxKernels.lean`) compute the same real functions as the models of the pure-Python
  paths (which are tied to the Python code by the correspondence runs of C02, C03, C05, C12–C15).
  Property theorems only; helper lemmas live in `Real/PyxLemmas.lean`.
-/
namespace MTfitVerif.C20
open MTfitVerif MTfitVerif.Convert

/-! ### probability kernels (cprobability.pyx) -/

theorem gaussian_pdf_eq (x μ s : ℝ) (hs : 0 < s) :
    Pyx.cprobability.gaussian_pdf x μ s = Acceptance.gaussPdf x μ s := by
  sorry

theorem gaussian_cdf_eq (x μ s : ℝ) (hs : 0 < s) :
    Pyx.cprobability.gaussian_cdf x μ s = Acceptance.gaussCdf x μ s := by
  sorry

/-- manual-polarity likelihood of one station -/
theorem pol_pdf_eq (x s w : ℝ) (hs : 0 < s) :
    Pyx.cprobability.pol_pdf x s w = Polarity.polProbRaw x s w := by
  sorry

/-- polarity-probability likelihood of one station; at an amplitude of exactly zero the compiled
    kernel returns 1/2 whatever the pick probabilities, the Python path `(p + n)/2` -/
theorem pol_prob_pdf_eq (x p n w : ℝ) (h : x ≠ 0 ∨ p + n = 1) :
    Pyx.cprobability.pol_prob_pdf x p n w = Polarity.polProbP x p n w := by
  sorry

/-- amplitude-ratio likelihood of one station (modelled amplitudes of either sign) -/
theorem ar_pdf_eq (z μx μy px py : ℝ) (hx : μx ≠ 0) (hy : μy ≠ 0) (hpx : 0 < px) (hpy : 0 < py) :
    Pyx.cprobability.ar_pdf z μx μy px py = RatioPdf.arPdf z μx μy px py := by
  sorry

/-- inverse-variance combination step -/
theorem combine_eq (m₁ m₂ s₁ s₂ : ℝ) :
    (Pyx.cprobability.combine_mu m₁ m₂ s₁ s₂, Pyx.cprobability.combine_s s₁ s₂) =
      MultiEvent.combineStep (m₁, s₁) (m₂, s₂) := by
  sorry

/-- per-station scale estimate -/
theorem estimate_scale_eq (x y μx μy px py a b : ℝ) (hx : μx ≠ 0) (hy : μy ≠ 0) (hpx : 0 < px) (hpy : 0 < py)
    (hxy : x / y ≠ 0) :
    Pyx.cprobability.estimate_scale_mu_s x y μx μy px py a b =
      MultiEvent.stationScale |x / y| |μx| |μy| px py := by
  sorry

/-! ### Markov-chain kernels (cmarkov_chain_monte_carlo.pyx) -/

theorem mcmc_gaussian_pdf_eq (x μ s : ℝ) (hs : 0 < s) :
    Pyx.cmcmc.gaussian_pdf x μ s = Acceptance.gaussPdf x μ s := by
  sorry

theorem mcmc_gaussian_cdf_eq (x μ s : ℝ) (hs : 0 < s) :
    Pyx.cmcmc.gaussian_cdf x μ s = Acceptance.gaussCdf x μ s := by
  sorry

/-- the proposal ratio of the compiled acceptance test is the ratio of the Python transition
    densities `q(x₀ | x) / q(x | x₀)` for a full-tensor move (the symmetric Gaussian factors cancel,
    the truncation normalisers remain) -/
theorem transition_ratio_mt_eq (x x₀ : Acceptance.Tape ℝ) (w : Acceptance.Widths ℝ)
    (hw : 0 < w.gamma ∧ 0 < w.delta ∧ 0 < w.h ∧ 0 < w.sigma)
    (hmt : ¬(x.gamma = 0 ∧ x.delta = 0 ∧ x₀.gamma = 0 ∧ x₀.delta = 0)) :
    Pyx.cmcmc.gaussian_transition_ratio x.gamma x.delta x.h x.sigma x₀.gamma w.gamma x₀.delta w.delta x₀.h w.h x₀.sigma w.sigma =
      Acceptance.transPdf false w x₀ x / Acceptance.transPdf false w x x₀ := by
  sorry

/-- the same for a double-couple move -/
theorem transition_ratio_dc_eq (x x₀ : Acceptance.Tape ℝ) (w : Acceptance.Widths ℝ)
    (hw : 0 < w.h ∧ 0 < w.sigma)
    (hdc : x.gamma = 0 ∧ x.delta = 0 ∧ x₀.gamma = 0 ∧ x₀.delta = 0) :
    Pyx.cmcmc.gaussian_transition_ratio x.gamma x.delta x.h x.sigma x₀.gamma w.gamma x₀.delta w.delta x₀.h w.h x₀.sigma w.sigma =
      Acceptance.transPdf true w x₀ x / Acceptance.transPdf true w x x₀ := by
  sorry

/-- prior ratio of two full-tensor states under the uniform-on-the-sphere prior (lune latitude in
    the open interval) -/
theorem uniform_prior_ratio_mt_eq (x x₀ : Acceptance.Tape ℝ)
    (hx : ¬(x.gamma = 0 ∧ x.delta = 0)) (hx₀ : ¬(x₀.gamma = 0 ∧ x₀.delta = 0))
    (hd : -(Real.pi / 2) < x.delta ∧ x.delta < Real.pi / 2) (hd₀ : -(Real.pi / 2) < x₀.delta ∧ x₀.delta < Real.pi / 2)
    (hc₀ : Real.cos (3 * x₀.gamma) ≠ 0) :
    Pyx.cmcmc.uniform_prior_ratio x.gamma x.delta x₀.gamma x₀.delta =
      Acceptance.uniformPrior false x / Acceptance.uniformPrior false x₀ := by
  sorry

theorem flat_prior_ratio_eq (x x₀ : Acceptance.Tape ℝ) :
    Pyx.cmcmc.flat_prior_ratio x.gamma x.delta x₀.gamma x₀.delta =
      Acceptance.flatPrior false x / Acceptance.flatPrior false x₀ := by
  sorry

/-- density of the dimension-balancing draw -/
theorem gaussian_jump_prob_eq (x : Acceptance.Tape ℝ) (w : Acceptance.Widths ℝ) (hw : 0 < w.gammaDc ∧ 0 < w.deltaDc) :
    Pyx.cmcmc.gaussian_jump_prob x.gamma x.delta w.gammaDc w.deltaDc w.propNorm = Acceptance.jumpQ w x := by
  sorry

/-! ### conversion kernels (cmoment_tensor_conversion.pyx) -/

/-- lune coordinates of a sorted eigenvalue triple (the compiled kernel leaves its outputs
    untouched for the zero tensor) -/
theorem cE_gd_eq (e : V3 ℝ) (hs : e.z ≤ e.y ∧ e.y ≤ e.x) (h0 : ¬(e.x = 0 ∧ e.y = 0 ∧ e.z = 0)) (g d : ℝ) :
    Pyx.cconvert.cE_gd [e.x, e.y, e.z] g d = eToGd e := by
  sorry

/-- Hudson τ, k: the kernel writes `k` to cell 5 and `τ` to cell 6 -/
theorem cE_tk_eq (e : V3 ℝ) (res : List ℝ) :
    Pyx.cconvert.cE_tk [e.x, e.y, e.z] res = ((eToTk e).2, (eToTk e).1) := by
  sorry

/-- Hudson u, v from cells 5 (`k`) and 6 (`τ`) -/
theorem ctk_uv_eq (τ k : ℝ) (a0 a1 a2 a3 a4 : ℝ) :
    Pyx.cconvert.ctk_uv [a0, a1, a2, a3, a4, k, τ] = tkToUv τ k := by
  sorry

end MTfitVerif.C20
