import MTfitVerif.Model.PostProc
import MTfitVerif.Real.Inst
/-
  C19 — result post-processing (statistics, projections) is consistent with the samples.
-/
namespace MTfitVerif.C19
open MTfitVerif MTfitVerif.PostProc Real

/-- indexing keeps tensors, probabilities and converted parameters aligned: selecting from the
    zipped container is zipping the selections -/
theorem select_aligned {β γ : Type} (l₁ : List β) (l₂ : List γ) (h : l₁.length = l₂.length) (idx : List Nat)
    (r₁ : List β) (r₂ : List γ) (h₁ : select l₁ idx = some r₁) (h₂ : select l₂ idx = some r₂) :
    select (List.zip l₁ l₂) idx = some (List.zip r₁ r₂) := by
  sorry

theorem select_length {β : Type} (l : List β) (idx : List Nat) (r : List β) (h : select l idx = some r) :
    r.length = idx.length ∧ ∀ k (hk : k < idx.length), r[k]? = l[idx[k]]? := by
  sorry

/-- the mean is the probability-weighted average: it lies between the smallest and largest value
    of every component, reproduces a constant component, and ignores a common rescaling of the
    probabilities -/
theorem wmean_const (ps : List ℝ) (v : ℝ) (hpos : 0 < ps.sum) : wmean ps (ps.map fun _ => v) = v := by
  sorry

theorem wmean_scale (ps ms : List ℝ) {k : ℝ} (hk : k ≠ 0) : wmean (ps.map (k * ·)) ms = wmean ps ms := by
  sorry

theorem wmean_bounds (ps ms : List ℝ) (hlen : ps.length = ms.length) (hp : ∀ p ∈ ps, 0 ≤ p) (hpos : 0 < ps.sum)
    (lo hi : ℝ) (hlo : ∀ m ∈ ms, lo ≤ m) (hhi : ∀ m ∈ ms, m ≤ hi) : lo ≤ wmean ps ms ∧ wmean ps ms ≤ hi := by
  sorry

/-- the maximum-probability selection returns exactly the samples attaining the maximum -/
theorem maxProbIdx_spec (ps : List ℝ) (i : Nat) :
    i ∈ maxProbIdx ps ↔ i < ps.length ∧ ∀ j, j < ps.length → ps.getD j 0 ≤ ps.getD i 0 := by
  sorry

theorem maxProbIdx_nonempty (ps : List ℝ) (h : ps ≠ []) : maxProbIdx ps ≠ [] := by
  sorry

/-- collapsing a chain to unique samples: every distinct tensor appears exactly once, in sorted
    order, with its multiplicity; the counts add up to the chain length -/
theorem uniqueCounts_sorted (l : List Nat) : ((uniqueCounts l).map (·.1)).Pairwise (· < ·) := by
  sorry

theorem uniqueCounts_count (l : List Nat) (x : Nat) :
    ((uniqueCounts l).lookup x).getD 0 = l.count x ∧ (x ∈ (uniqueCounts l).map (·.1) ↔ x ∈ l) := by
  sorry

theorem uniqueCounts_sum (l : List Nat) : ((uniqueCounts l).map (·.2)).sum = l.length := by
  sorry

/-! ### projections of a unit vector at angle `t` from the downward axis (`z = cos t`) -/

/-- equal-area (Lambert) projection: radius `2 sin(t/2)` -/
theorem equal_area_radius {x y z : ℝ} (hu : x^2 + y^2 + z^2 = 1) (hz : 0 ≤ z) (X Y : ℝ)
    (h : project true true false false x y z = some (X, Y)) :
    X^2 + Y^2 = 2 * (1 - z) ∧ (∀ t, z = Real.cos t → X^2 + Y^2 = (2 * Real.sin (t / 2))^2) := by
  sorry

/-- equal-angle (stereographic) projection: radius `tan(t/2)` -/
theorem equal_angle_radius {x y z : ℝ} (hu : x^2 + y^2 + z^2 = 1) (hz : 0 ≤ z) (X Y : ℝ)
    (h : project false true false false x y z = some (X, Y)) :
    X^2 + Y^2 = (1 - z) / (1 + z) ∧ (∀ t, z = Real.cos t → 0 ≤ t → t ≤ π / 2 → X^2 + Y^2 = (Real.tan (t / 2))^2) := by
  sorry

/-- both projections preserve azimuth: the image is a positive multiple of `(x, y)` -/
theorem projection_preserves_azimuth (area : Bool) {x y z : ℝ} (hz : 0 ≤ z) (X Y : ℝ)
    (h : project area true false false x y z = some (X, Y)) : ∃ k : ℝ, 0 < k ∧ X = k * x ∧ Y = k * y := by
  sorry

/-- an upper-hemisphere vector is shown at its antipode (with back-projection) or not at all -/
theorem upper_hemisphere_antipode_or_hidden (area : Bool) {x y z : ℝ} (hz : z < 0) :
    project area true false false x y z = none ∧
    project area true false true x y z = project area true false false (-x) (-y) (-z) := by
  sorry

/-- lower-hemisphere vectors are always shown -/
theorem lower_hemisphere_shown (area bp : Bool) {x y z : ℝ} (hz : 0 ≤ z) :
    (project area true false bp x y z).isSome = true := by
  sorry

end MTfitVerif.C19
