import MTfitVerif.Model.Convert
import MTfitVerif.Model.Potency
import MTfitVerif.Real.Inst
/-
  C14 — eigen-decomposition and source-type coordinates are faithful and scale-free.
  (That NumPy's symmetric eigen-solver returns real, orthonormal, ordered axes that rebuild the
  tensor is an external assumption checked on its outputs in every run.)
-/
namespace MTfitVerif.C14
open MTfitVerif MTfitVerif.Convert MTfitVerif.Potency Real

def smul3 (k : ℝ) (e : V3 ℝ) : V3 ℝ := ⟨k * e.x, k * e.y, k * e.z⟩

/-- descending sort: result is ordered and is a rearrangement of the input -/
theorem sort3_sorted (e : V3 ℝ) : (sort3 e).z ≤ (sort3 e).y ∧ (sort3 e).y ≤ (sort3 e).x := by
  sorry

theorem sort3_perm (e : V3 ℝ) : [(sort3 e).x, (sort3 e).y, (sort3 e).z].Perm [e.x, e.y, e.z] := by
  sorry

/-- sorting does not depend on the order of the input -/
theorem sort3_order_inv (a b cc : ℝ) :
    sort3 ⟨a, b, cc⟩ = sort3 ⟨b, a, cc⟩ ∧ sort3 ⟨a, b, cc⟩ = sort3 ⟨a, cc, b⟩ ∧ sort3 ⟨a, b, cc⟩ = sort3 ⟨cc, b, a⟩ := by
  sorry

/-- an orthonormal eigen-system rebuilds its tensor: `(Σ eᵢ vᵢvᵢᵀ) vⱼ = eⱼ vⱼ` -/
theorem rebuild_eigen (T N P e : V3 ℝ) (hT : V3.dot T T = 1) (hN : V3.dot N N = 1) (hP : V3.dot P P = 1)
    (hTN : V3.dot T N = 0) (hTP : V3.dot T P = 0) (hNP : V3.dot N P = 0) :
    let m := rebuild T N P e
    (⟨m.xx * T.x + m.xy * T.y + m.xz * T.z, m.xy * T.x + m.yy * T.y + m.yz * T.z, m.xz * T.x + m.yz * T.y + m.zz * T.z⟩ : V3 ℝ)
      = smul3 e.x T := by
  sorry

/-- lune coordinates depend only on the eigenvalue ratios: unchanged by positive scaling … -/
theorem eToGd_scale_inv (e : V3 ℝ) {k : ℝ} (hk : 0 < k) : eToGd (smul3 k e) = eToGd e := by
  sorry

/-- … and by the order in which the eigenvalues are given -/
theorem eToGd_order_inv (a b cc : ℝ) :
    eToGd ⟨a, b, cc⟩ = eToGd ⟨b, a, cc⟩ ∧ eToGd ⟨a, b, cc⟩ = eToGd ⟨a, cc, b⟩ := by
  sorry

/-- Hudson coordinates of the sorted spectrum: scale invariance -/
theorem hudson_scale_inv (e : V3 ℝ) {k : ℝ} (hk : 0 < k) :
    eToTk (sort3 (smul3 k e)) = eToTk (sort3 e) := by
  sorry

/-- Hudson coordinates of the special sources: double-couple at (0,0), isotropic at (0,±1),
    CLVD at (∓1, 0) -/
theorem hudson_special_points :
    tkToUv (eToTk (⟨1, 0, -1⟩ : V3 ℝ)).1 (eToTk (⟨1, 0, -1⟩ : V3 ℝ)).2 = (0, 0) ∧
    tkToUv (eToTk (⟨1, 1, 1⟩ : V3 ℝ)).1 (eToTk (⟨1, 1, 1⟩ : V3 ℝ)).2 = (0, 1) ∧
    tkToUv (eToTk (⟨-1, -1, -1⟩ : V3 ℝ)).1 (eToTk (⟨-1, -1, -1⟩ : V3 ℝ)).2 = (0, -1) ∧
    tkToUv (eToTk (⟨2, -1, -1⟩ : V3 ℝ)).1 (eToTk (⟨2, -1, -1⟩ : V3 ℝ)).2 = (-1, 0) ∧
    tkToUv (eToTk (⟨1, 1, -2⟩ : V3 ℝ)).1 (eToTk (⟨1, 1, -2⟩ : V3 ℝ)).2 = (1, 0) := by
  sorry

/-- Hudson coordinates of any sorted, non-zero spectrum lie in `|u| ≤ 4/3`, `|v| ≤ 1` -/
theorem hudson_bounds (e : V3 ℝ) (h1 : e.y ≤ e.x) (h2 : e.z ≤ e.y) (hne : e.x ≠ 0 ∨ e.z ≠ 0) :
    |(tkToUv (eToTk e).1 (eToTk e).2).1| ≤ 4 / 3 ∧ |(tkToUv (eToTk e).1 (eToTk e).2).2| ≤ 1 := by
  sorry

/-- crack + double-couple parameters → lune coordinates → parameters is the identity on
    `[0, π/2) × (−1, 1/2)` -/
theorem cdc_roundtrip {a ν : ℝ} (ha0 : 0 ≤ a) (ha1 : a < π / 2) (hν0 : -1 < ν) (hν1 : ν < 1 / 2) :
    gdToCdc (cdcToGd a ν).1 (cdcToGd a ν).2 = (a, ν) := by
  sorry

/-- at an opening angle of exactly π/2 the source is the pure double-couple whatever the Poisson
    ratio, and the opening angle is recovered -/
theorem cdc_at_pi_div_two (ν : ℝ) : cdcToGd (π / 2) ν = (0, 0) ∧ (gdToCdc 0 0).1 = π / 2 := by
  sorry

/-! ### potency tensor -/

/-- the index permutation between six-vector and Voigt order is an involution -/
theorem perm_involutive (v : List ℝ) (h : v.length = 6) : perm (perm v) = v := by
  sorry

/-- the stiffness matrix is symmetric -/
theorem cvoigt_symmetric (cc : List ℝ) (i j : Nat) (hi : i < 6) (hj : j < 6) :
    ((cvoigt cc).getD i []).getD j 0 = ((cvoigt cc).getD j []).getD i 0 := by
  sorry

/-- converting a moment tensor to a potency tensor inverts multiplication by the stiffness matrix:
    `C · D = M` for every stiffness tensor for which the linear solver returns a solution -/
theorem mt6cToD6_inverts (solve : List (List ℝ) → List ℝ → List ℝ) (cc m : List ℝ) (hm : m.length = 6)
    (hsolve : matVec (cvoigt cc) (solve (cvoigt cc) (perm m)) = perm m)
    (hlen : (solve (cvoigt cc) (perm m)).length = 6) :
    matVec (cvoigt cc) (perm (mt6cToD6 solve cc m)) = perm m := by
  sorry

/-- isotropic stiffness acts as `M = λ tr(D) I + 2μ D` -/
theorem isotropic_apply (l mu d0 d1 d2 d3 d4 d5 : ℝ) :
    matVec (cvoigt (isotropicC l mu)) [d0, d1, d2, d3, d4, d5]
      = [l * (d0 + d1 + d2) + 2 * mu * d0, l * (d0 + d1 + d2) + 2 * mu * d1, l * (d0 + d1 + d2) + 2 * mu * d2,
         2 * mu * d3, 2 * mu * d4, 2 * mu * d5] := by
  sorry

end MTfitVerif.C14
