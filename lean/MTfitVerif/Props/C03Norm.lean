import MTfitVerif.Props.C03Integral
import MTfitVerif.Real.RatioNormLemmas
/-
  C03 (normalisation) — Hinkley's closed form `ratioPdf` is a probability density on `ℝ`, and the
  amplitude-ratio likelihood `arPdf` is a probability density on `(0, ∞)` (the density of `|X/Y|`).
  Helpers in `Real/RatioNormLemmas.lean`.
-/
namespace MTfitVerif.C03
open MTfitVerif RatioPdf Real MeasureTheory

theorem gaussDensity_eq_gd (x μ σ : ℝ) : gaussDensity x μ σ = RatioNorm.gd x μ σ := rfl

/-- the Gaussian density integrates to one -/
theorem gaussDensity_integral_eq_one (μ : ℝ) {σ : ℝ} (hσ : 0 < σ) :
    ∫ x : ℝ, gaussDensity x μ σ = 1 :=
  RatioNorm.integral_gd hσ μ

/-- inner integral of the Fubini swap: `∫ |y| φ(z y; μ, σ) dz = 1` for `y ≠ 0` -/
theorem integral_abs_mul_gaussDensity_comp_mul (μ : ℝ) {σ : ℝ} (hσ : 0 < σ) {y : ℝ} (hy : y ≠ 0) :
    ∫ z : ℝ, |y| * gaussDensity (z * y) μ σ = 1 :=
  RatioNorm.integral_abs_mul_gd_comp_mul hσ μ hy

/-- `ratioPdf` as the `y`-integral of the planar kernel -/
theorem ratioPdf_eq_integral_kernel (z μx μy : ℝ) {σx σy : ℝ} (hx : 0 < σx) (hy : 0 < σy) :
    ratioPdf z μx μy σx σy = ∫ y : ℝ, RatioNorm.kernel μx μy σx σy (z, y) :=
  ratioPdf_eq_integral z μx μy hx hy

/-- the closed-form ratio density is integrable over the line -/
theorem ratioPdf_integrable (μx μy : ℝ) {σx σy : ℝ} (hx : 0 < σx) (hy : 0 < σy) :
    Integrable fun z : ℝ => ratioPdf z μx μy σx σy := by
  have h : (fun z : ℝ => ratioPdf z μx μy σx σy)
      = fun z : ℝ => ∫ y : ℝ, RatioNorm.kernel μx μy σx σy (z, y) :=
    funext fun z => ratioPdf_eq_integral_kernel z μx μy hx hy
  rw [h]
  exact RatioNorm.integrable_integral_kernel μx μy hx hy

/-- **the closed-form ratio density is normalised** -/
theorem ratioPdf_integral_eq_one (μx μy : ℝ) {σx σy : ℝ} (hx : 0 < σx) (hy : 0 < σy) :
    ∫ z : ℝ, ratioPdf z μx μy σx σy = 1 := by
  have h : (fun z : ℝ => ratioPdf z μx μy σx σy)
      = fun z : ℝ => ∫ y : ℝ, RatioNorm.kernel μx μy σx σy (z, y) :=
    funext fun z => ratioPdf_eq_integral_kernel z μx μy hx hy
  rw [h]
  exact RatioNorm.integral_integral_kernel μx μy hx hy

/-- **the amplitude-ratio likelihood is a normalised density in the observed ratio `r > 0`**
    (for non-zero modelled amplitudes; any fractional errors, `0` being replaced by `1e-24`) -/
theorem arPdf_integral_Ioi_eq_one {μx μy : ℝ} (hμx : μx ≠ 0) (hμy : μy ≠ 0) (px py : ℝ) :
    ∫ r in Set.Ioi (0:ℝ), arPdf r μx μy px py = 1 := by
  have hx : 0 < errFix px * |μx| := mul_pos (errFix_pos px) (abs_pos.mpr hμx)
  have hy : 0 < errFix py * |μy| := mul_pos (errFix_pos py) (abs_pos.mpr hμy)
  have h : (fun r : ℝ => arPdf r μx μy px py)
      = fun r : ℝ => ratioPdf r |μx| |μy| (errFix px * |μx|) (errFix py * |μy|)
          + ratioPdf (-r) |μx| |μy| (errFix px * |μx|) (errFix py * |μy|) := by
    funext r
    rw [arPdf_eq, if_neg (by simp [hμx, hμy])]
  rw [h, RatioNorm.integral_Ioi_add_comp_neg (ratioPdf_integrable |μx| |μy| hx hy)]
  exact ratioPdf_integral_eq_one |μx| |μy| hx hy

end MTfitVerif.C03
