import MTfitVerif.Model.PyxKernels
import MTfitVerif.Model.Convert
import MTfitVerif.Real.Inst
import MTfitVerif.Real.PyxTapeLemmas
/-
  C20 — the compiled Tape → six-vector kernel (`cTape_MT6`, translated from the .pyx source on every run)
  computes the same six-vector as the model of the Python path (`tapeToMt6`, tied to `Tape_MT6` by C12).
-/
namespace MTfitVerif.C20
open MTfitVerif MTfitVerif.Convert MTfitVerif.PyxTape

/-- for every lune position, strike, dip cosine in [0, 1] and slip angle the compiled kernel returns the components of the
    Python-path six-vector (the previous content of the output cells is irrelevant) -/
theorem cTape_MT6_eq (γ δ κ h σ : ℝ) (hh : 0 ≤ h ∧ h ≤ 1) (m0 m1 m2 m3 m4 m5 : ℝ) :
    Pyx.cconvert.cTape_MT6 γ δ κ h σ m0 m1 m2 m3 m4 m5 =
      ((tapeToMt6 γ δ κ h σ).a, (tapeToMt6 γ δ κ h σ).b, (tapeToMt6 γ δ κ h σ).c,
       (tapeToMt6 γ δ κ h σ).d, (tapeToMt6 γ δ κ h σ).e, (tapeToMt6 γ δ κ h σ).f) := by
  have hh' : -1 ≤ h ∧ h ≤ 1 := ⟨by linarith [hh.1], hh.2⟩
  rw [cTape_MT6_unfold, tapeKer_eq _ _ _ (dot_tK κ σ hh') (dot_pK κ σ hh'), tapeToMt6_eq,
    tapeToMt33_eq γ δ κ σ hh']

end MTfitVerif.C20
