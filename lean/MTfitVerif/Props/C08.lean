import MTfitVerif.Model.RandomMT
import MTfitVerif.Real.Inst
import MTfitVerif.Real.RandomMTLemmas
import MTfitVerif.Props.C12
import MTfitVerif.Props.C14
/-
  C08 — random source sampling draws from the stated prior (algebraic half: unit norm,
  equivariance, orthonormal triad, eigenvalue pattern; Haar uniformity and independence follow
  from rotation invariance of the Gaussian and are tested statistically).
-/
namespace MTfitVerif.C08
open MTfitVerif MTfitVerif.Convert MTfitVerif.RandomMT MTfitVerif.ConvertSdr Real

def sq6 (v : V6 ℝ) : ℝ := v.a^2 + v.b^2 + v.c^2 + v.d^2 + v.e^2 + v.f^2

theorem sq6_eq_sqs (v : V6 ℝ) : sq6 v = sqs v := by
  simp only [sq6, sqs]; ring

/-- every sampled full moment tensor is a unit six-vector -/
theorem randomMt_unit (v : V6 ℝ) (h : sq6 v ≠ 0) : sq6 (randomMt v) = 1 := by
  rw [sq6_eq_sqs] at h
  have hn : v.norm ≠ 0 := (v6_norm_pos h).ne'
  have hn2 : v.norm ^ 2 = sqs v := v6_norm_sq
  rw [randomMt_eq]
  simp only [sq6, div_pow, hn2]
  rw [← add_div, ← add_div, ← add_div, ← add_div, ← add_div]
  have : v.a ^ 2 + v.b ^ 2 + v.c ^ 2 + v.d ^ 2 + v.e ^ 2 + v.f ^ 2 = sqs v := sq6_eq_sqs v
  rw [this, div_self h]

/-- the sample depends on the draw only through its direction -/
theorem randomMt_scale (v : V6 ℝ) {k : ℝ} (hk : 0 < k) :
    randomMt ⟨k * v.a, k * v.b, k * v.c, k * v.d, k * v.e, k * v.f⟩ = randomMt v := by
  rw [randomMt_eq, randomMt_eq, v6_norm_scale v hk]
  simp only [mul_div_mul_left _ _ hk.ne']

/-- equivariance: normalising commutes with every linear, norm-preserving map `Q` of six-space
    (with rotation invariance of the i.i.d. Gaussian this is uniformity on the 6-sphere) -/
theorem randomMt_equivariant (Q : V6 ℝ → V6 ℝ)
    (hlin : ∀ (k : ℝ) (v : V6 ℝ), Q ⟨v.a / k, v.b / k, v.c / k, v.d / k, v.e / k, v.f / k⟩
        = ⟨(Q v).a / k, (Q v).b / k, (Q v).c / k, (Q v).d / k, (Q v).e / k, (Q v).f / k⟩)
    (hnorm : ∀ v : V6 ℝ, (Q v).norm = v.norm) (v : V6 ℝ) :
    randomMt (Q v) = Q (randomMt v) := by
  rw [randomMt_eq, randomMt_eq, hnorm, hlin]

/-- the random triad is orthonormal whenever the draws are not degenerate -/
theorem triad_orthonormal (araw x : V3 ℝ) (ha : V3.dot araw araw ≠ 0)
    (hx : V3.dot (V3.cross araw.unit x) (V3.cross araw.unit x) ≠ 0) :
    let a := (triad araw x).1; let b := (triad araw x).2.1; let cc := (triad araw x).2.2
    V3.dot a a = 1 ∧ V3.dot b b = 1 ∧ V3.dot cc cc = 1 ∧ V3.dot a b = 0 ∧ V3.dot a cc = 0 ∧ V3.dot b cc = 0 := by
  simp only [triad_eq]
  have haa : V3.dot araw.unit araw.unit = 1 := dot_unit_unit ha
  have hbb : V3.dot (V3.cross araw.unit x).unit (V3.cross araw.unit x).unit = 1 := dot_unit_unit hx
  have hab : V3.dot araw.unit (V3.cross araw.unit x).unit = 0 := by
    rw [dot_unit_right, dot_cross_left, zero_div]
  obtain ⟨hcu, hcc⟩ := cross_orthonormal haa hbb hab
  rw [hcu]
  exact ⟨haa, hbb, hcc, hab, dot_cross_left _ _, dot_cross_right _ _⟩

/-- Frobenius norm² of `Σ eₖ vₖvₖᵀ` for an orthonormal triad is the norm² of the eigenvalues -/
theorem rebuild_frob2 (diag a b cc : V3 ℝ) (ha : V3.dot a a = 1) (hb : V3.dot b b = 1) (hc : V3.dot cc cc = 1)
    (hab : V3.dot a b = 0) (hac : V3.dot a cc = 0) (hbc : V3.dot b cc = 0) :
    C12.frob2 (rebuild a b cc diag) = diag.x^2 + diag.y^2 + diag.z^2 := by
  unfold C12.frob2
  rw [lune_rebuild_frob, ha, hb, hc, hab, hac, hbc]
  ring

/-- Frobenius norm of `Σ eₖ vₖvₖᵀ` for an orthonormal triad is the norm of the eigenvalues -/
theorem eigvecs_unit (diag a b cc : V3 ℝ) (ha : V3.dot a a = 1) (hb : V3.dot b b = 1) (hc : V3.dot cc cc = 1)
    (hab : V3.dot a b = 0) (hac : V3.dot a cc = 0) (hbc : V3.dot b cc = 0)
    (hd : diag.x^2 + diag.y^2 + diag.z^2 = 1) : sq6 (eigvecsToMt6 diag a b cc) = 1 := by
  have hf : C12.frob2 (rebuild a b cc diag) = 1 := by
    rw [rebuild_frob2 diag a b cc ha hb hc hab hac hbc, hd]
  exact C12.mt33ToMt6_unit (rebuild a b cc diag) (by rw [hf]; exact one_ne_zero)

theorem dc_pattern : (dcDiag : V3 ℝ).x^2 + (dcDiag : V3 ℝ).y^2 + (dcDiag : V3 ℝ).z^2 = 1 ∧
    (dcDiag : V3 ℝ).x + (dcDiag : V3 ℝ).y + (dcDiag : V3 ℝ).z = 0 ∧ (dcDiag : V3 ℝ).y = 0 := by
  rw [dcDiag_eq]
  refine ⟨?_, by ring, rfl⟩
  simp only [neg_sq, inv_sqrt2_sq]; norm_num

/-- a sampled double-couple has exactly the double-couple eigenvalue pattern: its tensor maps the
    three axes to `(1/√2) a`, `0`, `−(1/√2) c` -/
theorem dc_eigen_pattern (a b cc : V3 ℝ) (ha : V3.dot a a = 1) (hb : V3.dot b b = 1) (hc : V3.dot cc cc = 1)
    (hab : V3.dot a b = 0) (hac : V3.dot a cc = 0) (hbc : V3.dot b cc = 0) :
    let m := mt6ToMt33 (eigvecsToMt6 (dcDiag : V3 ℝ) a b cc)
    let app (v : V3 ℝ) : V3 ℝ := ⟨m.xx * v.x + m.xy * v.y + m.xz * v.z, m.xy * v.x + m.yy * v.y + m.yz * v.z, m.xz * v.x + m.yz * v.y + m.zz * v.z⟩
    app a = V3.smul (1 / √2) a ∧ app b = V3.smul 0 b ∧ app cc = V3.smul (-(1 / √2)) cc := by
  have hf : C12.frob2 (rebuild a b cc (dcDiag : V3 ℝ)) = 1 := by
    rw [rebuild_frob2 _ a b cc ha hb hc hab hac hbc]; exact dc_pattern.1
  have hm : mt6ToMt33 (eigvecsToMt6 (dcDiag : V3 ℝ) a b cc) = rebuild a b cc (dcDiag : V3 ℝ) :=
    C12.mt6_of_mt33_of_unit _ hf
  simp only [hm]
  have h1 := C14.rebuild_eigen a b cc (dcDiag : V3 ℝ) ha hb hc hab hac hbc
  have h2 := C14.rebuild_eigen_N a b cc (dcDiag : V3 ℝ) hb hab hbc
  have h3 := C14.rebuild_eigen_P a b cc (dcDiag : V3 ℝ) hc hac hbc
  simp only at h1 h2 h3
  rw [h1, h2, h3, dcDiag_eq]
  exact ⟨rfl, rfl, rfl⟩

/-- the CLVD pattern has unit norm and zero trace for either sign -/
theorem clvd_pattern (u : ℝ) :
    (clvdDiag u).x^2 + (clvdDiag u).y^2 + (clvdDiag u).z^2 = 1 ∧ (clvdDiag u).x + (clvdDiag u).y + (clvdDiag u).z = 0 ∧
    (clvdDiag u).y = (clvdDiag u).z := by
  by_cases h : (0.5 : ℝ) < u
  · rw [clvdDiag_pos h]
    refine ⟨?_, by ring, rfl⟩
    simp only [neg_sq, inv_sqrt6_sq, two_div_sqrt6_sq]; norm_num
  · rw [clvdDiag_neg h]
    refine ⟨?_, by ring, rfl⟩
    simp only [neg_sq, inv_sqrt6_sq, two_div_sqrt6_sq]; norm_num

end MTfitVerif.C08
