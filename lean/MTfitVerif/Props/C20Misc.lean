import MTfitVerif.Model.PyxKernels
import MTfitVerif.Real.PyxMiscLemmas
/-
  C20D, part A — the remaining array kernels of cprobability.pyx as translated in `Model/PyxKernels.lean`
  (`ln_prod`, `ln_combine`, `ln_multipliers`) and the one-dimensional reductions (`c_ln_normalise`, `c_dkl`,
  `c_dkl_uniform`) compute loop-free expressions, for every scalar type.
-/
set_option linter.unusedVariables false
namespace MTfitVerif.C20
open MTfitVerif MTfitVerif.PyxSpec MTfitVerif.PyxLoop MTfitVerif.PyxRel MTfitVerif.PyxMisc
variable {α : Type} [Add α] [Sub α] [Mul α] [Div α] [Neg α] [Flt α]

/-! ### array kernels -/

/-- the sum over the stations of `p[u, v, w]`, left to right from 0 -/
def lnProdCell (p : Array α) (p_s0 p_s1 p_s2 v w : Nat) : α :=
  (List.range p_s0).foldl (fun acc u => acc + p.getD ((u * p_s1 + v) * p_s2 + w) (c 0)) (c 0)

/-- the whole result of `ln_prod`: a fresh `p_s1 × p_s2` array of zeros whose cells are overwritten, `v` in the outer and `w` in
    the inner loop, with the station sums -/
theorem ln_prod_eq (p : Array α) (p_s0 p_s1 p_s2 : Nat) :
    Pyx.cprobability.ln_prod p p_s0 p_s1 p_s2
      = fillVW (lnProdCell p p_s0 p_s1 p_s2) p_s1 p_s2 (Array.replicate (p_s1 * p_s2) (c 0)) := by
  unfold Pyx.cprobability.ln_prod
  simp only [forIn_range_yield, bind_pure_comp, map_pure, Id.run_pure]
  refine foldl_sim_fst (List.range p_s1) (fun (P : Array α) v => (List.range p_s2).foldl
      (fun (P : Array α) w => P.setIfInBounds (v * p_s2 + w) (lnProdCell p p_s0 p_s1 p_s2 v w)) P)
      (fun _ => True) ?_ trivial
  intro s v _ _
  refine ⟨?_, trivial⟩
  refine foldl_sim_fst (List.range p_s2) _ (fun _ => True) ?_ trivial
  intro s' w _ _
  refine ⟨?_, trivial⟩
  have h := foldl_pair_fst (List.range p_s0)
    (fun (P : Array α) u => P.setIfInBounds (v * p_s2 + w)
      (P.getD (v * p_s2 + w) (c 0) + p.getD ((u * p_s1 + v) * p_s2 + w) (c 0)))
    (fun _ u => u) (s'.1.setIfInBounds (v * p_s2 + w) (c 0)) s'.2.1
  refine h.trans ?_
  rw [foldl_add_cell]
  exact set_set_of_getD s'.1 (v * p_s2 + w) (c 0) (c 0)
    (fun z => (List.range p_s0).foldl (fun acc u => acc + p.getD ((u * p_s1 + v) * p_s2 + w) (c 0)) z)

/-- C20D item 1: cell `[v, w]` of `ln_prod p` is the sum over the stations `u` of `p[u, v, w]`, left to right from 0 -/
theorem ln_prod_cell (p : Array α) (p_s0 p_s1 p_s2 : Nat) {v w : Nat} (hv : v < p_s1) (hw : w < p_s2) :
    (Pyx.cprobability.ln_prod p p_s0 p_s1 p_s2).getD (v * p_s2 + w) (c 0)
      = (List.range p_s0).foldl (fun acc u => acc + p.getD ((u * p_s1 + v) * p_s2 + w) (c 0)) (c 0) := by
  rw [ln_prod_eq]
  exact getD_fillVW _ p_s1 p_s2 _ (c 0) (by simp) hv hw

/-- the whole result of `ln_combine`: the loops run over the shape `s0 × s1` of the first array (`w` outer, `v` inner) and
    read the second array with its own row length `t1`; `t0` is not read -/
theorem ln_combine_eq (ln_p_1 ln_p_2 : Array α) (s0 s1 t0 t1 : Nat) :
    Pyx.cprobability.ln_combine ln_p_1 s0 s1 ln_p_2 t0 t1
      = modifyCells (fun v w z => z + ln_p_2.getD (v * t1 + w) (c 0)) (c 0) s0 s1 ln_p_1 := by
  unfold Pyx.cprobability.ln_combine
  simp only [forIn_range_yield, bind_pure_comp, map_pure, Id.run_pure]
  refine foldl_sim_fst (List.range s1) (fun (P : Array α) w => (List.range s0).foldl
      (fun (P : Array α) v => P.setIfInBounds (v * s1 + w) (P.getD (v * s1 + w) (c 0) + ln_p_2.getD (v * t1 + w) (c 0))) P)
      (fun _ => True) ?_ trivial
  intro s w _ _
  refine ⟨?_, trivial⟩
  exact foldl_pair_fst (List.range s0)
    (fun (P : Array α) v => P.setIfInBounds (v * s1 + w) (P.getD (v * s1 + w) (c 0) + ln_p_2.getD (v * t1 + w) (c 0)))
    (fun _ v => v) s.1 s.2.1

/-- C20D item 2: with room for the `s0 × s1` cells, cell `[v, w]` of `ln_combine` is `ln_p_1[v, w] + ln_p_2[v, w]`, the second
    array indexed with its own row length `t1` -/
theorem ln_combine_cell (ln_p_1 ln_p_2 : Array α) (s0 s1 t0 t1 : Nat) (hsize : s0 * s1 ≤ ln_p_1.size)
    {v w : Nat} (hv : v < s0) (hw : w < s1) :
    (Pyx.cprobability.ln_combine ln_p_1 s0 s1 ln_p_2 t0 t1).getD (v * s1 + w) (c 0)
      = ln_p_1.getD (v * s1 + w) (c 0) + ln_p_2.getD (v * t1 + w) (c 0) := by
  rw [ln_combine_eq]
  exact getD_modifyCells _ (c 0) s0 s1 ln_p_1 hsize hv hw

/-- the same with both arrays of the shape `s0 × s1` -/
theorem ln_combine_cell_same_shape (ln_p_1 ln_p_2 : Array α) (s0 s1 : Nat) (hsize : s0 * s1 ≤ ln_p_1.size)
    {v w : Nat} (hv : v < s0) (hw : w < s1) :
    (Pyx.cprobability.ln_combine ln_p_1 s0 s1 ln_p_2 s0 s1).getD (v * s1 + w) (c 0)
      = ln_p_1.getD (v * s1 + w) (c 0) + ln_p_2.getD (v * s1 + w) (c 0) :=
  ln_combine_cell ln_p_1 ln_p_2 s0 s1 s0 s1 hsize hv hw

/-- the whole result of `ln_multipliers` (`multipliers_s0` is not read) -/
theorem ln_multipliers_eq (ln_p multipliers : Array α) (s0 s1 m0 : Nat) :
    Pyx.cprobability.ln_multipliers ln_p s0 s1 multipliers m0
      = modifyCells (fun v w z => z + Flt.log (multipliers.getD v (c 0))) (c 0) s0 s1 ln_p := by
  unfold Pyx.cprobability.ln_multipliers
  simp only [forIn_range_yield, bind_pure_comp, map_pure, Id.run_pure]
  refine foldl_sim_fst (List.range s1) (fun (P : Array α) w => (List.range s0).foldl
      (fun (P : Array α) v => P.setIfInBounds (v * s1 + w) (P.getD (v * s1 + w) (c 0) + Flt.log (multipliers.getD v (c 0)))) P)
      (fun _ => True) ?_ trivial
  intro s w _ _
  refine ⟨?_, trivial⟩
  exact foldl_pair_fst (List.range s0)
    (fun (P : Array α) v => P.setIfInBounds (v * s1 + w) (P.getD (v * s1 + w) (c 0) + Flt.log (multipliers.getD v (c 0))))
    (fun _ v => v) s.1 s.2.1

/-- C20D item 3: with room for the `s0 × s1` cells, cell `[v, w]` of `ln_multipliers` is `ln_p[v, w] + log multipliers[v]` -/
theorem ln_multipliers_cell (ln_p multipliers : Array α) (s0 s1 m0 : Nat) (hsize : s0 * s1 ≤ ln_p.size)
    {v w : Nat} (hv : v < s0) (hw : w < s1) :
    (Pyx.cprobability.ln_multipliers ln_p s0 s1 multipliers m0).getD (v * s1 + w) (c 0)
      = ln_p.getD (v * s1 + w) (c 0) + Flt.log (multipliers.getD v (c 0)) := by
  rw [ln_multipliers_eq]
  exact getD_modifyCells _ (c 0) s0 s1 ln_p hsize hv hw
/-! ### one-dimensional reductions -/

/-- running maximum of the list from `-inf`, with the code's comparison `max < x` -/
def lnMax (l : List α) : α := l.foldl (fun m x => if Flt.ltb m x = true then x else m) (-(c 1 / c 0))
/-- `Σ exp (x - m)`, left to right from 0 -/
def lnShiftSum (l : List α) (m : α) : α := l.foldl (fun s x => s + Flt.exp (x - m)) (c 0)
/-- the log of the normalising constant as the code computes it -/
def lnNormaliser (l : List α) (dV : α) : α := Flt.log (lnShiftSum l (lnMax l) * dV) + lnMax l

/-- C20D item 4: on a list of length `n`, `c_ln_normalise` subtracts the normaliser `log (Σ exp (x - m) · dV) + m`, `m` the
    running maximum from `-inf`, from every entry -/
theorem c_ln_normalise_eq (l : List α) (dV : α) (n : Nat) (hn : l.length = n) :
    Pyx.cprobability.c_ln_normalise l dV n = l.map (fun x => x - lnNormaliser l dV) := by
  subst hn
  unfold Pyx.cprobability.c_ln_normalise
  simp only []
  rw [foldl_range_getD l (c 0) (fun m x => if Flt.ltb m x = true then x else m)]
  have hm : List.foldl (fun m x => if Flt.ltb m x = true then x else m) (-(c 1 / c 0)) l = lnMax l := rfl
  rw [hm, foldl_range_getD l (c 0) (fun s x => s + Flt.exp (x - lnMax l))]
  exact foldl_range_set_map (fun x => x - lnNormaliser l dV) (c 0) l

/-- the Kullback–Leibler sum as the code accumulates it: terms with `ln p_i > -inf` only, left to right from 0 -/
def dklSum (p q : List α) : α :=
  (p.zip q).foldl (fun acc pq => if Flt.ltb (-(c 1 / c 0)) pq.1 = true then
      acc + (Flt.exp pq.1 * pq.1 - Flt.exp pq.1 * pq.2) else acc) (c 0)

/-- C20D item 4: on lists of length `n`, `c_dkl` is `dklSum · dV` -/
theorem c_dkl_eq (p q : List α) (dV : α) (n : Nat) (hp : p.length = n) (hq : q.length = n) :
    Pyx.cprobability.c_dkl p q dV n = dklSum p q * dV := by
  subst hp
  unfold Pyx.cprobability.c_dkl
  simp only []
  congr 1
  have h := foldl_pair_snd (List.range p.length)
    (fun (s : α × α) i => if Flt.ltb (-(c 1 / c 0)) (p.getD i (c 0)) = true then Flt.exp (p.getD i (c 0)) else s.1)
    (fun (acc : α) i => if Flt.ltb (-(c 1 / c 0)) (p.getD i (c 0)) = true then
      acc + (Flt.exp (p.getD i (c 0)) * p.getD i (c 0) - Flt.exp (p.getD i (c 0)) * q.getD i (c 0)) else acc)
    (c 0) (c 0)
  refine h.trans ?_
  exact foldl_range_getD₂ p q (c 0) (c 0) hq (fun acc pq => if Flt.ltb (-(c 1 / c 0)) pq.1 = true then
      acc + (Flt.exp pq.1 * pq.1 - Flt.exp pq.1 * pq.2) else acc) (c 0)

/-- the Kullback–Leibler sum against the uniform density `1/V` as the code accumulates it -/
def dklUniformSum (p : List α) (V : α) : α :=
  p.foldl (fun acc x => if Flt.ltb (-(c 1 / c 0)) x = true then
      acc + (Flt.exp x * x + Flt.exp x * Flt.log V) else acc) (c 0)

/-- C20D item 4: on a list of length `n`, `c_dkl_uniform` is `dklUniformSum · dV` -/
theorem c_dkl_uniform_eq (p : List α) (V dV : α) (n : Nat) (hp : p.length = n) :
    Pyx.cprobability.c_dkl_uniform p V dV n = dklUniformSum p V * dV := by
  subst hp
  unfold Pyx.cprobability.c_dkl_uniform
  simp only []
  congr 1
  have h := foldl_pair_snd (List.range p.length)
    (fun (s : α × α) i => if Flt.ltb (-(c 1 / c 0)) (p.getD i (c 0)) = true then Flt.exp (p.getD i (c 0)) else s.1)
    (fun (acc : α) i => if Flt.ltb (-(c 1 / c 0)) (p.getD i (c 0)) = true then
      acc + (Flt.exp (p.getD i (c 0)) * p.getD i (c 0) + Flt.exp (p.getD i (c 0)) * Flt.log V) else acc)
    (c 0) (c 0)
  refine h.trans ?_
  exact foldl_range_getD p (c 0) (fun acc x => if Flt.ltb (-(c 1 / c 0)) x = true then
      acc + (Flt.exp x * x + Flt.exp x * Flt.log V) else acc) (c 0)

/-! ### the theorems apply to the executable `Float` instance -/

example (p : Array Float) (p_s0 p_s1 p_s2 : Nat) {v w : Nat} (hv : v < p_s1) (hw : w < p_s2) :
    (Pyx.cprobability.ln_prod p p_s0 p_s1 p_s2).getD (v * p_s2 + w) (c 0)
      = (List.range p_s0).foldl (fun acc u => acc + p.getD ((u * p_s1 + v) * p_s2 + w) (c 0)) (c 0) :=
  ln_prod_cell p p_s0 p_s1 p_s2 hv hw

end MTfitVerif.C20
