import MTfitVerif.Model.Scatangle
import MTfitVerif.Real.Inst
import MTfitVerif.Real.ScatangleLemmas
/-
  C18 — reading and binning location-uncertainty samples conserves probability mass.
-/
namespace MTfitVerif.C18
open MTfitVerif Scatangle

/-- lines of a well-formed file: every block is a weight line, one or more station lines and a
    blank line -/
def fileOf (recs : List (Record ℝ × ℝ)) : List (Line ℝ) :=
  recs.flatMap fun p => Line.weight p.2 :: (p.1.map fun s => Line.station s.1 s.2.1 s.2.2) ++ [Line.blank]

def WellFormed (recs : List (Record ℝ × ℝ)) : Prop := ∀ p ∈ recs, p.1 ≠ [] ∧ p.2 ≠ 0

/-- one record per sample block with that block's stations, angles and weight, in file order -/
theorem parse_blocks (recs : List (Record ℝ × ℝ)) (h : WellFormed recs) :
    parse (fileOf recs) = recs := by
  obtain ⟨m, hm⟩ := foldl_file recs h { cur := [], mult := c 1, out := [] } rfl
  simp only [parse, fileOf, hm]
  simp

/-- … also when the trailing blank line is missing -/
theorem parse_blocks_no_trailing_blank (recs : List (Record ℝ × ℝ)) (h : WellFormed recs) :
    parse (fileOf recs).dropLast = recs := by
  rcases List.eq_nil_or_concat recs with rfl | ⟨init, last, rfl⟩
  · simp [fileOf, parse]
  · rw [List.concat_eq_append] at h ⊢
    have hi : ∀ p ∈ init, p.1 ≠ [] ∧ p.2 ≠ 0 := fun p hp => h p (List.mem_append_left _ hp)
    have hl := h last (List.mem_append_right _ (List.mem_singleton_self _))
    obtain ⟨m, hm⟩ := foldl_file init hi { cur := [], mult := c 1, out := [] } rfl
    have hfile : (fileOf (init ++ [last])).dropLast
        = fileOf init ++ (Line.weight last.2 ::
            (last.1.map fun s : Nat × ℝ × ℝ => Line.station s.1 s.2.1 s.2.2)) := by
      simp only [fileOf, List.flatMap_append, List.flatMap_cons, List.flatMap_nil, List.append_nil]
      rw [← List.append_assoc, List.dropLast_concat]
    rw [hfile]
    simp only [parse, fileOf, List.foldl_append, hm]
    rw [foldl_open_block _ rfl]
    have : last.1.isEmpty = false := by simpa using hl.1
    simp [this]

/-- writing records out and reading them again returns the same records -/
theorem write_parse_roundtrip (recs : List (Record ℝ × ℝ)) (h : WellFormed recs) :
    parse (render recs) = recs :=
  parse_blocks_no_trailing_blank recs h

/-- a block without its own weight line inherits the previous weight -/
theorem parse_inherits_weight (r₁ r₂ : Record ℝ) (w : ℝ) (h₁ : r₁ ≠ []) (h₂ : r₂ ≠ []) (hw : w ≠ 0) :
    parse (Line.weight w :: (r₁.map fun s => Line.station s.1 s.2.1 s.2.2) ++ [Line.blank]
            ++ (r₂.map fun s => Line.station s.1 s.2.1 s.2.2) ++ [Line.blank])
      = [(r₁, w), (r₂, w)] := by
  simp only [parse]
  rw [List.append_assoc _ (List.map _ r₂), List.foldl_append, foldl_block _ rfl r₁ w h₁ hw,
    foldl_stations_blank _ rfl r₂ h₂ hw]
  simp

def totalWeight (recs : List (Record ℝ × ℝ)) : ℝ := (recs.map (·.2)).sum

/-- the weights of the bins add up to the weights of all input samples — for any number of
    samples and any bin size -/
theorem bin_mass_conserved (b : ℝ) (recs : List (Record ℝ × ℝ)) :
    totalWeight (bin b recs) = totalWeight recs := by
  unfold bin totalWeight
  split
  · rfl
  · exact binAux_mass b _ recs

/-- one original record is kept per bin: the retained records are a sublist of the input records -/
theorem bin_keeps_original_records (b : ℝ) (recs : List (Record ℝ × ℝ)) :
    ((bin b recs).map (·.1)).Sublist (recs.map (·.1)) := by
  unfold bin
  split
  · exact List.Sublist.refl _
  · exact binAux_sublist b _ recs

/-- only samples whose every station angle differs by less than half the bin size from the
    retained sample are merged: every input sample is a retained one or is close to one -/
theorem bin_merges_only_close (b : ℝ) (recs : List (Record ℝ × ℝ)) (x : Record ℝ × ℝ) (hx : x ∈ recs) :
    ∃ y ∈ bin b recs, y.1 = x.1 ∨ close b y.1 x.1 = true := by
  unfold bin
  split
  · exact ⟨x, hx, Or.inl rfl⟩
  · exact binAux_covers b _ recs x hx

/-- `close` means: every station's take-off and azimuth difference is below half the bin size -/
theorem close_iff (b : ℝ) (r r' : Record ℝ) :
    close b r r' = true ↔ ∀ p ∈ List.zip r r', |p.2.2.2 - p.1.2.2| < b / 2 ∧ |p.2.2.1 - p.1.2.1| < b / 2 := by
  simp only [close, List.all_eq_true, Bool.and_eq_true, flt_ltb, flt_abs, flt_c, decide_eq_true_eq,
    Nat.cast_ofNat]

/-- with a zero bin size nothing is merged -/
theorem bin_zero_is_identity (recs : List (Record ℝ × ℝ)) : bin 0 recs = recs := by
  simp [bin]

/-- no two retained samples could have been merged with each other by the rule: a later retained
    record is never close to an earlier retained one -/
theorem bin_retained_pairwise_far (b : ℝ) (hb : b ≠ 0) (recs : List (Record ℝ × ℝ)) :
    (bin b recs).Pairwise (fun y z => close b y.1 z.1 = false) := by
  have h0 : Flt.eqb b (c 0) = false := by simp [hb]
  unfold bin
  rw [h0]
  exact binAux_pairwise b _ recs (Nat.le_refl _)

/-- sub-sampling returns records of the file, each with its own weight -/
theorem subsample_subset (recs : List (Record ℝ × ℝ)) (idx : List Nat) :
    ∀ p ∈ subsample recs idx, p ∈ recs := by
  intro p hp
  obtain ⟨i, _, hi⟩ := List.mem_filterMap.mp hp
  exact List.mem_of_getElem? hi


end MTfitVerif.C18
