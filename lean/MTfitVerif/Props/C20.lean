import MTfitVerif.Model.PyxKernels
import MTfitVerif.Model.Polarity
import MTfitVerif.Model.RatioPdf
import MTfitVerif.Model.Acceptance
import MTfitVerif.Model.Convert
import MTfitVerif.Model.MultiEvent
import MTfitVerif.Real.Inst
import MTfitVerif.Real.PyxLemmas
/-
  C20 — the scalar kernels of the compiled extensions (translated from the .pyx sources on every
  run, `Model/PyxKernels.lean`) compute the same real functions as the models of the pure-Python
  paths (which are tied to the Python code by the correspondence runs of C02, C03, C05, C12–C15).
  Property theorems only; helper lemmas live in `Real/PyxLemmas.lean`.
-/
set_option linter.unusedVariables false
namespace MTfitVerif.C20
open MTfitVerif MTfitVerif.Convert MTfitVerif.PyxLemmas

/-! ### probability kernels (cprobability.pyx) -/

theorem gaussian_pdf_eq (x μ s : ℝ) (hs : 0 < s) :
    Pyx.cprobability.gaussian_pdf x μ s = Acceptance.gaussPdf x μ s :=
  prob_gaussian_pdf_eq x μ s hs

theorem gaussian_cdf_eq (x μ s : ℝ) (hs : 0 < s) :
    Pyx.cprobability.gaussian_cdf x μ s = Acceptance.gaussCdf x μ s :=
  prob_gaussian_cdf_eq x μ s

/-- manual-polarity likelihood of one station -/
theorem pol_pdf_eq (x s w : ℝ) (hs : 0 < s) :
    Pyx.cprobability.pol_pdf x s w = Polarity.polProbRaw x s w := by
  rw [Polarity.polProbRaw_eq]
  simp only [Pyx.cprobability.pol_pdf, sci_5_1, flt_c, flt_sqrt, flt_erf, Nat.cast_one, Nat.cast_ofNat]
  ring

/-- polarity-probability likelihood of one station, for every amplitude (at exactly zero both give `(p + n)/2`
    since fix in `/repo`; before it the compiled kernel returned 1/2) -/
theorem pol_prob_pdf_eq (x p n w : ℝ) :
    Pyx.cprobability.pol_prob_pdf x p n w = Polarity.polProbP x p n w := by
  simp only [Pyx.cprobability.pol_prob_pdf, Polarity.polProbP, Polarity.heav, sci_5_1, flt_c, flt_ltb, flt_eqb,
    flt_half, Nat.cast_one, Nat.cast_zero, decide_eq_true_eq, Left.neg_neg_iff, Left.neg_pos_iff]
  rcases lt_trichotomy x 0 with hx | hx | hx
  · simp only [hx, not_lt_of_gt hx, hx.ne, if_true, if_false]; ring
  · subst hx
    simp only [lt_irrefl, if_false, if_true]
    ring
  · simp only [hx, not_lt_of_gt hx, if_true, if_false]; ring

/-- amplitude-ratio likelihood of one station (modelled amplitudes of either sign) -/
theorem ar_pdf_eq (z μx μy px py : ℝ) (hx : μx ≠ 0) (hy : μy ≠ 0) (hpx : 0 < px) (hpy : 0 < py) :
    Pyx.cprobability.ar_pdf z μx μy px py = RatioPdf.arPdf z μx μy px py := by
  rw [RatioPdf.arPdf_eq, if_neg (by tauto), ratioPdf_hinkT, ratioPdf_hinkT, coefA_neg, errFix_of_pos hpx,
    errFix_of_pos hpy, ar_pdf_hinkT z μx μy px py hpy.le]
  simp only [RatioPdf.coefA_eq, RatioPdf.coefB_eq, RatioPdf.coefC_eq, abs_mul_abs_self, ← sqrt_two_mul_sqrt_pi]
  set a := √(z * z / (px * |μx| * (px * |μx|)) + 1 / (py * |μy| * (py * |μy|))) with ha
  have hK : px * |μx| * (py * |μy|) * a * a * a * √2 * √Real.pi =
      √2 * √Real.pi * (px * |μx| * (py * |μy|) * (a * (a * a))) := by
    ring
  rw [hK]
  have hp := hinkT_pair a (√2 * √Real.pi * (px * |μx| * (py * |μy|) * (a * (a * a))))
    (μx * μx / (px * |μx| * (px * |μx|)) + μy * μy / (py * |μy| * (py * |μy|))) μx μy z
    (px * |μx| * (px * |μx|)) (py * |μy| * (py * |μy|))
  linear_combination hp

/-- inverse-variance combination step -/
theorem combine_eq (m₁ m₂ s₁ s₂ : ℝ) :
    (Pyx.cprobability.combine_mu m₁ m₂ s₁ s₂, Pyx.cprobability.combine_s s₁ s₂) =
      MultiEvent.combineStep (m₁, s₁) (m₂, s₂) := by
  simp only [Pyx.cprobability.combine_mu, Pyx.cprobability.combine_s, MultiEvent.combineStep, flt_sqrt]
  congr 1
  ring

/-- per-station scale estimate -/
theorem estimate_scale_eq (x y μx μy px py a b : ℝ) (hx : μx ≠ 0) (hy : μy ≠ 0) (hpx : 0 < px) (hpy : 0 < py)
    (hxy : x / y ≠ 0) :
    Pyx.cprobability.estimate_scale_mu_s x y μx μy px py a b =
      MultiEvent.stationScale |x / y| |μx| |μy| px py := by
  simp only [Pyx.cprobability.estimate_scale_mu_s, MultiEvent.stationScale, flt_abs, flt_sqrt, flt_exp, flt_pi,
    flt_c, flt_half, Nat.cast_ofNat, sqrt_two_div_pi]
  have hmx : |μx| ≠ 0 := abs_ne_zero.mpr hx
  have hmy : |μy| ≠ 0 := abs_ne_zero.mpr hy
  have hpx' := hpx.ne'
  have hpy' := hpy.ne'
  have hpi : √Real.pi ≠ 0 := by positivity
  refine Prod.ext ?_ ?_
  · dsimp only
    field_simp
  · dsimp only
    congr 1
    field_simp
    ring

/-! ### Markov-chain kernels (cmarkov_chain_monte_carlo.pyx) -/

theorem mcmc_gaussian_pdf_eq (x μ s : ℝ) (hs : 0 < s) :
    Pyx.cmcmc.gaussian_pdf x μ s = Acceptance.gaussPdf x μ s :=
  PyxLemmas.mcmc_gaussian_pdf_eq x μ s hs

theorem mcmc_gaussian_cdf_eq (x μ s : ℝ) (hs : 0 < s) :
    Pyx.cmcmc.gaussian_cdf x μ s = Acceptance.gaussCdf x μ s :=
  PyxLemmas.mcmc_gaussian_cdf_eq x μ s

/-- the proposal ratio of the compiled acceptance test is the ratio of the Python transition
    densities `q(x₀ | x) / q(x | x₀)` for a full-tensor move (the symmetric Gaussian factors cancel,
    the truncation normalisers remain) -/
theorem transition_ratio_mt_eq (x x₀ : Acceptance.Tape ℝ) (w : Acceptance.Widths ℝ)
    (hw : 0 < w.gamma ∧ 0 < w.delta ∧ 0 < w.h ∧ 0 < w.sigma)
    (hmt : ¬(x.gamma = 0 ∧ x.delta = 0 ∧ x₀.gamma = 0 ∧ x₀.delta = 0)) :
    Pyx.cmcmc.gaussian_transition_ratio x.gamma x.delta x.h x.sigma x₀.gamma w.gamma x₀.delta w.delta x₀.h w.h x₀.sigma w.sigma =
      Acceptance.transPdf false w x₀ x / Acceptance.transPdf false w x x₀ := by
  obtain ⟨hg, hd, hh, hs⟩ := hw
  have hG : Acceptance.gaussPdf x.gamma x₀.gamma w.gamma * Acceptance.gaussPdf x.delta x₀.delta w.delta *
      Acceptance.gaussPdf x.h x₀.h w.h * Acceptance.gaussPdf x.sigma x₀.sigma w.sigma ≠ 0 :=
    (mul_pos (mul_pos (mul_pos (Acceptance.gaussPdf_pos _ _ hg) (Acceptance.gaussPdf_pos _ _ hd))
      (Acceptance.gaussPdf_pos _ _ hh)) (Acceptance.gaussPdf_pos _ _ hs)).ne'
  rw [transPdf_false_eq, transPdf_false_eq, gaussPdf_symm x₀.h, gaussPdf_symm x₀.sigma,
    gaussPdf_symm x₀.gamma, gaussPdf_symm x₀.delta, mul_div_mul_left _ _ hG]
  have hb : (decide (x.gamma = 0) && decide (x.delta = 0) && decide (x₀.gamma = 0) && decide (x₀.delta = 0)) = false := by
    simp only [Bool.and_eq_false_iff, decide_eq_false_iff_not]
    tauto
  simp only [Pyx.cmcmc.gaussian_transition_ratio, flt_eqb, flt_c, Nat.cast_zero, hb, Bool.false_eq_true,
    if_false, transition_mt_eq]

/-- the same for a double-couple move -/
theorem transition_ratio_dc_eq (x x₀ : Acceptance.Tape ℝ) (w : Acceptance.Widths ℝ)
    (hw : 0 < w.h ∧ 0 < w.sigma)
    (hdc : x.gamma = 0 ∧ x.delta = 0 ∧ x₀.gamma = 0 ∧ x₀.delta = 0) :
    Pyx.cmcmc.gaussian_transition_ratio x.gamma x.delta x.h x.sigma x₀.gamma w.gamma x₀.delta w.delta x₀.h w.h x₀.sigma w.sigma =
      Acceptance.transPdf true w x₀ x / Acceptance.transPdf true w x x₀ := by
  obtain ⟨h1, h2, h3, h4⟩ := hdc
  have hG : Acceptance.gaussPdf x.h x₀.h w.h * Acceptance.gaussPdf x.sigma x₀.sigma w.sigma ≠ 0 :=
    (mul_pos (Acceptance.gaussPdf_pos _ _ hw.1) (Acceptance.gaussPdf_pos _ _ hw.2)).ne'
  rw [transPdf_true_eq, transPdf_true_eq, gaussPdf_symm x₀.h, gaussPdf_symm x₀.sigma, mul_div_mul_left _ _ hG]
  simp only [Pyx.cmcmc.gaussian_transition_ratio, h1, h2, h3, h4, flt_eqb, flt_c, Nat.cast_zero, decide_true,
    Bool.and_self, if_true, transition_dc_eq]

/-- prior ratio of two full-tensor states under the uniform-on-the-sphere prior (lune latitude in
    the open interval) -/
theorem uniform_prior_ratio_mt_eq (x x₀ : Acceptance.Tape ℝ)
    (hx : ¬(x.gamma = 0 ∧ x.delta = 0)) (hx₀ : ¬(x₀.gamma = 0 ∧ x₀.delta = 0))
    (hd : -(Real.pi / 2) < x.delta ∧ x.delta < Real.pi / 2) (hd₀ : -(Real.pi / 2) < x₀.delta ∧ x₀.delta < Real.pi / 2)
    (hc₀ : Real.cos (3 * x₀.gamma) ≠ 0) :
    Pyx.cmcmc.uniform_prior_ratio x.gamma x.delta x₀.gamma x₀.delta =
      Acceptance.uniformPrior false x / Acceptance.uniformPrior false x₀ := by
  have hb1 : (decide (x.gamma = 0) && decide (x.delta = 0)) = false := by
    simp only [Bool.and_eq_false_iff, decide_eq_false_iff_not]; tauto
  have hb2 : (decide (x₀.gamma = 0) && decide (x₀.delta = 0)) = false := by
    simp only [Bool.and_eq_false_iff, decide_eq_false_iff_not]; tauto
  rw [uniformPrior_false_eq x hd, uniformPrior_false_eq x₀ hd₀, mul_div_mul_left _ _ uniformPrior_const_ne_zero]
  simp only [Pyx.cmcmc.uniform_prior_ratio, flt_eqb, flt_c, flt_cos, Nat.cast_zero, Nat.cast_ofNat, hb1, hb2,
    Bool.false_and, Bool.false_eq_true, if_false, uniform_delta_dist_eq hd, uniform_delta_dist_eq hd₀]
  have := k_ND_ne_zero
  have := Real.pi_ne_zero
  have := (betaKer_pos ((x₀.delta + Real.pi / 2) / Real.pi)).ne'
  field_simp

theorem flat_prior_ratio_eq (x x₀ : Acceptance.Tape ℝ) :
    Pyx.cmcmc.flat_prior_ratio x.gamma x.delta x₀.gamma x₀.delta =
      Acceptance.flatPrior false x / Acceptance.flatPrior false x₀ := by
  simp only [Pyx.cmcmc.flat_prior_ratio, Acceptance.flatPrior, flt_c, flt_pi, Nat.cast_one, Nat.cast_ofNat]
  have : Real.pi ≠ 0 := Real.pi_ne_zero
  simp

/-- density of the dimension-balancing draw -/
theorem gaussian_jump_prob_eq (x : Acceptance.Tape ℝ) (w : Acceptance.Widths ℝ) (hw : 0 < w.gammaDc ∧ 0 < w.deltaDc) :
    Pyx.cmcmc.gaussian_jump_prob x.gamma x.delta w.gammaDc w.deltaDc w.propNorm = Acceptance.jumpQ w x := by
  simp only [Pyx.cmcmc.gaussian_jump_prob, Acceptance.jumpQ, PyxLemmas.mcmc_gaussian_pdf_eq _ _ _ hw.1,
    PyxLemmas.mcmc_gaussian_pdf_eq _ _ _ hw.2]

/-! ### conversion kernels (cmoment_tensor_conversion.pyx) -/

/-- clipping the argument of `acos` to `[-1, 1]` does not change it over the reals (it only guards against rounding) -/
theorem arccos_clip (x : ℝ) : Real.arccos (max (-1) (min 1 x)) = Real.arccos x := by
  rcases le_total x (-1) with h | h
  · rw [min_eq_right (by linarith), max_eq_left h, Real.arccos_neg_one, Real.arccos_of_le_neg_one h]
  · rcases le_total 1 x with h1 | h1
    · rw [min_eq_left h1, max_eq_right (by norm_num), Real.arccos_one, Real.arccos_eq_zero.2 h1]
    · rw [min_eq_right h1, max_eq_right h]

/-- lune coordinates of a sorted eigenvalue triple (the compiled kernel leaves its outputs
    untouched for the zero tensor) -/
theorem cE_gd_eq (e : V3 ℝ) (hs : e.z ≤ e.y ∧ e.y ≤ e.x) (h0 : ¬(e.x = 0 ∧ e.y = 0 ∧ e.z = 0)) (g d : ℝ) :
    Pyx.cconvert.cE_gd [e.x, e.y, e.z] g d = eToGd e := by
  obtain ⟨h1, h2⟩ := hs
  by_cases hxz : e.x = e.z
  · have hxy : e.x = e.y := le_antisymm (by rw [hxz]; exact h1) h2
    have hyz : e.y = e.z := by rw [← hxy, hxz]
    have hx0 : e.x ≠ 0 := by
      intro h; apply h0; refine ⟨h, ?_, ?_⟩
      · rw [← hxy]; exact h
      · rw [← hxz]; exact h
    simp only [Pyx.cconvert.cE_gd, eToGd, sign, List.getD_cons_zero, List.getD_cons_succ, flt_eqb, flt_ltb, flt_c,
      flt_pi, hxz, hyz, decide_true, Bool.and_self, if_true, Nat.cast_zero, Nat.cast_one, Nat.cast_ofNat]
    rw [← hyz, ← hxy]
    rcases lt_or_gt_of_ne hx0 with hn | hp
    · simp only [hn, not_lt_of_gt hn, decide_true, decide_false, if_true, Bool.false_eq_true, if_false, neg_one_mul]
    · simp only [hp, not_lt_of_gt hp, decide_true, decide_false, if_true, Bool.false_eq_true, if_false, one_mul]
  · have hb : (decide (e.x = e.y) && decide (e.y = e.z)) = false := by
      simp only [Bool.and_eq_false_iff, decide_eq_false_iff_not]
      by_contra hcon
      exact hxz ((not_not.mp (fun h => hcon (Or.inl h))).trans (not_not.mp (fun h => hcon (Or.inr h))))
    simp only [Pyx.cconvert.cE_gd, eToGd, sort3_sorted e ⟨h1, h2⟩, List.getD_cons_zero, List.getD_cons_succ,
      flt_eqb, hxz, hb, decide_false, Bool.false_eq_true, if_false, Pyx.cconvert.k_sqrt3, fmax_eq, fmin_eq, flt_acos, flt_c,
      Nat.cast_one, arccos_clip]

/-- Hudson τ, k: the kernel writes `k` to cell 5 and `τ` to cell 6 -/
theorem cE_tk_eq (e : V3 ℝ) (res : List ℝ) :
    Pyx.cconvert.cE_tk [e.x, e.y, e.z] res = ((eToTk e).2, (eToTk e).1) := by
  have hiso : (e.x + e.y + e.z) / 3 = (e.x + e.z + e.y) / 3 := by ring
  simp only [Pyx.cconvert.cE_tk, eToTk, List.getD_cons_zero, List.getD_cons_succ, flt_c, flt_ltb, flt_abs,
    Nat.cast_zero, Nat.cast_one, Nat.cast_ofNat, hiso]
  split_ifs <;> simp

/-- Hudson u, v from cells 5 (`k`) and 6 (`τ`) -/
theorem ctk_uv_eq (τ k : ℝ) (a0 a1 a2 a3 a4 : ℝ) :
    Pyx.cconvert.ctk_uv [a0, a1, a2, a3, a4, k, τ] = tkToUv τ k := by
  simp only [Pyx.cconvert.ctk_uv, tkToUv, List.getD_cons_zero, List.getD_cons_succ]

end MTfitVerif.C20
