import MTfitVerif.Model.Proposal
import MTfitVerif.Real.Inst
import MTfitVerif.Real.ProposalLemmas
/-
  C06 — Markov-chain proposals stay in the source domain; width adaptation keeps every width
  positive and below its maximum.  (That the proposal *distribution* is the truncated Gaussian
  the acceptance rule assumes is proved structurally — the output is the first in-range draw —
  the measure-theoretic half is tested statistically.)
-/
namespace MTfitVerif.C06
open MTfitVerif Acceptance Proposal Real

/-- structural law of the redraw loops: the result is `m + s·z` for the first `z` of the stream
    for which it is in range; the earlier draws are all out of range -/
theorem firstOk_spec (ok : ℝ → Bool) (m s : ℝ) (zs : List ℝ) (v : ℝ) (rest : List ℝ)
    (h : firstOk ok m s zs = some (v, rest)) :
    ∃ pre z, zs = pre ++ z :: rest ∧ v = m + s * z ∧ ok v = true ∧ ∀ y ∈ pre, ok (m + s * y) = false := by
  induction zs with
  | nil => simp [firstOk] at h
  | cons z zs ih =>
    unfold firstOk at h
    split at h
    · rename_i hz
      simp only [Option.some.injEq, Prod.mk.injEq] at h
      obtain ⟨rfl, rfl⟩ := h
      exact ⟨[], z, rfl, rfl, hz, by simp⟩
    · rename_i hz
      obtain ⟨pre, z', rfl, hv, hok, hpre⟩ := ih h
      refine ⟨z :: pre, z', rfl, hv, hok, ?_⟩
      intro y hy
      rcases List.mem_cons.mp hy with rfl | hy
      · simpa using hz
      · exact hpre y hy

def InDomain (x : Tape ℝ) : Prop :=
  |x.gamma| ≤ π / 6 ∧ |x.delta| ≤ π / 2 ∧ 0 ≤ x.kappa ∧ x.kappa < 2 * π ∧ 0 ≤ x.h ∧ x.h ≤ 1 ∧ |x.sigma| ≤ π / 2

/-- every shift proposal lies in the source domain — for every current state, every width and
    every stream of normal draws -/
theorem shift_in_domain (dc : Bool) (w : Widths ℝ) (ξ : Tape ℝ) (zs : List ℝ) (x : Tape ℝ) (rest : List ℝ)
    (h : shiftSample dc w ξ zs = some (x, rest)) : InDomain x := by
  obtain ⟨g, z1, d, z2, z, z3, hh, z4, s, h1, h2, -, h4, h5, rfl⟩ := shiftSample_some dc w ξ zs x rest h
  have hπ := Real.pi_pos
  have hu := (inUnit_iff _).mp (firstOk_ok _ _ _ _ _ _ h4)
  refine ⟨typeDraw_range dc (by positivity) _ _ _ _ _ h1, typeDraw_range dc (by positivity) _ _ _ _ _ h2,
    mod2pi_nonneg _, mod2pi_lt _, hu.1, hu.2, (absLe_iff _ _).mp (firstOk_ok _ _ _ _ _ _ h5)⟩

/-- a double-couple-constrained chain proposes exact double-couples -/
theorem shift_dc_is_dc (w : Widths ℝ) (ξ : Tape ℝ) (zs : List ℝ) (x : Tape ℝ) (rest : List ℝ)
    (h : shiftSample true w ξ zs = some (x, rest)) : x.gamma = 0 ∧ x.delta = 0 := by
  obtain ⟨g, z1, d, z2, z, z3, hh, z4, s, h1, h2, -, h4, h5, rfl⟩ := shiftSample_some true w ξ zs x rest h
  exact ⟨typeDraw_dc _ _ _ _ _ _ h1, typeDraw_dc _ _ _ _ _ _ h2⟩

/-- the balancing draw lies on the lune -/
theorem jumpDraw_in_range (w : Widths ℝ) (zs : List ℝ) (g d : ℝ) (rest : List ℝ)
    (h : jumpDraw w zs = some (g, d, rest)) : |g| ≤ π / 6 ∧ |d| ≤ π / 2 := by
  obtain ⟨z1, h1, h2⟩ := jumpDraw_some w zs g d rest h
  exact ⟨(absLe_iff _ _).mp (firstOk_ok _ _ _ _ _ _ h1), (absLe_iff _ _).mp (firstOk_ok _ _ _ _ _ _ h2)⟩

/-- a model jump leaves strike, dip cosine and slip unchanged; a jump down gives an exact
    double-couple, a jump up a source type on the lune -/
theorem jump_keeps_orientation (dc : Bool) (p : ℝ) (w : Widths ℝ) (ξ : Tape ℝ) (u : ℝ) (zs : List ℝ)
    (x : Tape ℝ) (rest : List ℝ) (h : transDSample dc p w ξ u zs = some (x, true, rest)) :
    x.kappa = ξ.kappa ∧ x.h = ξ.h ∧ x.sigma = ξ.sigma ∧
    (dc = false → x.gamma = 0 ∧ x.delta = 0) ∧ (dc = true → |x.gamma| ≤ π / 6 ∧ |x.delta| ≤ π / 2) := by
  rw [transDSample_eq] at h
  split at h
  · cases dc with
    | false =>
      simp only [Bool.false_eq_true, if_false, Option.some.injEq, Prod.mk.injEq] at h
      obtain ⟨rfl, -⟩ := h
      exact ⟨rfl, rfl, rfl, fun _ => ⟨rfl, rfl⟩, fun h => (by cases h)⟩
    | true =>
      simp only [if_true, Option.map_eq_some_iff, Prod.exists, Prod.mk.injEq] at h
      obtain ⟨g, d, r, hj, rfl, -, rfl⟩ := h
      exact ⟨rfl, rfl, rfl, fun h => (by cases h), fun _ => jumpDraw_in_range w zs g d _ hj⟩
  · simp only [Option.map_eq_some_iff, Prod.exists, Prod.mk.injEq] at h
    obtain ⟨_, _, _, _, hf, _⟩ := h
    cases hf

/-- proposals of a trans-dimensional chain stay in the domain whenever the current state does -/
theorem transD_in_domain (dc : Bool) (p : ℝ) (w : Widths ℝ) (ξ : Tape ℝ) (hξ : InDomain ξ) (u : ℝ)
    (zs : List ℝ) (x : Tape ℝ) (j : Bool) (rest : List ℝ)
    (h : transDSample dc p w ξ u zs = some (x, j, rest)) : InDomain x := by
  rw [transDSample_eq] at h
  obtain ⟨hg, hd, hk0, hk1, hh0, hh1, hs⟩ := hξ
  have hπ := Real.pi_pos
  split at h
  · cases dc with
    | false =>
      simp only [Bool.false_eq_true, if_false, Option.some.injEq, Prod.mk.injEq] at h
      obtain ⟨rfl, -⟩ := h
      refine ⟨?_, ?_, hk0, hk1, hh0, hh1, hs⟩
      · simp only [abs_zero]; positivity
      · simp only [abs_zero]; positivity
    | true =>
      simp only [if_true, Option.map_eq_some_iff, Prod.exists, Prod.mk.injEq] at h
      obtain ⟨g, d, r, hj, rfl, -, -⟩ := h
      obtain ⟨h1, h2⟩ := jumpDraw_in_range w zs g d _ hj
      exact ⟨h1, h2, hk0, hk1, hh0, hh1, hs⟩
  · simp only [Option.map_eq_some_iff, Prod.exists, Prod.mk.injEq] at h
    obtain ⟨x', r, hsh, rfl, -, -⟩ := h
    exact shift_in_domain dc w ξ zs x' r hsh

/-- a jump happens exactly when the uniform draw does not exceed the jump probability -/
theorem transD_jump_iff (dc : Bool) (p : ℝ) (w : Widths ℝ) (ξ : Tape ℝ) (u : ℝ) (zs : List ℝ)
    (x : Tape ℝ) (j : Bool) (rest : List ℝ) (h : transDSample dc p w ξ u zs = some (x, j, rest)) :
    j = true ↔ u ≤ p := by
  rw [transDSample_eq] at h
  split at h
  · rename_i hu
    cases dc with
    | false =>
      simp only [Bool.false_eq_true, if_false, Option.some.injEq, Prod.mk.injEq] at h
      obtain ⟨-, rfl, -⟩ := h
      simpa using hu
    | true =>
      simp only [if_true, Option.map_eq_some_iff, Prod.exists, Prod.mk.injEq] at h
      obtain ⟨g, d, r, hj, -, rfl, -⟩ := h
      simpa using hu
  · rename_i hu
    simp only [Option.map_eq_some_iff, Prod.exists, Prod.mk.injEq] at h
    obtain ⟨x', r, hsh, -, rfl, -⟩ := h
    simpa using hu

/-! ### width adaptation -/

/-- all widths positive, none above its configured maximum (keys without a maximum, i.e. the
    balancing widths, only need to be positive) -/
def WidthsOk (maxW ws : List (String × ℝ)) : Prop :=
  ∀ kv ∈ ws, 0 < kv.2 ∧ ∀ m, maxW.lookup kv.1 = some m → isFixedKey kv.1 = false → kv.2 ≤ m

theorem modifyWidths_ok (maxW ws : List (String × ℝ)) (h : WidthsOk maxW ws) {ratio : ℝ} (hr : 0 < ratio) :
    WidthsOk maxW (modifyWidths maxW ws ratio) := by
  rw [modifyWidths_eq]
  intro kv hkv
  obtain ⟨kv0, hmem, rfl⟩ := List.mem_map.mp hkv
  obtain ⟨hpos, hle⟩ := h kv0 hmem
  refine ⟨modOne_pos maxW hr kv0 hpos, ?_⟩
  intro m hm hfix
  rw [modOne_fst] at hm hfix
  exact modOne_le maxW ratio kv0 m hm (hle m hm hfix)

/-- the point of the `or not newAlpha > 0` test in `_modify_alpha`: with positive input widths,
    **no ratio whatever** — zero, negative, or one whose product with the width is 0 (the real-number
    image of floating-point underflow) — makes `modifyWidths` return a non-positive width: in that
    case the old width is kept -/
theorem modifyWidths_pos_any_ratio (maxW ws : List (String × ℝ)) (ratio : ℝ)
    (h : ∀ p ∈ ws, 0 < p.2) : ∀ p ∈ modifyWidths maxW ws ratio, 0 < p.2 := by
  rw [modifyWidths_eq]
  intro p hp
  obtain ⟨kv0, hmem, rfl⟩ := List.mem_map.mp hp
  exact modOne_pos_any maxW ratio kv0 (h kv0 hmem)

/-- not vacuous: with ratio 0 (every product is 0) both widths are kept as they were, whether or
    not the key has a configured maximum -/
example : modifyWidths [("kappa", (1 : ℝ))] [("kappa", (1 / 2 : ℝ)), ("poisson", 3)] 0
    = [("kappa", 1 / 2), ("poisson", 3)] := by
  rw [modifyWidths_eq]
  simp [modOne, isFixedKey, List.lookup]

/-- no key is lost, and the balancing widths are carried unchanged -/
theorem modifyWidths_keys (maxW ws : List (String × ℝ)) (ratio : ℝ) :
    (modifyWidths maxW ws ratio).map (·.1) = ws.map (·.1) ∧
    ∀ kv ∈ ws, isFixedKey kv.1 = true → kv ∈ modifyWidths maxW ws ratio := by
  rw [modifyWidths_eq]
  constructor
  · rw [List.map_map]
    apply List.map_congr_left
    intro kv _
    exact modOne_fst maxW ratio kv
  · intro kv hkv hfix
    exact List.mem_map.mpr ⟨kv, hkv, modOne_fixed maxW ratio kv hfix⟩

def StateOk (maxW : List (String × ℝ)) (s : AdaptState ℝ) : Prop :=
  WidthsOk maxW s.widths ∧ (∀ ow, s.oldWidths = some ow → WidthsOk maxW ow ∧ ow.map (·.1) = s.widths.map (·.1)) ∧
  (∀ r, s.oldRatio = some r → 0 < r)

-- (the bounds `maxR ≤ 1` and `rate ∈ [0,1]` are not needed by the proof)
set_option linter.unusedVariables false in
/-- one adaptation step keeps every width positive and below its maximum and loses no key — for
    every window rate in [0,1] -/
theorem adaptStep_ok (minR maxR : ℝ) (hmin : 0 < minR) (hmax : minR ≤ maxR) (hmax1 : maxR ≤ 1)
    (maxW : List (String × ℝ)) (s : AdaptState ℝ) (hs : StateOk maxW s) (rate : ℝ) (h0 : 0 ≤ rate) (h1 : rate ≤ 1) :
    StateOk maxW (adaptStep minR maxR maxW s rate) ∧
    (adaptStep minR maxR maxW s rate).widths.map (·.1) = s.widths.map (·.1) := by
  have hmaxR : 0 < maxR := lt_of_lt_of_le hmin hmax
  rw [adaptStep_eq]
  set p := adaptPair minR maxR s.oldRate rate with hp
  have hratio : 0 < p.2 := adaptPair_snd_pos _ _ _ _
  -- the stored state is still fine and has the same widths
  have hs1 : StateOk maxW (adaptStore s p.1 p.2) ∧ (adaptStore s p.1 p.2).widths = s.widths := by
    rcases adaptStore_cases s p.1 p.2 with h | h
    · rw [h]; exact ⟨hs, rfl⟩
    · rw [h]
      refine ⟨⟨hs.1, ?_, ?_⟩, rfl⟩
      · intro ow how
        simp only [Option.some.injEq] at how
        subst how
        exact ⟨hs.1, rfl⟩
      · intro r hr
        simp only [Option.some.injEq] at hr
        rw [← hr]; exact hratio
  obtain ⟨⟨hw1, how1, hor1⟩, hwid1⟩ := hs1
  set s1 := adaptStore s p.1 p.2 with hs1def
  obtain ⟨hOW, hOR, ws0, r, hr, hW, hws0⟩ := adaptFinal_cases hmaxR maxW s1 p.1 hratio hor1
  have hws0ok : WidthsOk maxW ws0 ∧ ws0.map (·.1) = s1.widths.map (·.1) := by
    rcases hws0 with rfl | h
    · exact ⟨hw1, rfl⟩
    · exact how1 ws0 h
  have hkeys : (adaptFinal maxR maxW s1 p.1 p.2).widths.map (·.1) = s1.widths.map (·.1) := by
    rw [hW, (modifyWidths_keys maxW ws0 r).1, hws0ok.2]
  refine ⟨⟨?_, ?_, hOR⟩, ?_⟩
  · rw [hW]; exact modifyWidths_ok maxW ws0 hws0ok.1 hr
  · intro ow how
    rw [hOW] at how
    obtain ⟨h1, h2⟩ := how1 ow how
    exact ⟨h1, by rw [h2, hkeys]⟩
  · rw [hkeys, hwid1]

/-- **every sequence** of learning-window rates in [0,1] keeps every width (including those of the
    dimension-balancing draw) positive and below its maximum -/
theorem adapt_invariant (minR maxR : ℝ) (hmin : 0 < minR) (hmax : minR ≤ maxR) (hmax1 : maxR ≤ 1)
    (maxW : List (String × ℝ)) (s : AdaptState ℝ) (hs : StateOk maxW s) (rates : List ℝ)
    (hr : ∀ r ∈ rates, 0 ≤ r ∧ r ≤ 1) :
    let s' := rates.foldl (adaptStep minR maxR maxW) s
    WidthsOk maxW s'.widths ∧ s'.widths.map (·.1) = s.widths.map (·.1) := by
  intro s'
  suffices h : StateOk maxW s' ∧ s'.widths.map (·.1) = s.widths.map (·.1) from ⟨h.1.1, h.2⟩
  show StateOk maxW (rates.foldl (adaptStep minR maxR maxW) s) ∧
    (rates.foldl (adaptStep minR maxR maxW) s).widths.map (·.1) = s.widths.map (·.1)
  clear s'
  induction rates generalizing s with
  | nil => exact ⟨hs, rfl⟩
  | cons r rs ih =>
    obtain ⟨h0, h1⟩ := hr r (List.mem_cons_self ..)
    obtain ⟨hok, hk⟩ := adaptStep_ok minR maxR hmin hmax hmax1 maxW s hs r h0 h1
    rw [List.foldl_cons]
    obtain ⟨h2, h3⟩ := ih _ hok (fun r' hr' => hr r' (List.mem_cons_of_mem _ hr'))
    exact ⟨h2, h3.trans hk⟩

end MTfitVerif.C06
