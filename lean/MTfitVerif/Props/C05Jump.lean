import MTfitVerif.Props.C05
import MTfitVerif.Props.C06Law
/-
  C05 — the density `q` of the dimension-balancing draw that the reversible-jump acceptance evaluates (`jump_params(x)` with the
  `proposal_normalisation` of the sampler's `__init__`) IS the density of the draw `jump_params()` makes: a product of the truncated
  normal densities of C06Law.  (Before fix d6bce07 the normalisation carried a cos δ weight and `q` integrated to 1.02.)
-/
namespace MTfitVerif.C05
open MTfitVerif MTfitVerif.Acceptance Real

theorem gaussCdf_neg_zero (a : ℝ) {s : ℝ} (_hs : 0 < s) : gaussCdf (-a) 0 s = 1 - gaussCdf a 0 s := by
  rw [gaussCdf_eq, gaussCdf_eq]
  have : (-a - 0) / s / √2 = -((a - 0) / s / √2) := by ring
  rw [this, erf_neg]; ring

/-- the coded normalisation is the product of the masses of the two normal distributions on `[-π/6, π/6]` and `[-π/2, π/2]` -/
theorem propNormOf_eq {sg sd : ℝ} (hg : 0 < sg) (hd : 0 < sd) :
    propNormOf sg sd = (gaussCdf (π / 6) 0 sg - gaussCdf (-(π / 6)) 0 sg) * (gaussCdf (π / 2) 0 sd - gaussCdf (-(π / 2)) 0 sd) := by
  simp only [propNormOf, flt_c, flt_pi, Nat.cast_one, Nat.cast_ofNat, Nat.cast_zero]
  rw [gaussCdf_neg_zero (π / 2) hd, gaussCdf_neg_zero (π / 6) hg]
  ring

theorem propNormOf_pos {sg sd : ℝ} (hg : 0 < sg) (hd : 0 < sd) : 0 < propNormOf sg sd := by
  rw [propNormOf_eq hg hd]
  have h6 : -(π / 6) < π / 6 := by linarith [pi_pos]
  have h2 : -(π / 2) < π / 2 := by linarith [pi_pos]
  exact mul_pos (sub_pos.2 (gaussCdf_lt 0 hg h6)) (sub_pos.2 (gaussCdf_lt 0 hd h2))

/-- **the coded jump density is the product of the two truncated-normal densities** the acceptance rule's `truncTerm` describes — the
    densities C06Law proves for the redraw loops of `jumpDraw` -/
theorem jumpQ_eq_truncTerms (w : Widths ℝ) (hg : 0 < w.gammaDc) (hd : 0 < w.deltaDc)
    (hn : w.propNorm = propNormOf w.gammaDc w.deltaDc) (x : Tape ℝ) :
    jumpQ w x = truncTerm x.gamma 0 w.gammaDc (-(π / 6)) (π / 6) * truncTerm x.delta 0 w.deltaDc (-(π / 2)) (π / 2) := by
  unfold jumpQ truncTerm
  rw [hn, propNormOf_eq hg hd]
  simp only [flt_c, Nat.cast_zero]
  have h6 : -(π / 6) < π / 6 := by linarith [pi_pos]
  have h2 : -(π / 2) < π / 2 := by linarith [pi_pos]
  have n1 : gaussCdf (π / 6) 0 w.gammaDc - gaussCdf (-(π / 6)) 0 w.gammaDc ≠ 0 := (sub_pos.2 (gaussCdf_lt 0 hg h6)).ne'
  have n2 : gaussCdf (π / 2) 0 w.deltaDc - gaussCdf (-(π / 2)) 0 w.deltaDc ≠ 0 := (sub_pos.2 (gaussCdf_lt 0 hd h2)).ne'
  field_simp

/-- each factor integrates to one over its range, so the coded density is a probability density on the source-type box -/
theorem jumpQ_factors_integrate_to_one {sg sd : ℝ} (hg : 0 < sg) (hd : 0 < sd) :
    (∫ g in Set.Icc (-(π / 6)) (π / 6), truncTerm g 0 sg (-(π / 6)) (π / 6)) = 1 ∧
    (∫ d in Set.Icc (-(π / 2)) (π / 2), truncTerm d 0 sd (-(π / 2)) (π / 2)) = 1 :=
  ⟨C06.truncTerm_integral_eq_one 0 hg (by linarith [pi_pos]), C06.truncTerm_integral_eq_one 0 hd (by linarith [pi_pos])⟩

example : (0 : ℝ) < 0.2 ∧ (0 : ℝ) < 0.3 := by norm_num

end MTfitVerif.C05
