import MTfitVerif.Real.AcceptanceLemmas
/-
  C05 — the Markov-chain acceptance satisfies detailed balance for shifts and model jumps.
-/
namespace MTfitVerif.C05
open MTfitVerif LogP Acceptance Real

/-- the core of every detailed-balance statement -/
theorem min_ratio_swap {u v : ℝ} (hu : 0 < u) (hv : 0 < v) : u * min 1 (v / u) = v * min 1 (u / v) := by
  rcases le_total u v with h | h
  · have h1 : 1 ≤ v / u := (one_le_div hu).mpr h
    have h2 : u / v ≤ 1 := (div_le_one hv).mpr h
    rw [min_eq_left h1, min_eq_right h2]; field_simp
  · have h1 : 1 ≤ u / v := (one_le_div hv).mpr h
    have h2 : v / u ≤ 1 := (div_le_one hu).mpr h
    rw [min_eq_right h2, min_eq_left h1]; field_simp

def WidthsPos (w : Widths ℝ) : Prop :=
  0 < w.gamma ∧ 0 < w.delta ∧ 0 < w.kappa ∧ 0 < w.h ∧ 0 < w.sigma ∧ 0 < w.gammaDc ∧ 0 < w.deltaDc ∧ 0 < w.propNorm

/-- every truncation normaliser is positive, so the proposal density is well defined and
    strictly positive for every pair of states and every positive width -/
theorem truncTerm_pos (x m : ℝ) {s lo hi : ℝ} (hs : 0 < s) (hlh : lo < hi) : 0 < truncTerm x m s lo hi := by
  exact truncTerm_pos' x m hs hlh

theorem transPdf_pos (dc : Bool) (w : Widths ℝ) (hw : WidthsPos w) (x x1 : Tape ℝ) : 0 < transPdf dc w x x1 := by
  obtain ⟨hg, hd, _, hh, hs, _, _, _⟩ := hw
  have hpi := Real.pi_pos
  have h1 := truncTerm_pos x.h x1.h hh (show (c 0 : ℝ) < c 1 by simp)
  have h2 := truncTerm_pos x.sigma x1.sigma hs
    (show -(Flt.pi / c 2 : ℝ) < Flt.pi / c 2 by simp only [flt_pi, flt_c]; push_cast; linarith)
  unfold transPdf
  cases dc
  · have h3 := truncTerm_pos x.gamma x1.gamma hg
      (show -(Flt.pi / c 6 : ℝ) < Flt.pi / c 6 by simp only [flt_pi, flt_c]; push_cast; linarith)
    have h4 := truncTerm_pos x.delta x1.delta hd
      (show -(Flt.pi / c 2 : ℝ) < Flt.pi / c 2 by simp only [flt_pi, flt_c]; push_cast; linarith)
    simp only [Bool.false_eq_true, if_false]
    exact mul_pos (mul_pos (mul_pos h3 h4) h1) h2
  · simp only [if_true]
    exact mul_pos (mul_pos (by simp) h1) h2

/-- acceptance probabilities are probabilities -/
theorem acceptMH_mem_Icc (prior : Bool → Tape ℝ → ℝ) (hp : ∀ b t, 0 ≤ prior b t) (dc : Bool) (w : Widths ℝ)
    (hw : WidthsPos w) (xi x : Tape ℝ) (Lxi Lx : LogP ℝ) :
    0 ≤ acceptMH prior dc w xi x Lxi Lx ∧ acceptMH prior dc w xi x Lxi Lx ≤ 1 := by
  cases Lx with
  | negInf => simp [acceptMH]
  | fin lx =>
    cases Lxi with
    | negInf => simp [acceptMH]
    | fin lxi =>
      cases h : mhRatio prior dc w xi x with
      | none => rw [acceptMH_fin_none _ _ _ _ _ _ _ h]; simp
      | some r =>
        rw [acceptMH_fin_some _ _ _ _ _ _ _ h]
        have hr : 0 ≤ r := by
          rw [mhRatio_eq] at h
          split at h
          · injection h with h
            rw [← h]
            have := (transPdf_pos dc w hw xi x).le
            have := (transPdf_pos dc w hw x xi).le
            have := hp dc x
            have := hp dc xi
            positivity
          · exact absurd h (by simp)
        exact ⟨le_min zero_le_one (mul_nonneg hr (Real.exp_pos _).le), min_le_left _ _⟩

/-- **Detailed balance of a shift**: for every pair of states (interior or on the boundary of the
    domain, where the prior may vanish), every positive width, any non-negative sampling prior and
    all finite log-likelihoods,
    `π(ξ) e^{L} q(x|ξ) a(ξ→x) = π(x) e^{L'} q(ξ|x) a(x→ξ)`. -/
theorem mh_detailed_balance (prior : Bool → Tape ℝ → ℝ) (hp : ∀ b t, 0 ≤ prior b t) (dc : Bool)
    (w : Widths ℝ) (hw : WidthsPos w) (xi x : Tape ℝ) (L L' : ℝ) :
    prior dc xi * Real.exp L * transPdf dc w x xi * acceptMH prior dc w xi x (fin L) (fin L')
      = prior dc x * Real.exp L' * transPdf dc w xi x * acceptMH prior dc w x xi (fin L') (fin L) := by
  have hqf := transPdf_pos dc w hw x xi
  have hqb := transPdf_pos dc w hw xi x
  have heL := Real.exp_pos L
  have heL' := Real.exp_pos L'
  rcases (hp dc xi).eq_or_lt with ha | ha <;> rcases (hp dc x).eq_or_lt with hb | hb
  · rw [← ha, ← hb]; ring
  · rw [acceptMH_fin_some _ _ _ _ _ _ _ (mhRatio_of_pos prior dc w x xi hqb hb), ← ha]
    simp
  · rw [acceptMH_fin_some _ _ _ _ _ _ _ (mhRatio_of_pos prior dc w xi x hqf ha), ← hb]
    simp
  · rw [acceptMH_fin_some _ _ _ _ _ _ _ (mhRatio_of_pos prior dc w xi x hqf ha),
      acceptMH_fin_some _ _ _ _ _ _ _ (mhRatio_of_pos prior dc w x xi hqb hb)]
    have hu : 0 < prior dc xi * Real.exp L * transPdf dc w x xi := by positivity
    have hv : 0 < prior dc x * Real.exp L' * transPdf dc w xi x := by positivity
    have e1 : transPdf dc w xi x * prior dc x / (transPdf dc w x xi * prior dc xi) * Real.exp (L' - L)
        = prior dc x * Real.exp L' * transPdf dc w xi x / (prior dc xi * Real.exp L * transPdf dc w x xi) := by
      rw [Real.exp_sub]; field_simp
    have e2 : transPdf dc w x xi * prior dc xi / (transPdf dc w xi x * prior dc x) * Real.exp (L - L')
        = prior dc xi * Real.exp L * transPdf dc w x xi / (prior dc x * Real.exp L' * transPdf dc w xi x) := by
      rw [Real.exp_sub]; field_simp
    rw [e1, e2]
    exact min_ratio_swap hu hv

/-- swap the roles of current and proposed state in a list of events -/
def swapEvents (evs : List (Bool × Widths ℝ × Tape ℝ × Tape ℝ)) : List (Bool × Widths ℝ × Tape ℝ × Tape ℝ) :=
  evs.map fun e => (e.1, e.2.1, e.2.2.2, e.2.2.1)

/-- joint target-times-proposal weight of moving every event from its current to its proposed state -/
noncomputable def flow (prior : Bool → Tape ℝ → ℝ) (evs : List (Bool × Widths ℝ × Tape ℝ × Tape ℝ)) : ℝ :=
  (evs.map fun e => prior e.1 e.2.2.1 * transPdf e.1 e.2.1 e.2.2.2 e.2.2.1).prod

/-! glue between `swapEvents`/`flow` and the product lemmas of `Real/AcceptanceLemmas.lean` -/

theorem swapEvents_swapEvents (evs : List (Bool × Widths ℝ × Tape ℝ × Tape ℝ)) :
    swapEvents (swapEvents evs) = evs := by
  simp [swapEvents, List.map_map, Function.comp_def]

theorem flow_swapEvents (prior : Bool → Tape ℝ → ℝ) (evs : List (Bool × Widths ℝ × Tape ℝ × Tape ℝ)) :
    flow prior (swapEvents evs)
      = (evs.map fun e => prior e.1 e.2.2.2 * transPdf e.1 e.2.1 e.2.2.1 e.2.2.2).prod := by
  simp [flow, swapEvents, List.map_map, Function.comp_def]

theorem flow_pos (prior : Bool → Tape ℝ → ℝ) (evs : List (Bool × Widths ℝ × Tape ℝ × Tape ℝ))
    (hp : ∀ e ∈ evs, 0 < prior e.1 e.2.2.1) (hw : ∀ e ∈ evs, WidthsPos e.2.1) : 0 < flow prior evs :=
  prod_flow_pos prior evs hp (fun e he => transPdf_pos _ _ (hw e he) _ _)

theorem mhRatioMulti_flow (prior : Bool → Tape ℝ → ℝ) (evs : List (Bool × Widths ℝ × Tape ℝ × Tape ℝ))
    (hp : ∀ e ∈ evs, 0 < prior e.1 e.2.2.1) (hw : ∀ e ∈ evs, WidthsPos e.2.1) :
    mhRatioMulti prior evs = some (flow prior (swapEvents evs) / flow prior evs) := by
  rw [mhRatioMulti_eq_prod prior evs hp (fun e he => transPdf_pos _ _ (hw e he) _ _), flow_swapEvents]
  rfl

/-- **Detailed balance of a joint multi-event shift** (any number of events; strictly positive
    priors, i.e. interior states) -/
theorem mh_multi_event_balance (prior : Bool → Tape ℝ → ℝ) (evs : List (Bool × Widths ℝ × Tape ℝ × Tape ℝ))
    (hp : ∀ e ∈ evs, 0 < prior e.1 e.2.2.1 ∧ 0 < prior e.1 e.2.2.2) (hw : ∀ e ∈ evs, WidthsPos e.2.1)
    (L L' : ℝ) :
    flow prior evs * Real.exp L * acceptMulti prior evs (fin L) (fin L')
      = flow prior (swapEvents evs) * Real.exp L' * acceptMulti prior (swapEvents evs) (fin L') (fin L) := by
  have hp1 : ∀ e ∈ evs, 0 < prior e.1 e.2.2.1 := fun e he => (hp e he).1
  have hp2 : ∀ e ∈ swapEvents evs, 0 < prior e.1 e.2.2.1 := by
    intro e he
    obtain ⟨e', he', rfl⟩ := List.mem_map.mp he
    exact (hp e' he').2
  have hw2 : ∀ e ∈ swapEvents evs, WidthsPos e.2.1 := by
    intro e he
    obtain ⟨e', he', rfl⟩ := List.mem_map.mp he
    exact hw e' he'
  have hf := flow_pos prior evs hp1 hw
  have hfs := flow_pos prior (swapEvents evs) hp2 hw2
  have h1 := mhRatioMulti_flow prior evs hp1 hw
  have h2 := mhRatioMulti_flow prior (swapEvents evs) hp2 hw2
  rw [swapEvents_swapEvents] at h2
  rw [acceptMulti_fin_some _ _ _ _ h1, acceptMulti_fin_some _ _ _ _ h2]
  have heL := Real.exp_pos L
  have heL' := Real.exp_pos L'
  have hu : 0 < flow prior evs * Real.exp L := by positivity
  have hv : 0 < flow prior (swapEvents evs) * Real.exp L' := by positivity
  have e1 : flow prior (swapEvents evs) / flow prior evs * Real.exp (L' - L)
      = flow prior (swapEvents evs) * Real.exp L' / (flow prior evs * Real.exp L) := by
    rw [Real.exp_sub]; field_simp
  have e2 : flow prior evs / flow prior (swapEvents evs) * Real.exp (L - L')
      = flow prior evs * Real.exp L / (flow prior (swapEvents evs) * Real.exp L') := by
    rw [Real.exp_sub]; field_simp
  rw [e1, e2]
  exact min_ratio_swap hu hv

theorem jumpQ_pos (w : Widths ℝ) (hw : WidthsPos w) (x : Tape ℝ) : 0 < jumpQ w x := by
  obtain ⟨_, _, _, _, _, hg, hd, hn⟩ := hw
  unfold jumpQ
  exact div_pos (mul_pos (gaussPdf_pos _ _ hg) (gaussPdf_pos _ _ hd)) hn

/-- **Detailed balance of a dimension jump**: with model prior `p` for the double-couple model and
    `1 - p` for the full tensor, and `q` the density of the balancing draw (the jump keeps strike,
    dip and slip, so the Jacobian is 1),
    `π_dc(ξ) p e^{L} q(γ,δ) a↑ = π_mt(x) (1-p) e^{L'} a↓`. -/
theorem jump_detailed_balance (prior : Bool → Tape ℝ → ℝ) (w : Widths ℝ) (hw : WidthsPos w)
    (xiDc x : Tape ℝ) (hdc : 0 < prior true xiDc) (hmt : 0 < prior false x) {p : ℝ} (hp0 : 0 < p) (hp1 : p < 1)
    (L L' : ℝ) :
    prior true xiDc * p * Real.exp L * jumpQ w x * acceptJumpUp prior w xiDc x p (fin L) (fin L')
      = prior false x * (1 - p) * Real.exp L' * acceptJumpDown prior w x xiDc p (fin L') (fin L) := by
  have hq := jumpQ_pos w hw x
  have heL := Real.exp_pos L
  have heL' := Real.exp_pos L'
  have h1p : 0 < 1 - p := by linarith
  rw [acceptJumpUp_fin, acceptJumpDown_fin]
  have hu : 0 < prior true xiDc * p * Real.exp L * jumpQ w x := by positivity
  have hv : 0 < prior false x * (1 - p) * Real.exp L' := by positivity
  have e1 : prior false x / (jumpQ w x * prior true xiDc) * ((1 - p) / p) * Real.exp (L' - L)
      = prior false x * (1 - p) * Real.exp L' / (prior true xiDc * p * Real.exp L * jumpQ w x) := by
    rw [Real.exp_sub]; field_simp
  have e2 : jumpQ w x * prior true xiDc / prior false x * (p / (1 - p)) * Real.exp (L - L')
      = prior true xiDc * p * Real.exp L * jumpQ w x / (prior false x * (1 - p) * Real.exp L') := by
    rw [Real.exp_sub]; field_simp
  rw [e1, e2]
  exact min_ratio_swap hu hv

/-- a proposal of zero likelihood has acceptance probability zero — shift, joint shift and jumps -/
theorem zero_likelihood_rejected (prior : Bool → Tape ℝ → ℝ) (dc : Bool) (w : Widths ℝ) (xi x : Tape ℝ)
    (evs : List (Bool × Widths ℝ × Tape ℝ × Tape ℝ)) (p : ℝ) (Lxi : LogP ℝ) :
    acceptMH prior dc w xi x Lxi negInf = 0 ∧ acceptMulti prior evs Lxi negInf = 0 ∧
    acceptJumpUp prior w xi x p Lxi negInf = 0 ∧ acceptJumpDown prior w xi x p Lxi negInf = 0 := by
  refine ⟨by simp [acceptMH], by simp [acceptMulti], ?_, ?_⟩
  · cases Lxi <;> simp [acceptJumpUp]
  · cases Lxi <;> simp [acceptJumpDown]

/-- a chain sitting on a zero-likelihood start accepts any proposal of non-zero likelihood -/
theorem zero_start_moves (prior : Bool → Tape ℝ → ℝ) (dc : Bool) (w : Widths ℝ) (xi x : Tape ℝ)
    (evs : List (Bool × Widths ℝ × Tape ℝ × Tape ℝ)) (p : ℝ) (L' : ℝ) :
    acceptMH prior dc w xi x negInf (fin L') = 1 ∧ acceptMulti prior evs negInf (fin L') = 1 ∧
    acceptJumpUp prior w xi x p negInf (fin L') = 1 ∧ acceptJumpDown prior w xi x p negInf (fin L') = 1 := by
  refine ⟨by simp [acceptMH], ?_, by simp [acceptJumpUp], by simp [acceptJumpDown]⟩
  cases h : mhRatioMulti prior evs <;> simp [acceptMulti, h]

/-- the accept decision: probability-zero proposals are never accepted, probability-one
    proposals always are, for every uniform draw in `[0,1)` -/
theorem decide_zero_never {u : ℝ} (hu : 0 ≤ u) : Acceptance.decide u 0 = false := by
  simp [Acceptance.decide, not_lt.mpr hu]

theorem decide_one_always {u : ℝ} (hu : u < 1) : Acceptance.decide u 1 = true := by
  simp [Acceptance.decide, hu]

/-- … and in general a draw accepts exactly when it falls below the acceptance probability, so
    the probability of accepting is `a` -/
theorem decide_iff (u a : ℝ) : Acceptance.decide u a = true ↔ u < a := by
  simp [Acceptance.decide]

end MTfitVerif.C05
