import MTfitVerif.Model.StationAngles
import MTfitVerif.Real.Inst
import MTfitVerif.Real.StationAnglesLemmas
/-
  C11 (part 1) — station coefficients reproduce the P / SH / SV far-field radiation pattern.
-/
namespace MTfitVerif.C11
open MTfitVerif StationAngles Real

/-- ray direction `g`, and the transverse unit vectors `φ` (SH) and `θ` (SV); NED axes,
    take-off angle from the downward axis -/
noncomputable def gx (az toa : ℝ) : ℝ := Real.cos az * Real.sin toa
noncomputable def gy (az toa : ℝ) : ℝ := Real.sin az * Real.sin toa
noncomputable def gz (_az toa : ℝ) : ℝ := Real.cos toa
noncomputable def px (az : ℝ) : ℝ := -Real.sin az
noncomputable def py (az : ℝ) : ℝ := Real.cos az
noncomputable def tx (az toa : ℝ) : ℝ := Real.cos az * Real.cos toa
noncomputable def ty (az toa : ℝ) : ℝ := Real.sin az * Real.cos toa
noncomputable def tz (_az toa : ℝ) : ℝ := -Real.sin toa

/-- bilinear form `u · M · v` of the symmetric tensor with the given components -/
def bil (mxx myy mzz mxy mxz myz ux uy uz vx vy vz : ℝ) : ℝ :=
  ux * (mxx * vx + mxy * vy + mxz * vz) + uy * (mxy * vx + myy * vy + myz * vz)
    + uz * (mxz * vx + myz * vy + mzz * vz)

/-- P amplitude: `g · M · g` for every azimuth, take-off angle and symmetric tensor -/
theorem stationP_eq_gMg (az toa mxx myy mzz mxy mxz myz : ℝ) :
    dot (stationP az toa) (mt6 mxx myy mzz mxy mxz myz)
      = bil mxx myy mzz mxy mxz myz (gx az toa) (gy az toa) (gz az toa) (gx az toa) (gy az toa) (gz az toa) := by
  simp only [stationP, mt6, dot6, flt_sin, flt_cos, flt_sqrt, flt_c, Nat.cast_ofNat, bil, gx, gy, gz]
  linear_combination
    (Real.sin az * Real.cos az * Real.sin toa ^ 2 * mxy + Real.cos az * Real.cos toa * Real.sin toa * mxz
      + Real.sin az * Real.cos toa * Real.sin toa * myz) * sqrt2_mul_self

/-- SH amplitude: `φ · M · g` -/
theorem stationSH_eq_phiMg (az toa mxx myy mzz mxy mxz myz : ℝ) :
    dot (stationSH az toa) (mt6 mxx myy mzz mxy mxz myz)
      = bil mxx myy mzz mxy mxz myz (px az) (py az) 0 (gx az toa) (gy az toa) (gz az toa) := by
  simp only [stationSH, mt6, dot6, flt_sin, flt_cos, flt_sqrt, flt_c, Nat.cast_ofNat, Nat.cast_zero,
    Nat.cast_one, bil, gx, gy, gz, px, py, Real.cos_two_mul']
  linear_combination
    ((Real.cos az ^ 2 - Real.sin az ^ 2) * Real.sin toa * mxy - Real.sin az * Real.cos toa * mxz
      + Real.cos az * Real.cos toa * myz) * inv_sqrt2_mul

/-- SV amplitude: `θ · M · g` -/
theorem stationSV_eq_thetaMg (az toa mxx myy mzz mxy mxz myz : ℝ) :
    dot (stationSV az toa) (mt6 mxx myy mzz mxy mxz myz)
      = bil mxx myy mzz mxy mxz myz (tx az toa) (ty az toa) (tz az toa) (gx az toa) (gy az toa) (gz az toa) := by
  simp only [stationSV, mt6, dot6, flt_sin, flt_cos, flt_sqrt, flt_c, Nat.cast_ofNat, Nat.cast_one,
    bil, gx, gy, gz, tx, ty, tz, Real.cos_two_mul']
  linear_combination
    (Real.cos az * Real.sin az * Real.sin toa * Real.cos toa * mxy) * sqrt2_mul_self
    + (Real.cos az * (Real.cos toa ^ 2 - Real.sin toa ^ 2) * mxz
      + Real.sin az * (Real.cos toa ^ 2 - Real.sin toa ^ 2) * myz) * inv_sqrt2_mul

/-- `g, φ, θ` are an orthonormal triad (so the three amplitudes are the radiation in the ray frame) -/
theorem triad_orthonormal (az toa : ℝ) :
    gx az toa ^ 2 + gy az toa ^ 2 + gz az toa ^ 2 = 1 ∧ px az ^ 2 + py az ^ 2 = 1 ∧
    tx az toa ^ 2 + ty az toa ^ 2 + tz az toa ^ 2 = 1 ∧
    gx az toa * px az + gy az toa * py az = 0 ∧
    gx az toa * tx az toa + gy az toa * ty az toa + gz az toa * tz az toa = 0 ∧
    px az * tx az toa + py az * ty az toa = 0 := by
  simp only [gx, gy, gz, px, py, tx, ty, tz]
  have ha := Real.sin_sq_add_cos_sq az
  have ht := Real.sin_sq_add_cos_sq toa
  refine ⟨?_, ?_, ?_, ?_, ?_, ?_⟩
  · linear_combination (Real.sin toa ^ 2) * ha + ht
  · linear_combination ha
  · linear_combination (Real.cos toa ^ 2) * ha + ht
  · ring
  · linear_combination (Real.sin toa * Real.cos toa) * ha
  · ring

/-- components of `R M Rᵀ` for a rotation `R` by `ψ` about the vertical axis -/
noncomputable def rotXX (ψ mxx myy mxy : ℝ) : ℝ :=
  Real.cos ψ ^ 2 * mxx - 2 * Real.sin ψ * Real.cos ψ * mxy + Real.sin ψ ^ 2 * myy
noncomputable def rotYY (ψ mxx myy mxy : ℝ) : ℝ :=
  Real.sin ψ ^ 2 * mxx + 2 * Real.sin ψ * Real.cos ψ * mxy + Real.cos ψ ^ 2 * myy
noncomputable def rotXY (ψ mxx myy mxy : ℝ) : ℝ :=
  Real.sin ψ * Real.cos ψ * (mxx - myy) + (Real.cos ψ ^ 2 - Real.sin ψ ^ 2) * mxy
noncomputable def rotXZ (ψ mxz myz : ℝ) : ℝ := Real.cos ψ * mxz - Real.sin ψ * myz
noncomputable def rotYZ (ψ mxz myz : ℝ) : ℝ := Real.sin ψ * mxz + Real.cos ψ * myz

/-- rotating source and stations together about the vertical leaves every amplitude unchanged -/
theorem rotation_invariance (ph : Phase) (ψ az toa mxx myy mzz mxy mxz myz : ℝ) :
    dot (coeffs ph (az + ψ) toa)
        (mt6 (rotXX ψ mxx myy mxy) (rotYY ψ mxx myy mxy) mzz (rotXY ψ mxx myy mxy)
             (rotXZ ψ mxz myz) (rotYZ ψ mxz myz))
      = dot (coeffs ph az toa) (mt6 mxx myy mzz mxy mxz myz) := by
  have hψ := Real.sin_sq_add_cos_sq ψ
  cases ph
  · simp only [coeffs]
    rw [stationP_eq_gMg, stationP_eq_gMg]
    have h := bil_rot_poly (Real.cos ψ) (Real.sin ψ) mxx myy mzz mxy mxz myz
      (gx az toa) (gy az toa) (gz az toa) (gx az toa) (gy az toa) (gz az toa) hψ
    simp only [bil, gx, gy, gz, rotXX, rotYY, rotXY, rotXZ, rotYZ, Real.cos_add, Real.sin_add] at h ⊢
    linear_combination h
  · simp only [coeffs]
    rw [stationSH_eq_phiMg, stationSH_eq_phiMg]
    have h := bil_rot_poly (Real.cos ψ) (Real.sin ψ) mxx myy mzz mxy mxz myz
      (px az) (py az) 0 (gx az toa) (gy az toa) (gz az toa) hψ
    simp only [bil, gx, gy, gz, px, py, rotXX, rotYY, rotXY, rotXZ, rotYZ, Real.cos_add,
      Real.sin_add] at h ⊢
    linear_combination h
  · simp only [coeffs]
    rw [stationSV_eq_thetaMg, stationSV_eq_thetaMg]
    have h := bil_rot_poly (Real.cos ψ) (Real.sin ψ) mxx myy mzz mxy mxz myz
      (tx az toa) (ty az toa) (tz az toa) (gx az toa) (gy az toa) (gz az toa) hψ
    simp only [bil, gx, gy, gz, tx, ty, tz, rotXX, rotYY, rotXY, rotXZ, rotYZ, Real.cos_add,
      Real.sin_add] at h ⊢
    linear_combination h

/-- degrees are converted by `x·π/180` before the trigonometric functions -/
theorem coeffsDeg_eq (ph : Phase) (az toa : ℝ) :
    coeffsDeg ph az toa = coeffs ph (az * Real.pi / 180) (toa * Real.pi / 180) := by
  cases ph <;> simp [coeffsDeg, deg2rad]

/-- the `Q` suffix (quality-factor corrected phases) does not change the coefficients -/
theorem parsePhase_examples :
    parsePhase "P" = some .P ∧ parsePhase "PQ" = some .P ∧ parsePhase "sh" = some .SH ∧
    parsePhase "SHQ" = some .SH ∧ parsePhase "SV" = some .SV ∧ parsePhase "svq" = some .SV ∧
    parsePhase "S" = none := by
  refine ⟨?_, ?_, ?_, ?_, ?_, ?_, ?_⟩ <;> simp [parsePhase, String.toLower]

end MTfitVerif.C11

