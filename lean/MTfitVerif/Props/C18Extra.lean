import MTfitVerif.Props.C18
/-
  C18 — further property theorems: binning never adds samples and always retains the first
  one, stray blank lines in a file are ignored by the reader, sub-sampling with every index
  returns the file's records.
-/
namespace MTfitVerif.C18
open MTfitVerif Scatangle

/-- binning never increases the number of samples -/
theorem bin_length_le (b : ℝ) (recs : List (Record ℝ × ℝ)) :
    (bin b recs).length ≤ recs.length := by
  have h := (bin_keeps_original_records b recs).length_le
  simpa using h

/-- binning an empty sample list gives an empty list -/
theorem bin_nil (b : ℝ) : bin b ([] : List (Record ℝ × ℝ)) = [] := by
  unfold bin; split <;> rfl

/-- the first sample of the file is always retained (with its own stations and angles) -/
theorem bin_head_retained (b : ℝ) (x : Record ℝ × ℝ) (xs : List (Record ℝ × ℝ)) :
    ((bin b (x :: xs)).head?).map (·.1) = some x.1 := by
  unfold bin
  split
  · rfl
  · simp [binAux]

/-- a non-empty input never bins to nothing: the total weight has somewhere to go -/
theorem bin_ne_nil (b : ℝ) (x : Record ℝ × ℝ) (xs : List (Record ℝ × ℝ)) :
    bin b (x :: xs) ≠ [] := by
  intro h
  have := bin_head_retained b x xs
  rw [h] at this
  simp at this

/-- a blank line while no block is open changes nothing in the reader's state -/
theorem step_blank_idle (s : PState ℝ) (h : s.cur = []) : step s Line.blank = s := by
  cases s with
  | mk cur mult out =>
    simp only at h
    subst h
    simp [step]

/-- leading blank lines are ignored -/
theorem parse_leading_blank (lines : List (Line ℝ)) :
    parse (Line.blank :: lines) = parse lines := by
  unfold parse
  rw [List.foldl_cons, step_blank_idle _ rfl]

/-- a doubled blank line between blocks reads as one -/
theorem step_blank_twice (s : PState ℝ) :
    step (step s Line.blank) Line.blank = step s Line.blank := by
  apply step_blank_idle
  show (if (!s.cur.isEmpty && !(Flt.eqb s.mult (c 0))) = true then
      ({ s with cur := [], out := s.out ++ [(s.cur, s.mult)] } : PState ℝ)
    else { s with cur := [] }).cur = []
  split <;> rfl

/-- sub-sampling never returns more records than indices drawn -/
theorem subsample_length_le (recs : List (Record ℝ × ℝ)) (idx : List Nat) :
    (subsample recs idx).length ≤ idx.length :=
  List.length_filterMap_le _ _

/-- drawing every index once, in order, returns the file's records -/
theorem subsample_all (recs : List (Record ℝ × ℝ)) :
    subsample recs (List.range recs.length) = recs := by
  unfold subsample
  apply List.ext_getElem?
  intro i
  by_cases hi : i < recs.length
  · have hfm : List.filterMap (fun i => recs[i]?) (List.range recs.length)
        = (List.range recs.length).map (fun i => recs[i]!) := by
      rw [← List.filterMap_eq_map]
      apply List.filterMap_congr
      intro j hj
      have hj' : j < recs.length := List.mem_range.mp hj
      simp [hj']
    rw [hfm]
    simp [hi]
  · have hlen : (List.filterMap (fun i => recs[i]?) (List.range recs.length)).length
        ≤ recs.length := by
      simpa using List.length_filterMap_le (fun i => recs[i]?) (List.range recs.length)
    rw [List.getElem?_eq_none (by omega), List.getElem?_eq_none (by omega)]

end MTfitVerif.C18
