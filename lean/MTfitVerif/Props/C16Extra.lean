import MTfitVerif.Props.C16
/-
  C16 — further property theorems, consequences of the invariant `Inv` (which `run_inv` proves
  for every reachable state): nothing is delivered twice or out of thin air, every submitted
  task is accounted for, and `number_jobs` is the exact count of what is still to come.
-/
namespace MTfitVerif.C16
open MTfitVerif JobPool List

/-- event lists compose -/
theorem run_append (s : State) (es₁ es₂ : List Event) :
    run s (es₁ ++ es₂) = (run s es₁).bind fun s' => run s' es₂ := by
  induction es₁ generalizing s with
  | nil => rfl
  | cons e es ih =>
    simp only [cons_append, run]
    cases step s e with
    | none => rfl
    | some s1 => simpa using ih s1

/-- no result is handed to the caller twice -/
theorem collected_nodup (s : State) (h : Inv s) : s.collected.Nodup := by
  have := exactly_once s h
  rw [nodup_append] at this
  have h2 := this.1
  rw [nodup_append] at h2
  exact h2.2.1

/-- every result handed to the caller belongs to a task that was submitted -/
theorem collected_submitted (s : State) (h : Inv s) :
    ∀ id ∈ s.collected, id ∈ s.kinds.map (·.1) := by
  intro id hid
  apply h.1.subset
  simp [hid]

/-- a result handed to the caller is no longer outstanding: it cannot be delivered again -/
theorem collected_not_outstanding (s : State) (h : Inv s) :
    ∀ id ∈ s.collected, id ∉ outstanding s := by
  intro id hid hout
  have hnd := exactly_once s h
  rw [nodup_append] at hnd
  have h2 := hnd.1
  rw [nodup_append] at h2
  exact h2.2.2 id (by simpa [outstanding] using hout) id hid rfl

/-- every submitted task is queued, running, waiting in the result queue, delivered or skipped -/
theorem every_task_accounted (s : State) (h : Inv s) :
    ∀ id ∈ s.kinds.map (·.1), id ∈ outstanding s ∨ id ∈ s.collected ∨ id ∈ s.skipped := by
  intro id hid
  have := h.1.symm.subset hid
  simp only [mem_append] at this
  unfold outstanding
  simp only [mem_append]
  rcases this with (((h1 | h1) | h1) | h1) | h1 <;> simp [h1]

/-- the number of submitted tasks is what is outstanding plus what was delivered or skipped -/
theorem submitted_count (s : State) (h : Inv s) :
    s.kinds.length = s.numberJobs + s.collected.length + s.skipped.length := by
  have hl := h.1.length_eq
  rw [h.2.2.1]
  unfold outstanding
  simp only [length_append, length_map] at hl ⊢
  omega

/-- `number_jobs` is zero exactly when nothing is outstanding -/
theorem numberJobs_zero_iff (s : State) (h : Inv s) :
    s.numberJobs = 0 ↔ outstanding s = [] := by
  rw [h.2.2.1]
  exact length_eq_zero_iff

/-- all of the above hold after every interleaving from a fresh pool -/
theorem reachable_accounting (n : Nat) (es : List Event) (s : State) (hr : run (init n) es = some s) :
    s.collected.Nodup ∧ (∀ id ∈ s.collected, id ∉ outstanding s) ∧
    s.kinds.length = s.numberJobs + s.collected.length + s.skipped.length :=
  have h := run_inv n es s hr
  ⟨collected_nodup s h, collected_not_outstanding s h, submitted_count s h⟩

/-- premises are satisfiable: one task submitted, taken, finished and collected by a two-worker pool -/
example : ∃ s, run (init 2) [.submit 7 .ok, .take 0 7, .finish 0, .collect 7] = some s ∧
    s.collected = [7] ∧ s.numberJobs = 0 := by
  refine ⟨_, rfl, ?_, ?_⟩ <;> rfl

end MTfitVerif.C16
