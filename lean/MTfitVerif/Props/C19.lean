import MTfitVerif.Real.PostProcLemmas
/-
  C19 — result post-processing (statistics, projections) is consistent with the samples.
  Property theorems only; helper lemmas live in `Real/PostProcLemmas.lean`.
-/
namespace MTfitVerif.C19
open MTfitVerif MTfitVerif.PostProc Real

/-- indexing keeps tensors, probabilities and converted parameters aligned: selecting from the
    zipped container is zipping the selections -/
theorem select_aligned {β γ : Type} (l₁ : List β) (l₂ : List γ) (h : l₁.length = l₂.length) (idx : List Nat)
    (r₁ : List β) (r₂ : List γ) (h₁ : select l₁ idx = some r₁) (h₂ : select l₂ idx = some r₂) :
    select (List.zip l₁ l₂) idx = some (List.zip r₁ r₂) := by
  have _ := h
  exact select_zip l₁ l₂ idx r₁ r₂ h₁ h₂

theorem select_length {β : Type} (l : List β) (idx : List Nat) (r : List β) (h : select l idx = some r) :
    r.length = idx.length ∧ ∀ k (hk : k < idx.length), r[k]? = l[idx[k]]? :=
  select_spec l idx r h

/-- the mean is the probability-weighted average: it lies between the smallest and largest value
    of every component, reproduces a constant component, and ignores a common rescaling of the
    probabilities -/
theorem wmean_const (ps : List ℝ) (v : ℝ) (hpos : 0 < ps.sum) : wmean ps (ps.map fun _ => v) = v := by
  rw [wmean_eq, wsum_const]
  field_simp

theorem wmean_scale (ps ms : List ℝ) {k : ℝ} (hk : k ≠ 0) : wmean (ps.map (k * ·)) ms = wmean ps ms := by
  rw [wmean_eq, wmean_eq, wsum_scale, List.sum_map_mul_left, mul_div_mul_left _ _ hk, List.map_id']

theorem wmean_bounds (ps ms : List ℝ) (hlen : ps.length = ms.length) (hp : ∀ p ∈ ps, 0 ≤ p) (hpos : 0 < ps.sum)
    (lo hi : ℝ) (hlo : ∀ m ∈ ms, lo ≤ m) (hhi : ∀ m ∈ ms, m ≤ hi) : lo ≤ wmean ps ms ∧ wmean ps ms ≤ hi := by
  obtain ⟨h1, h2⟩ := wsum_bounds lo hi ms ps hlen hp hlo hhi
  rw [wmean_eq]
  exact ⟨(le_div_iff₀ hpos).mpr h1, (div_le_iff₀ hpos).mpr h2⟩

/-- the maximum-probability selection returns exactly the samples attaining the maximum -/
theorem maxProbIdx_spec (ps : List ℝ) (i : Nat) :
    i ∈ maxProbIdx ps ↔ i < ps.length ∧ ∀ j, j < ps.length → ps.getD j 0 ≤ ps.getD i 0 :=
  mem_maxProbIdx ps i

theorem maxProbIdx_nonempty (ps : List ℝ) (h : ps ≠ []) : maxProbIdx ps ≠ [] :=
  maxProbIdx_ne_nil ps h

/-- collapsing a chain to unique samples: every distinct tensor appears exactly once, in sorted
    order, with its multiplicity; the counts add up to the chain length -/
theorem uniqueCounts_sorted (l : List Nat) : ((uniqueCounts l).map (·.1)).Pairwise (· < ·) :=
  uniqueCounts_keys_sorted l

theorem uniqueCounts_count (l : List Nat) (x : Nat) :
    ((uniqueCounts l).lookup x).getD 0 = l.count x ∧ (x ∈ (uniqueCounts l).map (·.1) ↔ x ∈ l) :=
  ⟨uniqueCounts_lookup l x, mem_uniqueCounts_keys l x⟩

theorem uniqueCounts_sum (l : List Nat) : ((uniqueCounts l).map (·.2)).sum = l.length :=
  uniqueCounts_counts_sum l

/-! ### projections of a unit vector at angle `t` from the downward axis (`z = cos t`) -/

/-- equal-area (Lambert) projection: radius `2 sin(t/2)` -/
theorem equal_area_radius {x y z : ℝ} (hu : x^2 + y^2 + z^2 = 1) (hz : 0 ≤ z) (X Y : ℝ)
    (h : project true true false false x y z = some (X, Y)) :
    X^2 + Y^2 = 2 * (1 - z) ∧ (∀ t, z = Real.cos t → X^2 + Y^2 = (2 * Real.sin (t / 2))^2) := by
  rw [project_lower_shown true false hz] at h
  simp only [if_true, Option.some.injEq, Prod.mk.injEq] at h
  obtain ⟨rfl, rfl⟩ := h
  have hpos : (0 : ℝ) < 1 + z := by linarith
  have hsq : Real.sqrt (2 / (1 + z)) ^ 2 = 2 / (1 + z) := Real.sq_sqrt (by positivity)
  have key : (x * Real.sqrt (2 / (1 + z))) ^ 2 + (y * Real.sqrt (2 / (1 + z))) ^ 2 = 2 * (1 - z) := by
    rw [mul_pow, mul_pow, hsq]
    have hxy : x ^ 2 + y ^ 2 = (1 - z) * (1 + z) := by linarith [hu]
    field_simp
    linear_combination hxy
  refine ⟨key, fun t ht => ?_⟩
  rw [key, ht, two_sub_two_cos]

/-- equal-angle (stereographic) projection: radius `tan(t/2)` -/
theorem equal_angle_radius {x y z : ℝ} (hu : x^2 + y^2 + z^2 = 1) (hz : 0 ≤ z) (X Y : ℝ)
    (h : project false true false false x y z = some (X, Y)) :
    X^2 + Y^2 = (1 - z) / (1 + z) ∧ (∀ t, z = Real.cos t → 0 ≤ t → t ≤ π / 2 → X^2 + Y^2 = (Real.tan (t / 2))^2) := by
  rw [project_lower_shown false false hz] at h
  simp only [Bool.false_eq_true, if_false, Option.some.injEq, Prod.mk.injEq] at h
  obtain ⟨rfl, rfl⟩ := h
  have hpos : (0 : ℝ) < 1 + z := by linarith
  have key : (x * (1 / (1 + z))) ^ 2 + (y * (1 / (1 + z))) ^ 2 = (1 - z) / (1 + z) := by
    have hxy : x ^ 2 + y ^ 2 = (1 - z) * (1 + z) := by linarith [hu]
    field_simp
    linear_combination hxy
  refine ⟨key, fun t ht h0 h1 => ?_⟩
  rw [key, ht, tan_half_sq t h0 h1]

/-- both projections preserve azimuth: the image is a positive multiple of `(x, y)` -/
theorem projection_preserves_azimuth (area : Bool) {x y z : ℝ} (hz : 0 ≤ z) (X Y : ℝ)
    (h : project area true false false x y z = some (X, Y)) : ∃ k : ℝ, 0 < k ∧ X = k * x ∧ Y = k * y := by
  rw [project_lower_shown area false hz] at h
  simp only [Option.some.injEq, Prod.mk.injEq] at h
  obtain ⟨rfl, rfl⟩ := h
  have hpos : (0 : ℝ) < 1 + z := by linarith
  refine ⟨if area then Real.sqrt (2 / (1 + z)) else 1 / (1 + z), ?_, mul_comm _ _, mul_comm _ _⟩
  cases area
  · simp only [Bool.false_eq_true, if_false]; positivity
  · simp only [if_true]; positivity

/-- an upper-hemisphere vector is shown at its antipode (with back-projection) or not at all -/
theorem upper_hemisphere_antipode_or_hidden (area : Bool) {x y z : ℝ} (hz : z < 0) :
    project area true false false x y z = none ∧
    project area true false true x y z = project area true false false (-x) (-y) (-z) :=
  ⟨project_upper area hz, project_upper_back area hz⟩

/-- lower-hemisphere vectors are always shown -/
theorem lower_hemisphere_shown (area bp : Bool) {x y z : ℝ} (hz : 0 ≤ z) :
    (project area true false bp x y z).isSome = true := by
  rw [project_lower_shown area bp hz]; rfl

end MTfitVerif.C19
