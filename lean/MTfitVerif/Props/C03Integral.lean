import MTfitVerif.Props.C03
import MTfitVerif.Real.RatioIntegralLemmas
/-
  C03 (integral form) — Hinkley's closed form `ratioPdf` equals its defining integral
  `∫ |y| φ(z y; μx, σx) φ(y; μy, σy) dy`, the density of `X/Y` at `z` for independent
  `X ~ N(μx, σx²)`, `Y ~ N(μy, σy²)`.
-/
namespace MTfitVerif.C03
open MTfitVerif RatioPdf Real MeasureTheory

/-- density of `N(μ, σ²)` at `x` -/
noncomputable def gaussDensity (x μ σ : ℝ) : ℝ :=
  Real.exp (-(x - μ)^2 / (2 * σ^2)) / (σ * √(2 * π))

/-- factorisation of the integrand after completing the square (`exponent_identity`) -/
theorem integrand_factor (z μx μy : ℝ) {σx σy : ℝ} (hx : 0 < σx) (hy : 0 < σy) (y : ℝ) :
    |y| * gaussDensity (z * y) μx σx * gaussDensity y μy σy
      = (1 / (2 * π * σx * σy))
          * Real.exp (-(coefC μx μy σx σy - coefB z μx μy σx σy ^ 2 / coefA z σx σy ^ 2) / 2)
          * (|y| * Real.exp (-(coefA z σx σy ^ 2
              * (y - coefB z μx μy σx σy / coefA z σx σy ^ 2)^2) / 2)) := by
  have hE := exponent_identity z μx μy hx hy y
  simp only at hE
  generalize coefA z σx σy = a at *
  generalize coefB z μx μy σx σy = b at *
  generalize coefC μx μy σx σy = cc at *
  have e1 : Real.exp (-(cc - b^2 / a^2) / 2) * Real.exp (-(a^2 * (y - b / a^2)^2) / 2)
      = Real.exp (-(z * y - μx)^2 / (2 * σx^2)) * Real.exp (-(y - μy)^2 / (2 * σy^2)) := by
    rw [← Real.exp_add, ← Real.exp_add]
    congr 1
    have h : a^2 * (y - b / a^2)^2
        = (z * y - μx)^2 / σx^2 + (y - μy)^2 / σy^2 - cc + b^2 / a^2 := by linarith [hE]
    rw [h]; ring
  have hsq : √(2 * π) * √(2 * π) = 2 * π := Real.mul_self_sqrt (by positivity)
  have hq : 0 < √(2 * π) := by positivity
  unfold gaussDensity
  generalize √(2 * π) = q at *
  have e2 : 1 / (2 * π * σx * σy) * Real.exp (-(cc - b^2 / a^2) / 2)
        * (|y| * Real.exp (-(a^2 * (y - b / a^2)^2) / 2))
      = 1 / (2 * π * σx * σy) * |y|
        * (Real.exp (-(cc - b^2 / a^2) / 2) * Real.exp (-(a^2 * (y - b / a^2)^2) / 2)) := by ring
  rw [e2, e1, ← hsq]
  have hq' : q ≠ 0 := hq.ne'
  have hsx : σx ≠ 0 := hx.ne'
  have hsy : σy ≠ 0 := hy.ne'
  field_simp

/-- final algebra: the closed form in terms of abstract `a, b, c` -/
theorem closed_form_algebra {a : ℝ} (ha : 0 < a) (b cc : ℝ) {σx σy : ℝ} (hx : 0 < σx) (hy : 0 < σy) :
    b * Real.exp ((b * b - cc * (a * a)) / (2 * (a * a)))
          / (√(2 * π) * (σx * σy * (a * (a * a)))) * erf (b / a / √2)
        + 1 / (π * (σx * σy * (a * a))) * Real.exp (-cc / 2)
      = 1 / (2 * π * σx * σy) * Real.exp (-(cc - b^2 / a^2) / 2)
          * (2 / a^2 * Real.exp (-(a^2 * (b / a^2)^2) / 2)
              + b / a^2 * (√(2 * π) / a) * erf (a * (b / a^2) / √2)) := by
  have ha' : a ≠ 0 := ha.ne'
  have hsx : σx ≠ 0 := hx.ne'
  have hsy : σy ≠ 0 := hy.ne'
  have e1 : a * (b / a^2) = b / a := by field_simp
  have e2 : (b * b - cc * (a * a)) / (2 * (a * a)) = -(cc - b^2 / a^2) / 2 := by
    field_simp; ring
  have e3 : Real.exp (-(cc - b^2 / a^2) / 2) * Real.exp (-(a^2 * (b / a^2)^2) / 2)
      = Real.exp (-cc / 2) := by
    rw [← Real.exp_add]; congr 1; field_simp; ring
  rw [e1, e2]
  have e4 : 1 / (2 * π * σx * σy) * Real.exp (-(cc - b^2 / a^2) / 2)
          * (2 / a^2 * Real.exp (-(a^2 * (b / a^2)^2) / 2)
              + b / a^2 * (√(2 * π) / a) * erf (b / a / √2))
      = 1 / (2 * π * σx * σy) * (2 / a^2)
          * (Real.exp (-(cc - b^2 / a^2) / 2) * Real.exp (-(a^2 * (b / a^2)^2) / 2))
        + 1 / (2 * π * σx * σy) * Real.exp (-(cc - b^2 / a^2) / 2)
          * (b / a^2 * (√(2 * π) / a) * erf (b / a / √2)) := by ring
  rw [e4, e3]
  have hsq : √(2 * π) * √(2 * π) = 2 * π := Real.mul_self_sqrt (by positivity)
  have hq : 0 < √(2 * π) := by positivity
  generalize Real.exp (-(cc - b^2 / a^2) / 2) = D
  generalize Real.exp (-cc / 2) = F
  generalize erf (b / a / √2) = R
  generalize √(2 * π) = q at *
  have hpi : π = q * q / 2 := by linarith
  have hq' : q ≠ 0 := hq.ne'
  rw [hpi]
  field_simp
  ring

/-- **Hinkley's closed form is the ratio density**: `ratioPdf z` equals
    `∫ |y| φ(z y; μx, σx) φ(y; μy, σy) dy`. -/
theorem ratioPdf_eq_integral (z μx μy : ℝ) {σx σy : ℝ} (hx : 0 < σx) (hy : 0 < σy) :
    ratioPdf z μx μy σx σy
      = ∫ y : ℝ, |y| * gaussDensity (z * y) μx σx * gaussDensity y μy σy := by
  have ha := coefA_pos z hx hy
  have hfun : (fun y : ℝ => |y| * gaussDensity (z * y) μx σx * gaussDensity y μy σy)
      = fun y : ℝ => (1 / (2 * π * σx * σy))
          * Real.exp (-(coefC μx μy σx σy - coefB z μx μy σx σy ^ 2 / coefA z σx σy ^ 2) / 2)
          * (|y| * Real.exp (-(coefA z σx σy ^ 2
              * (y - coefB z μx μy σx σy / coefA z σx σy ^ 2)^2) / 2)) :=
    funext (integrand_factor z μx μy hx hy)
  rw [hfun, integral_const_mul, RatioInt.integral_abs_mul_gauss ha, ratioPdf_eq, neg_div,
    stdCdf_sub_neg]
  exact closed_form_algebra ha _ _ hx hy

end MTfitVerif.C03
