import MTfitVerif.Model.JobPool
import MTfitVerif.Real.JobPoolLemmas
/-
  C16 — the worker pool returns every submitted task result exactly once.
  Theorems about the transition system, for every interleaving (event list), any number of
  workers and tasks.  The tie to CPython's multiprocessing is trace validation: logged queue
  events of real runs are replayed through `step` by the harness.
-/
namespace MTfitVerif.C16
open MTfitVerif JobPool List

/-- every submitted task is in exactly one place: queued, running, in the result queue, handed to
    the caller, or skipped as a status code; ids are unique; `number_jobs` counts the outstanding ones -/
def Inv (s : State) : Prop :=
  (s.taskQ ++ running s ++ s.resultQ ++ s.collected ++ s.skipped).Perm (s.kinds.map (·.1)) ∧
  (s.kinds.map (·.1)).Nodup ∧
  s.numberJobs = (outstanding s).length ∧
  (∀ id ∈ s.collected, kindOf s id ≠ some .code) ∧ (∀ id ∈ s.skipped, kindOf s id = some .code)

theorem inv_init (n : Nat) : Inv (init n) := by
  have hr : running (init n) = [] := by
    rw [running_eq]
    exact filterMap_rid_replicate n rfl
  unfold Inv outstanding
  rw [hr]
  simp [init]

/-- the invariant only depends on the queues, the running ids, the counters and the kinds -/
private theorem inv_of_eq {s s' : State} (h : Inv s) (hk : s'.kinds = s.kinds) (ht : s'.taskQ = s.taskQ)
    (hr : running s' = running s) (hq : s'.resultQ = s.resultQ) (hj : s'.numberJobs = s.numberJobs)
    (hc : s'.collected = s.collected) (hsk : s'.skipped = s.skipped) : Inv s' := by
  unfold Inv outstanding kindOf at *
  rw [hk, ht, hr, hq, hj, hc, hsk]
  exact h

/-- the invariant is preserved by every enabled step -/
theorem step_inv (s s' : State) (e : Event) (h : Inv s) (hs : step s e = some s') : Inv s' := by
  cases e with
  | submit id k =>
    obtain ⟨P, N, J, C, K⟩ := h
    obtain ⟨hl, rfl⟩ := step_submit hs
    have hnot : id ∉ s.kinds.map (·.1) := (lookup_eq_none_iff_not_mem _ _).mp hl
    have hne : ∀ x, x ∈ s.collected ∨ x ∈ s.skipped → x ≠ id := by
      intro x hx e
      subst e
      apply hnot
      apply P.mem_iff.mp
      simp only [mem_append]
      rcases hx with hx | hx
      · exact Or.inl (Or.inr hx)
      · exact Or.inr hx
    refine ⟨?_, ?_, ?_, ?_, ?_⟩
    · exact Perm.cons id P
    · exact nodup_cons.mpr ⟨hnot, N⟩
    · show s.numberJobs + 1 = ((id :: s.taskQ) ++ running s ++ s.resultQ).length
      rw [J]
      simp [outstanding]
    · intro x hx
      show lookup x ((id, k) :: s.kinds) ≠ some .code
      rw [lookup_cons_ne _ _ (hne x (Or.inl hx))]
      exact C x hx
    · intro x hx
      show lookup x ((id, k) :: s.kinds) = some .code
      rw [lookup_cons_ne _ _ (hne x (Or.inr hx))]
      exact K x hx
  | take w id =>
    obtain ⟨P, N, J, C, K⟩ := h
    obtain ⟨hw, hid, rfl⟩ := step_take hs
    have hR := filterMap_set_some rid (rid_idle) (rid_running id) s.workers w hw
    have hTR := take_perm (R := running s) hid hR
    refine ⟨?_, N, ?_, C, K⟩
    · exact (Perm.append_right _ (Perm.append_right _ (Perm.append_right _ hTR))).trans P
    · show s.numberJobs = (s.taskQ.erase id ++ (s.workers.set w (.running id)).filterMap rid ++ s.resultQ).length
      have hl := hTR.length_eq
      rw [J]
      simp only [outstanding, length_append] at hl ⊢
      omega
  | finish w =>
    obtain ⟨P, N, J, C, K⟩ := h
    obtain ⟨id, hw, rfl⟩ := step_finish hs
    have hy : rid (if kindOf s id = some .raise then WState.dead else WState.idle) = none := by
      split <;> rfl
    have hR := filterMap_set_none rid (rid_running id) hy s.workers w hw
    have hTRQ := finish_perm (T := s.taskQ) (Q := s.resultQ) (R := running s) hR
    refine ⟨?_, N, ?_, C, K⟩
    · exact (Perm.append_right _ (Perm.append_right _ hTRQ)).trans P
    · rw [J]
      exact hTRQ.length_eq.symm
  | collect id =>
    obtain ⟨P, N, J, C, K⟩ := h
    obtain ⟨hid, hj, ⟨hk, rfl⟩ | ⟨hk, rfl⟩⟩ := step_collect hs
    · refine ⟨?_, N, ?_, C, ?_⟩
      · exact (collect_perm_skipped (A := s.taskQ ++ running s) hid).trans P
      · show s.numberJobs - 1 = (s.taskQ ++ running s ++ s.resultQ.erase id).length
        rw [J, outstanding, length_append, length_append (as := s.taskQ ++ running s),
          length_erase_of_mem hid]
        have := length_pos_of_mem hid
        omega
      · intro x hx
        rcases mem_cons.mp hx with rfl | hx
        · exact hk
        · exact K x hx
    · refine ⟨?_, N, ?_, ?_, K⟩
      · exact (collect_perm_collected (A := s.taskQ ++ running s) hid).trans P
      · show s.numberJobs - 1 = (s.taskQ ++ running s ++ s.resultQ.erase id).length
        rw [J, outstanding, length_append, length_append (as := s.taskQ ++ running s),
          length_erase_of_mem hid]
        have := length_pos_of_mem hid
        omega
      · intro x hx
        rcases mem_cons.mp hx with rfl | hx
        · exact hk
        · exact C x hx
  | clean =>
    have := step_clean hs
    subst this
    exact inv_of_eq h rfl rfl (filterMap_rid_map_revive s.workers) rfl rfl rfl rfl
  | close =>
    have := step_close hs
    subst this
    exact inv_of_eq h rfl rfl rfl rfl rfl rfl rfl
  | takePill w =>
    obtain ⟨hw, _, rfl⟩ := step_takePill hs
    exact inv_of_eq h rfl rfl (filterMap_set_same rid (by rfl) s.workers w hw) rfl rfl rfl rfl

/-- the invariant is kept along every run -/
private theorem run_inv_from : ∀ (es : List Event) (s s' : State), Inv s → run s es = some s' → Inv s' := by
  intro es
  induction es with
  | nil =>
    intro s s' h hr
    simp only [run, Option.some.injEq] at hr
    exact hr ▸ h
  | cons e es ih =>
    intro s s' h hr
    rw [run] at hr
    cases hst : step s e with
    | none => simp [hst] at hr
    | some s1 =>
      rw [hst] at hr
      exact ih s1 s' (step_inv s s1 e h hst) hr

/-- … hence it holds after every interleaving of submissions, worker steps, collections, cleaning
    and closing -/
theorem run_inv (n : Nat) (es : List Event) (s : State) (h : run (init n) es = some s) : Inv s :=
  run_inv_from es (init n) s (inv_init n) h

/-- exactly once: no task id is ever in two places or twice in one -/
theorem exactly_once (s : State) (h : Inv s) :
    (s.taskQ ++ running s ++ s.resultQ ++ s.collected ++ s.skipped).Nodup :=
  h.1.nodup_iff.mpr h.2.1

/-- when nothing is outstanding, the caller has received precisely the results of all submitted
    tasks that are not status codes, each once -/
theorem all_collected (s : State) (h : Inv s) (h0 : s.numberJobs = 0) :
    s.collected.Perm ((s.kinds.filter fun p => p.2 ≠ .code).map (·.1)) := by
  obtain ⟨P, N, J, C, K⟩ := h
  have hout : s.taskQ ++ running s ++ s.resultQ = [] := by
    apply eq_nil_of_length_eq_zero
    rw [h0] at J
    exact J.symm
  rw [hout, nil_append] at P
  have hmap := map_fst_filter_snd s.kinds (fun k => decide (k ≠ Kind.code))
    (fun id => decide (kindOf s id ≠ some Kind.code))
    (by
      intro p hp
      have := lookup_of_mem_nodup s.kinds N p hp
      simp [kindOf, this])
  rw [hmap]
  have hf := filter_append_of_all_none (fun id => decide (kindOf s id ≠ some Kind.code))
    s.collected s.skipped (by intro a ha; simpa using C a ha) (by intro a ha; simpa using K a ha)
  have := P.filter (fun id => decide (kindOf s id ≠ some Kind.code))
  rw [hf] at this
  exact this

/-- a raising task kills its worker but its exception is delivered like any other result: after
    `finish` the id is in the result queue whatever the kind -/
theorem finish_delivers (s s' : State) (w id : Nat) (hw : s.workers[w]? = some (.running id))
    (hs : step s (.finish w) = some s') : id ∈ s'.resultQ := by
  rw [step_finish_enabled hw, Option.some.injEq] at hs
  subst hs
  exact mem_cons_self

/-- progress events -/
def isProgress : Event → Bool
  | .take _ _ | .finish _ | .collect _ => true
  | _ => false

def deadCount (s : State) : Nat := (s.workers.filter (· = .dead)).length
def liveSlots (s : State) : Nat := (s.workers.filter (· ≠ .exited)).length

/-- no deadlock while results are outstanding: if the pool has a worker slot that has not been
    closed, then either a progress event is enabled, or a dead worker can be replaced (which the
    collecting call does) -/
theorem no_deadlock (s : State) (h : Inv s) (hj : 0 < s.numberJobs) (hlive : 0 < liveSlots s) (hp : s.pills = 0) :
    (∃ e, isProgress e = true ∧ (step s e).isSome) ∨ 0 < deadCount s := by
  obtain ⟨P, N, J, C, K⟩ := h
  have _ := hp  -- not needed: pills only matter for `takePill`
  by_cases hq : s.resultQ = []
  · by_cases hr : running s = []
    · -- everything outstanding is queued
      have ht : s.taskQ ≠ [] := by
        intro ht
        rw [J, outstanding, ht, hr, hq] at hj
        simp at hj
      obtain ⟨id, hid⟩ := exists_mem_of_ne_nil _ ht
      by_cases hidle : WState.idle ∈ s.workers
      · obtain ⟨w, hw⟩ := mem_iff_getElem?.mp hidle
        left
        refine ⟨.take w id, rfl, ?_⟩
        simp [step, hw, hid]
      · right
        -- a live slot is neither exited, nor idle, nor running
        unfold liveSlots at hlive
        obtain ⟨x, hx⟩ := exists_mem_of_length_pos hlive
        obtain ⟨hxw, hxe⟩ := mem_filter.mp hx
        have hxd : x = .dead := by
          cases x with
          | idle => exact absurd hxw hidle
          | running id' =>
            have : id' ∈ running s := by
              rw [running_eq]
              exact mem_filterMap.mpr ⟨_, hxw, rfl⟩
            rw [hr] at this
            simp at this
          | dead => rfl
          | exited => simp at hxe
        unfold deadCount
        apply length_pos_of_mem (a := x)
        exact mem_filter.mpr ⟨hxw, by simp [hxd]⟩
    · left
      rw [running_eq] at hr
      obtain ⟨w, id, hw⟩ := exists_running_index hr
      refine ⟨.finish w, rfl, ?_⟩
      rw [step_finish_enabled hw]
      rfl
  · left
    obtain ⟨id, hid⟩ := exists_mem_of_ne_nil _ hq
    refine ⟨.collect id, rfl, ?_⟩
    simp only [step, hid, hj, and_self, if_true]
    split <;> rfl

/-- termination measure: strictly decreases on every progress event and on every cleaning that
    replaces a dead worker; it never increases without a submission -/
def measure (s : State) : Nat := 6 * s.taskQ.length + 4 * (running s).length + s.resultQ.length + 2 * deadCount s

theorem progress_decreases (s s' : State) (e : Event) (hp : isProgress e = true) (hs : step s e = some s') :
    measure s' < measure s := by
  cases e with
  | take w id =>
    obtain ⟨hw, hid, rfl⟩ := step_take hs
    have hR := (filterMap_set_some rid (rid_idle) (rid_running id) s.workers w hw).length_eq
    have hD := length_filter_set_of_false (fun x => decide (x = WState.dead)) (y := .running id)
      (by simp) (by simp) s.workers w hw
    have hT := length_erase_of_mem hid
    have hpos := length_pos_of_mem hid
    simp only [measure, deadCount, running_eq, length_cons] at *
    omega
  | finish w =>
    obtain ⟨id, hw, rfl⟩ := step_finish hs
    have hy : rid (if kindOf s id = some .raise then WState.dead else WState.idle) = none := by
      split <;> rfl
    have hR := (filterMap_set_none rid (rid_running id) hy s.workers w hw).length_eq
    have hD := length_filter_set_le (fun x => decide (x = WState.dead))
      (y := if kindOf s id = some .raise then WState.dead else WState.idle) (by simp) s.workers w hw
    simp only [measure, deadCount, running_eq, length_cons] at *
    omega
  | collect id =>
    obtain ⟨hid, hj, ⟨hk, rfl⟩ | ⟨hk, rfl⟩⟩ := step_collect hs
    all_goals
      have hQ := length_erase_of_mem hid
      have hpos := length_pos_of_mem hid
      simp only [measure, deadCount, running_eq] at *
      omega
  | submit id k => simp [isProgress] at hp
  | clean => simp [isProgress] at hp
  | close => simp [isProgress] at hp
  | takePill w => simp [isProgress] at hp

theorem clean_decreases (s s' : State) (hd : 0 < deadCount s) (hs : step s .clean = some s') :
    measure s' < measure s ∧ deadCount s' = 0 := by
  have := step_clean hs
  subst this
  have h0 : deadCount { s with workers := s.workers.map revive } = 0 := by
    unfold deadCount
    rw [length_eq_zero_iff, filter_eq_nil_iff]
    intro a ha
    obtain ⟨x, _, rfl⟩ := mem_map.mp ha
    simpa using revive_ne_dead x
  refine ⟨?_, h0⟩
  have hr : running { s with workers := s.workers.map revive } = running s :=
    filterMap_rid_map_revive s.workers
  unfold measure
  rw [h0, hr]
  show 6 * s.taskQ.length + 4 * (running s).length + s.resultQ.length + 2 * 0 < _
  omega

/-- collecting everything terminates: any sequence of progress / cleaning-of-dead events from a
    state is no longer than its measure -/
theorem collection_terminates (s : State) (es : List Event) (s' : State) (h : run s es = some s')
    (hall : ∀ e ∈ es, isProgress e = true) : es.length ≤ measure s := by
  induction es generalizing s with
  | nil => exact Nat.zero_le _
  | cons e es ih =>
    rw [run] at h
    cases hst : step s e with
    | none => simp [hst] at h
    | some s1 =>
      rw [hst] at h
      have h1 := progress_decreases s s1 e (hall e mem_cons_self) hst
      have h2 := ih s1 h (fun e' he' => hall e' (mem_cons_of_mem _ he'))
      simp only [length_cons]
      omega

/-- closing ends every worker: with all workers idle, `close` followed by one `takePill` per
    worker is enabled and leaves every worker exited -/
theorem close_ends_all_workers (n : Nat) (s : State) (hw : s.workers = List.replicate n .idle) (hp : s.pills = 0) :
    ∃ s', run s (.close :: (List.range n).map .takePill) = some s' ∧ s'.workers = List.replicate n .exited ∧ s'.pills = 0 := by
  obtain ⟨s', hr, hw', hp'⟩ := run_takePills n 0 { s with pills := s.pills + s.workers.length }
    (by simp [hw]) (by simp [hp, hw])
  refine ⟨s', ?_, by simpa using hw', hp'⟩
  rw [range_eq_range']
  exact hr

end MTfitVerif.C16
