import MTfitVerif.Model.Forward
import MTfitVerif.Real.LogDomainLemmas
import MTfitVerif.Props.C04
import MTfitVerif.Props.C02
import MTfitVerif.Props.C03
import MTfitVerif.Real.ForwardLemmas
/-
  C01 — the posterior of a source is the product of its independent data likelihoods; with
  location samples it is the weight-multiplied sum over the samples of that product.
-/
namespace MTfitVerif.C01
open MTfitVerif LogP Polarity RatioPdf LogDomain Forward Real

/-- likelihood (probability scale) of tensor `mt` at location sample `k`: the product over the
    stations of every selected data type -/
noncomputable def likAt (d : Data ℝ) (k : Nat) (mt : List ℝ) : ℝ :=
  (if !d.pol.isEmpty then
      (d.pol.map fun s => polProb (dot (s.coeffs.getD k []) mt) s.sigma s.w).prod
    else (d.polProb.map fun s => polProbP (dot (s.coeffs.getD k []) mt) s.pp s.pn s.w).prod)
  * (d.ar.map fun s => arPdf s.ratio (dot (s.cx.getD k []) mt) (dot (s.cy.getD k []) mt) s.px s.py).prod

/-- well-formed data: every probability-like datum lies in [0,1] -/
def WF (d : Data ℝ) : Prop :=
  (∀ s ∈ d.pol, 0 ≤ s.w ∧ s.w ≤ 1) ∧
  (∀ s ∈ d.polProb, (0 ≤ s.pp ∧ s.pp ≤ 1) ∧ (0 ≤ s.pn ∧ s.pn ≤ 1) ∧ (0 ≤ s.w ∧ s.w ≤ 1))

/-- the polarity term denotes the product of the station probabilities of the polarity data
    type in use (manual polarities, else polarity probabilities, else nothing = 1) -/
theorem polTerm_toProb (d : Data ℝ) (hwf : WF d) (k : Nat) (mt : List ℝ) :
    toProb (polTerm d k mt) =
      (if !d.pol.isEmpty then
        (d.pol.map fun s => polProb (dot (s.coeffs.getD k []) mt) s.sigma s.w).prod
      else (d.polProb.map fun s => polProbP (dot (s.coeffs.getD k []) mt) s.pp s.pn s.w).prod) := by
  obtain ⟨hp, hpp⟩ := hwf
  unfold polTerm
  cases h1 : d.pol.isEmpty with
  | false =>
    simp only [Bool.not_false, if_true]
    exact C02.lnPolAt_toProb _ k mt hp
  | true =>
    simp only [Bool.not_true, Bool.false_eq_true, if_false]
    cases h2 : d.polProb.isEmpty with
    | false =>
      simp only [Bool.not_false, if_true]
      exact C02.lnPolProbAt_toProb _ k mt hpp
    | true =>
      rw [List.isEmpty_iff.mp h2]
      simp

/-- the log-likelihood at one location sample denotes the product of the station likelihoods of
    every supplied data type (sum of logs, any number of stations) -/
theorem lnAt_toProb (d : Data ℝ) (hwf : WF d) (k : Nat) (mt : List ℝ) :
    toProb (lnAt d k mt) = likAt d k mt := by
  unfold lnAt likAt
  cases h : d.ar.isEmpty with
  | true =>
    rw [List.isEmpty_iff.mp h]
    simp only [if_true, List.map_nil, List.prod_nil, mul_one]
    exact polTerm_toProb d hwf k mt
  | false =>
    simp only [Bool.false_eq_true, if_false]
    rw [toProb_add, polTerm_toProb d hwf k mt, C03.lnArAt_toProb]

/-- no location samples: the reported value is the sum of the log-likelihoods -/
theorem value_no_loc (d : Data ℝ) (hwf : WF d) (h1 : d.nloc = 1) (mt : List ℝ) :
    toProb (value d mt) = likAt d 0 mt := by
  have hv : value d mt = lnAt d 0 mt := by
    unfold value column
    rw [h1]
    simp only [gt_iff_lt, lt_irrefl, if_false, List.range_one, List.map_cons, List.map_nil,
      List.headD_cons]
    exact weighted_of_le d (by omega) 0 _
  rw [hv, lnAt_toProb d hwf]

/-- location samples with weights `w > 0`: the reported value denotes `Σₖ wₖ · Πᵢ pᵢₖ` -/
theorem value_loc_weighted (d : Data ℝ) (hwf : WF d) (hK : 1 < d.nloc) (ws : List ℝ)
    (hws : d.weights = some ws) (hlen : ws.length = d.nloc) (hpos : ∀ w ∈ ws, 0 < w) (mt : List ℝ) :
    toProb (value d mt) = ((List.range d.nloc).map fun k => ws.getD k 1 * likAt d k mt).sum := by
  unfold value
  rw [if_pos hK]
  have h1 : (0 : ℝ) < c 1 := by simp
  rw [C04.lnMargCol_exact _ h1]
  simp only [flt_c, Nat.cast_one, one_mul]
  unfold column
  rw [List.map_map]
  congr 1
  apply List.map_congr_left
  intro k hk
  have hk' : k < ws.length := by rw [hlen]; exact List.mem_range.mp hk
  have hw : 0 < ws.getD k 1 := by
    rw [List.getD_eq_getElem?_getD, List.getElem?_eq_getElem hk', Option.getD_some]
    exact hpos _ (List.getElem_mem hk')
  simp only [Function.comp_apply]
  rw [weighted_some d hK ws hws, toProb_shift, Real.exp_log hw, lnAt_toProb d hwf, mul_comm]

/-- … and without weights the plain sum over the samples -/
theorem value_loc_unweighted (d : Data ℝ) (hwf : WF d) (hK : 1 < d.nloc) (hws : d.weights = none)
    (mt : List ℝ) :
    toProb (value d mt) = ((List.range d.nloc).map fun k => likAt d k mt).sum := by
  unfold value
  rw [if_pos hK]
  have h1 : (0 : ℝ) < c 1 := by simp
  rw [C04.lnMargCol_exact _ h1]
  simp only [flt_c, Nat.cast_one, one_mul]
  unfold column
  rw [List.map_map]
  congr 1
  apply List.map_congr_left
  intro k _
  simp only [Function.comp_apply]
  rw [weighted_none d hws, lnAt_toProb d hwf]

/-- adding the amplitude-ratio data type adds exactly its log-likelihood -/
theorem add_ar_adds_term (d : Data ℝ) (ar : List (ArStation ℝ)) (har : ar ≠ []) (hd : d.ar = [])
    (k : Nat) (mt : List ℝ) :
    lnAt { d with ar := ar } k mt = add (lnAt d k mt) (lnArAt ar k mt) := by
  have hne : ar.isEmpty = false := by
    cases ar with
    | nil => exact absurd rfl har
    | cons _ _ => rfl
  have h1 : lnAt { d with ar := ar } k mt = add (polTerm d k mt) (lnArAt ar k mt) := by
    unfold lnAt
    simp only [hne, Bool.false_eq_true, if_false]
    rfl
  have h2 : lnAt d k mt = polTerm d k mt := by
    unfold lnAt; rw [hd]; rfl
  rw [h1, h2]

/-- a data type that is not supplied contributes nothing: with no amplitude ratios the value is
    the polarity term alone; with no polarity information it is the amplitude-ratio term alone -/
theorem only_selected_contribute (d : Data ℝ) (k : Nat) (mt : List ℝ) :
    (d.ar = [] → lnAt d k mt = polTerm d k mt) ∧
    (d.pol = [] → d.polProb = [] → d.ar ≠ [] → toProb (lnAt d k mt) = toProb (lnArAt d.ar k mt)) := by
  constructor
  · intro hd; unfold lnAt; rw [hd]; rfl
  · intro hp hpp har
    have hne : d.ar.isEmpty = false := by
      cases h : d.ar with
      | nil => exact absurd h har
      | cons _ _ => rfl
    have hpt : polTerm d k mt = fin (c 0) := by
      unfold polTerm; rw [hp, hpp]; rfl
    unfold lnAt
    simp only [hne, Bool.false_eq_true, if_false]
    rw [hpt, add_fin_zero_left]

/-- the value of a candidate does not depend on which other candidates share its batch, and
    results stay paired with their own tensors -/
theorem batch_independent (d : Data ℝ) (marg : Bool) (mts : List (List ℝ)) :
    lnPdfRows d true mts = [mts.map (value d)] ∧
    (run d marg true mts).1 = List.range mts.length := by
  constructor
  · unfold lnPdfRows; simp
  · unfold run; simp

/-- station order does not matter -/
theorem perm_pol_stations (d : Data ℝ) (pol' : List (PolStation ℝ)) (h : d.pol.Perm pol')
    (mt : List ℝ) : value { d with pol := pol' } mt = value d mt := by
  refine value_congr (d := d) (d' := { d with pol := pol' }) rfl rfl mt ?_
  intro k
  unfold lnAt polTerm
  simp only [← isEmpty_perm h, ← lnPolAt_perm h]

theorem perm_ar_stations (d : Data ℝ) (ar' : List (ArStation ℝ)) (h : d.ar.Perm ar')
    (mt : List ℝ) : value { d with ar := ar' } mt = value d mt := by
  refine value_congr (d := d) (d' := { d with ar := ar' }) rfl rfl mt ?_
  intro k
  unfold lnAt polTerm
  simp only [← isEmpty_perm h, ← lnArAt_perm h]

/-- the order of the location samples does not matter: any permutation of a column of
    per-sample values has the same marginal -/
theorem perm_location_samples {col col' : List (LogP ℝ)} (h : col.Perm col') (dV : ℝ) :
    lnMargCol col dV = lnMargCol col' dV :=
  lnMargCol_perm h dV

/-- a duplicated location sample is the same as one sample with the summed weight -/
theorem duplicate_vs_weight (x : LogP ℝ) (rest : List (LogP ℝ)) {a b : ℝ} (ha : 0 < a) (hb : 0 < b) :
    toProb (lnMargCol (shift x (Real.log a) :: shift x (Real.log b) :: rest) 1)
      = toProb (lnMargCol (shift x (Real.log (a + b)) :: rest) 1) := by
  rw [C04.lnMargCol_exact _ one_pos, C04.lnMargCol_exact _ one_pos]
  simp only [List.map_cons, List.sum_cons, toProb_shift, Real.exp_log ha, Real.exp_log hb,
    Real.exp_log (add_pos ha hb)]
  ring

/-- zero filtering keeps exactly the candidates of non-zero probability, each paired with its own
    tensor and value -/
theorem filter_commutes (d : Data ℝ) (mts : List (List ℝ)) :
    let r := run d true false mts
    r.1 = (List.range mts.length).filter (fun i => isFin (value d (mts.getD i []))) ∧
    r.2.1 = [(mts.filter (fun mt => isFin (value d mt))).map (value d)] ∧
    r.2.2 = mts.length := by
  have hfst := zip_range_filter_fst (fun mt => isFin (value d mt)) [] mts
  have hsnd := zip_range_filter_snd (fun mt => isFin (value d mt)) mts
  refine ⟨?_, ?_, rfl⟩
  · simpa [run, keep] using hfst
  · simp only [run, keep, Bool.false_eq_true, if_false, lnPdfRows, Bool.true_or, if_true]
    rw [hsnd]

end MTfitVerif.C01
