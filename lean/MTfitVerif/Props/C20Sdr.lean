import MTfitVerif.Model.PyxKernels
import MTfitVerif.Model.Convert
import MTfitVerif.Real.Inst
import MTfitVerif.Real.ConvertLemmasSdr
import MTfitVerif.Real.PyxSdrLemmas
import MTfitVerif.Props.C13
/-
  C20D, part B — the scalar kernels `cN_SDR` and `csingleSDR_SDR` of cmoment_tensor_conversion.pyx, as translated in
  `Model/PyxKernels.lean`, equal over ℝ the models `fpToSdr`, `sdrToSdr` (`Model/Convert.lean`) of the Python `FP_SDR`,
  `SDR_SDR`: `cN_SDR` for every unit normal and unit slip, `csingleSDR_SDR` for every strike, dip, rake with `0 ≤ sin d`.
  (`cN_SDR` has the in-plane form of the rake for `sin(dip) < 1e-6` that `FP_SDR` has; before that repair the two differed
  on horizontal planes.)
-/
set_option linter.unusedVariables false
namespace MTfitVerif.C20
open MTfitVerif MTfitVerif.Convert Real MTfitVerif.ConvertSdr MTfitVerif.PyxSdr

/-- the rake as the compiled `cN_SDR` evaluates it from the raw strike `A = atan2(-N0, N1)` and the dip `D`: the in-plane form
    when `sin D < 1e-6`, otherwise `atan2(-S2, S0 N1 - S1 N0)` -/
noncomputable def cRake (A D N0 N1 S0 S1 S2 : ℝ) : ℝ :=
  if sin D < (sci 1 6 : ℝ) then
    atan2 (S0 * sin A * cos D - S1 * cos A * cos D - S2 * sin D) (S0 * cos A + S1 * sin A)
  else atan2 (-S2) (S0 * N1 - S1 * N0)

theorem cRake_mem (A D N0 N1 S0 S1 S2 : ℝ) : -π < cRake A D N0 N1 S0 S1 S2 ∧ cRake A D N0 N1 S0 S1 S2 ≤ π := by
  unfold cRake; split <;> exact atan2_mem _ _

/-- the compiled `cN_SDR` over ℝ with its dead branches removed (`dip > π/2`, the `fmod` of the strike, the rake wraps) -/
theorem cN_SDR_closed (N0 N1 N2 S0 S1 S2 a b c' : ℝ) :
    Pyx.cconvert.cN_SDR N0 N1 N2 S0 S1 S2 a b c'
      = if 0 < N2 then
          (mod2pi (mod2pi (atan2 (-(-N0)) (-N1))),
            atan2 ((-N1) * (-N1) + (-N0) * (-N0)) (√(((-N0) * (-N2)) * ((-N0) * (-N2)) + ((-N1) * (-N2)) * ((-N1) * (-N2)))),
            cRake (atan2 (-(-N0)) (-N1))
              (atan2 ((-N1) * (-N1) + (-N0) * (-N0)) (√(((-N0) * (-N2)) * ((-N0) * (-N2)) + ((-N1) * (-N2)) * ((-N1) * (-N2)))))
              (-N0) (-N1) (-S0) (-S1) (-S2))
        else
          (mod2pi (mod2pi (atan2 (-N0) N1)),
            atan2 (N1 * N1 + N0 * N0) (√((N0 * N2) * (N0 * N2) + (N1 * N2) * (N1 * N2))),
            cRake (atan2 (-N0) N1) (atan2 (N1 * N1 + N0 * N0) (√((N0 * N2) * (N0 * N2) + (N1 * N2) * (N1 * N2))))
              N0 N1 S0 S1 S2) := by
  unfold Pyx.cconvert.cN_SDR cRake
  simp only [Pyx.cconvert.k_PI2, flt_ltb, flt_c, flt_pi, flt_atan2, flt_sqrt, flt_abs, flt_sin, flt_cos, Nat.cast_zero,
    Nat.cast_ofNat, decide_eq_true_eq, atan2_gt_pi_iff, atan2_lt_neg_pi_iff, abs_atan2_gt_two_pi_iff, dip_gt_iff, if_false,
    mod2pi_mod2pi_atan2]
  split_ifs <;> rfl

/-- the rake of the model of `FP_SDR` is the compiled kernel's: the model reads the strike after `np.mod(·, 2π)`, the kernel
    before, and only through its sine and cosine -/
theorem rakeOf_eq_cRake (m t : V3 ℝ) :
    rakeOf m t = cRake (atan2 (-m.x) m.y)
      (atan2 (m.y * m.y + m.x * m.x) (√((m.x * m.z) * (m.x * m.z) + (m.y * m.z) * (m.y * m.z)))) m.x m.y t.x t.y t.z := by
  simp only [rakeOf, rakeRaw, sdOf, cRake, sin_mod2pi, cos_mod2pi]

/-- C20D item 5: over ℝ the compiled `cN_SDR(normal, slip)` (with the in-plane rake branch for `sin(dip) < 1e-6`) equals the
    model `fpToSdr` of the Python `FP_SDR` for every unit normal and unit slip vector — horizontal planes included, and
    perpendicularity is not needed.  (The kernel does not normalise its arguments, `FP_SDR` does: hence the unit hypotheses.  The
    three trailing arguments of the kernel are the C output slots; it does not read them.) -/
theorem cN_SDR_eq (N0 N1 N2 S0 S1 S2 a b c' : ℝ) (hN : N0 * N0 + N1 * N1 + N2 * N2 = 1)
    (hS : S0 * S0 + S1 * S1 + S2 * S2 = 1) :
    Pyx.cconvert.cN_SDR N0 N1 N2 S0 S1 S2 a b c' = fpToSdr ⟨N0, N1, N2⟩ ⟨S0, S1, S2⟩ := by
  obtain ⟨m, t, hc, hmz, h⟩ := fpToSdr_eq ⟨N0, N1, N2⟩ ⟨S0, S1, S2⟩
  rw [unit_of_unit (a := ⟨N0, N1, N2⟩) hN, unit_of_unit (a := ⟨S0, S1, S2⟩) hS] at hc
  rw [h, cN_SDR_closed, rakeOf_eq_cRake]
  rcases hc with ⟨rfl, rfl, hz⟩ | ⟨rfl, rfl, hz⟩
  · rw [if_neg hz]; rfl
  · rw [if_pos hz]; rfl

/-! ### horizontal planes -/

theorem sci_1_6_pos : (0 : ℝ) < (sci 1 6 : ℝ) := by
  rw [flt_sci]; norm_num

theorem atan2_zero_zero : atan2 0 0 = 0 := by unfold atan2; exact Complex.arg_zero

/-- on the horizontal plane with normal `(0, 0, -1)` the model of `FP_SDR` returns strike 0, dip 0 and, as rake, the angle of
    the slip vector from the strike direction (north) -/
theorem fpToSdr_horizontal (S0 S1 : ℝ) (hS : S0 * S0 + S1 * S1 = 1) :
    fpToSdr ⟨0, 0, -1⟩ ⟨S0, S1, 0⟩ = (0, 0, atan2 (-S1) S0) := by
  have hN : V3.dot (⟨0, 0, -1⟩ : V3 ℝ) ⟨0, 0, -1⟩ = 1 := by simp [V3.dot]
  have hS' : V3.dot (⟨S0, S1, 0⟩ : V3 ℝ) ⟨S0, S1, 0⟩ = 1 := by simp only [V3.dot]; linarith
  have hz : ¬ 0 < (V3.unit (⟨0, 0, -1⟩ : V3 ℝ)).z := by rw [unit_of_unit hN]; norm_num
  have hm : mod2pi (0 : ℝ) = 0 := mod2pi_of_mem le_rfl (by positivity)
  have hsd : sdOf (⟨0, 0, -1⟩ : V3 ℝ) = (0, 0) := by simp [sdOf, atan2_zero_zero, hm]
  rw [fpToSdr_noflip _ _ hz, unit_of_unit hN, unit_of_unit hS',
    normalToSd_of_unit (unit_of_unit hN) (by norm_num), hsd]
  simp only [rakeRaw, hm, Real.sin_zero, Real.cos_zero, sci_1_6_pos, if_true]
  simp

/-- and so does the compiled kernel (before the repair of the .pyx it returned rake 0 there: both arguments of
    `atan2(-S2, S0 N1 - S1 N0)` vanish) -/
theorem cN_SDR_horizontal (S0 S1 a b c' : ℝ) (hS : S0 * S0 + S1 * S1 = 1) :
    Pyx.cconvert.cN_SDR 0 0 (-1) S0 S1 0 a b c' = (0, 0, atan2 (-S1) S0) := by
  rw [cN_SDR_eq 0 0 (-1) S0 S1 0 a b c' (by norm_num) (by linarith), fpToSdr_horizontal S0 S1 hS]

/-! ### `csingleSDR_SDR` -/

/-- over ℝ and for `0 ≤ sin d` the compiled `csingleSDR_SDR` hands the slip vector and the fault normal of the plane
    `(s, d, r)` to `cN_SDR`, the slip vector in the place of the normal.  (The code has `√(1 - cos² d)` for `sin d`, and
    normalises `T = a + b`, `P = a - b`, `T + P`, `T - P` in turn; all four norms are `√2`.) -/
theorem csingleSDR_SDR_closed (s d r a b c' : ℝ) (hd : 0 ≤ sin d) :
    Pyx.cconvert.csingleSDR_SDR s d r a b c'
      = Pyx.cconvert.cN_SDR (sdrVec1 s d r).x (sdrVec1 s d r).y (sdrVec1 s d r).z
          (sdrVec2 s d).x (sdrVec2 s d).y (sdrVec2 s d).z a b c' := by
  have hsh : √(1 - cos d * cos d) = sin d := by
    rw [show 1 - cos d * cos d = sin d ^ 2 by linear_combination -(Real.sin_sq_add_cos_sq d), Real.sqrt_sq hd]
  unfold Pyx.cconvert.csingleSDR_SDR
  simp only [flt_cos, flt_sin, flt_sqrt, flt_c, Nat.cast_one, hsh, sdrVec1, sdrVec2]
  have h1 := Real.sin_sq_add_cos_sq s
  have h2 := Real.sin_sq_add_cos_sq r
  have h3 := Real.sin_sq_add_cos_sq d
  generalize cos s = ck at *
  generalize sin s = sk at *
  generalize cos r = cs at *
  generalize sin r = ss at *
  generalize cos d = h at *
  generalize sin d = sh at *
  have hNT : √((ck * cs + sk * h * ss - sk * sh) * (ck * cs + sk * h * ss - sk * sh) +
      (sk * cs - ck * h * ss + ck * sh) * (sk * cs - ck * h * ss + ck * sh) +
      (-sh * ss - h) * (-sh * ss - h)) = √2 := by
    congr 1
    linear_combination (cs ^ 2 + h ^ 2 * ss ^ 2 + sh ^ 2 - 2 * h * ss * sh) * h1 + h2 + (1 + ss ^ 2) * h3
  have hNP : √((ck * cs + sk * h * ss + sk * sh) * (ck * cs + sk * h * ss + sk * sh) +
      (sk * cs - ck * h * ss - ck * sh) * (sk * cs - ck * h * ss - ck * sh) +
      (-sh * ss + h) * (-sh * ss + h)) = √2 := by
    congr 1
    linear_combination (cs ^ 2 + h ^ 2 * ss ^ 2 + sh ^ 2 + 2 * h * ss * sh) * h1 + h2 + (1 + ss ^ 2) * h3
  simp only [hNT, hNP, ← add_div, ← sub_div, div_mul_div_comm, sqrt2_mul_sqrt2]
  have hSt : √(((ck * cs + sk * h * ss - sk * sh + (ck * cs + sk * h * ss + sk * sh)) *
        (ck * cs + sk * h * ss - sk * sh + (ck * cs + sk * h * ss + sk * sh)) +
      (sk * cs - ck * h * ss + ck * sh + (sk * cs - ck * h * ss - ck * sh)) *
        (sk * cs - ck * h * ss + ck * sh + (sk * cs - ck * h * ss - ck * sh)) +
      (-sh * ss - h + (-sh * ss + h)) * (-sh * ss - h + (-sh * ss + h))) / 2) = √2 := by
    congr 1
    linear_combination (2 * cs ^ 2 + 2 * h ^ 2 * ss ^ 2) * h1 + 2 * h2 + (2 * ss ^ 2) * h3
  have hNt : √(((ck * cs + sk * h * ss - sk * sh - (ck * cs + sk * h * ss + sk * sh)) *
        (ck * cs + sk * h * ss - sk * sh - (ck * cs + sk * h * ss + sk * sh)) +
      (sk * cs - ck * h * ss + ck * sh - (sk * cs - ck * h * ss - ck * sh)) *
        (sk * cs - ck * h * ss + ck * sh - (sk * cs - ck * h * ss - ck * sh)) +
      (-sh * ss - h - (-sh * ss + h)) * (-sh * ss - h - (-sh * ss + h))) / 2) = √2 := by
    congr 1
    linear_combination (2 * sh ^ 2) * h1 + 2 * h3
  simp only [hSt, hNt, div_div, sqrt2_mul_sqrt2]
  have e1 : (ck * cs + sk * h * ss - sk * sh + (ck * cs + sk * h * ss + sk * sh)) / 2 = ck * cs + sk * h * ss := by ring
  have e2 : (sk * cs - ck * h * ss + ck * sh + (sk * cs - ck * h * ss - ck * sh)) / 2 = sk * cs - ck * h * ss := by ring
  have e3 : (-sh * ss - h + (-sh * ss + h)) / 2 = -sh * ss := by ring
  have e4 : (ck * cs + sk * h * ss - sk * sh - (ck * cs + sk * h * ss + sk * sh)) / 2 = -sk * sh := by ring
  have e5 : (sk * cs - ck * h * ss + ck * sh - (sk * cs - ck * h * ss - ck * sh)) / 2 = ck * sh := by ring
  have e6 : (-sh * ss - h - (-sh * ss + h)) / 2 = -h := by ring
  rw [e1, e2, e3, e4, e5, e6]

/-- the model of `SDR_SDR` returns the plane whose normal is the slip vector of the input, for every strike, dip and rake
    (`C13.sdrToSdr_is_aux` without its range hypotheses) -/
theorem sdrToSdr_eq_aux (s d r : ℝ) : sdrToSdr s d r = fpToSdr (sdrVec1 s d r) (sdrVec2 s d) := by
  obtain ⟨h1, h2, h3⟩ := C13.sdrVecs_unit_perp s d r
  have h3' : V3.dot (sdrVec2 s d) (sdrVec1 s d r) = 0 := by
    simp only [V3.dot] at h3 ⊢; linear_combination h3
  have e1 : normalDot (fpToSdr (sdrVec1 s d r) (sdrVec2 s d)).1 (fpToSdr (sdrVec1 s d r) (sdrVec2 s d)).2.1 s d
      = 0 := by rw [normalDot_fpToSdr h1, h3, abs_zero]
  have e2 : normalDot (fpToSdr (sdrVec2 s d) (sdrVec1 s d r)).1 (fpToSdr (sdrVec2 s d) (sdrVec1 s d r)).2.1 s d
      = 1 := by rw [normalDot_fpToSdr h2, h2, abs_one]
  simp only [sdrToSdr, C13.sdrToFp_eq, e1, e2, flt_ltb, zero_lt_one, decide_true, if_true]

/-- C20D item 6: over ℝ the compiled `csingleSDR_SDR` equals the model `sdrToSdr` of the Python `SDR_SDR` whenever
    `0 ≤ sin d` (the code takes the non-negative root `√(1 - cos² d)` for `sin d`), vertical dip-slip faults — whose auxiliary
    plane is horizontal — included. -/
theorem csingleSDR_SDR_eq (s d r a b c' : ℝ) (hd : 0 ≤ sin d) :
    Pyx.cconvert.csingleSDR_SDR s d r a b c' = sdrToSdr s d r := by
  obtain ⟨h1, h2, -⟩ := C13.sdrVecs_unit_perp s d r
  rw [csingleSDR_SDR_closed s d r a b c' hd, sdrToSdr_eq_aux]
  exact cN_SDR_eq _ _ _ _ _ _ a b c' h1 h2

/-- the dip enters the compiled kernel through `cos d` only -/
theorem csingleSDR_SDR_neg_dip (s d r a b c' : ℝ) :
    Pyx.cconvert.csingleSDR_SDR s (-d) r a b c' = Pyx.cconvert.csingleSDR_SDR s d r a b c' := by
  unfold Pyx.cconvert.csingleSDR_SDR
  simp only [flt_cos, Real.cos_neg]

/-- FINDING (outside the physical range of the dip): so for `sin d ≤ 0` it returns the auxiliary plane of `(s, -d, r)`, not of
    `(s, d, r)` -/
theorem csingleSDR_SDR_eq_of_sin_nonpos (s d r a b c' : ℝ) (hd : sin d ≤ 0) :
    Pyx.cconvert.csingleSDR_SDR s d r a b c' = sdrToSdr s (-d) r := by
  rw [← csingleSDR_SDR_neg_dip]
  exact csingleSDR_SDR_eq s (-d) r a b c' (by rw [Real.sin_neg]; linarith)

/-- the vertical dip-slip fault `(s, d, r) = (0, π/2, π/2)`, whose auxiliary plane is horizontal: the compiled
    `csingleSDR_SDR` and the model of the Python `SDR_SDR` both give `(0, 0, -π/2)` (before the repair of `cN_SDR` the
    kernel gave `(0, 0, 0)`) -/
theorem csingleSDR_SDR_vertical_dip_slip (a b c' : ℝ) :
    Pyx.cconvert.csingleSDR_SDR 0 (π / 2) (π / 2) a b c' = (0, 0, -(π / 2)) ∧
      sdrToSdr 0 (π / 2) (π / 2) = (0, 0, -(π / 2)) := by
  have hv1 : sdrVec1 0 (π / 2) (π / 2) = ⟨0, 0, -1⟩ := by
    apply V3.ext' <;> simp [sdrVec1]
  have hv2 : sdrVec2 0 (π / 2) = ⟨0, 1, 0⟩ := by
    apply V3.ext' <;> simp [sdrVec2]
  have ha : atan2 (-1) 0 = -(π / 2) := by
    unfold atan2
    have h : (⟨0, -1⟩ : ℂ) = -Complex.I := by apply Complex.ext <;> simp
    rw [h, Complex.arg_neg_I]
  have hm : sdrToSdr 0 (π / 2) (π / 2) = (0, 0, -(π / 2)) := by
    rw [sdrToSdr_eq_aux, hv1, hv2, fpToSdr_horizontal 0 1 (by norm_num), ha]
  exact ⟨by rw [csingleSDR_SDR_eq _ _ _ _ _ _ (by rw [Real.sin_pi_div_two]; norm_num), hm], hm⟩

end MTfitVerif.C20
