import MTfitVerif.Props.C07Stationary
import MTfitVerif.Props.C05Jump
import MTfitVerif.Real.TransDLemmas
import MTfitVerif.Real.TransDModelLemmas
import Mathlib.MeasureTheory.Measure.Count
/-
  C07 (trans-dimensional half) — the sampler over {double-couple, full tensor} leaves the joint
  posterior invariant.

  A(i).  a mixture "with probability `p` propose from `q₁` and accept with `a₁`, otherwise propose
         from `q₂` and accept with `a₂`" of two Metropolis–Hastings kernels that each satisfy
         detailed balance w.r.t. the same target leaves the target invariant
         (`mh_mixture_detailed_balance`), with a two-state example;
  A(ii). the reversible-jump kernel between a model `D` and a model `M = D × G` leaves the joint
         target `pD · πD ⊕ (1 - pD) · πM` invariant (`transD_jump_stationary`);
  A(iii) jump kernel and within-model kernels mixed with the jump probability
         (`transD_stationary`).
  B.     the model instance (`transD_chain_posterior_stationary`).

  Definitions (`mixKernel`, `sumMeasure`, `sumTarget`, `jumpK`, `jumpKernel`, `withinKernel`) and
  helper lemmas live in `Real/TransDLemmas.lean`.
-/
namespace MTfitVerif.C07
open MTfitVerif LogP Acceptance Stationary TransD
open MeasureTheory ProbabilityTheory
open scoped ENNReal

/-! ## A(i). mixture of two Metropolis–Hastings kernels -/
section Mixture
variable {X : Type*} [MeasurableSpace X] (lam : Measure X) [SFinite lam]
  {π : X → ℝ≥0∞} {q₁ a₁ q₂ a₂ : X → X → ℝ≥0∞}

/-- **Mixture of two proposal/acceptance pairs.**  If `(π, q₁, a₁)` and `(π, q₂, a₂)` each satisfy
    detailed balance and `p ≤ 1` (`p : ℝ≥0∞`, so `0 ≤ p` is automatic), the sampler that with
    probability `p` proposes from `q₁` and accepts with `a₁` and otherwise proposes from `q₂` and
    accepts with `a₂` — kernel `mixKernel p K₁ K₂ x = p • K₁ x + (1 - p) • K₂ x` with
    `Kᵢ = mhKernel lam qᵢ aᵢ` — is a Markov kernel, leaves `lam.withDensity π` invariant
    (Kernel form and set-function form), and does so for every number of steps. -/
theorem mh_mixture_detailed_balance {p : ℝ≥0∞} (hp : p ≤ 1) (hπ : Measurable π)
    (hq₁ : Measurable (Function.uncurry q₁)) (ha₁ : Measurable (Function.uncurry a₁))
    (hq₂ : Measurable (Function.uncurry q₂)) (ha₂ : Measurable (Function.uncurry a₂))
    (hqn₁ : ∀ x, ∫⁻ y, q₁ x y ∂lam = 1) (hqn₂ : ∀ x, ∫⁻ y, q₂ x y ∂lam = 1)
    (ha1₁ : ∀ x y, a₁ x y ≤ 1) (ha1₂ : ∀ x y, a₂ x y ≤ 1)
    (hdb₁ : ∀ x y, π x * q₁ x y * a₁ x y = π y * q₁ y x * a₁ y x)
    (hdb₂ : ∀ x y, π x * q₂ x y * a₂ x y = π y * q₂ y x * a₂ y x) :
    let K := mixKernel p (mhKernel lam q₁ a₁) (mhKernel lam q₂ a₂)
    IsMarkovKernel K ∧ Kernel.Invariant K (lam.withDensity π) ∧
    (∀ B, MeasurableSet B →
      ∫⁻ x, π x * (p * mhK lam q₁ a₁ x B + (1 - p) * mhK lam q₂ a₂ x B) ∂lam
        = ∫⁻ x in B, π x ∂lam) ∧
    ∀ (n : ℕ) (B : Set X), MeasurableSet B →
      ((fun μ : Measure X => μ.bind K)^[n] (lam.withDensity π)) B = ∫⁻ x in B, π x ∂lam := by
  intro K
  have hM₁ := mhKernel_isMarkov lam hq₁ ha₁ hqn₁ ha1₁
  have hM₂ := mhKernel_isMarkov lam hq₂ ha₂ hqn₂ ha1₂
  have hinv : Kernel.Invariant K (lam.withDensity π) :=
    mixKernel_invariant hp (mhKernel_invariant lam hπ hq₁ ha₁ hqn₁ ha1₁ hdb₁)
      (mhKernel_invariant lam hπ hq₂ ha₂ hqn₂ ha1₂ hdb₂)
  refine ⟨mixKernel_isMarkov hp _ _, hinv, fun B hB => ?_, fun n B hB => ?_⟩
  · have h := setfun_of_invariant lam hπ K hinv hB
    simpa only [K, mixKernel_apply, mhKernel_apply hq₁ ha₁ _ hB, mhKernel_apply hq₂ ha₂ _ hB]
      using h
  · rw [invariant_iterate hinv n, withDensity_apply _ hB]

end Mixture

/-- two two-state chains satisfying every hypothesis of `mh_mixture_detailed_balance`: states
    `Fin 2` with the counting measure, target `π = (1, 2)`; first chain: uniform proposal
    `q₁ = 1/2`; second chain: always propose the other state; both with the acceptance
    `a x y = min 1 (π y / π x)`; mixed with `p = 1/3`.  After any number of steps the state `1`
    carries its target mass `2`. -/
example :
    let lam : Measure (Fin 2) := Measure.count
    let π : Fin 2 → ℝ≥0∞ := ![1, 2]
    let q₁ : Fin 2 → Fin 2 → ℝ≥0∞ := fun _ _ => 2⁻¹
    let q₂ : Fin 2 → Fin 2 → ℝ≥0∞ := !![0, 1; 1, 0]
    let a : Fin 2 → Fin 2 → ℝ≥0∞ := !![1, 1; 2⁻¹, 1]
    let K := mixKernel 3⁻¹ (mhKernel lam q₁ a) (mhKernel lam q₂ a)
    IsMarkovKernel K ∧ Kernel.Invariant K (lam.withDensity π) ∧
    ∀ n : ℕ, ((fun μ : Measure (Fin 2) => μ.bind K)^[n] (lam.withDensity π)) {1} = 2 := by
  intro lam π q₁ q₂ a K
  have h2 : (2 : ℝ≥0∞) * 2⁻¹ = 1 := ENNReal.mul_inv_cancel (by norm_num) (by norm_num)
  have hm : ∀ {β : Type} [MeasurableSpace β] (f : Fin 2 → β), Measurable f := fun f => .of_discrete
  have hm2 : ∀ (f : Fin 2 → Fin 2 → ℝ≥0∞), Measurable (Function.uncurry f) := fun f => .of_discrete
  have hint : ∀ f : Fin 2 → ℝ≥0∞, ∫⁻ y, f y ∂lam = f 0 + f 1 := fun f => by
    simp only [lam, lintegral_count, tsum_fintype, Fin.sum_univ_two]
  have h := mh_mixture_detailed_balance lam (π := π) (q₁ := q₁) (a₁ := a) (q₂ := q₂) (a₂ := a)
    (p := 3⁻¹) (ENNReal.inv_le_one.mpr (by norm_num)) (hm π) (hm2 _) (hm2 _) (hm2 _) (hm2 _)
    (fun x => by rw [hint]; exact ENNReal.inv_two_add_inv_two)
    (fun x => by rw [hint]; fin_cases x <;> simp [q₂])
    (fun x y => by fin_cases x <;> fin_cases y <;> simp [a])
    (fun x y => by fin_cases x <;> fin_cases y <;> simp [a])
    (fun x y => by fin_cases x <;> fin_cases y <;> simp [π, q₁, a, h2])
    (fun x y => by fin_cases x <;> fin_cases y <;> simp [π, q₂, a, h2])
  refine ⟨h.1, h.2.1, fun n => ?_⟩
  rw [h.2.2.2 n {1} (measurableSet_singleton _)]
  simp [lam, π]

/-! ## A(ii), A(iii). two models `D` and `M = D × G` -/
section TwoModels
variable {D G : Type*} [MeasurableSpace D] [MeasurableSpace G] (lamD : Measure D)
  (lamG : Measure G) [SFinite lamD] [SFinite lamG] {pD : ℝ≥0∞} {πD : D → ℝ≥0∞}
  {πM : D × G → ℝ≥0∞} {qJ aUp : D → G → ℝ≥0∞} {aDown : D × G → ℝ≥0∞}

/-- **The reversible-jump kernel leaves the joint target invariant.**
    State space `D ⊕ D × G` (small model `D`; large model `M = D × G`: the same coordinates plus
    the extra coordinates `g`), reference measure `lamD` on `D` and `lamD ⊗ lamG` on `M`, joint
    target `π (inl d) = pD * πD d`, `π (inr m) = (1 - pD) * πM m`.  Jump kernel: from `inl d` draw
    `g` with density `qJ d ·` (normalised w.r.t. `lamG`), propose `inr (d, g)`, accept with
    `aUp d g`; from `inr (d, g)` propose `inl d` (deterministic: drop `g`), accept with
    `aDown (d, g)`; on rejection the current state is recorded again.  The balance hypothesis is
    the form `C05.jump_detailed_balance` proves (the map `(d, g) ↦ (d, g)` has Jacobian 1).
    Conclusion: the kernel is Markov, the joint target is invariant (Kernel form and set-function
    form), for every number of steps.  No finiteness of the densities and no `pD ≤ 1` is needed. -/
theorem transD_jump_stationary (hπD : Measurable πD) (hπM : Measurable πM)
    (hq : Measurable (Function.uncurry qJ)) (ha : Measurable (Function.uncurry aUp))
    (haD : Measurable aDown) (hqn : ∀ d, ∫⁻ g, qJ d g ∂lamG = 1) (ha1 : ∀ d g, aUp d g ≤ 1)
    (haD1 : ∀ m, aDown m ≤ 1)
    (hdb : ∀ d g, pD * πD d * qJ d g * aUp d g = (1 - pD) * πM (d, g) * aDown (d, g)) :
    let lam := sumMeasure lamD (lamD.prod lamG)
    let π := sumTarget pD πD πM
    let J := jumpKernel lamG qJ aUp aDown
    IsMarkovKernel J ∧ Kernel.Invariant J (lam.withDensity π) ∧
    (∀ B, MeasurableSet B →
      ∫⁻ x, π x * jumpK lamG qJ aUp aDown x B ∂lam = ∫⁻ x in B, π x ∂lam) ∧
    ∀ (n : ℕ) (B : Set (D ⊕ D × G)), MeasurableSet B →
      ((fun μ : Measure (D ⊕ D × G) => μ.bind J)^[n] (lam.withDensity π)) B
        = ∫⁻ x in B, π x ∂lam := by
  intro lam π J
  have hπ : Measurable π := measurable_sumTarget pD hπD hπM
  have hset : ∀ B, MeasurableSet B →
      ∫⁻ x, π x * jumpK lamG qJ aUp aDown x B ∂lam = ∫⁻ x in B, π x ∂lam :=
    fun B hB => jumpK_stationary hπD hπM hq ha haD hqn ha1 haD1 hdb hB
  have hinv : Kernel.Invariant J (lam.withDensity π) := by
    refine invariant_of_setfun lam hπ J fun B hB => ?_
    simp only [J, jumpKernel_apply hq ha haD _ hB]
    exact hset B hB
  exact ⟨jumpKernel_isMarkov hq ha haD hqn ha1 haD1, hinv, hset, fun n B hB => by
    rw [invariant_iterate hinv n, withDensity_apply _ hB]⟩

variable {qD aD : D → D → ℝ≥0∞} {qM aM : D × G → D × G → ℝ≥0∞}

/-- **The trans-dimensional sampler leaves the joint target invariant** (abstract form).
    With probability `pj` a jump between the models is proposed (kernel of
    `transD_jump_stationary`); otherwise an ordinary Metropolis–Hastings step within the current
    model (`qD, aD` on `D`, `qM, aM` on `M = D × G`, each in detailed balance with its
    within-model target).  The resulting kernel is Markov and leaves the joint target
    `pD · πD ⊕ (1 - pD) · πM` invariant, for every number of steps. -/
theorem transD_stationary {pj : ℝ≥0∞} (hpj : pj ≤ 1) (hπD : Measurable πD) (hπM : Measurable πM)
    -- the jump
    (hq : Measurable (Function.uncurry qJ)) (ha : Measurable (Function.uncurry aUp))
    (haD : Measurable aDown) (hqn : ∀ d, ∫⁻ g, qJ d g ∂lamG = 1) (ha1 : ∀ d g, aUp d g ≤ 1)
    (haD1 : ∀ m, aDown m ≤ 1)
    (hdb : ∀ d g, pD * πD d * qJ d g * aUp d g = (1 - pD) * πM (d, g) * aDown (d, g))
    -- the step within `D`
    (hqD : Measurable (Function.uncurry qD)) (haDm : Measurable (Function.uncurry aD))
    (hqDn : ∀ x, ∫⁻ y, qD x y ∂lamD = 1) (haD1' : ∀ x y, aD x y ≤ 1)
    (hdbD : ∀ x y, πD x * qD x y * aD x y = πD y * qD y x * aD y x)
    -- the step within `M`
    (hqM : Measurable (Function.uncurry qM)) (haMm : Measurable (Function.uncurry aM))
    (hqMn : ∀ x, ∫⁻ y, qM x y ∂(lamD.prod lamG) = 1) (haM1 : ∀ x y, aM x y ≤ 1)
    (hdbM : ∀ x y, πM x * qM x y * aM x y = πM y * qM y x * aM y x) :
    let lam := sumMeasure lamD (lamD.prod lamG)
    let π := sumTarget pD πD πM
    let K := mixKernel pj (jumpKernel lamG qJ aUp aDown)
      (withinKernel (mhKernel lamD qD aD) (mhKernel (lamD.prod lamG) qM aM))
    IsMarkovKernel K ∧ Kernel.Invariant K (lam.withDensity π) ∧
    (∀ B, MeasurableSet B →
      ∫⁻ x, π x * (pj * jumpK lamG qJ aUp aDown x B
        + (1 - pj) * Sum.elim (fun d => mhK lamD qD aD d (Sum.inl ⁻¹' B))
            (fun m => mhK (lamD.prod lamG) qM aM m (Sum.inr ⁻¹' B)) x) ∂lam
        = ∫⁻ x in B, π x ∂lam) ∧
    ∀ (n : ℕ) (B : Set (D ⊕ D × G)), MeasurableSet B →
      ((fun μ : Measure (D ⊕ D × G) => μ.bind K)^[n] (lam.withDensity π)) B
        = ∫⁻ x in B, π x ∂lam := by
  intro lam π K
  have hπ : Measurable π := measurable_sumTarget pD hπD hπM
  obtain ⟨hJM, hJinv, -, -⟩ := transD_jump_stationary lamD lamG hπD hπM hq ha haD hqn ha1 haD1 hdb
  have hMD := mhKernel_isMarkov lamD hqD haDm hqDn haD1'
  have hMM := mhKernel_isMarkov (lamD.prod lamG) hqM haMm hqMn haM1
  have hW := withinKernel_isMarkov (mhKernel lamD qD aD) (mhKernel (lamD.prod lamG) qM aM)
  have hWinv : Kernel.Invariant
      (withinKernel (mhKernel lamD qD aD) (mhKernel (lamD.prod lamG) qM aM))
      (lam.withDensity π) := by
    refine invariant_of_setfun lam hπ _ fun B hB => ?_
    refine within_stationary lamD (lamD.prod lamG) pD (fun B hB => ?_) (fun B hB => ?_) hπD hπM hB
    · simp only [mhKernel_apply hqD haDm _ hB]
      exact mh_stationary lamD hπD hqD haDm hqDn haD1' hdbD hB
    · simp only [mhKernel_apply hqM haMm _ hB]
      exact mh_stationary (lamD.prod lamG) hπM hqM haMm hqMn haM1 hdbM hB
  have hinv : Kernel.Invariant K (lam.withDensity π) := mixKernel_invariant hpj hJinv hWinv
  refine ⟨mixKernel_isMarkov hpj _ _, hinv, fun B hB => ?_, fun n B hB => by
    rw [invariant_iterate hinv n, withDensity_apply _ hB]⟩
  have h := setfun_of_invariant lam hπ K hinv hB
  rw [← h]
  refine lintegral_congr fun x => ?_
  simp only [K, mixKernel_apply, jumpKernel_apply hq ha haD _ hB]
  cases x with
  | inl d => simp only [withinKernel_inl _ _ _ hB, mhKernel_apply hqD haDm _ (measurable_inl hB),
      Sum.elim_inl]
  | inr m => simp only [withinKernel_inr _ _ _ hB, mhKernel_apply hqM haMm _ (measurable_inr hB),
      Sum.elim_inr]

end TwoModels

/-! ## B. the model: double couple ⊕ full tensor -/
section Model
variable (prior : Bool → Tape ℝ → ℝ) (w : Widths ℝ) (L : Tape ℝ → LogP ℝ) (p : ℝ)

theorem acceptJumpUp_mem_Icc (hp : ∀ b t, 0 ≤ prior b t) (hw : C05.WidthsPos w) (hp0 : 0 ≤ p)
    (hp1 : p ≤ 1) (xi x : Tape ℝ) (Lxi Lx : LogP ℝ) :
    0 ≤ acceptJumpUp prior w xi x p Lxi Lx ∧ acceptJumpUp prior w xi x p Lxi Lx ≤ 1 := by
  rw [acceptJumpUp_eq_ite]
  have hq := (C05.jumpQ_pos w hw x).le
  have hr : 0 ≤ prior false x / (jumpQ w x * prior true xi) * ((1 - p) / p)
      * (toProb Lx / toProb Lxi) :=
    mul_nonneg (mul_nonneg (div_nonneg (hp _ _) (mul_nonneg hq (hp _ _)))
      (div_nonneg (sub_nonneg.2 hp1) hp0)) (div_nonneg (toProb_nonneg _) (toProb_nonneg _))
  split_ifs
  · exact ⟨le_rfl, zero_le_one⟩
  · exact ⟨zero_le_one, le_rfl⟩
  · exact ⟨le_min zero_le_one hr, min_le_left _ _⟩

theorem acceptJumpDown_mem_Icc (hp : ∀ b t, 0 ≤ prior b t) (hw : C05.WidthsPos w) (hp0 : 0 ≤ p)
    (hp1 : p ≤ 1) (xi x : Tape ℝ) (Lxi Lx : LogP ℝ) :
    0 ≤ acceptJumpDown prior w xi x p Lxi Lx ∧ acceptJumpDown prior w xi x p Lxi Lx ≤ 1 := by
  rw [acceptJumpDown_eq_ite]
  have hq := (C05.jumpQ_pos w hw xi).le
  have hr : 0 ≤ jumpQ w xi * prior true x / prior false xi * (p / (1 - p))
      * (toProb Lx / toProb Lxi) :=
    mul_nonneg (mul_nonneg (div_nonneg (mul_nonneg hq (hp _ _)) (hp _ _))
      (div_nonneg hp0 (sub_nonneg.2 hp1))) (div_nonneg (toProb_nonneg _) (toProb_nonneg _))
  split_ifs
  · exact ⟨le_rfl, zero_le_one⟩
  · exact ⟨zero_le_one, le_rfl⟩
  · exact ⟨le_min zero_le_one hr, min_le_left _ _⟩

/-- `C05.jump_detailed_balance` extended to log-likelihoods that may be `-∞`, priors that may
    vanish and model probabilities `p ∈ [0, 1]` (in each degenerate case both sides are zero) -/
theorem jump_detailed_balance_logP (hp : ∀ b t, 0 ≤ prior b t) (hw : C05.WidthsPos w)
    (hp0 : 0 ≤ p) (hp1 : p ≤ 1) (xiDc x : Tape ℝ) (Lxi Lx : LogP ℝ) :
    prior true xiDc * p * toProb Lxi * jumpQ w x * acceptJumpUp prior w xiDc x p Lxi Lx
      = prior false x * (1 - p) * toProb Lx * acceptJumpDown prior w x xiDc p Lx Lxi := by
  cases Lx with
  | negInf => cases Lxi <;> simp [acceptJumpUp]
  | fin l' =>
    cases Lxi with
    | negInf => simp [acceptJumpDown]
    | fin l =>
      rcases (hp true xiDc).eq_or_lt with h1 | h1
      · simp [acceptJumpDown_fin, ← h1]
      rcases (hp false x).eq_or_lt with h2 | h2
      · simp [acceptJumpUp_fin, ← h2]
      rcases hp0.eq_or_lt with h3 | h3
      · simp [acceptJumpDown_fin, ← h3]
      rcases hp1.eq_or_lt with h4 | h4
      · simp [acceptJumpUp_fin, h4]
      exact C05.jump_detailed_balance prior w hw xiDc x h1 h2 h3 h4 l l'

/-- the coded jump density is a probability density on the lune box (by `C05Jump`) -/
theorem lintegral_jumpQ (hw : C05.WidthsPos w) (hn : w.propNorm = propNormOf w.gammaDc w.deltaDc)
    (d : Ori) : ∫⁻ g, ENNReal.ofReal (jumpQ w (tapeMT (d, g))) ∂luneBox = 1 := by
  obtain ⟨_, _, _, _, _, hg, hd, _⟩ := hw
  simp only [C05.jumpQ_eq_truncTerms w hg hd hn, tapeMT]
  exact lintegral_lunePair hg hd 0 0

/-! the ingredients of the trans-dimensional sampler in the coordinates of
    `Real/TransDModelLemmas.lean`: `Ori = (κ, h, σ)` (double couple), `Ori × Lune` (full tensor) -/

/-- joint posterior density over the two models: `p` × prior × likelihood on the double-couple
    model, `(1 - p)` × prior × likelihood on the full-tensor model -/
noncomputable def jointPost : Ori ⊕ Ori × Lune → ℝ≥0∞ :=
  sumTarget (ENNReal.ofReal p) (fun d => ENNReal.ofReal (post prior true L (tapeDC d)))
    (fun m => ENNReal.ofReal (post prior false L (tapeMT m)))

/-- density of the balancing draw `(γ, δ)` (`jump_params`) -/
noncomputable def jumpDens : Ori → Lune → ℝ≥0∞ := fun d g => ENNReal.ofReal (jumpQ w (tapeMT (d, g)))

/-- acceptance of the jump `tapeDC d → tapeMT (d, g)` -/
noncomputable def accUp : Ori → Lune → ℝ≥0∞ := fun d g => ENNReal.ofReal
  (acceptJumpUp prior w (tapeDC d) (tapeMT (d, g)) p (L (tapeDC d)) (L (tapeMT (d, g))))

/-- acceptance of the jump `tapeMT m → tapeDC m.1` -/
noncomputable def accDown : Ori × Lune → ℝ≥0∞ := fun m => ENNReal.ofReal
  (acceptJumpDown prior w (tapeMT m) (tapeDC m.1) p (L (tapeMT m)) (L (tapeDC m.1)))

/-- the kernel of one step of the trans-dimensional sampler: with probability `pj` the jump of
    `transDSample` with `acceptJumpUp`/`acceptJumpDown`, otherwise the shift of the current model
    (`transPdf` times the strike kernel `k`) with `acceptMH` -/
noncomputable def transDKernel (pj : ℝ) (μκ : Measure ℝ) [SFinite μκ] (k : ℝ → ℝ → ℝ) :
    Kernel (Ori ⊕ Ori × Lune) (Ori ⊕ Ori × Lune) :=
  mixKernel (ENNReal.ofReal pj)
    (jumpKernel luneBox (jumpDens w) (accUp prior w L p) (accDown prior w L p))
    (withinKernel
      (mhKernel (oriMeasure μκ)
        (fun x y => ENNReal.ofReal (propPdf true w (tapeDC x) (tapeDC y) * k x.1 y.1))
        (fun x y => ENNReal.ofReal (acc prior true w L (tapeDC x) (tapeDC y))))
      (mhKernel ((oriMeasure μκ).prod luneBox)
        (fun x y => ENNReal.ofReal (propPdf false w (tapeMT x) (tapeMT y) * k x.1.1 y.1.1))
        (fun x y => ENNReal.ofReal (acc prior false w L (tapeMT x) (tapeMT y)))))

/-- the jump balance in the form `transD_jump_stationary` needs it -/
theorem model_jump_balance (hp : ∀ b t, 0 ≤ prior b t) (hw : C05.WidthsPos w) (hp0 : 0 ≤ p)
    (hp1 : p ≤ 1) (d : Ori) (g : Lune) :
    ENNReal.ofReal p * ENNReal.ofReal (post prior true L (tapeDC d)) * jumpDens w d g
        * accUp prior w L p d g
      = (1 - ENNReal.ofReal p) * ENNReal.ofReal (post prior false L (tapeMT (d, g)))
        * accDown prior w L p (d, g) := by
  have hπD := post_nonneg prior true L hp (tapeDC d)
  have hπM := post_nonneg prior false L hp (tapeMT (d, g))
  have hq := (C05.jumpQ_pos w hw (tapeMT (d, g))).le
  have h1p : 0 ≤ 1 - p := sub_nonneg.2 hp1
  have e1 : 1 - ENNReal.ofReal p = ENNReal.ofReal (1 - p) := by
    rw [ENNReal.ofReal_sub 1 hp0, ENNReal.ofReal_one]
  unfold jumpDens accUp accDown
  rw [e1, ← ENNReal.ofReal_mul hp0, ← ENNReal.ofReal_mul (mul_nonneg hp0 hπD),
    ← ENNReal.ofReal_mul (mul_nonneg (mul_nonneg hp0 hπD) hq), ← ENNReal.ofReal_mul h1p,
    ← ENNReal.ofReal_mul (mul_nonneg h1p hπM)]
  congr 1
  have h := jump_detailed_balance_logP prior w p hp hw hp0 hp1 (tapeDC d) (tapeMT (d, g))
    (L (tapeDC d)) (L (tapeMT (d, g)))
  unfold post
  linear_combination h

/-- detailed balance of the within-model shift in `ℝ≥0∞` form, for any parametrisation `st` and
    symmetric non-negative strike kernel -/
theorem model_shift_balance (dc : Bool) (hp : ∀ b t, 0 ≤ prior b t) (hw : C05.WidthsPos w)
    {X : Type*} (st : X → Tape ℝ) (k : X → X → ℝ) (hk0 : ∀ x y, 0 ≤ k x y)
    (hks : ∀ x y, k x y = k y x) (x y : X) :
    ENNReal.ofReal (post prior dc L (st x)) * ENNReal.ofReal (propPdf dc w (st x) (st y) * k x y)
        * ENNReal.ofReal (acc prior dc w L (st x) (st y))
      = ENNReal.ofReal (post prior dc L (st y)) * ENNReal.ofReal (propPdf dc w (st y) (st x) * k y x)
        * ENNReal.ofReal (acc prior dc w L (st y) (st x)) := by
  have hπ0 := post_nonneg prior dc L hp
  have hq0 : ∀ x y, 0 ≤ propPdf dc w (st x) (st y) * k x y := fun x y =>
    mul_nonneg (propPdf_pos dc w hw _ _).le (hk0 x y)
  rw [← ENNReal.ofReal_mul (hπ0 _), ← ENNReal.ofReal_mul (mul_nonneg (hπ0 _) (hq0 _ _)),
    ← ENNReal.ofReal_mul (hπ0 _), ← ENNReal.ofReal_mul (mul_nonneg (hπ0 _) (hq0 _ _))]
  congr 1
  have h := model_detailed_balance prior dc w L hp hw (st x) (st y)
  rw [hks y x]
  linear_combination k x y * h

/-- **The trans-dimensional sampler leaves the joint posterior over {double couple, full tensor}
    invariant.**  State space `Ori ⊕ Ori × Lune`: a double-couple state is its orientation
    `(κ, h, σ)`, a full-tensor state its orientation and `(γ, δ)`; reference measure: any s-finite
    `μκ` on strike, Lebesgue on `[0, 1]`, `[-π/2, π/2]` for `h`, `σ` and on the lune box
    `[-π/6, π/6] × [-π/2, π/2]` for `(γ, δ)`.  Target `jointPost`: `p` × prior × likelihood on
    the double-couple model, `(1 - p)` × prior × likelihood on the full tensor.  Kernel
    `transDKernel` (the law of `transDSample` + acceptance): with probability `pj` a jump —
    DC → MT draws `(γ, δ)` with the density `jumpQ` and keeps the orientation
    (`transDSample_up`), MT → DC sets `γ = δ = 0` (`transDSample_down`), accepted with
    `acceptJumpUp`/`acceptJumpDown` — otherwise a shift within the current model
    (`transDSample_shift`) accepted with `acceptMH`.

    Proved, not assumed: the jump balance (`C05.jump_detailed_balance`, extended to zero priors and
    zero likelihoods), the shift balance (`C05.mh_detailed_balance`), that `jumpQ` and the shift
    proposals are probability densities, measurability of proposals and acceptances, that all
    acceptances are probabilities.

    Remaining hypotheses: the sampling prior is non-negative and measurable in the coordinates of
    each model, the likelihood `toProb ∘ L` is measurable in the coordinates of each model, the
    widths are positive and `propNorm` is the coded `proposal_normalisation` (`propNormOf`),
    `p, pj ∈ [0, 1]`, and the strike proposal kernel `k` (which `transition_pdf` leaves out) is
    measurable, non-negative, symmetric and normalised w.r.t. `μκ`. -/
theorem transD_chain_posterior_stationary (hp : ∀ b t, 0 ≤ prior b t) (hw : C05.WidthsPos w)
    (hn : w.propNorm = propNormOf w.gammaDc w.deltaDc) (hp0 : 0 ≤ p) (hp1 : p ≤ 1)
    {pj : ℝ} (hj1 : pj ≤ 1) (μκ : Measure ℝ) [SFinite μκ] (k : ℝ → ℝ → ℝ)
    (hkm : Measurable (Function.uncurry k)) (hk0 : ∀ a b, 0 ≤ k a b) (hks : ∀ a b, k a b = k b a)
    (hkn : ∀ a, ∫⁻ b, ENNReal.ofReal (k a b) ∂μκ = 1)
    (hpriorD : Measurable fun d : Ori => prior true (tapeDC d))
    (hpriorM : Measurable fun m : Ori × Lune => prior false (tapeMT m))
    (hLD : Measurable fun d : Ori => toProb (L (tapeDC d)))
    (hLM : Measurable fun m : Ori × Lune => toProb (L (tapeMT m))) :
    let lam := sumMeasure (oriMeasure μκ) ((oriMeasure μκ).prod luneBox)
    let π := jointPost prior L p
    let K := transDKernel prior w L p pj μκ k
    IsMarkovKernel K ∧ Kernel.Invariant K (lam.withDensity π) ∧
    ∀ (n : ℕ) (B : Set (Ori ⊕ Ori × Lune)), MeasurableSet B →
      ((fun μ : Measure (Ori ⊕ Ori × Lune) => μ.bind K)^[n] (lam.withDensity π)) B
        = ∫⁻ x in B, π x ∂lam := by
  obtain ⟨hg, hd, _, hh, hs, _, _, _⟩ := id hw
  have hTD := measurable_transPdf_DC w
  have hTM := measurable_transPdf_MT w
  have hkD : Measurable fun q : Ori × Ori => k q.1.1 q.2.1 :=
    hkm.comp (f := fun q : Ori × Ori => (q.1.1, q.2.1)) (by fun_prop)
  have hkM : Measurable fun q : (Ori × Lune) × (Ori × Lune) => k q.1.1.1 q.2.1.1 :=
    hkm.comp (f := fun q : (Ori × Lune) × (Ori × Lune) => (q.1.1.1, q.2.1.1)) (by fun_prop)
  have h := transD_stationary (oriMeasure μκ) luneBox (pD := ENNReal.ofReal p)
    (πD := fun d => ENNReal.ofReal (post prior true L (tapeDC d)))
    (πM := fun m => ENNReal.ofReal (post prior false L (tapeMT m)))
    (qJ := jumpDens w) (aUp := accUp prior w L p) (aDown := accDown prior w L p)
    (qD := fun x y => ENNReal.ofReal (propPdf true w (tapeDC x) (tapeDC y) * k x.1 y.1))
    (aD := fun x y => ENNReal.ofReal (acc prior true w L (tapeDC x) (tapeDC y)))
    (qM := fun x y => ENNReal.ofReal (propPdf false w (tapeMT x) (tapeMT y) * k x.1.1 y.1.1))
    (aM := fun x y => ENNReal.ofReal (acc prior false w L (tapeMT x) (tapeMT y)))
    (pj := ENNReal.ofReal pj) (ENNReal.ofReal_le_one.mpr hj1)
    (hpriorD.mul hLD).ennreal_ofReal (hpriorM.mul hLM).ennreal_ofReal
    (measurable_jumpQ_MT w).ennreal_ofReal
    (measurable_acceptJumpUp prior w L p hpriorD hpriorM hLD hLM).ennreal_ofReal
    (measurable_acceptJumpDown prior w L p hpriorD hpriorM hLD hLM).ennreal_ofReal
    (lintegral_jumpQ w hw hn)
    (fun d g => ENNReal.ofReal_le_one.mpr (acceptJumpUp_mem_Icc prior w p hp hw hp0 hp1 _ _ _ _).2)
    (fun m => ENNReal.ofReal_le_one.mpr (acceptJumpDown_mem_Icc prior w p hp hw hp0 hp1 _ _ _ _).2)
    (model_jump_balance prior w L p hp hw hp0 hp1)
    (hTD.mul hkD).ennreal_ofReal
    (measurable_acceptMH prior true w L tapeDC hTD hpriorD hLD).ennreal_ofReal
    (lintegral_proposal_DC w hh hs μκ k hkm hk0 hkn)
    (fun x y => ENNReal.ofReal_le_one.mpr (acc_mem_Icc prior true w L hp hw _ _).2)
    (model_shift_balance prior w L true hp hw tapeDC (fun x y => k x.1 y.1)
      (fun _ _ => hk0 _ _) (fun _ _ => hks _ _))
    (hTM.mul hkM).ennreal_ofReal
    (measurable_acceptMH prior false w L tapeMT hTM hpriorM hLM).ennreal_ofReal
    (lintegral_proposal_MT w ⟨hg, hd, hh, hs⟩ μκ k hkm hk0 hkn)
    (fun x y => ENNReal.ofReal_le_one.mpr (acc_mem_Icc prior false w L hp hw _ _).2)
    (model_shift_balance prior w L false hp hw tapeMT (fun x y => k x.1.1 y.1.1)
      (fun _ _ => hk0 _ _) (fun _ _ => hks _ _))
  exact ⟨h.1, h.2.1, h.2.2.2⟩

end Model

/-- the hypotheses of `transD_chain_posterior_stationary` are satisfiable: the shipped flat prior,
    a constant likelihood, unit widths with the coded `proposal_normalisation`, model probability
    and jump probability `1/2`, strike uniform on `[0, 2π]` with the uniform kernel -/
example :
    let prior : Bool → Tape ℝ → ℝ := flatPrior
    let w : Widths ℝ := ⟨1, 1, 1, 1, 1, 1, 1, propNormOf 1 1⟩
    let L : Tape ℝ → LogP ℝ := fun _ => fin 0
    let μκ : Measure ℝ := volume.restrict (Set.Icc 0 (2 * Real.pi))
    let k : ℝ → ℝ → ℝ := fun _ _ => 1 / (2 * Real.pi)
    (∀ b t, 0 ≤ prior b t) ∧ C05.WidthsPos w ∧ w.propNorm = propNormOf w.gammaDc w.deltaDc ∧
    (0:ℝ) ≤ 1 / 2 ∧ (1 / 2 : ℝ) ≤ 1 ∧ Measurable (Function.uncurry k) ∧
    (∀ a b, 0 ≤ k a b) ∧ (∀ a b, k a b = k b a) ∧ (∀ a, ∫⁻ b, ENNReal.ofReal (k a b) ∂μκ = 1) ∧
    (Measurable fun d : Ori => prior true (tapeDC d)) ∧
    (Measurable fun m : Ori × Lune => prior false (tapeMT m)) ∧
    (Measurable fun d : Ori => toProb (L (tapeDC d))) ∧
    (Measurable fun m : Ori × Lune => toProb (L (tapeMT m))) := by
  intro prior w L μκ k
  have hπ := Real.pi_pos
  have hN : (0:ℝ) < propNormOf 1 1 := C05.propNormOf_pos one_pos one_pos
  refine ⟨fun b t => ?_, ?_, rfl, by norm_num, by norm_num, measurable_const,
    fun _ _ => by positivity, fun _ _ => rfl, fun _ => ?_, ?_, ?_, measurable_const,
    measurable_const⟩
  · simp only [prior, flatPrior, flt_c, flt_pi]
    split <;> positivity
  · simp [C05.WidthsPos, w, hN]
  · simp only [k, μκ, lintegral_const, Measure.restrict_apply MeasurableSet.univ, Set.univ_inter,
      Real.volume_Icc, sub_zero]
    rw [← ENNReal.ofReal_mul (by positivity), one_div_mul_cancel (by positivity), ENNReal.ofReal_one]
  · simp only [prior, flatPrior]
    exact measurable_const
  · simp only [prior, flatPrior]
    exact measurable_const
end MTfitVerif.C07
