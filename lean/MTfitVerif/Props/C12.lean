import MTfitVerif.Model.Convert
import MTfitVerif.Real.Inst
import MTfitVerif.Real.ConvertLemmasLune
/-
  C12 — Tape-parameter and six-vector descriptions of a source are mutually inverse.
-/
namespace MTfitVerif.C12
open MTfitVerif MTfitVerif.Convert Real

/-- Frobenius norm squared of a symmetric tensor -/
def frob2 (m : Sym3 ℝ) : ℝ := m.xx^2 + m.yy^2 + m.zz^2 + 2 * (m.xy^2 + m.xz^2 + m.yz^2)

/-- the six-vector has the Frobenius norm of the tensor: the conversion preserves the tensor up to
    normalisation, and is the identity on unit tensors -/
theorem mt6_of_mt33_of_unit (m : Sym3 ℝ) (h : frob2 m = 1) : mt6ToMt33 (mt33ToMt6 m) = m := by
  have hn : (lune_raw6 m).norm = 1 := by
    rw [lune_raw6_norm]; unfold frob2 at h; rw [h, Real.sqrt_one]
  rw [lune_mt33ToMt6_eq, lune_mt6ToMt33_eq, hn]
  simp only [div_one, lune_inv_sqrt2_mul]

theorem mt33_of_mt6_of_unit (v : V6 ℝ) (h : v.a^2 + v.b^2 + v.c^2 + v.d^2 + v.e^2 + v.f^2 = 1) :
    mt33ToMt6 (mt6ToMt33 v) = v := by
  have hn : (lune_raw6 (mt6ToMt33 v)).norm = 1 := by
    rw [lune_raw6_norm, lune_mt6ToMt33_eq]
    have h2 : (1 / √2 : ℝ)^2 = 1 / 2 := by
      rw [div_pow, Real.sq_sqrt (by norm_num)]; norm_num
    simp only [mul_pow, h2]
    rw [Real.sqrt_eq_one]; linarith
  rw [lune_mt33ToMt6_eq, hn, lune_mt6ToMt33_eq]
  simp only [div_one, lune_sqrt2_mul_inv]

/-- the six-vector produced always has unit norm (non-zero tensor) -/
theorem mt33ToMt6_unit (m : Sym3 ℝ) (h : frob2 m ≠ 0) :
    let v := mt33ToMt6 m
    v.a^2 + v.b^2 + v.c^2 + v.d^2 + v.e^2 + v.f^2 = 1 := by
  intro v
  have hpos : 0 < frob2 m := lt_of_le_of_ne (by unfold frob2; positivity) (Ne.symm h)
  have hn2 : (lune_raw6 m).norm ^ 2 = frob2 m := by
    rw [lune_raw6_norm, Real.sq_sqrt]; · rfl
    · exact hpos.le
  have hn0 : (lune_raw6 m).norm ≠ 0 := by
    intro h0; rw [h0] at hn2; simp at hn2; exact h hn2.symm
  simp only [v, lune_mt33ToMt6_eq, div_pow, mul_pow, Real.sq_sqrt (show (0:ℝ) ≤ 2 by norm_num), hn2]
  unfold frob2 at hpos ⊢
  field_simp
  ring

/-- eigenvalues from lune coordinates have unit norm … -/
theorem gdToE_unit (γ δ : ℝ) : (gdToE γ δ).x^2 + (gdToE γ δ).y^2 + (gdToE γ δ).z^2 = 1 := by
  exact lune_gdToE_sq γ δ

/-- … and are ordered from largest to smallest on the fundamental lune -/
theorem gdToE_sorted {γ δ : ℝ} (hγ : |γ| ≤ π / 6) (hδ : |δ| ≤ π / 2) :
    (gdToE γ δ).z ≤ (gdToE γ δ).y ∧ (gdToE γ δ).y ≤ (gdToE γ δ).x := by
  exact lune_gdToE_sorted hγ hδ

/-- a double-couple (eigenvalues proportional to (1, 0, −1)) maps to zero longitude and latitude,
    and `(γ, δ) = (0, 0)` gives exactly the double-couple pattern -/
theorem dc_maps_to_zero {k : ℝ} (hk : 0 < k) : eToGd ⟨k, 0, -k⟩ = (0, 0) := by
  have hne : ¬((⟨k, 0, -k⟩ : V3 ℝ).x = (⟨k, 0, -k⟩ : V3 ℝ).y ∧ (⟨k, 0, -k⟩ : V3 ℝ).y = (⟨k, 0, -k⟩ : V3 ℝ).z) := by
    simp only; intro h; linarith [h.1]
  rw [lune_eToGd_eq _ hne, lune_sort3_of_sorted _ (by simp only; linarith) (by simp only; linarith)]
  simp only
  have h3 : (0:ℝ) < √3 := by positivity
  have ha : atan2 (-k + 2 * 0 - -k) (√3 * (k - -k)) = 0 := by
    rw [show -k + 2 * 0 - -k = (0:ℝ) by ring, lune_atan2_eq_arctan (mul_pos h3 (by linarith))]
    simp
  rw [ha, show k + 0 + -k = (0:ℝ) by ring, zero_div, Real.arccos_zero, sub_self]

theorem zero_is_dc : gdToE 0 0 = ⟨1 / √2, 0, -(1 / √2)⟩ := by
  have e : gdToE (0:ℝ) 0 = ⟨(gdToE (0:ℝ) 0).x, (gdToE (0:ℝ) 0).y, (gdToE (0:ℝ) 0).z⟩ := rfl
  rw [e, lune_gdToE_x, lune_gdToE_y, lune_gdToE_z]
  simp only [Real.sin_zero, Real.cos_zero, mul_one, mul_zero, sub_zero, add_zero]
  have h2 : (0:ℝ) < √2 := by positivity
  have h3 : (0:ℝ) < √3 := by positivity
  have h6 := lune_sqrt6_eq
  congr 1
  · rw [h6]; field_simp
  · rw [h6]; field_simp

/-- lune coordinates always lie in their documented ranges -/
theorem eToGd_range (e : V3 ℝ) :
    |(eToGd e).1| ≤ π / 6 ∧ |(eToGd e).2| ≤ π / 2 := by
  by_cases h : e.x = e.y ∧ e.y = e.z
  · rw [lune_eToGd_pole e h]
    have hp := Real.pi_pos
    refine ⟨by simp only [abs_zero]; positivity, ?_⟩
    rw [mul_div_assoc, abs_mul, abs_of_pos (by positivity : (0:ℝ) < π / 2)]
    have := lune_abs_sign_le e.x
    nlinarith
  · rw [lune_eToGd_eq e h]
    obtain ⟨s1, s2, s3⟩ := lune_sort3_spec e
    have hlt : (sort3 e).z < (sort3 e).x := by
      rcases lt_or_eq_of_le (le_trans s1 s2) with h' | h'
      · exact h'
      · exact absurd (s3 h'.symm) h
    have h3 : (0:ℝ) < √3 := by positivity
    constructor
    · apply lune_atan2_abs_le
      · apply mul_pos h3; linarith
      · rw [mul_comm]
        apply mul_le_mul_of_nonneg_left _ h3.le
        rw [abs_le]; constructor <;> linarith
    · simp only
      rw [abs_le]
      constructor <;> linarith [Real.arccos_nonneg (((sort3 e).x + (sort3 e).y + (sort3 e).z) /
        (√3 * √((sort3 e).x * (sort3 e).x + (sort3 e).y * (sort3 e).y + (sort3 e).z * (sort3 e).z))),
        Real.arccos_le_pi (((sort3 e).x + (sort3 e).y + (sort3 e).z) /
        (√3 * √((sort3 e).x * (sort3 e).x + (sort3 e).y * (sort3 e).y + (sort3 e).z * (sort3 e).z)))]

/-- lune coordinates invert the eigenvalue map away from the isotropic poles -/
theorem eToGd_gdToE {γ δ : ℝ} (hγ : |γ| ≤ π / 6) (hδ : |δ| < π / 2) : eToGd (gdToE γ δ) = (γ, δ) := by
  exact lune_eToGd_gdToE hγ hδ

/-- at the poles the latitude is recovered and the longitude is reported as 0 -/
theorem eToGd_gdToE_pole (γ : ℝ) : eToGd (gdToE γ (π / 2)) = (0, π / 2) ∧ eToGd (gdToE γ (-(π / 2))) = (0, -(π / 2)) := by
  exact ⟨lune_eToGd_north γ, lune_eToGd_south γ⟩

set_option linter.unusedVariables false in
/-- the tensor built from in-domain Tape parameters has unit Frobenius norm, so its six-vector is
    not rescaled and has unit norm (the bound `hh` on `h` is not used: the identity holds for any
    dip angle, hence for `arccos h` of any real `h`) -/
theorem tapeToMt33_unit (γ δ κ σ : ℝ) {h : ℝ} (hh : -1 ≤ h ∧ h ≤ 1) : frob2 (tapeToMt33 γ δ κ h σ) = 1 := by
  obtain ⟨h1, h2, h3, h4, h5, h6⟩ := lune_sdrToTnp_gram κ (Flt.acos h) σ
  have hE := lune_gdToE_sq γ δ
  have hr := lune_rebuild_frob (sdrToTnp κ (Flt.acos h) σ).1 (sdrToTnp κ (Flt.acos h) σ).2.1
    (sdrToTnp κ (Flt.acos h) σ).2.2 (gdToE γ δ)
  rw [h1, h2, h3, h4, h5, h6] at hr
  simp only [frob2, tapeToMt33]
  rw [hr]; linear_combination hE

/-- parameters → tensor → parameters, given the eigen-decomposition the tensor was built from
    (axes up to the solver's sign freedom are handled by `tnpToSdr`'s normalisation): the source-type
    pair is recovered exactly -/
theorem eigToTape_source_type {γ δ : ℝ} (hγ : |γ| ≤ π / 6) (hδ : |δ| < π / 2) (T P : V3 ℝ) :
    (eigToTape T P (gdToE γ δ)).1 = γ ∧ (eigToTape T P (gdToE γ δ)).2.1 = δ := by
  rw [lune_eigToTape_fst, lune_eigToTape_snd, lune_eToGd_gdToE hγ hδ]
  exact ⟨rfl, rfl⟩

/-- the returned dip cosine and slip always lie in the Tape ranges when the slip switch fires
    correctly: `h ∈ [0,1]` -/
theorem eigToTape_h_range (T P e : V3 ℝ) :
    0 ≤ (eigToTape T P e).2.2.2.1 ∧ (eigToTape T P e).2.2.2.1 ≤ 1 := by
  exact lune_eigToTape_h T P e

end MTfitVerif.C12
