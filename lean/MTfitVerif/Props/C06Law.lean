import MTfitVerif.Model.Proposal
import MTfitVerif.Real.Inst
import MTfitVerif.Real.ProposalLemmas
import MTfitVerif.Real.ProposalLawLemmas
/-
  C06 (law) — "Proposals are distributed as the truncated Gaussian about the current state that
  the acceptance rule assumes".

  `Props/C06.lean` proves the support (`firstOk_spec`: the value returned by a redraw loop is the
  first in-range candidate).  This file proves the LAW.  The stream consumed by the model function
  `firstOk ok m s` is taken to be `n` independent draws with a common law `ν`, i.e. a point `ω` of
  `Fin n → ℝ` under the product measure `Measure.pi (fun _ : Fin n => ν)`, handed to the model as
  the list `List.ofFn ω`.

  * `firstOk_law_finite`  — probability that the loop returns a value in `A` (finite `n`);
  * `firstOk_exhaust`     — probability that all `n` draws are rejected (the model's `none`);
  * `firstOk_law_limit`   — `n → ∞`: the conditional law of the candidate given that it is in range;
  * `firstOk_law_truncated_gaussian` — for standard-normal draws and a range predicate that is an
    interval `[lo, hi]` the limit law has density `Acceptance.truncTerm · m s lo hi`, the very
    factor `transPdf` (the acceptance rule) uses; instances for the two predicates of the model,
    `absLe b` and `inUnit`.
-/
namespace MTfitVerif.C06
open MTfitVerif Acceptance Proposal MeasureTheory ProbabilityTheory Filter Topology

/-- **Finite-stream law.**  With `n` independent draws of law `ν`, the probability that the redraw
    loop returns a value in `A` is `(∑_{k<n} ν(Sᶜ)^k) · ν(S ∩ cand⁻¹ A)`, where
    `S = {z | ok (m + s z)}` is the set of in-range draws and `cand z = m + s z`.
    (`A` need not be measurable; only `S` has to be.) -/
theorem firstOk_law_finite (ν : Measure ℝ) [IsProbabilityMeasure ν] (ok : ℝ → Bool) (m s : ℝ)
    (hS : MeasurableSet {z : ℝ | ok (m + s * z) = true}) (n : ℕ) (A : Set ℝ) :
    Measure.pi (fun _ : Fin n => ν)
        {ω : Fin n → ℝ | ∃ v rest, firstOk ok m s (List.ofFn ω) = some (v, rest) ∧ v ∈ A} =
      (∑ k ∈ Finset.range n, ν {z : ℝ | ok (m + s * z) = true}ᶜ ^ k) *
        ν ({z : ℝ | ok (m + s * z) = true} ∩ (fun z => m + s * z) ⁻¹' A) :=
  hit_measure ν ok m s hS n A

/-- **Exhaustion.**  The probability that all `n` draws are out of range (the model returns
    `none`) is `ν(Sᶜ)^n`. -/
theorem firstOk_exhaust (ν : Measure ℝ) [IsProbabilityMeasure ν] (ok : ℝ → Bool) (m s : ℝ) (n : ℕ) :
    Measure.pi (fun _ : Fin n => ν) {ω : Fin n → ℝ | firstOk ok m s (List.ofFn ω) = none} =
      ν {z : ℝ | ok (m + s * z) = true}ᶜ ^ n :=
  exhausted_measure ν ok m s n

/-- **Limit law.**  As the stream gets longer the probability of returning a value in `A` tends to
    `ν(S ∩ cand⁻¹ A) / ν(S)`: the conditional law of the candidate given that it is in range.
    (In `ℝ≥0∞` the statement also holds for `ν S = 0`, where both sides are `0`, so the hypothesis
    `0 < ν S` of the informal statement is not needed here; it is what makes the limit a
    probability law, see `firstOk_law_limit_univ`.) -/
theorem firstOk_law_limit (ν : Measure ℝ) [IsProbabilityMeasure ν] (ok : ℝ → Bool) (m s : ℝ)
    (hS : MeasurableSet {z : ℝ | ok (m + s * z) = true}) (A : Set ℝ) :
    Tendsto (fun n : ℕ => Measure.pi (fun _ : Fin n => ν)
        {ω : Fin n → ℝ | ∃ v rest, firstOk ok m s (List.ofFn ω) = some (v, rest) ∧ v ∈ A}) atTop
      (𝓝 (ν ({z : ℝ | ok (m + s * z) = true} ∩ (fun z => m + s * z) ⁻¹' A) /
          ν {z : ℝ | ok (m + s * z) = true})) :=
  hit_tendsto ν ok m s hS A

/-- if the range has positive probability the loop terminates almost surely in the limit: the
    limit law has total mass one -/
theorem firstOk_law_limit_univ (ν : Measure ℝ) [IsProbabilityMeasure ν] (ok : ℝ → Bool) (m s : ℝ)
    (hS : MeasurableSet {z : ℝ | ok (m + s * z) = true})
    (hpos : 0 < ν {z : ℝ | ok (m + s * z) = true}) :
    Tendsto (fun n : ℕ => Measure.pi (fun _ : Fin n => ν)
        {ω : Fin n → ℝ | ∃ v rest, firstOk ok m s (List.ofFn ω) = some (v, rest) ∧ v ∈ Set.univ})
      atTop (𝓝 1) := by
  have h := firstOk_law_limit ν ok m s hS Set.univ
  rw [Set.preimage_univ, Set.inter_univ, ENNReal.div_self hpos.ne' (measure_ne_top _ _)] at h
  exact h

/-- real-valued form of `firstOk_law_limit` -/
theorem firstOk_law_limit_real (ν : Measure ℝ) [IsProbabilityMeasure ν] (ok : ℝ → Bool) (m s : ℝ)
    (hS : MeasurableSet {z : ℝ | ok (m + s * z) = true})
    (hpos : 0 < ν {z : ℝ | ok (m + s * z) = true}) (A : Set ℝ) :
    Tendsto (fun n : ℕ => (Measure.pi (fun _ : Fin n => ν)).real
        {ω : Fin n → ℝ | ∃ v rest, firstOk ok m s (List.ofFn ω) = some (v, rest) ∧ v ∈ A}) atTop
      (𝓝 (ν.real ({z : ℝ | ok (m + s * z) = true} ∩ (fun z => m + s * z) ⁻¹' A) /
          ν.real {z : ℝ | ok (m + s * z) = true})) := by
  have h := firstOk_law_limit ν ok m s hS A
  have hne : ν ({z : ℝ | ok (m + s * z) = true} ∩ (fun z => m + s * z) ⁻¹' A) /
      ν {z : ℝ | ok (m + s * z) = true} ≠ ⊤ :=
    ENNReal.div_ne_top (measure_ne_top _ _) hpos.ne'
  have h2 := (ENNReal.tendsto_toReal hne).comp h
  simp only [ENNReal.toReal_div] at h2
  exact h2

/-! ### standard-normal draws, interval ranges: the truncated Gaussian of the acceptance rule -/

/-- the in-range set of an interval predicate is measurable -/
theorem okSet_measurable (ok : ℝ → Bool) (m s lo hi : ℝ) (hok : ∀ x, ok x = true ↔ lo ≤ x ∧ x ≤ hi) :
    MeasurableSet {z : ℝ | ok (m + s * z) = true} := by
  have : {z : ℝ | ok (m + s * z) = true} = (fun z => m + s * z) ⁻¹' Set.Icc lo hi := by
    ext z; simp [hok, Set.mem_Icc]
  rw [this]
  exact measurableSet_Icc.preimage (by fun_prop)

/-- **The limit law is the truncated Gaussian of the acceptance rule** (general measurable `A`):
    for standard-normal draws, width `s > 0` and a range predicate `ok x ↔ lo ≤ x ≤ hi`, the
    probability that the loop returns a value in `A` tends to
    `∫_{A ∩ [lo,hi]} truncTerm x m s lo hi dx`, where
    `truncTerm x m s lo hi = gaussPdf x m s / (gaussCdf hi m s − gaussCdf lo m s)` is the model
    function `transPdf` is built from. -/
theorem firstOk_law_truncated_gaussian' (ok : ℝ → Bool) (m : ℝ) {s lo hi : ℝ} (hs : 0 < s)
    (hlh : lo < hi) (hok : ∀ x, ok x = true ↔ lo ≤ x ∧ x ≤ hi) {A : Set ℝ} (hA : MeasurableSet A) :
    Tendsto (fun n : ℕ => Measure.pi (fun _ : Fin n => gaussianReal 0 1)
        {ω : Fin n → ℝ | ∃ v rest, firstOk ok m s (List.ofFn ω) = some (v, rest) ∧ v ∈ A}) atTop
      (𝓝 (ENNReal.ofReal (∫ x in A ∩ Set.Icc lo hi, truncTerm x m s lo hi))) := by
  have hS := okSet_measurable ok m s lo hi hok
  have h := firstOk_law_limit (gaussianReal 0 1) ok m s hS A
  have hcand : Measurable fun z : ℝ => m + s * z := by fun_prop
  have e1 : {z : ℝ | ok (m + s * z) = true} = (fun z => m + s * z) ⁻¹' Set.Icc lo hi := by
    ext z; simp [hok, Set.mem_Icc]
  have e2 : {z : ℝ | ok (m + s * z) = true} ∩ (fun z => m + s * z) ⁻¹' A =
      (fun z => m + s * z) ⁻¹' (A ∩ Set.Icc lo hi) := by
    rw [e1, Set.inter_comm, Set.preimage_inter]
  rw [e2, e1, ← Measure.map_apply hcand (hA.inter measurableSet_Icc),
    ← Measure.map_apply hcand measurableSet_Icc, gaussian_map_cand,
    gaussianReal_div_eq_truncTerm m hs hlh] at h
  exact h

/-- **The limit law is the truncated Gaussian of the acceptance rule**: for measurable
    `A ⊆ [lo, hi]` the probability that the loop returns a value in `A` tends to
    `∫_A truncTerm x m s lo hi dx`. -/
theorem firstOk_law_truncated_gaussian (ok : ℝ → Bool) (m : ℝ) {s lo hi : ℝ} (hs : 0 < s)
    (hlh : lo < hi) (hok : ∀ x, ok x = true ↔ lo ≤ x ∧ x ≤ hi) {A : Set ℝ} (hA : MeasurableSet A)
    (hAsub : A ⊆ Set.Icc lo hi) :
    Tendsto (fun n : ℕ => Measure.pi (fun _ : Fin n => gaussianReal 0 1)
        {ω : Fin n → ℝ | ∃ v rest, firstOk ok m s (List.ofFn ω) = some (v, rest) ∧ v ∈ A}) atTop
      (𝓝 (ENNReal.ofReal (∫ x in A, truncTerm x m s lo hi))) := by
  have h := firstOk_law_truncated_gaussian' ok m hs hlh hok hA
  rwa [Set.inter_eq_left.mpr hAsub] at h

/-- the truncated-Gaussian term is a probability density on `[lo, hi]` -/
theorem truncTerm_integral_eq_one (m : ℝ) {s lo hi : ℝ} (hs : 0 < s) (hlh : lo < hi) :
    ∫ x in Set.Icc lo hi, truncTerm x m s lo hi = 1 := by
  have h := gaussianReal_div_eq_truncTerm m hs hlh (Set.Icc lo hi)
  have hZ : 0 < gaussCdf hi m s - gaussCdf lo m s := sub_pos.mpr (gaussCdf_lt m hs hlh)
  rw [gaussianReal_Icc m hs hlh.le,
    ENNReal.div_self (by simpa using hZ) ENNReal.ofReal_ne_top] at h
  exact (ENNReal.ofReal_eq_one.mp h.symm)

/-- the `|x| ≤ b` loops of the model (`γ`, `δ`, `σ` of `shiftSample`; the balancing draw of
    `jumpDraw`): the limit law has the density `truncTerm x m s (-b) b` used by `transPdf` -/
theorem firstOk_law_absLe (m : ℝ) {s b : ℝ} (hs : 0 < s) (hb : 0 < b) {A : Set ℝ}
    (hA : MeasurableSet A) (hAsub : A ⊆ Set.Icc (-b) b) :
    Tendsto (fun n : ℕ => Measure.pi (fun _ : Fin n => gaussianReal 0 1)
        {ω : Fin n → ℝ | ∃ v rest, firstOk (absLe b) m s (List.ofFn ω) = some (v, rest) ∧ v ∈ A})
      atTop (𝓝 (ENNReal.ofReal (∫ x in A, truncTerm x m s (-b) b))) :=
  firstOk_law_truncated_gaussian (absLe b) m hs (by linarith)
    (fun x => by rw [absLe_iff, abs_le]) hA hAsub

/-- the `0 ≤ x ≤ 1` loop of the model (`h` of `shiftSample`): the limit law has the density
    `truncTerm x m s 0 1` used by `transPdf` -/
theorem firstOk_law_inUnit (m : ℝ) {s : ℝ} (hs : 0 < s) {A : Set ℝ}
    (hA : MeasurableSet A) (hAsub : A ⊆ Set.Icc 0 1) :
    Tendsto (fun n : ℕ => Measure.pi (fun _ : Fin n => gaussianReal 0 1)
        {ω : Fin n → ℝ | ∃ v rest, firstOk inUnit m s (List.ofFn ω) = some (v, rest) ∧ v ∈ A})
      atTop (𝓝 (ENNReal.ofReal (∫ x in A, truncTerm x m s 0 1))) :=
  firstOk_law_truncated_gaussian inUnit m hs one_pos (fun x => inUnit_iff x) hA hAsub

/-! ### instantiation of the hypotheses -/

/-- the hypotheses of `firstOk_law_finite` / `firstOk_law_limit` are satisfiable: standard-normal
    draws and the source-type range `|γ| ≤ π/6` -/
example (m s : ℝ) (n : ℕ) (A : Set ℝ) :
    Measure.pi (fun _ : Fin n => gaussianReal 0 1)
        {ω : Fin n → ℝ | ∃ v rest, firstOk (absLe (Real.pi / 6)) m s (List.ofFn ω) = some (v, rest) ∧ v ∈ A} =
      (∑ k ∈ Finset.range n, gaussianReal 0 1 {z : ℝ | absLe (Real.pi / 6) (m + s * z) = true}ᶜ ^ k) *
        gaussianReal 0 1 ({z : ℝ | absLe (Real.pi / 6) (m + s * z) = true} ∩ (fun z => m + s * z) ⁻¹' A) :=
  firstOk_law_finite (gaussianReal 0 1) (absLe (Real.pi / 6)) m s
    (okSet_measurable _ m s (-(Real.pi / 6)) (Real.pi / 6) (fun x => by rw [absLe_iff, abs_le])) n A

/-- the hypotheses of `firstOk_law_truncated_gaussian` are satisfiable: the `γ` loop of
    `shiftSample` about the state `γ₀ = 0.1` with width `0.2`, `A` the upper half of the range -/
example :
    Tendsto (fun n : ℕ => Measure.pi (fun _ : Fin n => gaussianReal 0 1)
        {ω : Fin n → ℝ | ∃ v rest, firstOk (absLe (Real.pi / 6)) 0.1 0.2 (List.ofFn ω) = some (v, rest) ∧
          v ∈ Set.Icc 0 (Real.pi / 6)})
      atTop (𝓝 (ENNReal.ofReal
        (∫ x in Set.Icc 0 (Real.pi / 6), truncTerm x 0.1 0.2 (-(Real.pi / 6)) (Real.pi / 6)))) :=
  firstOk_law_absLe 0.1 (by norm_num) (by positivity) measurableSet_Icc
    (Set.Icc_subset_Icc (by linarith [Real.pi_pos]) le_rfl)

end MTfitVerif.C06
