import MTfitVerif.Model.MultiEvent
import MTfitVerif.Real.Inst
import MTfitVerif.Real.LogPSem
import MTfitVerif.Real.ScaleLemmas
import Mathlib.Topology.Order.Basic
import Mathlib.Analysis.SpecialFunctions.Exp
/-
  C15 — relative scale factor: inverse-variance combination, station-order independence,
  zero-noise limit.  Property theorems only; helper lemmas live in `Real/ScaleLemmas.lean`.
-/
namespace MTfitVerif.C15
open MTfitVerif MultiEvent LogP Filter Topology Scale

/-- **Inverse-variance weighting**: the combined estimate of any number of station estimates
    `(μᵢ, sᵢ)`, `sᵢ > 0`, is `Σ μᵢ/sᵢ² / Σ 1/sᵢ²` with standard deviation `1/√(Σ 1/sᵢ²)` -/
theorem combineMu_closed_form (xs : List (ℝ × ℝ)) (hne : xs ≠ []) (hpos : ∀ x ∈ xs, 0 < x.2) :
    combineMu xs = some ((xs.map fun x => x.1 / x.2 ^ 2).sum / (xs.map fun x => 1 / x.2 ^ 2).sum,
                         1 / Real.sqrt ((xs.map fun x => 1 / x.2 ^ 2).sum)) :=
  combineMu_eq xs hne hpos

/-- the combination does not depend on the order of the stations -/
theorem combineMu_perm (xs ys : List (ℝ × ℝ)) (h : xs.Perm ys) (hpos : ∀ x ∈ xs, 0 < x.2) :
    combineMu xs = combineMu ys := by
  by_cases hne : xs = []
  · subst hne; rw [List.nil_perm.mp h]
  · have hne' : ys ≠ [] := fun hy => hne (by subst hy; exact List.perm_nil.mp h)
    have hpos' : ∀ y ∈ ys, 0 < y.2 := fun y hy => hpos y (h.mem_iff.mpr hy)
    rw [combineMu_eq xs hne hpos, combineMu_eq ys hne' hpos', wSum_perm h, mSum_perm h]

/-- the combined estimate lies between the smallest and the largest station estimate, and its
    uncertainty is not larger than that of any station -/
theorem combineMu_between (xs : List (ℝ × ℝ)) (hpos : ∀ x ∈ xs, 0 < x.2) (lo hi : ℝ)
    (hlo : ∀ x ∈ xs, lo ≤ x.1) (hhi : ∀ x ∈ xs, x.1 ≤ hi) (m s : ℝ) (h : combineMu xs = some (m, s)) :
    lo ≤ m ∧ m ≤ hi ∧ 0 < s ∧ ∀ x ∈ xs, s ≤ x.2 := by
  have hne : xs ≠ [] := by
    rintro rfl; simp [combineMu] at h
  rw [combineMu_eq xs hne hpos] at h
  simp only [Option.some.injEq, Prod.mk.injEq] at h
  obtain ⟨rfl, rfl⟩ := h
  have hW := wSum_pos hne hpos
  have hsW : 0 < Real.sqrt (wSum xs) := Real.sqrt_pos.mpr hW
  refine ⟨?_, ?_, by positivity, ?_⟩
  · rw [le_div_iff₀ hW]; exact mSum_ge hlo
  · rw [div_le_iff₀ hW]; exact mSum_le hhi
  · intro x hx
    have hx2 : 0 < x.2 := hpos x hx
    have h1 : 1 / x.2 ^ 2 ≤ wSum xs := wSum_ge_of_mem hx
    have h2 : 1 / x.2 ≤ Real.sqrt (wSum xs) := by
      apply Real.le_sqrt_of_sq_le
      rw [div_pow, one_pow]; exact h1
    rw [div_le_iff₀ hsW]
    have := mul_le_mul_of_nonneg_left h2 hx2.le
    rwa [mul_one_div, div_self hx2.ne'] at this

/-- the relative-amplitude term of an event pair (log-likelihood, scale factor, uncertainty) does
    not depend on the order in which the shared stations are listed -/
theorem relTerm_perm (ps ps' : List (RelObs ℝ × RelObs ℝ)) (m₁ m₂ : List ℝ) (h : ps.Perm ps')
    (hpos : ∀ p ∈ ps, 0 < (let v := pairVals m₁ m₂ p; stationScale v.r v.μx v.μy v.ex v.ey).2) :
    (relTerm ps m₁ m₂).map (fun r => (toProb r.1, r.2.1, r.2.2)) =
      (relTerm ps' m₁ m₂).map (fun r => (toProb r.1, r.2.1, r.2.2)) := by
  have hvs : (ps.map (pairVals m₁ m₂)).Perm (ps'.map (pairVals m₁ m₂)) := h.map _
  have hcomb : combineMu ((ps.map (pairVals m₁ m₂)).map fun v => stationScale v.r v.μx v.μy v.ex v.ey) =
      combineMu ((ps'.map (pairVals m₁ m₂)).map fun v => stationScale v.r v.μx v.μy v.ex v.ey) := by
    apply combineMu_perm _ _ (hvs.map _)
    intro x hx
    simp only [List.map_map, List.mem_map, Function.comp_apply] at hx
    obtain ⟨p, hp, rfl⟩ := hx
    exact hpos p hp
  have hany : ((ps.map (pairVals m₁ m₂)).any fun v => Flt.eqb v.μx (c 0) || Flt.eqb v.μy (c 0)) =
      ((ps'.map (pairVals m₁ m₂)).any fun v => Flt.eqb v.μx (c 0) || Flt.eqb v.μy (c 0)) :=
    hvs.any_eq
  have hprod : ∀ scale : ℝ,
      toProb (LogP.sum ((ps.map (pairVals m₁ m₂)).map fun v => ofProb (stationProb scale v))) =
      toProb (LogP.sum ((ps'.map (pairVals m₁ m₂)).map fun v => ofProb (stationProb scale v))) := by
    intro scale
    rw [toProb_sum, toProb_sum]
    exact ((hvs.map _).map _).prod_eq
  unfold relTerm
  simp only []
  rw [← hcomb, ← hany]
  cases combineMu ((ps.map (pairVals m₁ m₂)).map fun v => stationScale v.r v.μx v.μy v.ex v.ey) with
  | none => rfl
  | some su =>
    obtain ⟨scale, unc⟩ := su
    simp only []
    split
    · rfl
    · simp only [Option.map_some, hprod scale]

/-- **Zero-noise limit of a station estimate**: for positive observed ratio and modelled
    amplitudes the estimated scale tends to `μy r / μx` as the fractional errors go to zero -/
theorem stationScale_zero_noise (r μx μy : ℝ) (hr : 0 < r) (hx : 0 < μx) (hy : 0 < μy) :
    Tendsto (fun e : ℝ => (stationScale r μx μy e e).1) (𝓝[>] 0) (𝓝 (μy * r / μx)) := by
  have hD : r * μy ^ 2 / μx ^ 2 * (μy * r / μx) + μy / μx ≠ 0 := by positivity
  refine (muF_tendsto (r * μy ^ 2 / μx ^ 2) (μy / μx) (scK r μx μy) (μy * r / μx)
    (Real.sqrt (2 / Real.pi) * μy / (μx * scK r μx μy)) hD).congr' ?_
  filter_upwards [self_mem_nhdsWithin] with e he
  have he : 0 < e := he
  rw [stationScale_core r μx μy e hx hy he, coreMu_scale _ _ _ _ _ _ (pow_pos he 2).ne']
  rfl

/-- if the observed ratio is `k` times the ratio of the modelled amplitudes, the limit is `k` -/
theorem stationScale_zero_noise_true_ratio (k μx μy : ℝ) (hk : 0 < k) (hx : 0 < μx) (hy : 0 < μy) :
    Tendsto (fun e : ℝ => (stationScale (k * μx / μy) μx μy e e).1) (𝓝[>] 0) (𝓝 k) := by
  have h := stationScale_zero_noise (k * μx / μy) μx μy (by positivity) hx hy
  have hk' : μy * (k * μx / μy) / μx = k := by field_simp
  rwa [hk'] at h

/-- the standard deviation of a station estimate is positive for all sufficiently small errors
    (its square is `e² (μy² r² + μx²)/μx² (1 + o(1))`) -/
theorem stationScale_sd_eventually_pos (r μx μy : ℝ) (hr : 0 < r) (hx : 0 < μx) (hy : 0 < μy) :
    ∀ᶠ e in 𝓝[>] (0 : ℝ), 0 < (stationScale r μx μy e e).2 := by
  have hK := scK_pos r μx μy hx
  have ha : 0 < r * μy ^ 2 / μx ^ 2 := by positivity
  have hb : 0 < μy / μx := by positivity
  have hμ : 0 < μy * r / μx := by positivity
  have hD : 0 < (r * μy ^ 2 / μx ^ 2 * (μy * r / μx) + μy / μx) ^ 2 := by positivity
  have hsmall : ∀ᶠ e in 𝓝[>] (0 : ℝ),
      (r * μy ^ 2 / μx ^ 2) ^ 2 * e ^ 2 * scK r μx μy
        < (r * μy ^ 2 / μx ^ 2 * (μy * r / μx) + μy / μx) ^ 2 := by
    have ht : Tendsto (fun e : ℝ => (r * μy ^ 2 / μx ^ 2) ^ 2 * e ^ 2 * scK r μx μy) (𝓝[>] 0) (𝓝 0) := by
      have := (tendsto_sq_mul_nhdsGT (scK r μx μy)).const_mul ((r * μy ^ 2 / μx ^ 2) ^ 2)
      rw [mul_zero] at this
      refine this.congr (fun e => ?_)
      ring
    exact ht.eventually (gt_mem_nhds hD)
  filter_upwards [self_mem_nhdsWithin, hsmall] with e he hs
  have he : 0 < e := he
  rw [stationScale_core r μx μy e hx hy he]
  apply Real.sqrt_pos.mpr
  rw [coreVar_scale _ _ _ _ _ _ (pow_pos he 2).ne']
  exact coreVar_pos (e ^ 2) _ _ _ _ _ (pow_pos he 2) ha hb (scC_pos r μx μy hx hy he).le hK hμ.le hs

/-- **The combined scale factor converges to the true amplitude ratio**: for any non-empty list
    of stations `(μx, μy)` with positive modelled amplitudes whose observed ratios are all
    `k μx / μy`, the inverse-variance-weighted scale factor tends to `k` as the errors go to zero -/
theorem scale_converges (k : ℝ) (hk : 0 < k) (sts : List (ℝ × ℝ)) (hne : sts ≠ [])
    (hpos : ∀ s ∈ sts, 0 < s.1 ∧ 0 < s.2) :
    Tendsto (fun e : ℝ => ((combineMu (sts.map fun s => stationScale (k * s.1 / s.2) s.1 s.2 e e)).getD (0, 0)).1)
      (𝓝[>] 0) (𝓝 k) := by
  -- eventually every station has a positive standard deviation
  have hsd : ∀ᶠ e in 𝓝[>] (0 : ℝ), ∀ s ∈ sts, 0 < (stationScale (k * s.1 / s.2) s.1 s.2 e e).2 :=
    eventually_forall_mem sts fun s hs =>
      stationScale_sd_eventually_pos _ _ _ (by have h1 := (hpos s hs).1; have h2 := (hpos s hs).2; positivity)
        (hpos s hs).1 (hpos s hs).2
  -- the combined value is squeezed between bounds of the station values
  have hsq : ∀ e : ℝ, (∀ s ∈ sts, 0 < (stationScale (k * s.1 / s.2) s.1 s.2 e e).2) → ∀ lo hi : ℝ,
      (∀ s ∈ sts, lo ≤ (stationScale (k * s.1 / s.2) s.1 s.2 e e).1) →
      (∀ s ∈ sts, (stationScale (k * s.1 / s.2) s.1 s.2 e e).1 ≤ hi) →
      lo ≤ ((combineMu (sts.map fun s => stationScale (k * s.1 / s.2) s.1 s.2 e e)).getD (0, 0)).1 ∧
      ((combineMu (sts.map fun s => stationScale (k * s.1 / s.2) s.1 s.2 e e)).getD (0, 0)).1 ≤ hi := by
    intro e hp lo hi hlo hhi
    have hp' : ∀ x ∈ sts.map (fun s => stationScale (k * s.1 / s.2) s.1 s.2 e e), 0 < x.2 := by
      intro x hx; obtain ⟨s, hs, rfl⟩ := List.mem_map.mp hx; exact hp s hs
    have hlo' : ∀ x ∈ sts.map (fun s => stationScale (k * s.1 / s.2) s.1 s.2 e e), lo ≤ x.1 := by
      intro x hx; obtain ⟨s, hs, rfl⟩ := List.mem_map.mp hx; exact hlo s hs
    have hhi' : ∀ x ∈ sts.map (fun s => stationScale (k * s.1 / s.2) s.1 s.2 e e), x.1 ≤ hi := by
      intro x hx; obtain ⟨s, hs, rfl⟩ := List.mem_map.mp hx; exact hhi s hs
    have hne' : sts.map (fun s => stationScale (k * s.1 / s.2) s.1 s.2 e e) ≠ [] := by
      simpa using hne
    have hc := combineMu_eq _ hne' hp'
    have hb := combineMu_between _ hp' lo hi hlo' hhi' _ _ hc
    rw [hc]
    exact ⟨hb.1, hb.2.1⟩
  have hst : ∀ s ∈ sts, Tendsto (fun e : ℝ => (stationScale (k * s.1 / s.2) s.1 s.2 e e).1) (𝓝[>] 0) (𝓝 k) :=
    fun s hs => stationScale_zero_noise_true_ratio k s.1 s.2 hk (hpos s hs).1 (hpos s hs).2
  refine tendsto_order.2 ⟨fun a' ha' => ?_, fun a' ha' => ?_⟩
  · have hmid : (a' + k) / 2 < k := by linarith
    have hev : ∀ᶠ e in 𝓝[>] (0 : ℝ), ∀ s ∈ sts, (a' + k) / 2 < (stationScale (k * s.1 / s.2) s.1 s.2 e e).1 :=
      eventually_forall_mem sts fun s hs => (hst s hs).eventually (lt_mem_nhds hmid)
    filter_upwards [hsd, hev] with e h1 h2
    obtain ⟨hi, hhi⟩ : ∃ hi : ℝ, ∀ s ∈ sts, (stationScale (k * s.1 / s.2) s.1 s.2 e e).1 ≤ hi :=
      ⟨((sts.map fun s => |(stationScale (k * s.1 / s.2) s.1 s.2 e e).1|).sum), fun s hs =>
        (le_abs_self _).trans (List.single_le_sum (by intro x hx; obtain ⟨s, _, rfl⟩ := List.mem_map.mp hx; exact abs_nonneg _)
          _ (List.mem_map.mpr ⟨s, hs, rfl⟩))⟩
    have := (hsq e h1 ((a' + k) / 2) hi (fun s hs => (h2 s hs).le) hhi).1
    linarith
  · have hmid : k < (a' + k) / 2 := by linarith
    have hev : ∀ᶠ e in 𝓝[>] (0 : ℝ), ∀ s ∈ sts, (stationScale (k * s.1 / s.2) s.1 s.2 e e).1 < (a' + k) / 2 :=
      eventually_forall_mem sts fun s hs => (hst s hs).eventually (gt_mem_nhds hmid)
    filter_upwards [hsd, hev] with e h1 h2
    obtain ⟨lo, hlo⟩ : ∃ lo : ℝ, ∀ s ∈ sts, lo ≤ (stationScale (k * s.1 / s.2) s.1 s.2 e e).1 :=
      ⟨-((sts.map fun s => |(stationScale (k * s.1 / s.2) s.1 s.2 e e).1|).sum), fun s hs =>
        (neg_le_neg (List.single_le_sum (by intro x hx; obtain ⟨s, _, rfl⟩ := List.mem_map.mp hx; exact abs_nonneg _)
          _ (List.mem_map.mpr ⟨s, hs, rfl⟩))).trans (neg_abs_le _)⟩
    have := (hsq e h1 lo ((a' + k) / 2) hlo (fun s hs => (h2 s hs).le)).2
    linarith

end MTfitVerif.C15
