import MTfitVerif.Model.Polarity
import MTfitVerif.Real.LogPSem
import MTfitVerif.Real.PolarityLemmas
import Mathlib.Topology.Order.Basic
/-
  C02 — polarity likelihoods are valid two-outcome probability models.
  Property theorems only; helper lemmas live in `Real/PolarityLemmas.lean` / `Real/Erf.lean`.
-/
namespace MTfitVerif.C02
open MTfitVerif LogP Polarity Real Filter Topology

/-- the documented expression -/
theorem polProb_eq (A σ w : ℝ) (hσ : σ ≠ 0) :
    polProb A σ w = (1/2) * (1 + erf (A / (√2 * σ))) * (1 - w) + (1/2) * (1 + erf (-A / (√2 * σ))) * w := by
  unfold polProb; rw [sigmaFix_of_ne hσ, polProbRaw_eq]

/-- `σ = 0` is accepted: it is replaced by `10⁻²⁴`, and no divisor is ever zero. -/
theorem sigmaFix_pos {σ : ℝ} (hσ : 0 ≤ σ) : 0 < sigmaFix σ := by
  exact sigmaFix_pos' hσ

theorem polProb_divisor_ne_zero {σ : ℝ} (hσ : 0 ≤ σ) : √2 * sigmaFix σ ≠ 0 := by
  exact (sqrt2_mul_pos (sigmaFix_pos' hσ)).ne'

/-- range -/
theorem polProb_mem_Icc (A σ : ℝ) {w : ℝ} (hw0 : 0 ≤ w) (hw1 : w ≤ 1) :
    0 ≤ polProb A σ w ∧ polProb A σ w ≤ 1 := by
  exact ⟨(polProbRaw_pos A _ hw0 hw1).le, polProbRaw_le_one A _ hw0 hw1⟩

/-- strictly positive unless the mispick probability is 0 or 1 … and even then over ℝ -/
theorem polProb_pos (A σ : ℝ) {w : ℝ} (hw0 : 0 ≤ w) (hw1 : w ≤ 1) : 0 < polProb A σ w := by
  exact polProbRaw_pos A _ hw0 hw1

/-- the two possible polarities sum to one -/
theorem polProb_compl (A σ w : ℝ) : polProb A σ w + polProb (-A) σ w = 1 := by
  exact polProbRaw_compl A _ w

/-- non-decreasing in `yA` when `w < 1/2` -/
theorem polProb_mono {σ w : ℝ} (hσ : 0 ≤ σ) (hw : w ≤ 1/2) : Monotone (fun A => polProb A σ w) := by
  exact polProbRaw_mono (sigmaFix_pos' hσ) hw

theorem polProb_strictMono {σ w : ℝ} (hσ : 0 ≤ σ) (hw : w < 1/2) : StrictMono (fun A => polProb A σ w) := by
  exact polProbRaw_strictMono (sigmaFix_pos' hσ) hw

theorem polProb_antitone {σ w : ℝ} (hσ : 0 ≤ σ) (hw : 1/2 ≤ w) : Antitone (fun A => polProb A σ w) := by
  exact polProbRaw_antitone (sigmaFix_pos' hσ) hw

theorem polProb_half (A σ : ℝ) : polProb A σ (1/2) = 1/2 := by
  exact polProbRaw_half A _

/-- hard 0/1 limit: as the uncertainty goes to zero the probability of a correct polarity tends to
    `1 - w`, of a wrong one to `w`, and it is `1/2` on the nodal plane. -/
theorem polProb_tendsto_zero_sigma (A w : ℝ) :
    Tendsto (fun σ : ℝ => polProbRaw A σ w) (𝓝[>] 0)
      (𝓝 (if 0 < A then 1 - w else if A < 0 then w else 1/2)) := by
  exact polProbRaw_tendsto A w

/-- the value the code uses at `σ = 0` is within `erfc`-distance of the hard limit: it is the
    expression at `σ = 10⁻²⁴` -/
theorem polProb_sigma_zero (A w : ℝ) : polProb A 0 w = polProbRaw A (1e-24) w := by
  unfold polProb; rw [sigmaFix_zero]

/-- the documented step-function mixture -/
theorem polProbP_pos_amp {A : ℝ} (hA : 0 < A) (pp pn w : ℝ) :
    polProbP A pp pn w = pp * (1 - w) + pn * w := by
  exact polProbP_pos hA pp pn w

theorem polProbP_neg_amp {A : ℝ} (hA : A < 0) (pp pn w : ℝ) :
    polProbP A pp pn w = pn * (1 - w) + pp * w := by
  exact polProbP_neg hA pp pn w

theorem polProbP_zero_amp (pp pn w : ℝ) : polProbP 0 pp pn w = (pp + pn) / 2 := by
  exact polProbP_zero pp pn w

theorem polProbP_mem_Icc (A : ℝ) {pp pn w : ℝ} (hpp : 0 ≤ pp ∧ pp ≤ 1) (hpn : 0 ≤ pn ∧ pn ≤ 1)
    (hw : 0 ≤ w ∧ w ≤ 1) : 0 ≤ polProbP A pp pn w ∧ polProbP A pp pn w ≤ 1 := by
  exact polProbP_bounds A hpp hpn hw

/-- the two polarity-probability outcomes (amplitude sign flipped) sum to `p₊ + p₋` -/
theorem polProbP_compl (A pp pn w : ℝ) : polProbP A pp pn w + polProbP (-A) pp pn w = pp + pn := by
  rcases lt_trichotomy 0 A with h | h | h
  · rw [polProbP_pos h, polProbP_neg (neg_neg_of_pos h)]; ring
  · subst h; rw [neg_zero, polProbP_zero]; ring
  · rw [polProbP_neg h, polProbP_pos (neg_pos.mpr h)]; ring

/-- sum of logs over stations = log of the product, for any number of stations -/
theorem lnPolAt_toProb (sts : List (PolStation ℝ)) (k : Nat) (mt : List ℝ)
    (hw : ∀ s ∈ sts, 0 ≤ s.w ∧ s.w ≤ 1) :
    toProb (lnPolAt sts k mt)
      = (sts.map fun s => polProb (dot (s.coeffs.getD k []) mt) s.sigma s.w).prod := by
  unfold lnPolAt
  rw [toProb_sum, List.map_map]
  congr 1
  apply List.map_congr_left
  intro s hs
  obtain ⟨h0, h1⟩ := hw s hs
  exact toProb_ofProb (polProb_pos _ _ h0 h1).le

theorem lnPolProbAt_toProb (sts : List (PolProbStation ℝ)) (k : Nat) (mt : List ℝ)
    (h : ∀ s ∈ sts, (0 ≤ s.pp ∧ s.pp ≤ 1) ∧ (0 ≤ s.pn ∧ s.pn ≤ 1) ∧ (0 ≤ s.w ∧ s.w ≤ 1)) :
    toProb (lnPolProbAt sts k mt)
      = (sts.map fun s => polProbP (dot (s.coeffs.getD k []) mt) s.pp s.pn s.w).prod := by
  unfold lnPolProbAt
  rw [toProb_sum, List.map_map]
  congr 1
  apply List.map_congr_left
  intro s hs
  obtain ⟨hpp, hpn, hw⟩ := h s hs
  exact toProb_ofProb (polProbP_bounds _ hpp hpn hw).1

/-- impossible sources get exactly zero probability: the log-likelihood is `-∞` iff some
    station's probability is zero -/
theorem lnPolProbAt_negInf_iff (sts : List (PolProbStation ℝ)) (k : Nat) (mt : List ℝ)
    (h : ∀ s ∈ sts, (0 ≤ s.pp ∧ s.pp ≤ 1) ∧ (0 ≤ s.pn ∧ s.pn ≤ 1) ∧ (0 ≤ s.w ∧ s.w ≤ 1)) :
    lnPolProbAt sts k mt = negInf
      ↔ ∃ s ∈ sts, polProbP (dot (s.coeffs.getD k []) mt) s.pp s.pn s.w = 0 := by
  unfold lnPolProbAt
  rw [sum_eq_negInf_iff, List.mem_map]
  constructor
  · rintro ⟨s, hs, he⟩
    obtain ⟨hpp, hpn, hw⟩ := h s hs
    exact ⟨s, hs, le_antisymm ((ofProb_eq_negInf_iff _).mp he) (polProbP_bounds _ hpp hpn hw).1⟩
  · rintro ⟨s, hs, he⟩
    exact ⟨s, hs, (ofProb_eq_negInf_iff _).mpr he.le⟩

/-- with manual polarities no source is impossible over ℝ (`erf` never reaches ±1) -/
theorem lnPolAt_ne_negInf (sts : List (PolStation ℝ)) (k : Nat) (mt : List ℝ)
    (hw : ∀ s ∈ sts, 0 ≤ s.w ∧ s.w ≤ 1) : lnPolAt sts k mt ≠ negInf := by
  unfold lnPolAt
  rw [Ne, sum_eq_negInf_iff, List.mem_map]
  rintro ⟨s, hs, he⟩
  obtain ⟨h0, h1⟩ := hw s hs
  exact absurd ((ofProb_eq_negInf_iff _).mp he) (not_le.mpr (polProb_pos _ _ h0 h1))

end MTfitVerif.C02
