import MTfitVerif.Props.C20Misc
import MTfitVerif.Real.Inst
import Mathlib.Analysis.SpecialFunctions.Log.Basic
/-
  C20D, part A over ℝ — the output of the translated `c_ln_normalise` is normalised: `Σ exp(out_i) · dV = 1`.

  Over ℝ the code's `-inf` (`-(1/0)`) is `0`, so the running maximum `lnMax` is `max 0 (max_i ln_p_i)` rather than
  `max_i ln_p_i`; the normalisation identity does not depend on which shift is subtracted and added back, so the statement is
  clean all the same.  (For `c_dkl` / `c_dkl_uniform` the test `-inf < ln_p_i` reads `0 < ln_p_i` over ℝ, which has no
  counterpart in the compiled code; no ℝ statement is made for them.)
-/
namespace MTfitVerif.C20
open MTfitVerif

theorem foldl_add_eq_sum (f : ℝ → ℝ) (l : List ℝ) (a : ℝ) :
    l.foldl (fun s x => s + f x) a = a + (l.map f).sum := by
  induction l generalizing a with
  | nil => simp
  | cons x l ih => simp only [List.foldl_cons, List.map_cons, List.sum_cons]; rw [ih]; ring

theorem lnShiftSum_real (l : List ℝ) (m : ℝ) : lnShiftSum l m = (l.map (fun x => Real.exp (x - m))).sum := by
  unfold lnShiftSum
  have h := foldl_add_eq_sum (fun x => Real.exp (x - m)) l 0
  simpa using h

theorem lnShiftSum_pos (l : List ℝ) (m : ℝ) (hne : l ≠ []) : 0 < lnShiftSum l m := by
  rw [lnShiftSum_real]
  cases l with
  | nil => exact absurd rfl hne
  | cons x l =>
    rw [List.map_cons, List.sum_cons]
    have h1 : 0 < Real.exp (x - m) := Real.exp_pos _
    have h2 : 0 ≤ (l.map (fun x => Real.exp (x - m))).sum :=
      List.sum_nonneg (by intro y hy; obtain ⟨z, _, rfl⟩ := List.mem_map.mp hy; exact (Real.exp_pos _).le)
    linarith

/-- C20D item 4 over ℝ: the output of `c_ln_normalise` on a non-empty list with `0 < dV` integrates to one,
    `Σ_i exp(out_i) · dV = 1`. -/
theorem c_ln_normalise_sum_one (l : List ℝ) (dV : ℝ) (n : Nat) (hn : l.length = n) (hne : l ≠ []) (hdV : 0 < dV) :
    ((Pyx.cprobability.c_ln_normalise l dV n).map (fun x => Real.exp x * dV)).sum = 1 := by
  rw [c_ln_normalise_eq l dV n hn, List.map_map]
  have hS : 0 < lnShiftSum l (lnMax l) := lnShiftSum_pos l _ hne
  have hterm : ∀ x : ℝ, ((fun x => Real.exp x * dV) ∘ (fun x => x - lnNormaliser l dV)) x
      = Real.exp (x - lnMax l) * (1 / lnShiftSum l (lnMax l)) := by
    intro x
    simp only [Function.comp, lnNormaliser, flt_log]
    rw [show x - (Real.log (lnShiftSum l (lnMax l) * dV) + lnMax l)
        = (x - lnMax l) - Real.log (lnShiftSum l (lnMax l) * dV) by ring, Real.exp_sub,
      Real.exp_log (mul_pos hS hdV)]
    field_simp
  rw [List.map_congr_left (fun x _ => hterm x), List.sum_map_mul_right, ← lnShiftSum_real]
  field_simp

end MTfitVerif.C20
