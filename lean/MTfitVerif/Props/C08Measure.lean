import Mathlib.Probability.Distributions.Gaussian.Multivariate
import MTfitVerif.Model.RandomMT
import MTfitVerif.Real.Inst
import MTfitVerif.Real.RandomMTLemmas
import MTfitVerif.Real.RandomMeasureLemmas
import MTfitVerif.Props.C08
/-
  C08 — distributional half: the law of the random samplers is rotation invariant.
-/
namespace MTfitVerif.C08
open MTfitVerif MTfitVerif.Convert MTfitVerif.RandomMT MeasureTheory ProbabilityTheory

/-- law of the model's full-moment-tensor sampler `randomMt` when its six inputs are i.i.d.
    standard normal (see `gaussian_input_iid`), as a measure on Euclidean six-space -/
noncomputable def sampleLaw : Measure E6 :=
  (stdGaussian E6).map (fun x => toE6 (randomMt (ofE6 x)))

/-- the bridging maps are mutually inverse and carry the model norm to the Euclidean norm -/
theorem bridge6 : (∀ v : V6 ℝ, ofE6 (toE6 v) = v) ∧ (∀ x : E6, toE6 (ofE6 x) = x) ∧
    (∀ v : V6 ℝ, ‖toE6 v‖ = v.norm) := ⟨ofE6_toE6, toE6_ofE6, norm_toE6⟩

/-- **rotation invariance**: the law of the sampled six-vector is invariant under every linear
    isometry of six-space -/
theorem randomMt_law_invariant (U : E6 ≃ₗᵢ[ℝ] E6) : sampleLaw.map U = sampleLaw := by
  unfold sampleLaw
  rw [Measure.map_map U.continuous.measurable measurable_sampler6]
  have hcomm : (⇑U ∘ fun x : E6 => toE6 (randomMt (ofE6 x)))
      = (fun x : E6 => toE6 (randomMt (ofE6 x))) ∘ ⇑U := by
    funext x
    simp only [Function.comp_apply, toE6_randomMt_ofE6, normalize_comm]
  rw [hcomm, ← Measure.map_map measurable_sampler6 U.continuous.measurable, stdGaussian_map]

example : sampleLaw.map (LinearIsometryEquiv.refl ℝ E6) = sampleLaw :=
  randomMt_law_invariant _

/-- the standard Gaussian on six-space is the law of six independent `N(0,1)` draws -/
theorem gaussian_input_iid :
    (Measure.pi (fun _ : Fin 6 => gaussianReal 0 1)).map (WithLp.toLp 2) = stdGaussian E6 :=
  map_pi_eq_stdGaussian

/-- law of the sampled six-vector, written directly from six independent `N(0,1)` draws
    `g : Fin 6 → ℝ` fed to the model as `⟨g 0, …, g 5⟩` -/
noncomputable def sampleLawIid : Measure E6 :=
  (Measure.pi (fun _ : Fin 6 => gaussianReal 0 1)).map
    (fun g => toE6 (randomMt ⟨g 0, g 1, g 2, g 3, g 4, g 5⟩))

theorem sampleLawIid_eq : sampleLawIid = sampleLaw := by
  unfold sampleLawIid sampleLaw
  rw [← gaussian_input_iid, Measure.map_map measurable_sampler6 (WithLp.measurable_toLp 2 _)]
  rfl

/-- rotation invariance, stated for six independent `N(0,1)` draws -/
theorem randomMt_law_invariant_iid (U : E6 ≃ₗᵢ[ℝ] E6) : sampleLawIid.map U = sampleLawIid := by
  rw [sampleLawIid_eq]; exact randomMt_law_invariant U

/-- the law is carried by the unit sphere of six-space -/
theorem randomMt_law_on_sphere : sampleLaw (Metric.sphere (0 : E6) 1)ᶜ = 0 := by
  unfold sampleLaw
  rw [Measure.map_apply measurable_sampler6 Metric.isClosed_sphere.measurableSet.compl]
  refine measure_mono_null ?_ (stdGaussian_euclidean_singleton (0 : E6))
  intro x hx
  simp only [Set.mem_preimage, Set.mem_compl_iff, mem_sphere_iff_norm, sub_zero,
    toE6_randomMt_ofE6] at hx
  by_contra h0
  exact hx (norm_normalize h0)

instance : IsProbabilityMeasure sampleLaw :=
  Measure.isProbabilityMeasure_map measurable_sampler6.aemeasurable

/-! ### orientation: the random triad -/

/-- the bridging maps for three-vectors are mutually inverse and carry the model norm to the
    Euclidean norm -/
theorem bridge3 : (∀ v : V3 ℝ, ofE3 (toE3 v) = v) ∧ (∀ x : E3, toE3 (ofE3 x) = x) ∧
    (∀ v : V3 ℝ, ‖toE3 v‖ = v.norm) := ⟨ofE3_toE3, toE3_ofE3, norm_toE3⟩

/-- `R` preserves the model's cross product (i.e. `R` is a proper rotation, `det R = 1`);
    `actV3 R v = ofE3 (R (toE3 v))` is `R` acting on a model three-vector -/
def PreservesCross (R : E3 ≃ₗᵢ[ℝ] E3) : Prop :=
  ∀ a b : V3 ℝ, actV3 R (V3.cross a b) = V3.cross (actV3 R a) (actV3 R b)

theorem preservesCross_refl : PreservesCross (LinearIsometryEquiv.refl ℝ E3) := fun _ _ => rfl

/-- rotating both Gaussian draws rotates the whole triad (unconditionally: degenerate draws give
    zero vectors on both sides, as `unit 0 = 0` in the model over ℝ) -/
theorem triad_equivariant (R : E3 ≃ₗᵢ[ℝ] E3) (hR : PreservesCross R) (a x : V3 ℝ) :
    triad (actV3 R a) (actV3 R x) =
      (actV3 R (triad a x).1, actV3 R (triad a x).2.1, actV3 R (triad a x).2.2) := by
  have hR' : ∀ a b : V3 ℝ, V3.cross (actV3 R a) (actV3 R b) = actV3 R (V3.cross a b) :=
    fun a b => (hR a b).symm
  simp only [triad_eq, unit_actV3, hR']

example (a x : V3 ℝ) : triad (actV3 (LinearIsometryEquiv.refl ℝ E3) a) (actV3 (LinearIsometryEquiv.refl ℝ E3) x) =
    (actV3 (LinearIsometryEquiv.refl ℝ E3) (triad a x).1, actV3 (LinearIsometryEquiv.refl ℝ E3) (triad a x).2.1,
      actV3 (LinearIsometryEquiv.refl ℝ E3) (triad a x).2.2) :=
  triad_equivariant _ preservesCross_refl a x

/-- law of the random triad when the two raw three-vectors are independent standard Gaussian
    three-vectors, as a measure on `E3 × E3 × E3`; `triadE p` is `triad (ofE3 p.1) (ofE3 p.2)`
    with its three components mapped back by `toE3` -/
noncomputable def triadLaw : Measure (E3 × E3 × E3) :=
  ((stdGaussian E3).prod (stdGaussian E3)).map triadE

theorem triadE_def (p : E3 × E3) : triadE p =
    (toE3 (triad (ofE3 p.1) (ofE3 p.2)).1, toE3 (triad (ofE3 p.1) (ofE3 p.2)).2.1,
      toE3 (triad (ofE3 p.1) (ofE3 p.2)).2.2) := rfl

theorem triadE_equivariant (R : E3 ≃ₗᵢ[ℝ] E3) (hR : PreservesCross R) (p : E3 × E3) :
    triadE (R p.1, R p.2) = (R (triadE p).1, R (triadE p).2.1, R (triadE p).2.2) := by
  simp only [triadE_def, ← actV3_ofE3, triad_equivariant R hR, toE3_actV3]

/-- **uniformly random orientation**: the law of the random triad is invariant under every proper
    rotation applied to its three vectors -/
theorem triad_law_invariant (R : E3 ≃ₗᵢ[ℝ] E3) (hR : PreservesCross R) :
    triadLaw.map (Prod.map R (Prod.map R R)) = triadLaw := by
  have hRm : Measurable R := R.continuous.measurable
  unfold triadLaw
  rw [Measure.map_map (hRm.prodMap (hRm.prodMap hRm)) measurable_triadE]
  have hcomm : Prod.map R (Prod.map R R) ∘ triadE = triadE ∘ Prod.map R R := by
    funext p
    simp only [Function.comp_apply]
    exact (triadE_equivariant R hR p).symm
  rw [hcomm, ← Measure.map_map measurable_triadE (hRm.prodMap hRm),
    ← Measure.map_prod_map _ _ hRm hRm, stdGaussian_map]

example : triadLaw.map (Prod.map (LinearIsometryEquiv.refl ℝ E3)
    (Prod.map (LinearIsometryEquiv.refl ℝ E3) (LinearIsometryEquiv.refl ℝ E3))) = triadLaw :=
  triad_law_invariant _ preservesCross_refl

/-- the cross-product hypothesis holds for every linear isometry of determinant one, i.e. for
    every proper rotation -/
theorem preservesCross_of_det_one (R : E3 ≃ₗᵢ[ℝ] E3)
    (hdet : LinearMap.det (R.toLinearEquiv : E3 →ₗ[ℝ] E3) = 1) : PreservesCross R :=
  actV3_cross_of_det_one R hdet

/-- uniformly random orientation, stated with the determinant condition -/
theorem triad_law_invariant_of_det_one (R : E3 ≃ₗᵢ[ℝ] E3)
    (hdet : LinearMap.det (R.toLinearEquiv : E3 →ₗ[ℝ] E3) = 1) :
    triadLaw.map (Prod.map R (Prod.map R R)) = triadLaw :=
  triad_law_invariant R (preservesCross_of_det_one R hdet)

example : LinearMap.det ((LinearIsometryEquiv.refl ℝ E3).toLinearEquiv : E3 →ₗ[ℝ] E3) = 1 :=
  LinearMap.det_id

/-! ### the sampled double-couple / CLVD tensors -/

/-- what the induced action is: the tensor of `conj6 A v` is `A M Aᵀ` for `M` the tensor of `v`
    (`symMat` is the full symmetric 3×3 matrix of a `Sym3`) -/
theorem conj6_spec (A : Matrix (Fin 3) (Fin 3) ℝ) (v : V6 ℝ) :
    symMat (mt6ToMt33 (conj6 A v)) = A * symMat (mt6ToMt33 v) * A.transpose := by
  rw [mt6ToMt33_conj6, symMat_conjSym]

/-- rotating both Gaussian draws by a proper rotation `R` conjugates the sampled tensor,
    `M ↦ R M Rᵀ`; `conj6 A v` is the six-vector of `A M Aᵀ` where `M` is the tensor of `v`,
    and `matE3 R` is the matrix of `R` in the standard basis -/
theorem randomType_equivariant (R : E3 ≃ₗᵢ[ℝ] E3) (hR : PreservesCross R) (diag a x : V3 ℝ) :
    randomType diag (actV3 R a) (actV3 R x) = conj6 (matE3 R) (randomType diag a x) := by
  rw [randomType_eq, randomType_eq, triad_equivariant R hR, eigvecsToMt6_actV3]

/-- law of the sampled tensor (eigenvalue pattern `diag`, e.g. `dcDiag` or `clvdDiag u`) when the
    two raw three-vectors are independent standard Gaussian three-vectors;
    `randomTypeE diag p = toE6 (randomType diag (ofE3 p.1) (ofE3 p.2))` -/
noncomputable def randomTypeLaw (diag : V3 ℝ) : Measure E6 :=
  ((stdGaussian E3).prod (stdGaussian E3)).map (randomTypeE diag)

/-- the law of the sampled tensor of a fixed type is invariant under the induced action
    `M ↦ R M Rᵀ` of every proper rotation; `conjE6 R x = toE6 (conj6 (matE3 R) (ofE6 x))` -/
theorem randomType_law_invariant (R : E3 ≃ₗᵢ[ℝ] E3) (hR : PreservesCross R) (diag : V3 ℝ) :
    (randomTypeLaw diag).map (conjE6 R) = randomTypeLaw diag := by
  have hRm : Measurable R := R.continuous.measurable
  unfold randomTypeLaw
  rw [Measure.map_map (measurable_conjE6 R) (measurable_randomTypeE diag)]
  have hcomm : conjE6 R ∘ randomTypeE diag = randomTypeE diag ∘ Prod.map R R := by
    funext p
    show toE6 (conj6 (matE3 R) (ofE6 (toE6 (randomType diag (ofE3 p.1) (ofE3 p.2)))))
      = toE6 (randomType diag (ofE3 (R p.1)) (ofE3 (R p.2)))
    rw [ofE6_toE6, ← actV3_ofE3, ← actV3_ofE3, randomType_equivariant R hR]
  rw [hcomm, ← Measure.map_map (measurable_randomTypeE diag) (hRm.prodMap hRm),
    ← Measure.map_prod_map _ _ hRm hRm, stdGaussian_map]

theorem randomType_law_invariant_of_det_one (R : E3 ≃ₗᵢ[ℝ] E3)
    (hdet : LinearMap.det (R.toLinearEquiv : E3 →ₗ[ℝ] E3) = 1) (diag : V3 ℝ) :
    (randomTypeLaw diag).map (conjE6 R) = randomTypeLaw diag :=
  randomType_law_invariant R (preservesCross_of_det_one R hdet) diag

example : (randomTypeLaw (dcDiag : V3 ℝ)).map (conjE6 (LinearIsometryEquiv.refl ℝ E3))
    = randomTypeLaw dcDiag :=
  randomType_law_invariant _ preservesCross_refl _

/-! ### almost surely the samples are orthonormal frames / unit tensors -/

/-- almost surely (two independent standard Gaussian three-vectors) the random triad is an
    orthonormal frame — in the model's own terms -/
theorem triad_ae_orthonormal :
    ∀ᵐ p ∂((stdGaussian E3).prod (stdGaussian E3)),
      let t := triad (ofE3 p.1) (ofE3 p.2)
      V3.dot t.1 t.1 = 1 ∧ V3.dot t.2.1 t.2.1 = 1 ∧ V3.dot t.2.2 t.2.2 = 1 ∧
        V3.dot t.1 t.2.1 = 0 ∧ V3.dot t.1 t.2.2 = 0 ∧ V3.dot t.2.1 t.2.2 = 0 := by
  filter_upwards [ae_not_degenerate] with p hp
  have ha : V3.dot (ofE3 p.1) (ofE3 p.1) ≠ 0 := by
    rw [dot_self_ne_zero_iff, toE3_ofE3]; exact hp.1
  have hx : V3.dot (V3.cross (ofE3 p.1).unit (ofE3 p.2)) (V3.cross (ofE3 p.1).unit (ofE3 p.2)) ≠ 0 := by
    rw [dot_self_ne_zero_iff, toE3_cross, toE3_unit, toE3_ofE3, toE3_ofE3]; exact hp.2
  exact triad_orthonormal (ofE3 p.1) (ofE3 p.2) ha hx

/-- the same in Mathlib's terms: the three Euclidean vectors form an orthonormal family -/
theorem triadE_ae_orthonormal :
    ∀ᵐ p ∂((stdGaussian E3).prod (stdGaussian E3)),
      Orthonormal ℝ ![(triadE p).1, (triadE p).2.1, (triadE p).2.2] := by
  filter_upwards [triad_ae_orthonormal] with p hp
  obtain ⟨h1, h2, h3, h4, h5, h6⟩ := hp
  rw [dot_eq_inner] at h1 h2 h3 h4 h5 h6
  rw [orthonormal_iff_ite]
  intro i j
  fin_cases i <;> fin_cases j
  · exact h1
  · exact h4
  · exact h5
  · exact (real_inner_comm _ _).trans h4
  · exact h2
  · exact h6
  · exact (real_inner_comm _ _).trans h5
  · exact (real_inner_comm _ _).trans h6
  · exact h3

/-- the law of the sampled tensor of a fixed type with unit eigenvalue pattern is carried by the
    unit sphere of six-space -/
theorem randomType_law_on_sphere (diag : V3 ℝ) (hd : diag.x^2 + diag.y^2 + diag.z^2 = 1) :
    randomTypeLaw diag (Metric.sphere (0 : E6) 1)ᶜ = 0 := by
  unfold randomTypeLaw
  rw [Measure.map_apply (measurable_randomTypeE diag) Metric.isClosed_sphere.measurableSet.compl,
    measure_eq_zero_iff_ae_notMem]
  filter_upwards [triad_ae_orthonormal] with p hp
  obtain ⟨h1, h2, h3, h4, h5, h6⟩ := hp
  have hu := eigvecs_unit diag _ _ _ h1 h2 h3 h4 h5 h6 hd
  simp only [Set.mem_preimage, Set.mem_compl_iff, mem_sphere_iff_norm, sub_zero, not_not]
  rw [randomTypeE, norm_toE6, v6_norm_eq, randomType_eq, ← sq6_eq_sqs, hu, Real.sqrt_one]

example : randomTypeLaw (dcDiag : V3 ℝ) (Metric.sphere (0 : E6) 1)ᶜ = 0 :=
  randomType_law_on_sphere _ dc_pattern.1

end MTfitVerif.C08
