import MTfitVerif.Model.Evidence
import MTfitVerif.Real.LogDomainLemmas
import MTfitVerif.Real.EvidenceLemmas
/-
  C10 — evidence, model probabilities and divergences obey their defining identities.
  Property theorems only; helper lemmas live in `Real/EvidenceLemmas.lean`.
-/
namespace MTfitVerif.C10
open MTfitVerif LogP Evidence Real

/-- The log evidence denotes the mean likelihood over all `n` tried samples (the stored list
    holds the non-zero ones; zero-probability samples count only through `n`). -/
theorem lnBE_eq_log_mean (ls : List (LogP ℝ)) {n : ℝ} (hn : 0 < n) :
    toProb (lnBayesianEvidence ls n) = (ls.map toProb).sum / n := by
  unfold lnBayesianEvidence
  cases h : maxFin ls with
  | none =>
    have hall := (maxFin_eq_none_iff ls).mp h
    have : (ls.map toProb).sum = 0 := by
      apply List.sum_eq_zero
      intro x hx
      obtain ⟨y, hy, rfl⟩ := List.mem_map.mp hx
      rw [hall y hy]; rfl
    simp [this]
  | some m =>
    have hpos := expSum_pos m h
    simp only [flt_log, toProb_fin]
    rw [Real.exp_sub, Real.exp_add, Real.exp_log hpos, Real.exp_log hn, expSum_eq,
      mul_comm (Real.exp (-m)), mul_assoc, ← Real.exp_add]
    simp

/-- Zero-probability entries change nothing but the count. -/
theorem lnBE_negInf_cons (ls : List (LogP ℝ)) (n : ℝ) :
    lnBayesianEvidence (negInf :: ls) n = lnBayesianEvidence ls n := by
  simp only [lnBayesianEvidence, maxFin, expSum]

/-- Shifting every log-likelihood by `k` shifts the log evidence by `k`. -/
theorem lnBE_shift (ls : List (LogP ℝ)) (n k : ℝ) :
    lnBayesianEvidence (ls.map (shift · k)) n = shift (lnBayesianEvidence ls n) k := by
  unfold lnBayesianEvidence
  rw [maxFin_shift]
  cases h : maxFin ls with
  | none => simp
  | some m =>
    simp only [Option.map_some, shift_fin, expSum_shift, fin.injEq]
    ring

/-- The evidence does not depend on sample order. -/
theorem lnBE_perm {l₁ l₂ : List (LogP ℝ)} (h : l₁.Perm l₂) (n : ℝ) :
    lnBayesianEvidence l₁ n = lnBayesianEvidence l₂ n := by
  unfold lnBayesianEvidence
  rw [maxFin_perm h]
  cases maxFin l₂ with
  | none => rfl
  | some m => simp only [expSum_perm h m]

/-- Closed form of the model probabilities: the softmax of the log evidences. -/
theorem modelProb_eq (es : List ℝ) :
    modelProbabilities es = es.map (fun e => Real.exp e / (es.map Real.exp).sum) :=
  modelProbabilities_eq es

theorem modelProb_pos (es : List ℝ) : ∀ p ∈ modelProbabilities es, 0 < p := by
  intro p hp
  rw [modelProb_eq] at hp
  obtain ⟨e, he, rfl⟩ := List.mem_map.mp hp
  exact div_pos (Real.exp_pos e) (sum_exp_pos (List.ne_nil_of_mem he))

theorem modelProb_sum_one (es : List ℝ) (hne : es ≠ []) : (modelProbabilities es).sum = 1 := by
  rw [modelProb_eq]; exact softmax_sum_one hne

/-- ratios are `exp` of the evidence difference -/
theorem modelProb_ratio (es : List ℝ) (i j : Nat) (hi : i < es.length) (hj : j < es.length) :
    (modelProbabilities es)[i]! / (modelProbabilities es)[j]! = Real.exp (es[i]! - es[j]!) := by
  rw [modelProb_eq]
  have hpos := sum_exp_pos (List.ne_nil_of_length_pos (Nat.zero_lt_of_lt hi))
  rw [getElem!_pos _ i (by simpa using hi), getElem!_pos _ j (by simpa using hj),
    getElem!_pos es i hi, getElem!_pos es j hj, List.getElem_map, List.getElem_map, Real.exp_sub]
  field_simp

theorem modelProb_shift (es : List ℝ) (k : ℝ) :
    modelProbabilities (es.map (· + k)) = modelProbabilities es := by
  rw [modelProb_eq, modelProb_eq, List.map_map, List.map_map]
  apply List.map_congr_left
  intro e _
  have := softmax_shift (-k) e es
  simp only [sub_neg_eq_add] at this
  simpa [Function.comp_def] using this

/-- normalised sample weights `wᵢ = exp xᵢ / Σ exp xⱼ` over the finite entries -/
noncomputable def weights (lnpdf : List (LogP ℝ)) : List ℝ :=
  (fins lnpdf).map (fun x => Real.exp x / ((fins lnpdf).map Real.exp).sum)

/-- `dkl_estimate = ln N − H(w)` -/
theorem dklEstimate_eq (lnpdf : List (LogP ℝ)) {V N : ℝ} (hV : 0 < V) (hN : 0 < N)
    (hfin : fins lnpdf ≠ []) :
    dklEstimate lnpdf V N = Real.log N + ((weights lnpdf).map (fun w => w * Real.log w)).sum := by
  obtain ⟨m, h⟩ := exists_maxFin_of_fins_ne_nil hfin
  unfold dklEstimate weights
  simp only [h, sumL_eq, flt_log, List.map_map, List.zip_map']
  simp only [Function.comp_def, flt_exp]
  rw [dklEstimate_eq_aux hfin m hV hN, List.map_map]
  simp only [Function.comp_def]

theorem dklEstimate_le_log (lnpdf : List (LogP ℝ)) {V N : ℝ} (hV : 0 < V) (hN : 0 < N)
    (hfin : fins lnpdf ≠ []) : dklEstimate lnpdf V N ≤ Real.log N := by
  rw [dklEstimate_eq lnpdf hV hN hfin]
  have := sum_mul_log_nonpos (weights lnpdf) (fun w hw => softmax_mem_pos_le_one hw)
  linarith

/-- non-negative whenever the number of non-zero samples does not exceed the total count -/
theorem dklEstimate_nonneg (lnpdf : List (LogP ℝ)) {V N : ℝ} (hV : 0 < V) (hN : 0 < N)
    (hfin : fins lnpdf ≠ []) (hcount : ((fins lnpdf).length : ℝ) ≤ N) :
    0 ≤ dklEstimate lnpdf V N := by
  rw [dklEstimate_eq lnpdf hV hN hfin]
  have hg := gibbs_uniform hN (weights lnpdf) (fun w hw => (softmax_mem_pos_le_one hw).1)
  have hsum : (weights lnpdf).sum = 1 := softmax_sum_one hfin
  have hlen : (weights lnpdf).length = (fins lnpdf).length := by simp [weights]
  rw [hsum, hlen] at hg
  have hdiv : ((fins lnpdf).length : ℝ) / N ≤ 1 := (div_le_one hN).mpr hcount
  linarith

/-- divergence of a sampled pdf from itself is zero (holds for any `dV`; `hdV` is not needed) -/
theorem dkl_self (p : List (LogP ℝ)) {dV : ℝ} (hdV : 0 < dV) (hfin : fins p ≠ []) :
    dkl (p.map (fun x => (x, x))) dV = some 0 := by
  obtain ⟨m, h⟩ := exists_maxFin_of_fins_ne_nil hfin
  have h1 : (p.map (fun x => (x, x))).map (·.1) = p := by simp [Function.comp_def]
  have h2 : (p.map (fun x => (x, x))).map (·.2) = p := by simp [Function.comp_def]
  have _ := hdV
  rw [dkl_eq_of_maxFin dV (by rw [h1]; exact h) (by rw [h2]; exact h), h1, h2, dklTerm_self]
  simp

/-- divergence between two sampled pdfs is non-negative (Gibbs) -/
theorem dkl_nonneg (pq : List (LogP ℝ × LogP ℝ)) {dV d : ℝ} (hdV : 0 < dV)
    (h : dkl pq dV = some d) : 0 ≤ d := by
  obtain ⟨mp, mq, hp, hq⟩ := dkl_some_maxFin h
  rw [dkl_eq_of_maxFin dV hp hq, Option.map_eq_some_iff] at h
  obtain ⟨ts, hts, rfl⟩ := h
  have hSp := expSum_pos mp hp
  have hSq := expSum_pos mq hq
  have hge := dklTerm_sum_ge (mul_pos hSp hdV) (mul_pos hSq hdV) pq ts hts
  have e1 : expSum mp (pq.map (·.1)) / (expSum mp (pq.map (·.1)) * dV) = 1 / dV := by
    field_simp
  have e2 : expSum mq (pq.map (·.2)) / (expSum mq (pq.map (·.2)) * dV) = 1 / dV := by
    field_simp
  rw [e1, e2, sub_self] at hge
  exact mul_nonneg hge hdV.le

end MTfitVerif.C10
