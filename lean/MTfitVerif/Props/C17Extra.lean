import MTfitVerif.Props.C17
/-
  C17 — further property theorems for the binary result files: appending to a file, the
  second round trip is an exact fixed point, the reader determines the record (no two
  different records share a byte stream), and the size of a file follows from its header.
-/
namespace MTfitVerif.C17
open MTfitVerif Binary

/-- what the reader drops (the evidence of an unconverted record) is dropped once -/
theorem norm_idempotent (r : Record ℝ) : norm (norm r) = norm r := by
  cases r with
  | mk total converted lbe dkl samples => cases converted <;> rfl

/-- a record as read back is again well formed -/
theorem norm_WF (r : Record ℝ) (h : WF r) : WF (norm r) := h

/-- an empty file holds no record -/
theorem read_empty (fuel : Nat) : read fuel ([] : List (Word ℝ)) = some [] := by
  cases fuel <;> rfl

/-- appending records to an existing file: the stream reads back as the old records followed
    by the new ones -/
theorem read_write_append (rs₁ rs₂ : List (Record ℝ)) (h₁ : ∀ r ∈ rs₁, WF r) (h₂ : ∀ r ∈ rs₂, WF r)
    (fuel : Nat) (hf : rs₁.length + rs₂.length ≤ fuel) :
    read fuel (rs₁.flatMap write ++ rs₂.flatMap write) = some (rs₁.map norm ++ rs₂.map norm) := by
  rw [← List.flatMap_append, ← List.map_append]
  apply read_write_binary
  · intro r hr
    rcases List.mem_append.mp hr with hr | hr
    · exact h₁ r hr
    · exact h₂ r hr
  · simpa using hf

/-- writing out what was read and reading it again returns exactly what was read: after the
    first round trip every later one is the identity -/
theorem read_write_fixpoint (rs : List (Record ℝ)) (h : ∀ r ∈ rs, WF r) (fuel : Nat)
    (hf : rs.length ≤ fuel) :
    read fuel ((rs.map norm).flatMap write) = some (rs.map norm) := by
  have hwf : ∀ r ∈ rs.map norm, WF r := by
    intro r hr
    obtain ⟨r', hr', rfl⟩ := List.mem_map.mp hr
    exact norm_WF r' (h r' hr')
  have := read_write_binary (rs.map norm) hwf fuel (by simpa using hf)
  rw [this, List.map_map]
  congr 1
  apply List.map_congr_left
  intro r _
  exact norm_idempotent r

/-- the stream determines the record: two well-formed records with the same stream are read
    back as the same record -/
theorem write_determines (r₁ r₂ : Record ℝ) (h₁ : WF r₁) (h₂ : WF r₂) (hw : write r₁ = write r₂) :
    norm r₁ = norm r₂ := by
  have e₁ := readOne_write r₁ h₁ []
  have e₂ := readOne_write r₂ h₂ []
  rw [hw, e₂] at e₁
  have := Option.some.inj e₁
  exact (Prod.mk.inj this).1.symm

/-- length of one written sample -/
theorem writeSample_length (conv : Bool) (s : Sample ℝ)
    (h : s.conv.length = (if conv then 13 else 0)) :
    (writeSample conv s).length = if conv then 21 else 8 := by
  cases conv <;> simp_all [writeSample]

/-- the size of a record's stream follows from its header: six header words and 8 or 21
    doubles per sample -/
theorem write_length (r : Record ℝ) (h : WF r) :
    (write r).length = 6 + r.samples.length * (if r.converted then 21 else 8) := by
  have hs : ∀ ss : List (Sample ℝ), (∀ s ∈ ss, s.mt.length = 6 ∧
      s.conv.length = (if r.converted then 13 else 0)) →
      (ss.flatMap (writeSample r.converted)).length
        = ss.length * (if r.converted then 21 else 8) := by
    intro ss
    induction ss with
    | nil => intro _; simp
    | cons s ss ih =>
      intro hss
      rw [List.flatMap_cons, List.length_append,
        writeSample_length _ s (hss s List.mem_cons_self).2,
        ih (fun u hu => hss u (List.mem_cons_of_mem _ hu)), List.length_cons]
      ring
  unfold write
  rw [List.length_append, hs r.samples h]
  rfl

/-- premises are satisfiable: an unconverted record with one sample -/
example : WF (⟨10, false, none, none, [⟨1, 0, [1, 0, 0, 0, 0, 0], []⟩]⟩ : Record ℝ) := by
  intro s hs
  simp at hs
  subst hs
  simp

end MTfitVerif.C17
