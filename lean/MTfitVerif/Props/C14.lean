import MTfitVerif.Model.Convert
import MTfitVerif.Model.Potency
import MTfitVerif.Real.Inst
import MTfitVerif.Real.ConvertLemmasSpectrum
/-
  C14 — eigen-decomposition and source-type coordinates are faithful and scale-free.
  (That NumPy's symmetric eigen-solver returns real, orthonormal, ordered axes that rebuild the
  tensor is an external assumption checked on its outputs in every run.)
-/
namespace MTfitVerif.C14
open MTfitVerif MTfitVerif.Convert MTfitVerif.Potency Real

def smul3 (k : ℝ) (e : V3 ℝ) : V3 ℝ := ⟨k * e.x, k * e.y, k * e.z⟩

/-- descending sort: result is ordered and is a rearrangement of the input -/
theorem sort3_sorted (e : V3 ℝ) : (sort3 e).z ≤ (sort3 e).y ∧ (sort3 e).y ≤ (sort3 e).x := by
  rw [sort3_real']
  simp only
  rcases le_total e.x e.y with h1 | h1 <;> rcases le_total e.y e.z with h2 | h2 <;>
    rcases le_total e.x e.z with h3 | h3 <;>
    simp only [max_eq_left, max_eq_right, min_eq_left, min_eq_right, h1, h2, h3] <;>
    constructor <;> linarith

theorem sort3_perm (e : V3 ℝ) : [(sort3 e).x, (sort3 e).y, (sort3 e).z].Perm [e.x, e.y, e.z] := by
  cases e; exact sort3_perm_real _ _ _

/-- sorting does not depend on the order of the input -/
theorem sort3_order_inv (a b cc : ℝ) :
    sort3 ⟨a, b, cc⟩ = sort3 ⟨b, a, cc⟩ ∧ sort3 ⟨a, b, cc⟩ = sort3 ⟨a, cc, b⟩ ∧ sort3 ⟨a, b, cc⟩ = sort3 ⟨cc, b, a⟩ := by
  simp only [sort3_real]
  refine ⟨?_, ?_, ?_⟩
  · rw [max_comm a b, min_comm a b, add_comm a b]
  · rw [max_assoc, max_comm b cc, ← max_assoc, min_assoc, min_comm b cc, ← min_assoc, add_right_comm]
  · rw [max_comm (max a b) cc, max_comm a b, ← max_assoc, min_comm (min a b) cc, min_comm a b, ← min_assoc]
    congr 2; ring

set_option linter.unusedVariables false in
/-- an orthonormal eigen-system rebuilds its tensor: `(Σ eᵢ vᵢvᵢᵀ) vⱼ = eⱼ vⱼ`
    (stated for `j = T`; this instance only needs `hT`, `hTN`, `hTP`; the `N` and `P` instances
    are `rebuild_eigen_N`, `rebuild_eigen_P` below) -/
theorem rebuild_eigen (T N P e : V3 ℝ) (hT : V3.dot T T = 1) (hN : V3.dot N N = 1) (hP : V3.dot P P = 1)
    (hTN : V3.dot T N = 0) (hTP : V3.dot T P = 0) (hNP : V3.dot N P = 0) :
    let m := rebuild T N P e
    (⟨m.xx * T.x + m.xy * T.y + m.xz * T.z, m.xy * T.x + m.yy * T.y + m.yz * T.z, m.xz * T.x + m.yz * T.y + m.zz * T.z⟩ : V3 ℝ)
      = smul3 e.x T := by
  simp only [rebuild, smul3, V3.dot] at *
  congr 1
  · linear_combination (e.x * T.x) * hT + (e.y * N.x) * hTN + (e.z * P.x) * hTP
  · linear_combination (e.x * T.y) * hT + (e.y * N.y) * hTN + (e.z * P.y) * hTP
  · linear_combination (e.x * T.z) * hT + (e.y * N.z) * hTN + (e.z * P.z) * hTP

theorem rebuild_eigen_N (T N P e : V3 ℝ) (hN : V3.dot N N = 1)
    (hTN : V3.dot T N = 0) (hNP : V3.dot N P = 0) :
    let m := rebuild T N P e
    (⟨m.xx * N.x + m.xy * N.y + m.xz * N.z, m.xy * N.x + m.yy * N.y + m.yz * N.z, m.xz * N.x + m.yz * N.y + m.zz * N.z⟩ : V3 ℝ)
      = smul3 e.y N := by
  simp only [rebuild, smul3, V3.dot] at *
  congr 1
  · linear_combination (e.x * T.x) * hTN + (e.y * N.x) * hN + (e.z * P.x) * hNP
  · linear_combination (e.x * T.y) * hTN + (e.y * N.y) * hN + (e.z * P.y) * hNP
  · linear_combination (e.x * T.z) * hTN + (e.y * N.z) * hN + (e.z * P.z) * hNP

theorem rebuild_eigen_P (T N P e : V3 ℝ) (hP : V3.dot P P = 1)
    (hTP : V3.dot T P = 0) (hNP : V3.dot N P = 0) :
    let m := rebuild T N P e
    (⟨m.xx * P.x + m.xy * P.y + m.xz * P.z, m.xy * P.x + m.yy * P.y + m.yz * P.z, m.xz * P.x + m.yz * P.y + m.zz * P.z⟩ : V3 ℝ)
      = smul3 e.z P := by
  simp only [rebuild, smul3, V3.dot] at *
  congr 1
  · linear_combination (e.x * T.x) * hTP + (e.y * N.x) * hNP + (e.z * P.x) * hP
  · linear_combination (e.x * T.y) * hTP + (e.y * N.y) * hNP + (e.z * P.y) * hP
  · linear_combination (e.x * T.z) * hTP + (e.y * N.z) * hNP + (e.z * P.z) * hP

/-- lune coordinates depend only on the eigenvalue ratios: unchanged by positive scaling … -/
theorem eToGd_scale_inv (e : V3 ℝ) {k : ℝ} (hk : 0 < k) : eToGd (smul3 k e) = eToGd e := by
  cases e; exact eToGd_scale _ _ _ hk

/-- … and by the order in which the eigenvalues are given -/
theorem eToGd_order_inv (a b cc : ℝ) :
    eToGd ⟨a, b, cc⟩ = eToGd ⟨b, a, cc⟩ ∧ eToGd ⟨a, b, cc⟩ = eToGd ⟨a, cc, b⟩ := by
  obtain ⟨h1, h2, -⟩ := sort3_order_inv a b cc
  unfold eToGd
  rw [← h1, ← h2]
  simp only [flt_eqb, Bool.and_eq_true, decide_eq_true_eq]
  constructor
  · by_cases h : a = b ∧ b = cc
    · obtain ⟨rfl, rfl⟩ := h; rfl
    · have h' : ¬ (b = a ∧ a = cc) := fun ⟨p, q⟩ => h ⟨p.symm, p.trans q⟩
      rw [if_neg h, if_neg h']
  · by_cases h : a = b ∧ b = cc
    · obtain ⟨rfl, rfl⟩ := h; rfl
    · have h' : ¬ (a = cc ∧ cc = b) := fun ⟨p, q⟩ => h ⟨p.trans q, q.symm⟩
      rw [if_neg h, if_neg h']

/-- Hudson coordinates of the sorted spectrum: scale invariance -/
theorem hudson_scale_inv (e : V3 ℝ) {k : ℝ} (hk : 0 < k) :
    eToTk (sort3 (smul3 k e)) = eToTk (sort3 e) := by
  cases e with | mk a b cc =>
  simp only [smul3]
  rw [sort3_scale a b cc hk.le]
  exact eToTk_scale _ hk

/-- Hudson coordinates of the special sources: double-couple at (0,0), isotropic at (0,±1),
    CLVD at (∓1, 0) -/
theorem hudson_special_points :
    tkToUv (eToTk (⟨1, 0, -1⟩ : V3 ℝ)).1 (eToTk (⟨1, 0, -1⟩ : V3 ℝ)).2 = (0, 0) ∧
    tkToUv (eToTk (⟨1, 1, 1⟩ : V3 ℝ)).1 (eToTk (⟨1, 1, 1⟩ : V3 ℝ)).2 = (0, 1) ∧
    tkToUv (eToTk (⟨-1, -1, -1⟩ : V3 ℝ)).1 (eToTk (⟨-1, -1, -1⟩ : V3 ℝ)).2 = (0, -1) ∧
    tkToUv (eToTk (⟨2, -1, -1⟩ : V3 ℝ)).1 (eToTk (⟨2, -1, -1⟩ : V3 ℝ)).2 = (-1, 0) ∧
    tkToUv (eToTk (⟨1, 1, -2⟩ : V3 ℝ)).1 (eToTk (⟨1, 1, -2⟩ : V3 ℝ)).2 = (1, 0) := by
  refine ⟨?_, ?_, ?_, ?_, ?_⟩ <;> norm_num [eToTk, tkToUv]

set_option linter.unusedVariables false in
/-- Hudson coordinates of any sorted, non-zero spectrum lie in `|u| ≤ 4/3`, `|v| ≤ 1`.
    (Proved through `|τ| + |k| ≤ 1`, `eToTk_abs_le`.  The non-zero hypothesis `hne` is not needed
    over ℝ because Mathlib's `x / 0 = 0`; it is kept since for the all-zero spectrum the
    floating-point code divides 0 by 0.) -/
theorem hudson_bounds (e : V3 ℝ) (h1 : e.y ≤ e.x) (h2 : e.z ≤ e.y) (hne : e.x ≠ 0 ∨ e.z ≠ 0) :
    |(tkToUv (eToTk e).1 (eToTk e).2).1| ≤ 4 / 3 ∧ |(tkToUv (eToTk e).1 (eToTk e).2).2| ≤ 1 := by
  exact tkToUv_bounds (eToTk_abs_le e h1 h2)

/-- crack + double-couple parameters → lune coordinates → parameters is the identity on
    `[0, π/2) × (−1, 1/2)` -/
theorem cdc_roundtrip {a ν : ℝ} (ha0 : 0 ≤ a) (ha1 : a < π / 2) (hν0 : -1 < ν) (hν1 : ν < 1 / 2) :
    gdToCdc (cdcToGd a ν).1 (cdcToGd a ν).2 = (a, ν) := by
  exact cdc_roundtrip_real ha0 ha1 hν0 hν1

/-- at an opening angle of exactly π/2 the source is the pure double-couple whatever the Poisson
    ratio, and the opening angle is recovered -/
theorem cdc_at_pi_div_two (ν : ℝ) : cdcToGd (π / 2) ν = (0, 0) ∧ (gdToCdc 0 0).1 = π / 2 := by
  constructor
  · simp [cdcToGd]
  · simp [gdToCdc]

/-! ### potency tensor -/

/-- the index permutation between six-vector and Voigt order is an involution -/
theorem perm_involutive (v : List ℝ) (h : v.length = 6) : perm (perm v) = v := by
  match v, h with
  | [a, b, c, d, e, f], _ => simp [perm]

/-- the stiffness matrix is symmetric -/
theorem cvoigt_symmetric (cc : List ℝ) (i j : Nat) (hi : i < 6) (hj : j < 6) :
    ((cvoigt cc).getD i []).getD j 0 = ((cvoigt cc).getD j []).getD i 0 := by
  interval_cases i <;> interval_cases j <;> simp [cvoigt]

set_option linter.unusedVariables false in
/-- converting a moment tensor to a potency tensor inverts multiplication by the stiffness matrix:
    `C · D = M` for every stiffness tensor for which the linear solver returns a solution
    (`hm` is not needed: `perm` pads a short input with zeros) -/
theorem mt6cToD6_inverts (solve : List (List ℝ) → List ℝ → List ℝ) (cc m : List ℝ) (hm : m.length = 6)
    (hsolve : matVec (cvoigt cc) (solve (cvoigt cc) (perm m)) = perm m)
    (hlen : (solve (cvoigt cc) (perm m)).length = 6) :
    matVec (cvoigt cc) (perm (mt6cToD6 solve cc m)) = perm m := by
  unfold mt6cToD6
  rw [perm_involutive _ hlen, hsolve]

/-- isotropic stiffness acts as `M = λ tr(D) I + 2μ D` -/
theorem isotropic_apply (l mu d0 d1 d2 d3 d4 d5 : ℝ) :
    matVec (cvoigt (isotropicC l mu)) [d0, d1, d2, d3, d4, d5]
      = [l * (d0 + d1 + d2) + 2 * mu * d0, l * (d0 + d1 + d2) + 2 * mu * d1, l * (d0 + d1 + d2) + 2 * mu * d2,
         2 * mu * d3, 2 * mu * d4, 2 * mu * d5] := by
  simp [matVec, cvoigt, isotropicC, g, dot]
  refine ⟨?_, ?_, ?_⟩ <;> ring

end MTfitVerif.C14
