import MTfitVerif.Model.Chain
import MTfitVerif.Real.ChainLemmas
/-
  C07 — a Markov-chain run returns a correctly counted chain (bookkeeping half; the statement
  that the recorded chain samples the posterior follows from C05 ∧ C06 by the Metropolis–Hastings
  argument and is tested statistically, not proved).
  Property theorems only; helper lemmas live in `Real/ChainLemmas.lean`.
-/
namespace MTfitVerif.C07
open MTfitVerif Chain

/-- states reachable by feeding any list of events to `step` -/
def reach (s₀ : State) (evs : List Event) : State := evs.foldl step s₀

/-- number of proposals an event tries -/
def Event.nTried : Event → Nat
  | .accept u _ => u + 1
  | .reject n => max n 1

/-- **Counting invariant**, for every history: nothing is recorded during the learning period;
    afterwards the chain holds one entry per tried proposal plus the first state held one extra
    time; `tried` never decreases below −1; the double-couple count is the number of
    double-couple entries. -/
theorem chain_counts (L W C : Nat) (x0 : Entry) (evs : List Event) :
    let s := reach (init L W C x0) evs
    (s.tried = -1 → s.chain = []) ∧
    (0 ≤ s.tried → (s.chain.length : Int) = s.tried + 1 ∧ 1 ≤ s.tried) ∧
    s.pDc = (s.chain.filter (·.isDc)).length ∧
    (learning s = true → s.chain = [] ∧ s.tried = -1) := by
  intro s
  have hs : BInv s := binv_foldl (binv_init L W C x0) evs
  have hlen := hs.len
  have hne := hs.bnd
  have h1 : s.tried = -1 → s.chain = [] := by
    intro h; rw [h] at hlen
    exact List.eq_nil_of_length_eq_zero (by omega)
  refine ⟨h1, fun h => ⟨hlen, by omega⟩, hs.pdc, fun h => ?_⟩
  have := (hs.learn h).1
  exact ⟨h1 this, this⟩

/-- the learning period is discarded: while fewer than `L` proposals have been accepted nothing
    is recorded and the counters stay at their start values -/
theorem learning_discarded (L W C : Nat) (x0 : Entry) (evs : List Event)
    (h : learning (reach (init L W C x0) evs) = true) :
    (reach (init L W C x0) evs).chain = [] ∧ (reach (init L W C x0) evs).accepted = -1 := by
  have hs : BInv (reach (init L W C x0) evs) := binv_foldl (binv_init L W C x0) evs
  exact ⟨((chain_counts L W C x0 evs).2.2.2 h).1, (hs.learn h).2⟩

/-- after the learning period every iteration records exactly the proposals it tried: a
    rejection repeats the current state, an acceptance at index `u` repeats it `u` times and then
    records the new state; `tried` grows by the number of tried proposals, `accepted` by one per
    acceptance -/
theorem step_records (s : State) (ev : Event) (hl : learning s = false) (ht : 1 ≤ s.tried) :
    (step s ev).tried = s.tried + Event.nTried ev ∧
    (match ev with
     | .accept u e => (step s ev).chain = s.chain ++ List.replicate u s.cur ++ [e] ∧
                      (step s ev).accepted = s.accepted + 1 ∧ (step s ev).cur = e
     | .reject n => (step s ev).chain = s.chain ++ List.replicate (max n 1) s.cur ∧
                    (step s ev).accepted = s.accepted ∧ (step s ev).cur = s.cur) := by
  cases ev with
  | accept u e =>
    obtain ⟨a, b, c, d, f⟩ := record_accept_chain u e hl
    rw [step_of_chain_started a (by omega)]
    exact ⟨c, b, d, f⟩
  | reject n =>
    obtain ⟨a, b, c, d, f⟩ := record_reject_chain n hl
    rw [step_of_chain_started a (by omega)]
    exact ⟨c, b, d, f⟩

/-- the first iteration after learning records its outcome (one entry per tried proposal) and
    then holds the state it reached one extra time; `tried` is the number of proposals tried,
    whether one or several, and the extra entry counts as accepted -/
theorem first_chain_sample (s : State) (ev : Event) (hl : learning s = false) (ht : s.tried = -1)
    (hc : s.chain = []) :
    let s' := step s ev
    s'.tried = Event.nTried ev ∧
    s'.chain = (match ev with
                | .accept u e => List.replicate u s.cur ++ [e, e]
                | .reject n => List.replicate (max n 1 + 1) s.cur) ∧
    s'.accepted = s.accepted + (match ev with | .accept _ _ => 2 | .reject _ => 1) := by
  intro s'
  cases ev with
  | accept u e =>
    obtain ⟨a, b, c, d, f⟩ := record_accept_chain u e hl
    obtain ⟨-, a', b', c', -⟩ := step_of_chain_first a (by omega) (by rw [c, ht]; omega)
    refine ⟨?_, ?_, ?_⟩
    · show (step s _).tried = ((u + 1 : Nat) : Int)
      rw [b', c, ht]; omega
    · show (step s _).chain = _
      rw [a', b, f, hc]; simp
    · show (step s _).accepted = _
      rw [c', d]; simp only; omega
  | reject n =>
    obtain ⟨a, b, c, d, f⟩ := record_reject_chain n hl
    obtain ⟨-, a', b', c', -⟩ := step_of_chain_first a (by omega) (by rw [c, ht]; omega)
    refine ⟨?_, ?_, ?_⟩
    · show (step s _).tried = ((max n 1 : Nat) : Int)
      rw [b', c, ht]; omega
    · show (step s _).chain = _
      rw [a', b, f, hc]; simp [List.replicate_succ']
    · show (step s _).accepted = _
      rw [c', d]

/-- once the chain has started, `tried` is the total number of proposals tried by the iterations
    processed since the learning period ended (`s`: any state at the end of learning) -/
theorem tried_counts_proposals (s : State) (ev : Event) (evs : List Event)
    (hl : learning s = false) (ht : s.tried = -1) (hc : s.chain = []) :
    (reach s (ev :: evs)).tried = ((((ev :: evs).map Event.nTried).sum : Nat) : Int) := by
  have hmap : ∀ l : List Event, l.map Event.nTried = l.map tries :=
    fun l => List.map_congr_left fun e _ => by cases e <;> rfl
  have h1 := (first_chain_sample s ev hl ht hc).1
  have hpos : 1 ≤ Event.nTried ev := by
    have := tries_pos ev
    cases ev <;> exact this
  show (evs.foldl step (step s ev)).tried = _
  rw [foldl_tried_started evs (step s ev) (step_not_learning ev hl) (by rw [h1]; omega), h1,
    List.map_cons, List.sum_cons, hmap evs]
  omega

/-- every recorded entry is the start state or an accepted proposal, with the log-likelihood that
    came with it -/
theorem entries_are_states (L W C : Nat) (x0 : Entry) (evs : List Event) :
    ∀ e ∈ (reach (init L W C x0) evs).chain,
      e = x0 ∨ ∃ u, Event.accept u e ∈ evs := by
  have h0 : EInv (fun e => e = x0 ∨ ∃ u, Event.accept u e ∈ evs) (init L W C x0) :=
    ⟨Or.inl rfl, fun e he => by simp [init] at he⟩
  exact (einv_foldl h0 evs fun u e h => Or.inr ⟨u, h⟩).2

/-- a double-couple-constrained run records only double-couples -/
theorem dc_run_all_dc (L W C : Nat) (x0 : Entry) (evs : List Event) (h0 : x0.isDc = true)
    (hev : ∀ u e, Event.accept u e ∈ evs → e.isDc = true) :
    ∀ e ∈ (reach (init L W C x0) evs).chain, e.isDc = true := by
  have hi : EInv (fun e => e.isDc = true) (init L W C x0) :=
    ⟨h0, fun e he => by simp [init] at he⟩
  exact (einv_foldl hi evs hev).2

/-- the run stops as soon as the number of tried proposals reaches the chain length, and not
    before -/
theorem run_stops (s : State) (evs : List Event) (h : finished s = true) : run s evs = s := by
  cases evs with
  | nil => rfl
  | cons ev evs => simp only [run, h, if_true]

theorem run_continues (s : State) (ev : Event) (evs : List Event) (h : finished s = false) :
    run s (ev :: evs) = run (step s ev) evs := by
  simp only [run, h]; rfl

/-- with single-try events the finished run has tried exactly `chain length` proposals
    (chain length ≥ 1), hence `chain length + 1` entries -/
theorem single_try_final_count (L W C : Nat) (hC : 1 ≤ C) (x0 : Entry) (evs : List Event)
    (hs : ∀ ev ∈ evs, Event.nTried ev = 1)
    (hf : finished (run (init L W C x0) evs) = true) :
    (run (init L W C x0) evs).tried = C ∧ (run (init L W C x0) evs).chain.length = C + 1 := by
  have h := run_multi C 1 evs (init L W C x0) (binv_init L W C x0) rfl
    (by show (-1 : Int) < _; omega)
    (fun ev he => by have := hs ev he; cases ev <;> exact Nat.le_of_eq this) hf
  omega

/-- a finished run has tried at least `chain length` proposals and overshoots by less than the
    largest number of proposals tried in one iteration; the chain holds one entry per tried
    proposal plus the extra hold.
    The chain length must be at least 1 (as in `single_try_final_count`): with `C = 0` the first
    chain iteration still runs and leaves `tried = nTried ev`, e.g. `L = 0`, `C = 0`, `m = 1`,
    `evs = [reject 1]` gives `tried = 1 = C + m`.  `multi_try_final_count_any` covers `C = 0`. -/
theorem multi_try_final_count (L W C m : Nat) (hC : 1 ≤ C) (x0 : Entry) (evs : List Event)
    (hm : ∀ ev ∈ evs, Event.nTried ev ≤ m)
    (hf : finished (run (init L W C x0) evs) = true) :
    (C : Int) ≤ (run (init L W C x0) evs).tried ∧ (run (init L W C x0) evs).tried < C + m ∧
    ((run (init L W C x0) evs).chain.length : Int) = (run (init L W C x0) evs).tried + 1 := by
  have h := run_multi C m evs (init L W C x0) (binv_init L W C x0) rfl
    (by show (-1 : Int) < _; omega)
    (fun ev he => by have := hm ev he; cases ev <;> exact this) hf
  omega

/-- the same for every chain length, including 0 (where the bound is `1 + m`) -/
theorem multi_try_final_count_any (L W C m : Nat) (x0 : Entry) (evs : List Event)
    (hm : ∀ ev ∈ evs, Event.nTried ev ≤ m)
    (hf : finished (run (init L W C x0) evs) = true) :
    (C : Int) ≤ (run (init L W C x0) evs).tried ∧
    (run (init L W C x0) evs).tried < max C 1 + m ∧
    ((run (init L W C x0) evs).chain.length : Int) = (run (init L W C x0) evs).tried + 1 := by
  have h := run_multi C m evs (init L W C x0) (binv_init L W C x0) rfl
    (by show (-1 : Int) < _; omega)
    (fun ev he => by have := hm ev he; cases ev <;> exact this) hf
  omega

/-- the hypothesis `1 ≤ C` of `multi_try_final_count` cannot be dropped -/
theorem multi_try_final_count_zero_length :
    finished (run (init 0 0 0 ⟨0, 0, false⟩) [.reject 1]) = true ∧
    (run (init 0 0 0 ⟨0, 0, false⟩) [.reject 1]).tried = 1 := by
  decide

end MTfitVerif.C07
