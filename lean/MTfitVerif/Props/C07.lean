import MTfitVerif.Model.Chain
import MTfitVerif.Real.ChainLemmas
/-
  C07 — a Markov-chain run returns a correctly counted chain (bookkeeping half; the statement
  that the recorded chain samples the posterior follows from C05 ∧ C06 by the Metropolis–Hastings
  argument and is tested statistically, not proved).
  Property theorems only; helper lemmas live in `Real/ChainLemmas.lean`.
-/
namespace MTfitVerif.C07
open MTfitVerif Chain

/-- states reachable by feeding any list of events to `step` -/
def reach (s₀ : State) (evs : List Event) : State := evs.foldl step s₀

/-- number of proposals an event tries -/
def Event.nTried : Event → Nat
  | .accept u _ => u + 1
  | .reject n => max n 1

/-- **Counting invariant**, for every history: nothing is recorded during the learning period;
    afterwards the chain holds one entry per tried proposal plus the first state held one extra
    time; `tried` never decreases below −1; the double-couple count is the number of
    double-couple entries. -/
theorem chain_counts (L W C : Nat) (x0 : Entry) (evs : List Event) :
    let s := reach (init L W C x0) evs
    (s.tried = -1 → s.chain = []) ∧
    (0 ≤ s.tried → (s.chain.length : Int) = s.tried + 1 ∧ 1 ≤ s.tried) ∧
    s.pDc = (s.chain.filter (·.isDc)).length ∧
    (learning s = true → s.chain = [] ∧ s.tried = -1) := by
  intro s
  have hs : BInv s := binv_foldl (binv_init L W C x0) evs
  have hlen := hs.len
  have hne := hs.ne0
  have h1 : s.tried = -1 → s.chain = [] := by
    intro h; rw [h] at hlen
    exact List.eq_nil_of_length_eq_zero (by omega)
  refine ⟨h1, fun h => ⟨hlen, by omega⟩, hs.pdc, fun h => ?_⟩
  have := (hs.learn h).1
  exact ⟨h1 this, this⟩

/-- the learning period is discarded: while fewer than `L` proposals have been accepted nothing
    is recorded and the counters stay at their start values -/
theorem learning_discarded (L W C : Nat) (x0 : Entry) (evs : List Event)
    (h : learning (reach (init L W C x0) evs) = true) :
    (reach (init L W C x0) evs).chain = [] ∧ (reach (init L W C x0) evs).accepted = -1 := by
  have hs : BInv (reach (init L W C x0) evs) := binv_foldl (binv_init L W C x0) evs
  exact ⟨((chain_counts L W C x0 evs).2.2.2 h).1, (hs.learn h).2⟩

/-- after the learning period every iteration records exactly the proposals it tried: a
    rejection repeats the current state, an acceptance at index `u` repeats it `u` times and then
    records the new state; `tried` grows by the number of tried proposals, `accepted` by one per
    acceptance -/
theorem step_records (s : State) (ev : Event) (hl : learning s = false) (ht : 1 ≤ s.tried) :
    (step s ev).tried = s.tried + Event.nTried ev ∧
    (match ev with
     | .accept u e => (step s ev).chain = s.chain ++ List.replicate u s.cur ++ [e] ∧
                      (step s ev).accepted = s.accepted + 1 ∧ (step s ev).cur = e
     | .reject n => (step s ev).chain = s.chain ++ List.replicate (max n 1) s.cur ∧
                    (step s ev).accepted = s.accepted ∧ (step s ev).cur = s.cur) := by
  cases ev with
  | accept u e =>
    obtain ⟨a, b, c, d, f⟩ := record_accept_chain u e hl
    rw [step_of_chain_tried_ne_zero a (by rw [c]; omega)]
    exact ⟨c, b, d, f⟩
  | reject n =>
    obtain ⟨a, b, c, d, f⟩ := record_reject_chain n hl
    rw [step_of_chain_tried_ne_zero a (by rw [c]; omega)]
    exact ⟨c, b, d, f⟩

/-- the first iteration after learning records its outcome and then holds the resulting state one
    extra time: the chain starts with that state twice, `tried` is the number tried, and the
    extra entry counts as accepted -/
theorem first_chain_sample (s : State) (ev : Event) (hl : learning s = false) (ht : s.tried = -1)
    (hc : s.chain = []) (hsingle : Event.nTried ev = 1) :
    let s' := step s ev
    s'.tried = 1 ∧ s'.chain = [s'.cur, s'.cur] ∧
    s'.accepted = s.accepted + (match ev with | .accept _ _ => 2 | .reject _ => 1) := by
  intro s'
  cases ev with
  | accept u e =>
    have hu : u = 0 := by simpa [Event.nTried] using hsingle
    subst hu
    obtain ⟨a, b, c, d, f⟩ := record_accept_chain 0 e hl
    obtain ⟨a', b', c', d'⟩ := step_of_chain_tried_zero a (by rw [c, ht]; rfl)
    refine ⟨b', ?_, ?_⟩
    · show (step s _).chain = [(step s _).cur, (step s _).cur]
      rw [a', d', b, f, hc]; rfl
    · show (step s _).accepted = _
      rw [c', d]; simp only; omega
  | reject n =>
    have hn : max n 1 = 1 := hsingle
    obtain ⟨a, b, c, d, f⟩ := record_reject_chain n hl
    obtain ⟨a', b', c', d'⟩ := step_of_chain_tried_zero a (by rw [c, ht, hn]; rfl)
    refine ⟨b', ?_, ?_⟩
    · show (step s _).chain = [(step s _).cur, (step s _).cur]
      rw [a', d', b, f, hc, hn]; rfl
    · show (step s _).accepted = _
      rw [c', d]

/-- every recorded entry is the start state or an accepted proposal, with the log-likelihood that
    came with it -/
theorem entries_are_states (L W C : Nat) (x0 : Entry) (evs : List Event) :
    ∀ e ∈ (reach (init L W C x0) evs).chain,
      e = x0 ∨ ∃ u, Event.accept u e ∈ evs := by
  have h0 : EInv (fun e => e = x0 ∨ ∃ u, Event.accept u e ∈ evs) (init L W C x0) :=
    ⟨Or.inl rfl, fun e he => by simp [init] at he⟩
  exact (einv_foldl h0 evs fun u e h => Or.inr ⟨u, h⟩).2

/-- a double-couple-constrained run records only double-couples -/
theorem dc_run_all_dc (L W C : Nat) (x0 : Entry) (evs : List Event) (h0 : x0.isDc = true)
    (hev : ∀ u e, Event.accept u e ∈ evs → e.isDc = true) :
    ∀ e ∈ (reach (init L W C x0) evs).chain, e.isDc = true := by
  have hi : EInv (fun e => e.isDc = true) (init L W C x0) :=
    ⟨h0, fun e he => by simp [init] at he⟩
  exact (einv_foldl hi evs hev).2

/-- the run stops as soon as the number of tried proposals reaches the chain length, and not
    before -/
theorem run_stops (s : State) (evs : List Event) (h : finished s = true) : run s evs = s := by
  cases evs with
  | nil => rfl
  | cons ev evs => simp only [run, h, if_true]

theorem run_continues (s : State) (ev : Event) (evs : List Event) (h : finished s = false) :
    run s (ev :: evs) = run (step s ev) evs := by
  simp only [run, h]; rfl

/-- with single-try events the finished run has tried exactly `chain length` proposals
    (chain length ≥ 1), hence `chain length + 1` entries -/
theorem single_try_final_count (L W C : Nat) (hC : 1 ≤ C) (x0 : Entry) (evs : List Event)
    (hs : ∀ ev ∈ evs, Event.nTried ev = 1)
    (hf : finished (run (init L W C x0) evs) = true) :
    (run (init L W C x0) evs).tried = C ∧ (run (init L W C x0) evs).chain.length = C + 1 := by
  refine run_single C hC evs (init L W C x0) (binv_init L W C x0) rfl ?_ ?_ hf
  · show (-1 : Int) ≤ C; omega
  · intro ev he
    have := hs ev he
    cases ev <;> exact this

end MTfitVerif.C07
