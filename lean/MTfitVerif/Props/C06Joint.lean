import MTfitVerif.Model.Proposal
import MTfitVerif.Real.Inst
import MTfitVerif.Real.ProposalLemmas
import MTfitVerif.Real.ProposalLawLemmas
import MTfitVerif.Real.ProposalJointLemmas
import MTfitVerif.Props.C06Law
/-
  C06 (joint law) — "a whole proposal has the PRODUCT law the acceptance rule assumes".

  `Props/C06Law.lean` gives the law of ONE redraw loop.  `shiftSample` (and `jumpDraw`) run several
  redraw loops and a single draw one after the other on ONE stream of i.i.d. draws, each stage
  handing the rest of the stream to the next.  This file proves that the stages are independent:

  * `firstOk_then`         — key lemma: "loop returns a value in `B`, and the REST of the stream
                              satisfies `G`" has probability
                              `∑_{k<n} ν(Sᶜ)^k · ν(S ∩ cand⁻¹ B) · P_{n-1-k}(G)`;
  * `firstOk_then_mono`, `firstOk_then_limit` — monotone in `n`; limit `ν(S ∩ cand⁻¹ B)/ν(S) · lim P_n(G)`;
  * `two_loops_finite`, `two_loops_limit`     — two consecutive loops: double sum, product limit;
  * `shiftSample_law_finite`, `shiftSample_law_limit_general` — the whole proposal, any draw law `ν`;
  * `shiftSample_law_limit`, `shiftSample_law_limit_dc` — standard-normal draws: the limit is the
    product of the truncated-normal integrals and the law of the strike draw;
  * `shiftSample_law_limit_transPdf`, `shiftSample_law_limit_dc_transPdf` — the same limit written as
    `(∫_{Bγ×Bδ×Bh×Bσ} transPdf dc w x ξ dx) · ν(strike⁻¹ Bκ)`;
  * `jumpDraw_law_limit`   — the dimension-balancing draw of the trans-dimensional sampler.

  The stream is a point `ω` of `Fin n → ℝ` under `Measure.pi (fun _ => ν)`, handed to the model as
  `List.ofFn ω` (as in `C06Law`).  No measurability of `B` or of the `G`-events is needed; only the
  in-range sets `S` have to be measurable.  In `ℝ≥0∞` the limit statements also hold when `ν S = 0`
  (both sides are `0`), so the hypotheses `0 < ν Sᵢ` of the informal statement are not needed.
-/
namespace MTfitVerif.C06
open MTfitVerif Acceptance Proposal MeasureTheory ProbabilityTheory Filter Topology
open scoped ENNReal

/-! ### the key lemma: a loop, then anything on the rest of the stream -/

/-- **Key lemma.**  With `n` independent draws of law `ν`: the probability that the redraw loop
    returns a value in `B` AND the rest of the stream satisfies `G` is
    `∑_{k<n} ν(Sᶜ)^k · ν(S ∩ cand⁻¹ B) · P_{n-1-k}(G)` — the first in-range draw is at position `k`
    and the remaining `n-1-k` draws are again i.i.d. and independent of what came before.
    (`B` and the `G`-events need not be measurable.) -/
theorem firstOk_then (ν : Measure ℝ) [IsProbabilityMeasure ν] (ok : ℝ → Bool) (m s : ℝ)
    (hS : MeasurableSet {z : ℝ | ok (m + s * z) = true}) (B : Set ℝ) (G : List ℝ → Prop) (n : ℕ) :
    Measure.pi (fun _ : Fin n => ν)
        {ω : Fin n → ℝ | ∃ v rest, firstOk ok m s (List.ofFn ω) = some (v, rest) ∧ v ∈ B ∧ G rest} =
      ∑ k ∈ Finset.range n, ν {z : ℝ | ok (m + s * z) = true}ᶜ ^ k *
        ν ({z : ℝ | ok (m + s * z) = true} ∩ (fun z => m + s * z) ⁻¹' B) *
        Measure.pi (fun _ : Fin (n - 1 - k) => ν) {ω : Fin (n - 1 - k) → ℝ | G (List.ofFn ω)} :=
  restSet_loopG_measure ν ok m s hS B G n

/-- the probability of "loop, then `G`" is monotone in the stream length if that of `G` is -/
theorem firstOk_then_mono (ν : Measure ℝ) [IsProbabilityMeasure ν] (ok : ℝ → Bool) (m s : ℝ)
    (hS : MeasurableSet {z : ℝ | ok (m + s * z) = true}) (B : Set ℝ) (G : List ℝ → Prop)
    (hmono : Monotone fun n : ℕ =>
      Measure.pi (fun _ : Fin n => ν) {ω : Fin n → ℝ | G (List.ofFn ω)}) :
    Monotone fun n : ℕ => Measure.pi (fun _ : Fin n => ν)
        {ω : Fin n → ℝ | ∃ v rest, firstOk ok m s (List.ofFn ω) = some (v, rest) ∧ v ∈ B ∧ G rest} := by
  have h : StageLaw ν G (fun n => Measure.pi (fun _ : Fin n => ν) (restSet G n))
      (⨆ n, Measure.pi (fun _ : Fin n => ν) (restSet G n)) :=
    ⟨fun _ => rfl, hmono, tendsto_atTop_iSup hmono⟩
  have h2 := h.loop ok m s hS B
  intro a b hab
  show Measure.pi (fun _ : Fin a => ν) (restSet (loopG ok m s B G) a) ≤
    Measure.pi (fun _ : Fin b => ν) (restSet (loopG ok m s B G) b)
  rw [h2.1 a, h2.1 b]
  exact h2.2.1 hab

/-- **Limit of the key lemma.**  If the probability of `G` is monotone in the stream length with
    limit `L`, the probability of "loop returns a value in `B`, then `G`" tends to
    `ν(S ∩ cand⁻¹ B) / ν(S) · L`: the conditional law of the loop times the law of the rest. -/
theorem firstOk_then_limit (ν : Measure ℝ) [IsProbabilityMeasure ν] (ok : ℝ → Bool) (m s : ℝ)
    (hS : MeasurableSet {z : ℝ | ok (m + s * z) = true}) (B : Set ℝ) (G : List ℝ → Prop)
    (hmono : Monotone fun n : ℕ =>
      Measure.pi (fun _ : Fin n => ν) {ω : Fin n → ℝ | G (List.ofFn ω)}) {L : ℝ≥0∞}
    (hL : Tendsto (fun n : ℕ =>
      Measure.pi (fun _ : Fin n => ν) {ω : Fin n → ℝ | G (List.ofFn ω)}) atTop (𝓝 L)) :
    Tendsto (fun n : ℕ => Measure.pi (fun _ : Fin n => ν)
        {ω : Fin n → ℝ | ∃ v rest, firstOk ok m s (List.ofFn ω) = some (v, rest) ∧ v ∈ B ∧ G rest})
      atTop (𝓝 (ν ({z : ℝ | ok (m + s * z) = true} ∩ (fun z => m + s * z) ⁻¹' B) /
          ν {z : ℝ | ok (m + s * z) = true} * L)) := by
  have h : StageLaw ν G (fun n => Measure.pi (fun _ : Fin n => ν) (restSet G n)) L :=
    ⟨fun _ => rfl, hmono, hL⟩
  have h2 := h.loop ok m s hS B
  refine h2.2.2.congr (fun n => ?_)
  exact (h2.1 n).symm

/-! ### two consecutive loops -/

/-- **Two loops, finite stream.**  The joint law of two consecutive redraw loops on one stream of
    `n` i.i.d. draws: the first succeeds at position `k`, the second at position `j` of the
    remaining `n-1-k` draws. -/
theorem two_loops_finite (ν : Measure ℝ) [IsProbabilityMeasure ν] (ok₁ ok₂ : ℝ → Bool)
    (m₁ s₁ m₂ s₂ : ℝ) (hS₁ : MeasurableSet {z : ℝ | ok₁ (m₁ + s₁ * z) = true})
    (hS₂ : MeasurableSet {z : ℝ | ok₂ (m₂ + s₂ * z) = true}) (B₁ B₂ : Set ℝ) (n : ℕ) :
    Measure.pi (fun _ : Fin n => ν)
        {ω : Fin n → ℝ | ∃ v₁ r₁, firstOk ok₁ m₁ s₁ (List.ofFn ω) = some (v₁, r₁) ∧ v₁ ∈ B₁ ∧
          ∃ v₂ r₂, firstOk ok₂ m₂ s₂ r₁ = some (v₂, r₂) ∧ v₂ ∈ B₂} =
      ∑ k ∈ Finset.range n, ν {z : ℝ | ok₁ (m₁ + s₁ * z) = true}ᶜ ^ k *
        ν ({z : ℝ | ok₁ (m₁ + s₁ * z) = true} ∩ (fun z => m₁ + s₁ * z) ⁻¹' B₁) *
        ((∑ j ∈ Finset.range (n - 1 - k), ν {z : ℝ | ok₂ (m₂ + s₂ * z) = true}ᶜ ^ j) *
          ν ({z : ℝ | ok₂ (m₂ + s₂ * z) = true} ∩ (fun z => m₂ + s₂ * z) ⁻¹' B₂)) := by
  rw [firstOk_then ν ok₁ m₁ s₁ hS₁ B₁
    (fun l => ∃ v₂ r₂, firstOk ok₂ m₂ s₂ l = some (v₂, r₂) ∧ v₂ ∈ B₂) n]
  refine Finset.sum_congr rfl (fun k _ => ?_)
  congr 1
  exact hit_measure ν ok₂ m₂ s₂ hS₂ (n - 1 - k) B₂

/-- **Two loops, limit: independence.**  As the stream gets longer the joint probability tends to
    the PRODUCT of the two conditional laws `ν(Sᵢ ∩ candᵢ⁻¹ Bᵢ) / ν(Sᵢ)` — although both loops read
    the same stream.  (Holds in `ℝ≥0∞` also for `ν Sᵢ = 0`, where both sides vanish.) -/
theorem two_loops_limit (ν : Measure ℝ) [IsProbabilityMeasure ν] (ok₁ ok₂ : ℝ → Bool)
    (m₁ s₁ m₂ s₂ : ℝ) (hS₁ : MeasurableSet {z : ℝ | ok₁ (m₁ + s₁ * z) = true})
    (hS₂ : MeasurableSet {z : ℝ | ok₂ (m₂ + s₂ * z) = true}) (B₁ B₂ : Set ℝ) :
    Tendsto (fun n : ℕ => Measure.pi (fun _ : Fin n => ν)
        {ω : Fin n → ℝ | ∃ v₁ r₁, firstOk ok₁ m₁ s₁ (List.ofFn ω) = some (v₁, r₁) ∧ v₁ ∈ B₁ ∧
          ∃ v₂ r₂, firstOk ok₂ m₂ s₂ r₁ = some (v₂, r₂) ∧ v₂ ∈ B₂}) atTop
      (𝓝 (ν ({z : ℝ | ok₁ (m₁ + s₁ * z) = true} ∩ (fun z => m₁ + s₁ * z) ⁻¹' B₁) /
            ν {z : ℝ | ok₁ (m₁ + s₁ * z) = true} *
          (ν ({z : ℝ | ok₂ (m₂ + s₂ * z) = true} ∩ (fun z => m₂ + s₂ * z) ⁻¹' B₂) /
            ν {z : ℝ | ok₂ (m₂ + s₂ * z) = true}))) := by
  have h := ((stageLaw_true ν).loop ok₂ m₂ s₂ hS₂ B₂).loop ok₁ m₁ s₁ hS₁ B₁
  rw [mul_one] at h
  refine h.2.2.congr (fun n => ?_)
  rw [← h.1 n]
  congr 1
  ext ω
  simp [restSet, loopG]

/-! ### the whole proposal `shiftSample`, any draw law -/

/-- the strike draw of `shiftSample` -/
noncomputable def strike (w : Widths ℝ) (ξ : Tape ℝ) : ℝ → ℝ :=
  fun z => Convert.mod2pi (ξ.kappa + w.kappa * z)

/-- the event "the proposal succeeds and its components are in `Bγ, Bδ, Bκ, Bh, Bσ`" -/
def shiftEvent (dc : Bool) (w : Widths ℝ) (ξ : Tape ℝ) (Bγ Bδ Bκ Bh Bσ : Set ℝ) (n : ℕ) :
    Set (Fin n → ℝ) :=
  {ω | ∃ x rest, shiftSample dc w ξ (List.ofFn ω) = some (x, rest) ∧
    x.gamma ∈ Bγ ∧ x.delta ∈ Bδ ∧ x.kappa ∈ Bκ ∧ x.h ∈ Bh ∧ x.sigma ∈ Bσ}

section general
variable (ν : Measure ℝ) [IsProbabilityMeasure ν] (w : Widths ℝ) (ξ : Tape ℝ)

/-- the five stages of `shiftSample false` composed -/
theorem shiftSample_stageLaw
    (hγ : MeasurableSet (okSet (absLe (Real.pi / 6)) ξ.gamma w.gamma))
    (hδ : MeasurableSet (okSet (absLe (Real.pi / 2)) ξ.delta w.delta))
    (hh : MeasurableSet (okSet inUnit ξ.h w.h))
    (hσ : MeasurableSet (okSet (absLe (Real.pi / 2)) ξ.sigma w.sigma))
    (Bγ Bδ Bκ Bh Bσ : Set ℝ) :
    StageLaw ν
      (loopG (absLe (Real.pi / 6)) ξ.gamma w.gamma Bγ
        (loopG (absLe (Real.pi / 2)) ξ.delta w.delta Bδ
          (drawG (strike w ξ) Bκ
            (loopG inUnit ξ.h w.h Bh
              (loopG (absLe (Real.pi / 2)) ξ.sigma w.sigma Bσ (fun _ => True))))))
      (conv (ν (okSet (absLe (Real.pi / 6)) ξ.gamma w.gamma)ᶜ)
          (ν (okSet (absLe (Real.pi / 6)) ξ.gamma w.gamma ∩ (fun z => ξ.gamma + w.gamma * z) ⁻¹' Bγ))
        (conv (ν (okSet (absLe (Real.pi / 2)) ξ.delta w.delta)ᶜ)
            (ν (okSet (absLe (Real.pi / 2)) ξ.delta w.delta ∩ (fun z => ξ.delta + w.delta * z) ⁻¹' Bδ))
          (shiftSeq (ν (strike w ξ ⁻¹' Bκ))
            (conv (ν (okSet inUnit ξ.h w.h)ᶜ)
                (ν (okSet inUnit ξ.h w.h ∩ (fun z => ξ.h + w.h * z) ⁻¹' Bh))
              (conv (ν (okSet (absLe (Real.pi / 2)) ξ.sigma w.sigma)ᶜ)
                  (ν (okSet (absLe (Real.pi / 2)) ξ.sigma w.sigma ∩
                    (fun z => ξ.sigma + w.sigma * z) ⁻¹' Bσ))
                (fun _ => 1))))))
      (ν (okSet (absLe (Real.pi / 6)) ξ.gamma w.gamma ∩ (fun z => ξ.gamma + w.gamma * z) ⁻¹' Bγ) /
          ν (okSet (absLe (Real.pi / 6)) ξ.gamma w.gamma) *
        (ν (okSet (absLe (Real.pi / 2)) ξ.delta w.delta ∩ (fun z => ξ.delta + w.delta * z) ⁻¹' Bδ) /
            ν (okSet (absLe (Real.pi / 2)) ξ.delta w.delta) *
          (ν (strike w ξ ⁻¹' Bκ) *
            (ν (okSet inUnit ξ.h w.h ∩ (fun z => ξ.h + w.h * z) ⁻¹' Bh) / ν (okSet inUnit ξ.h w.h) *
              (ν (okSet (absLe (Real.pi / 2)) ξ.sigma w.sigma ∩
                  (fun z => ξ.sigma + w.sigma * z) ⁻¹' Bσ) /
                ν (okSet (absLe (Real.pi / 2)) ξ.sigma w.sigma) * 1))))) :=
  (((((stageLaw_true ν).loop _ _ _ hσ Bσ).loop _ _ _ hh Bh).draw (strike w ξ) Bκ).loop _ _ _ hδ Bδ).loop
    _ _ _ hγ Bγ

theorem shiftEvent_false_eq (Bγ Bδ Bκ Bh Bσ : Set ℝ) (n : ℕ) :
    shiftEvent false w ξ Bγ Bδ Bκ Bh Bσ n =
      restSet (loopG (absLe (Real.pi / 6)) ξ.gamma w.gamma Bγ
        (loopG (absLe (Real.pi / 2)) ξ.delta w.delta Bδ
          (drawG (strike w ξ) Bκ
            (loopG inUnit ξ.h w.h Bh
              (loopG (absLe (Real.pi / 2)) ξ.sigma w.sigma Bσ (fun _ => True)))))) n := by
  ext ω
  exact shiftSample_false_iff w ξ Bγ Bδ Bκ Bh Bσ (List.ofFn ω)

theorem shiftEvent_true_eq (Bκ Bh Bσ : Set ℝ) (n : ℕ) :
    shiftEvent true w ξ {0} {0} Bκ Bh Bσ n =
      restSet (drawG (strike w ξ) Bκ
        (loopG inUnit ξ.h w.h Bh
          (loopG (absLe (Real.pi / 2)) ξ.sigma w.sigma Bσ (fun _ => True)))) n := by
  ext ω
  exact shiftSample_true_iff w ξ Bκ Bh Bσ (List.ofFn ω)

/-- **Finite-stream law of a whole proposal** (`dc = false`), any draw law `ν`: the nested
    "first success at position `k`" sums (`conv q p a n = ∑_{k<n} q^k · p · a (n-1-k)`,
    `shiftSeq c a (n+1) = c · a n`, `shiftSeq c a 0 = 0`). -/
theorem shiftSample_law_finite
    (hγ : MeasurableSet (okSet (absLe (Real.pi / 6)) ξ.gamma w.gamma))
    (hδ : MeasurableSet (okSet (absLe (Real.pi / 2)) ξ.delta w.delta))
    (hh : MeasurableSet (okSet inUnit ξ.h w.h))
    (hσ : MeasurableSet (okSet (absLe (Real.pi / 2)) ξ.sigma w.sigma))
    (Bγ Bδ Bκ Bh Bσ : Set ℝ) (n : ℕ) :
    Measure.pi (fun _ : Fin n => ν) (shiftEvent false w ξ Bγ Bδ Bκ Bh Bσ n) =
      conv (ν (okSet (absLe (Real.pi / 6)) ξ.gamma w.gamma)ᶜ)
          (ν (okSet (absLe (Real.pi / 6)) ξ.gamma w.gamma ∩ (fun z => ξ.gamma + w.gamma * z) ⁻¹' Bγ))
        (conv (ν (okSet (absLe (Real.pi / 2)) ξ.delta w.delta)ᶜ)
            (ν (okSet (absLe (Real.pi / 2)) ξ.delta w.delta ∩ (fun z => ξ.delta + w.delta * z) ⁻¹' Bδ))
          (shiftSeq (ν (strike w ξ ⁻¹' Bκ))
            (conv (ν (okSet inUnit ξ.h w.h)ᶜ)
                (ν (okSet inUnit ξ.h w.h ∩ (fun z => ξ.h + w.h * z) ⁻¹' Bh))
              (conv (ν (okSet (absLe (Real.pi / 2)) ξ.sigma w.sigma)ᶜ)
                  (ν (okSet (absLe (Real.pi / 2)) ξ.sigma w.sigma ∩
                    (fun z => ξ.sigma + w.sigma * z) ⁻¹' Bσ))
                (fun _ => 1))))) n := by
  rw [shiftEvent_false_eq]
  exact (shiftSample_stageLaw ν w ξ hγ hδ hh hσ Bγ Bδ Bκ Bh Bσ).1 n

/-- **Limit law of a whole proposal** (`dc = false`), any draw law `ν`: the product of the four
    conditional laws of the loops and the law of the strike draw — the five stages are independent. -/
theorem shiftSample_law_limit_general
    (hγ : MeasurableSet (okSet (absLe (Real.pi / 6)) ξ.gamma w.gamma))
    (hδ : MeasurableSet (okSet (absLe (Real.pi / 2)) ξ.delta w.delta))
    (hh : MeasurableSet (okSet inUnit ξ.h w.h))
    (hσ : MeasurableSet (okSet (absLe (Real.pi / 2)) ξ.sigma w.sigma))
    (Bγ Bδ Bκ Bh Bσ : Set ℝ) :
    Tendsto (fun n : ℕ => Measure.pi (fun _ : Fin n => ν) (shiftEvent false w ξ Bγ Bδ Bκ Bh Bσ n))
      atTop
      (𝓝 (ν (okSet (absLe (Real.pi / 6)) ξ.gamma w.gamma ∩ (fun z => ξ.gamma + w.gamma * z) ⁻¹' Bγ) /
          ν (okSet (absLe (Real.pi / 6)) ξ.gamma w.gamma) *
        (ν (okSet (absLe (Real.pi / 2)) ξ.delta w.delta ∩ (fun z => ξ.delta + w.delta * z) ⁻¹' Bδ) /
            ν (okSet (absLe (Real.pi / 2)) ξ.delta w.delta)) *
        ν (strike w ξ ⁻¹' Bκ) *
        (ν (okSet inUnit ξ.h w.h ∩ (fun z => ξ.h + w.h * z) ⁻¹' Bh) / ν (okSet inUnit ξ.h w.h)) *
        (ν (okSet (absLe (Real.pi / 2)) ξ.sigma w.sigma ∩ (fun z => ξ.sigma + w.sigma * z) ⁻¹' Bσ) /
            ν (okSet (absLe (Real.pi / 2)) ξ.sigma w.sigma)))) := by
  have h := shiftSample_stageLaw ν w ξ hγ hδ hh hσ Bγ Bδ Bκ Bh Bσ
  have e := h.2.2.congr (fun n => (h.1 n).symm)
  simp only [← shiftEvent_false_eq] at e
  convert e using 2
  ring

/-- **Limit law of a double-couple proposal** (`dc = true`: `γ = δ = 0`, no draws consumed for
    them), any draw law `ν`. -/
theorem shiftSample_law_limit_general_dc
    (hh : MeasurableSet (okSet inUnit ξ.h w.h))
    (hσ : MeasurableSet (okSet (absLe (Real.pi / 2)) ξ.sigma w.sigma))
    (Bκ Bh Bσ : Set ℝ) :
    Tendsto (fun n : ℕ => Measure.pi (fun _ : Fin n => ν) (shiftEvent true w ξ {0} {0} Bκ Bh Bσ n))
      atTop
      (𝓝 (ν (strike w ξ ⁻¹' Bκ) *
        (ν (okSet inUnit ξ.h w.h ∩ (fun z => ξ.h + w.h * z) ⁻¹' Bh) / ν (okSet inUnit ξ.h w.h)) *
        (ν (okSet (absLe (Real.pi / 2)) ξ.sigma w.sigma ∩ (fun z => ξ.sigma + w.sigma * z) ⁻¹' Bσ) /
            ν (okSet (absLe (Real.pi / 2)) ξ.sigma w.sigma)))) := by
  have h := (((stageLaw_true ν).loop _ _ _ hσ Bσ).loop _ _ _ hh Bh).draw (strike w ξ) Bκ
  have e := h.2.2.congr (fun n => (h.1 n).symm)
  simp only [← shiftEvent_true_eq] at e
  convert e using 2
  ring

end general

/-! ### standard-normal draws: the product of truncated Gaussians of the acceptance rule -/

section gaussian
variable (w : Widths ℝ) (ξ : Tape ℝ)

theorem absLe_iff_Icc (b x : ℝ) : absLe b x = true ↔ -b ≤ x ∧ x ≤ b := by
  rw [absLe_iff, abs_le]

/-- **The proposal has the product law the acceptance rule assumes** (`dc = false`).  For
    standard-normal draws, positive widths and measurable sets inside the ranges, the probability
    that `shiftSample false w ξ` returns a sample with `γ ∈ Bγ, δ ∈ Bδ, κ ∈ Bκ, h ∈ Bh, σ ∈ Bσ`
    tends to the product of the four truncated-normal integrals (the factors of `transPdf`) and the
    law of the strike draw. -/
theorem shiftSample_law_limit (hwγ : 0 < w.gamma) (hwδ : 0 < w.delta) (hwh : 0 < w.h)
    (hwσ : 0 < w.sigma) {Bγ Bδ Bh Bσ : Set ℝ} (Bκ : Set ℝ)
    (hBγ : MeasurableSet Bγ) (hγsub : Bγ ⊆ Set.Icc (-(Real.pi / 6)) (Real.pi / 6))
    (hBδ : MeasurableSet Bδ) (hδsub : Bδ ⊆ Set.Icc (-(Real.pi / 2)) (Real.pi / 2))
    (hBh : MeasurableSet Bh) (hhsub : Bh ⊆ Set.Icc 0 1)
    (hBσ : MeasurableSet Bσ) (hσsub : Bσ ⊆ Set.Icc (-(Real.pi / 2)) (Real.pi / 2)) :
    Tendsto (fun n : ℕ => Measure.pi (fun _ : Fin n => gaussianReal 0 1)
        {ω : Fin n → ℝ | ∃ x rest, shiftSample false w ξ (List.ofFn ω) = some (x, rest) ∧
          x.gamma ∈ Bγ ∧ x.delta ∈ Bδ ∧ x.kappa ∈ Bκ ∧ x.h ∈ Bh ∧ x.sigma ∈ Bσ}) atTop
      (𝓝 (ENNReal.ofReal (∫ x in Bγ, truncTerm x ξ.gamma w.gamma (-(Real.pi / 6)) (Real.pi / 6)) *
        ENNReal.ofReal (∫ x in Bδ, truncTerm x ξ.delta w.delta (-(Real.pi / 2)) (Real.pi / 2)) *
        gaussianReal 0 1 ((fun z => Convert.mod2pi (ξ.kappa + w.kappa * z)) ⁻¹' Bκ) *
        ENNReal.ofReal (∫ x in Bh, truncTerm x ξ.h w.h 0 1) *
        ENNReal.ofReal (∫ x in Bσ, truncTerm x ξ.sigma w.sigma (-(Real.pi / 2)) (Real.pi / 2)))) := by
  have hp6 : -(Real.pi / 6) < Real.pi / 6 := by linarith [Real.pi_pos]
  have hp2 : -(Real.pi / 2) < Real.pi / 2 := by linarith [Real.pi_pos]
  have h := shiftSample_law_limit_general (gaussianReal 0 1) w ξ
    (okSet_measurable' _ _ _ _ _ (absLe_iff_Icc _))
    (okSet_measurable' _ _ _ _ _ (absLe_iff_Icc _))
    (okSet_measurable' _ _ _ _ _ inUnit_iff)
    (okSet_measurable' _ _ _ _ _ (absLe_iff_Icc _)) Bγ Bδ Bκ Bh Bσ
  rw [gaussian_ratio_eq_truncTerm _ ξ.gamma hwγ hp6 (absLe_iff_Icc _) hBγ hγsub,
    gaussian_ratio_eq_truncTerm _ ξ.delta hwδ hp2 (absLe_iff_Icc _) hBδ hδsub,
    gaussian_ratio_eq_truncTerm _ ξ.h hwh one_pos inUnit_iff hBh hhsub,
    gaussian_ratio_eq_truncTerm _ ξ.sigma hwσ hp2 (absLe_iff_Icc _) hBσ hσsub] at h
  exact h

/-- **Double-couple proposal** (`dc = true`): `γ = δ = 0` and the strike, `h`, `σ` stages are
    independent with the truncated-normal laws of `transPdf true`. -/
theorem shiftSample_law_limit_dc (hwh : 0 < w.h) (hwσ : 0 < w.sigma) {Bh Bσ : Set ℝ} (Bκ : Set ℝ)
    (hBh : MeasurableSet Bh) (hhsub : Bh ⊆ Set.Icc 0 1)
    (hBσ : MeasurableSet Bσ) (hσsub : Bσ ⊆ Set.Icc (-(Real.pi / 2)) (Real.pi / 2)) :
    Tendsto (fun n : ℕ => Measure.pi (fun _ : Fin n => gaussianReal 0 1)
        {ω : Fin n → ℝ | ∃ x rest, shiftSample true w ξ (List.ofFn ω) = some (x, rest) ∧
          x.gamma = 0 ∧ x.delta = 0 ∧ x.kappa ∈ Bκ ∧ x.h ∈ Bh ∧ x.sigma ∈ Bσ}) atTop
      (𝓝 (gaussianReal 0 1 ((fun z => Convert.mod2pi (ξ.kappa + w.kappa * z)) ⁻¹' Bκ) *
        ENNReal.ofReal (∫ x in Bh, truncTerm x ξ.h w.h 0 1) *
        ENNReal.ofReal (∫ x in Bσ, truncTerm x ξ.sigma w.sigma (-(Real.pi / 2)) (Real.pi / 2)))) := by
  have hp2 : -(Real.pi / 2) < Real.pi / 2 := by linarith [Real.pi_pos]
  have h := shiftSample_law_limit_general_dc (gaussianReal 0 1) w ξ
    (okSet_measurable' _ _ _ _ _ inUnit_iff)
    (okSet_measurable' _ _ _ _ _ (absLe_iff_Icc _)) Bκ Bh Bσ
  rw [gaussian_ratio_eq_truncTerm _ ξ.h hwh one_pos inUnit_iff hBh hhsub,
    gaussian_ratio_eq_truncTerm _ ξ.sigma hwσ hp2 (absLe_iff_Icc _) hBσ hσsub] at h
  exact h

/-- **The same limit as the integral of `transPdf`** (`dc = false`): the proposal density over
    `(γ, δ, h, σ)` is `transPdf false w · ξ` (the strike enters through its own wrapped-normal
    kernel): the limit is `(∫_{Bγ×Bδ×Bh×Bσ} transPdf false w x ξ dx) · ν(strike⁻¹ Bκ)`.
    (`tapeOf p κ₀` puts `p = (γ, δ, h, σ)` and an arbitrary strike `κ₀` into a `Tape`; `transPdf`
    does not look at the strike.) -/
theorem shiftSample_law_limit_transPdf (hwγ : 0 < w.gamma) (hwδ : 0 < w.delta) (hwh : 0 < w.h)
    (hwσ : 0 < w.sigma) {Bγ Bδ Bh Bσ : Set ℝ} (Bκ : Set ℝ) (κ₀ : ℝ)
    (hBγ : MeasurableSet Bγ) (hγsub : Bγ ⊆ Set.Icc (-(Real.pi / 6)) (Real.pi / 6))
    (hBδ : MeasurableSet Bδ) (hδsub : Bδ ⊆ Set.Icc (-(Real.pi / 2)) (Real.pi / 2))
    (hBh : MeasurableSet Bh) (hhsub : Bh ⊆ Set.Icc 0 1)
    (hBσ : MeasurableSet Bσ) (hσsub : Bσ ⊆ Set.Icc (-(Real.pi / 2)) (Real.pi / 2)) :
    Tendsto (fun n : ℕ => Measure.pi (fun _ : Fin n => gaussianReal 0 1)
        {ω : Fin n → ℝ | ∃ x rest, shiftSample false w ξ (List.ofFn ω) = some (x, rest) ∧
          x.gamma ∈ Bγ ∧ x.delta ∈ Bδ ∧ x.kappa ∈ Bκ ∧ x.h ∈ Bh ∧ x.sigma ∈ Bσ}) atTop
      (𝓝 (ENNReal.ofReal (∫ p in Bγ ×ˢ (Bδ ×ˢ (Bh ×ˢ Bσ)), transPdf false w (tapeOf p κ₀) ξ) *
        gaussianReal 0 1 ((fun z => Convert.mod2pi (ξ.kappa + w.kappa * z)) ⁻¹' Bκ))) := by
  have hp6 : -(Real.pi / 6) < Real.pi / 6 := by linarith [Real.pi_pos]
  have hp2 : -(Real.pi / 2) < Real.pi / 2 := by linarith [Real.pi_pos]
  have h := shiftSample_law_limit w ξ hwγ hwδ hwh hwσ Bκ hBγ hγsub hBδ hδsub hBh hhsub hBσ hσsub
  have n1 := integral_truncTerm_nonneg ξ.gamma hwγ hp6 Bγ
  have n2 := integral_truncTerm_nonneg ξ.delta hwδ hp2 Bδ
  have n3 := integral_truncTerm_nonneg ξ.h hwh one_pos Bh
  rw [integral_transPdf_false, ENNReal.ofReal_mul n1, ENNReal.ofReal_mul n2, ENNReal.ofReal_mul n3]
  convert h using 2
  ring

/-- **The same limit as the integral of `transPdf`** (`dc = true`). -/
theorem shiftSample_law_limit_dc_transPdf (hwh : 0 < w.h) (hwσ : 0 < w.sigma) {Bh Bσ : Set ℝ}
    (Bκ : Set ℝ) (κ₀ : ℝ)
    (hBh : MeasurableSet Bh) (hhsub : Bh ⊆ Set.Icc 0 1)
    (hBσ : MeasurableSet Bσ) (hσsub : Bσ ⊆ Set.Icc (-(Real.pi / 2)) (Real.pi / 2)) :
    Tendsto (fun n : ℕ => Measure.pi (fun _ : Fin n => gaussianReal 0 1)
        {ω : Fin n → ℝ | ∃ x rest, shiftSample true w ξ (List.ofFn ω) = some (x, rest) ∧
          x.gamma = 0 ∧ x.delta = 0 ∧ x.kappa ∈ Bκ ∧ x.h ∈ Bh ∧ x.sigma ∈ Bσ}) atTop
      (𝓝 (ENNReal.ofReal (∫ p in Bh ×ˢ Bσ,
            transPdf true w { gamma := 0, delta := 0, kappa := κ₀, h := p.1, sigma := p.2 } ξ) *
        gaussianReal 0 1 ((fun z => Convert.mod2pi (ξ.kappa + w.kappa * z)) ⁻¹' Bκ))) := by
  have hp2 : -(Real.pi / 2) < Real.pi / 2 := by linarith [Real.pi_pos]
  have h := shiftSample_law_limit_dc w ξ hwh hwσ Bκ hBh hhsub hBσ hσsub
  have n3 := integral_truncTerm_nonneg ξ.h hwh one_pos Bh
  rw [integral_transPdf_true, ENNReal.ofReal_mul n3]
  convert h using 2
  ring

/-- **The proposal terminates almost surely in the limit**: with the full ranges the limit law of
    `shiftSample_law_limit` has total mass one (so it is a probability law). -/
theorem shiftSample_law_limit_univ (hwγ : 0 < w.gamma) (hwδ : 0 < w.delta) (hwh : 0 < w.h)
    (hwσ : 0 < w.sigma) :
    Tendsto (fun n : ℕ => Measure.pi (fun _ : Fin n => gaussianReal 0 1)
        {ω : Fin n → ℝ | ∃ x rest, shiftSample false w ξ (List.ofFn ω) = some (x, rest) ∧
          x.gamma ∈ Set.Icc (-(Real.pi / 6)) (Real.pi / 6) ∧
          x.delta ∈ Set.Icc (-(Real.pi / 2)) (Real.pi / 2) ∧ x.kappa ∈ Set.univ ∧
          x.h ∈ Set.Icc 0 1 ∧ x.sigma ∈ Set.Icc (-(Real.pi / 2)) (Real.pi / 2)}) atTop (𝓝 1) := by
  have hp6 : -(Real.pi / 6) < Real.pi / 6 := by linarith [Real.pi_pos]
  have hp2 : -(Real.pi / 2) < Real.pi / 2 := by linarith [Real.pi_pos]
  have h := shiftSample_law_limit w ξ hwγ hwδ hwh hwσ Set.univ
    measurableSet_Icc subset_rfl measurableSet_Icc subset_rfl measurableSet_Icc subset_rfl
    measurableSet_Icc subset_rfl
  rw [truncTerm_integral_eq_one ξ.gamma hwγ hp6, truncTerm_integral_eq_one ξ.delta hwδ hp2,
    truncTerm_integral_eq_one ξ.h hwh one_pos, truncTerm_integral_eq_one ξ.sigma hwσ hp2,
    Set.preimage_univ, measure_univ] at h
  simpa using h

/-- **The dimension-balancing draw `jump_params()`**: the two loops of `jumpDraw` are independent
    truncated normals about zero (the density `jumpQ` of the trans-dimensional acceptance is the
    product of the two `gaussPdf`s over `propNorm`). -/
theorem jumpDraw_law_limit (hg : 0 < w.gammaDc) (hd : 0 < w.deltaDc) {Bg Bd : Set ℝ}
    (hBg : MeasurableSet Bg) (hgsub : Bg ⊆ Set.Icc (-(Real.pi / 6)) (Real.pi / 6))
    (hBd : MeasurableSet Bd) (hdsub : Bd ⊆ Set.Icc (-(Real.pi / 2)) (Real.pi / 2)) :
    Tendsto (fun n : ℕ => Measure.pi (fun _ : Fin n => gaussianReal 0 1)
        {ω : Fin n → ℝ | ∃ g d rest, jumpDraw w (List.ofFn ω) = some (g, d, rest) ∧ g ∈ Bg ∧ d ∈ Bd})
      atTop
      (𝓝 (ENNReal.ofReal (∫ x in Bg, truncTerm x 0 w.gammaDc (-(Real.pi / 6)) (Real.pi / 6)) *
        ENNReal.ofReal (∫ x in Bd, truncTerm x 0 w.deltaDc (-(Real.pi / 2)) (Real.pi / 2)))) := by
  have hp6 : -(Real.pi / 6) < Real.pi / 6 := by linarith [Real.pi_pos]
  have hp2 : -(Real.pi / 2) < Real.pi / 2 := by linarith [Real.pi_pos]
  have h := ((stageLaw_true (gaussianReal 0 1)).loop (absLe (Real.pi / 2)) 0 w.deltaDc
    (okSet_measurable' _ _ _ _ _ (absLe_iff_Icc _)) Bd).loop (absLe (Real.pi / 6)) 0 w.gammaDc
    (okSet_measurable' _ _ _ _ _ (absLe_iff_Icc _)) Bg
  rw [mul_one, gaussian_ratio_eq_truncTerm _ 0 hg hp6 (absLe_iff_Icc _) hBg hgsub,
    gaussian_ratio_eq_truncTerm _ 0 hd hp2 (absLe_iff_Icc _) hBd hdsub] at h
  refine h.2.2.congr (fun n => ?_)
  rw [← h.1 n]
  congr 1
  ext ω
  exact (jumpDraw_iff w Bg Bd (List.ofFn ω)).symm

end gaussian

/-! ### instantiation of the hypotheses -/

/-- `firstOk_then` with standard-normal draws, the `γ` range, and "the rest is non-empty" -/
example (m s : ℝ) (n : ℕ) (B : Set ℝ) :
    Measure.pi (fun _ : Fin n => gaussianReal 0 1)
        {ω : Fin n → ℝ | ∃ v rest, firstOk (absLe (Real.pi / 6)) m s (List.ofFn ω) = some (v, rest) ∧
          v ∈ B ∧ rest ≠ []} =
      ∑ k ∈ Finset.range n, gaussianReal 0 1 {z : ℝ | absLe (Real.pi / 6) (m + s * z) = true}ᶜ ^ k *
        gaussianReal 0 1 ({z : ℝ | absLe (Real.pi / 6) (m + s * z) = true} ∩
          (fun z => m + s * z) ⁻¹' B) *
        Measure.pi (fun _ : Fin (n - 1 - k) => gaussianReal 0 1)
          {ω : Fin (n - 1 - k) → ℝ | List.ofFn ω ≠ []} :=
  firstOk_then (gaussianReal 0 1) (absLe (Real.pi / 6)) m s
    (okSet_measurable' _ m s _ _ (absLe_iff_Icc _)) B (fun l => l ≠ []) n

/-- `two_loops_limit` with standard-normal draws and the two ranges of `jumpDraw` -/
example (s₁ s₂ : ℝ) (B₁ B₂ : Set ℝ) :
    Tendsto (fun n : ℕ => Measure.pi (fun _ : Fin n => gaussianReal 0 1)
        {ω : Fin n → ℝ | ∃ v₁ r₁, firstOk (absLe (Real.pi / 6)) 0 s₁ (List.ofFn ω) = some (v₁, r₁) ∧
          v₁ ∈ B₁ ∧ ∃ v₂ r₂, firstOk (absLe (Real.pi / 2)) 0 s₂ r₁ = some (v₂, r₂) ∧ v₂ ∈ B₂}) atTop
      (𝓝 (gaussianReal 0 1 ({z : ℝ | absLe (Real.pi / 6) (0 + s₁ * z) = true} ∩
              (fun z => 0 + s₁ * z) ⁻¹' B₁) /
            gaussianReal 0 1 {z : ℝ | absLe (Real.pi / 6) (0 + s₁ * z) = true} *
          (gaussianReal 0 1 ({z : ℝ | absLe (Real.pi / 2) (0 + s₂ * z) = true} ∩
              (fun z => 0 + s₂ * z) ⁻¹' B₂) /
            gaussianReal 0 1 {z : ℝ | absLe (Real.pi / 2) (0 + s₂ * z) = true}))) :=
  two_loops_limit (gaussianReal 0 1) _ _ 0 s₁ 0 s₂
    (okSet_measurable' _ 0 s₁ _ _ (absLe_iff_Icc _))
    (okSet_measurable' _ 0 s₂ _ _ (absLe_iff_Icc _)) B₁ B₂

/-- the hypotheses of `shiftSample_law_limit` are satisfiable: unit-ish widths, the state at the
    origin, upper halves of the ranges -/
example :
    Tendsto (fun n : ℕ => Measure.pi (fun _ : Fin n => gaussianReal 0 1)
        {ω : Fin n → ℝ | ∃ x rest,
          shiftSample false
            ({ gamma := 0.2, delta := 0.3, kappa := 0.5, h := 0.1, sigma := 0.4,
                gammaDc := 1, deltaDc := 1, propNorm := 1 } : Widths ℝ)
            ({ gamma := 0.1, delta := 0, kappa := 1, h := 0.5, sigma := 0 } : Tape ℝ) (List.ofFn ω) =
              some (x, rest) ∧
          x.gamma ∈ Set.Icc 0 (Real.pi / 6) ∧ x.delta ∈ Set.Icc 0 (Real.pi / 2) ∧
          x.kappa ∈ Set.Icc 0 Real.pi ∧ x.h ∈ Set.Icc 0 (1 / 2) ∧
          x.sigma ∈ Set.Icc 0 (Real.pi / 2)}) atTop
      (𝓝 (ENNReal.ofReal (∫ x in Set.Icc 0 (Real.pi / 6),
            truncTerm x 0.1 0.2 (-(Real.pi / 6)) (Real.pi / 6)) *
        ENNReal.ofReal (∫ x in Set.Icc 0 (Real.pi / 2),
            truncTerm x 0 0.3 (-(Real.pi / 2)) (Real.pi / 2)) *
        gaussianReal 0 1 ((fun z => Convert.mod2pi (1 + 0.5 * z)) ⁻¹' Set.Icc 0 Real.pi) *
        ENNReal.ofReal (∫ x in Set.Icc 0 (1 / 2), truncTerm x 0.5 0.1 0 1) *
        ENNReal.ofReal (∫ x in Set.Icc 0 (Real.pi / 2),
            truncTerm x 0 0.4 (-(Real.pi / 2)) (Real.pi / 2)))) :=
  shiftSample_law_limit _ _ (by norm_num) (by norm_num) (by norm_num) (by norm_num) _
    measurableSet_Icc (Set.Icc_subset_Icc (by linarith [Real.pi_pos]) le_rfl)
    measurableSet_Icc (Set.Icc_subset_Icc (by linarith [Real.pi_pos]) le_rfl)
    measurableSet_Icc (Set.Icc_subset_Icc le_rfl (by norm_num))
    measurableSet_Icc (Set.Icc_subset_Icc (by linarith [Real.pi_pos]) le_rfl)

end MTfitVerif.C06
