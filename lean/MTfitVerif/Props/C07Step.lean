import MTfitVerif.Props.C05
import MTfitVerif.Props.C07Stationary
import MTfitVerif.Real.StepLawLemmas
/-
  C07 (step half) — ONE STEP OF THE SAMPLER'S MODEL has the law of the Metropolis–Hastings kernel.

  `C06Joint` gives the law of a proposal (`shiftSample` on a stream of i.i.d. standard-normal draws),
  `C07Stationary` shows that the kernel `mhK` / `mhKernel` built from the proposal density `transPdf`
  and the acceptance `acceptMH` leaves the posterior invariant.  This file is the link: the step

      draw a proposal with `shiftSample` from the stream, draw a uniform `u`,
      accept iff `decide u (acceptMH …)`, otherwise keep the current state

  (`stepNext`) has — as the stream gets longer — exactly the law `mhK … (coordOf ξ) ·`.

  * `accept_decision_law`     — `P(decide U a) = a` for `U` uniform on `[0,1)`;
  * `mh_step_law_finite`      — stream of `n` draws: the law of the next state is
                                `c_n ∫_B a dΛ + (1 − c_n ∫ a dΛ) 1_B(ξ)` with `Λ = propLaw` the product
                                of truncated normals / wrapped normal and `c_n = cSeq n` the probability
                                that the proposal is made within `n` draws (EXACT, for every `n`);
  * `mh_step_law_limit`       — `n → ∞` (`c_n → 1`);
  * `mh_step_law_limit_transPdf` — the limit written with the density `transPdf` w.r.t. Lebesgue on
                                the source domain × the strike law; it IS `mhK` of `C07Stationary`;
  * `mh_step_law_limit_mhK`   — if the strike law has a density `k ξ.κ ·` w.r.t. `μκ`, the limit is
                                `mhK (refMeasure dc μκ) q a (coordOf ξ) B` with literally the `q`, `a` of
                                `mh_chain_posterior_stationary_coord`;
  * `mh_step_law_limit_mhKernel` — the same with the Mathlib `Kernel` `mhKernel`;
  * `mh_step_law_limit_box`   — the box form (`B = Bγ × Bδ × Bκ × Bh × Bσ`).

  All statements are for every measurable set `B` of coordinates (not only boxes), for `dc = false`
  and `dc = true` alike, and the acceptance may depend on the strike (no hypothesis `hκ` is needed).
  Sample space: `n` i.i.d. standard-normal draws and one independent uniform draw,
  `(Measure.pi fun _ : Fin n => gaussianReal 0 1).prod unif`.
-/
namespace MTfitVerif.C07
open MTfitVerif LogP Acceptance Proposal Stationary StepLaw
open MeasureTheory ProbabilityTheory Filter Topology
open scoped ENNReal

/-! ## 1. the accept decision -/

/-- **The accept decision has the acceptance probability**: for `U` uniform on `[0,1)` (`unif`) and
    `a ≤ 1`, `P(decide U a = true) = a`.  (For `a < 0` both sides are `0`, so `0 ≤ a` is not needed.) -/
theorem accept_decision_law {a : ℝ} (h1 : a ≤ 1) :
    unif {u : ℝ | Acceptance.decide u a = true} = ENNReal.ofReal a := by
  have : {u : ℝ | Acceptance.decide u a = true} = {u : ℝ | u < a} := by
    ext u; simp [Acceptance.decide]
  rw [this, unif_lt h1]

/-! ## 2. one step of the model -/
section Step
variable (prior : Bool → Tape ℝ → ℝ) (dc : Bool) (w : Widths ℝ) (L : Tape ℝ → LogP ℝ)

/-- one step of the single-event sampler from the state `ξ`: proposal from the stream `zs`, uniform
    draw `u`, accept iff `decide u (acceptMH …)`; on rejection (and when the stream is exhausted)
    the current state is kept -/
noncomputable def stepNext (ξ : Tape ℝ) (zs : List ℝ) (u : ℝ) : Tape ℝ :=
  match shiftSample dc w ξ zs with
  | some (x, _) => if Acceptance.decide u (acceptMH prior dc w ξ x (L ξ) (L x)) then x else ξ
  | none => ξ

theorem stepNext_some {ξ : Tape ℝ} {zs : List ℝ} {x : Tape ℝ} {rest : List ℝ}
    (h : shiftSample dc w ξ zs = some (x, rest)) (u : ℝ) :
    stepNext prior dc w L ξ zs u = if u < acceptMH prior dc w ξ x (L ξ) (L x) then x else ξ := by
  simp [stepNext, h, Acceptance.decide]

theorem stepNext_none {ξ : Tape ℝ} {zs : List ℝ} (h : shiftSample dc w ξ zs = none) (u : ℝ) :
    stepNext prior dc w L ξ zs u = ξ := by
  simp [stepNext, h]

/-- the acceptance probability of the proposal with coordinates `y` from the state `ξ` is a
    measurable function of `y` -/
theorem measurable_acc_coord (ξ : Tape ℝ) (hprior : Measurable fun x : Coord => prior dc (toTape x))
    (hL : Measurable fun x : Coord => toProb (L (toTape x))) :
    Measurable fun y : Coord => acc prior dc w L ξ (toTape y) := by
  have h := measurable_acceptMH prior dc w L toTape (measurable_transPdf_coord dc w) hprior hL
  exact h.comp (f := fun y : Coord => (coordOf ξ, y)) (measurable_const.prodMk measurable_id)

/-- **One step, stream of `n` draws (exact).**  With `n` i.i.d. standard-normal draws and one
    independent uniform draw, the next state lies in the measurable set `B` of coordinates with
    probability `c_n ∫_B a dΛ + (1 − c_n ∫ a dΛ) · 1_B(ξ)`, where `Λ = propLaw dc w ξ` is the product of
    the truncated-normal laws (point masses at 0 for `dc`) and the wrapped-normal strike law,
    `a = acceptMH` and `c_n = cSeq dc w ξ n` is the probability that the proposal is made within `n`
    draws. -/
theorem mh_step_law_finite (hp : ∀ b t, 0 ≤ prior b t) (hw : C05.WidthsPos w)
    (hprior : Measurable fun x : Coord => prior dc (toTape x))
    (hL : Measurable fun x : Coord => toProb (L (toTape x))) (ξ : Tape ℝ) (n : ℕ)
    {B : Set Coord} (hB : MeasurableSet B) :
    ((Measure.pi fun _ : Fin n => gaussianReal 0 1).prod unif)
        {p | coordOf (stepNext prior dc w L ξ (List.ofFn p.1) p.2) ∈ B} =
      cSeq dc w ξ n * ∫⁻ y in B, ENNReal.ofReal (acc prior dc w L ξ (toTape y)) ∂(propLaw dc w ξ) +
        (1 - cSeq dc w ξ n * ∫⁻ y, ENNReal.ofReal (acc prior dc w L ξ (toTape y)) ∂(propLaw dc w ξ)) *
          B.indicator 1 (coordOf ξ) := by
  obtain ⟨hg, hd, _, hh, hs, _, _, _⟩ := id hw
  have hlaw := propOpt_law dc w ξ ⟨hg, hd, hh, hs⟩ n
  have h := step_law (Measure.pi fun _ : Fin n => gaussianReal 0 1) (propOpt dc w ξ n) (coordOf ξ)
    (a := fun y => acc prior dc w L ξ (toTape y)) (measurable_acc_coord prior dc w L ξ hprior hL)
    (fun y => (acc_mem_Icc prior dc w L hp hw ξ (toTape y)).2)
    (cSeq dc w ξ n • propLaw dc w ξ) (fun A hA => (hlaw A hA).1)
    (fun A hA => by rw [(hlaw A hA).2, Measure.smul_apply, smul_eq_mul])
    (fun ω u => coordOf (stepNext prior dc w L ξ (List.ofFn ω) u))
    (fun ω θ hθ u => by
      obtain ⟨x, rest, hx, rfl⟩ := propOpt_eq_some.mp hθ
      rw [stepNext_some prior dc w L hx u, apply_ite coordOf]
      rfl)
    (fun ω hω u => by
      have : shiftSample dc w ξ (List.ofFn ω) = none := by
        simpa [propOpt] using hω
      rw [stepNext_none prior dc w L this u])
    hB
  rw [h, Measure.restrict_smul, lintegral_smul_measure, lintegral_smul_measure, smul_eq_mul,
    smul_eq_mul]

/-- **One step has the Metropolis–Hastings law** (limit of a long stream).  As `n → ∞` the
    probability that the next state lies in `B` tends to
    `∫_B a dΛ + (1 − ∫ a dΛ) · 1_B(ξ)`: move to a proposal drawn from `Λ = propLaw dc w ξ` with
    probability `a = acceptMH`, otherwise stay. -/
theorem mh_step_law_limit (hp : ∀ b t, 0 ≤ prior b t) (hw : C05.WidthsPos w)
    (hprior : Measurable fun x : Coord => prior dc (toTape x))
    (hL : Measurable fun x : Coord => toProb (L (toTape x))) (ξ : Tape ℝ)
    {B : Set Coord} (hB : MeasurableSet B) :
    Tendsto (fun n : ℕ => ((Measure.pi fun _ : Fin n => gaussianReal 0 1).prod unif)
        {p | coordOf (stepNext prior dc w L ξ (List.ofFn p.1) p.2) ∈ B}) atTop
      (𝓝 (∫⁻ y in B, ENNReal.ofReal (acc prior dc w L ξ (toTape y)) ∂(propLaw dc w ξ) +
        (1 - ∫⁻ y, ENNReal.ofReal (acc prior dc w L ξ (toTape y)) ∂(propLaw dc w ξ)) *
          B.indicator 1 (coordOf ξ))) := by
  obtain ⟨hg, hd, _, hh, hs, _, _, _⟩ := id hw
  have hΛ := propLaw_prob dc w ξ ⟨hg, hd, hh, hs⟩
  have hc := cSeq_tendsto dc w ξ ⟨hg, hd, hh, hs⟩
  simp_rw [mh_step_law_finite prior dc w L hp hw hprior hL ξ _ hB]
  -- the integrals are at most 1
  have hle : ∀ s : Set Coord,
      ∫⁻ y in s, ENNReal.ofReal (acc prior dc w L ξ (toTape y)) ∂(propLaw dc w ξ) ≤ 1 := by
    intro s
    calc ∫⁻ y in s, ENNReal.ofReal (acc prior dc w L ξ (toTape y)) ∂(propLaw dc w ξ)
        ≤ ∫⁻ _y in s, 1 ∂(propLaw dc w ξ) := lintegral_mono fun y =>
          ENNReal.ofReal_le_one.mpr (acc_mem_Icc prior dc w L hp hw ξ (toTape y)).2
      _ ≤ 1 := by
          rw [lintegral_one, Measure.restrict_apply_univ]
          exact prob_le_one
  have hI1 := ne_top_of_le_ne_top ENNReal.one_ne_top (hle B)
  have hI2 : ∫⁻ y, ENNReal.ofReal (acc prior dc w L ξ (toTape y)) ∂(propLaw dc w ξ) ≠ ⊤ := by
    have := hle Set.univ
    rw [Measure.restrict_univ] at this
    exact ne_top_of_le_ne_top ENNReal.one_ne_top this
  have t1 := ENNReal.Tendsto.mul_const hc (Or.inr hI1)
  have t2 := ENNReal.Tendsto.mul_const hc (Or.inr hI2)
  rw [one_mul] at t1 t2
  have t3 := ENNReal.Tendsto.sub (tendsto_const_nhds (x := (1 : ℝ≥0∞))) t2 (Or.inl ENNReal.one_ne_top)
  have hind : B.indicator (1 : Coord → ℝ≥0∞) (coordOf ξ) ≠ ⊤ := by
    by_cases h : coordOf ξ ∈ B <;> simp [h]
  exact t1.add (ENNReal.Tendsto.mul_const t3 (Or.inr hind))

/-- **The limit is the kernel `mhK` for the density `transPdf`.**  W.r.t. the reference measure
    "Lebesgue on the source domain (point masses at 0 on the lune coordinates for `dc`) × the law of
    the strike draw" the proposal has the density `transPdf dc w · ξ`, so the limit law of one step is
    `∫_B transPdf · acceptMH + (1 − ∫ transPdf · acceptMH) · 1_B(ξ)`, i.e. the move-or-stay kernel
    `mhK` of `C07Stationary` at the current state. -/
theorem mh_step_law_limit_transPdf (hp : ∀ b t, 0 ≤ prior b t) (hw : C05.WidthsPos w)
    (hprior : Measurable fun x : Coord => prior dc (toTape x))
    (hL : Measurable fun x : Coord => toProb (L (toTape x))) (ξ : Tape ℝ)
    {B : Set Coord} (hB : MeasurableSet B) :
    Tendsto (fun n : ℕ => ((Measure.pi fun _ : Fin n => gaussianReal 0 1).prod unif)
        {p | coordOf (stepNext prior dc w L ξ (List.ofFn p.1) p.2) ∈ B}) atTop
      (𝓝 (mhK (refMeasure dc (strikeLaw w ξ))
        (fun x y => ENNReal.ofReal (propPdf dc w (toTape x) (toTape y)))
        (fun x y => ENNReal.ofReal (acc prior dc w L (toTape x) (toTape y))) (coordOf ξ) B)) := by
  obtain ⟨hg, hd, _, hh, hs, _, _, _⟩ := id hw
  have h := mh_step_law_limit prior dc w L hp hw hprior hL ξ hB
  have hT : Measurable fun y : Coord => ENNReal.ofReal (transPdf dc w (toTape y) ξ) :=
    ((measurable_transPdf_coord dc w).comp (f := fun y : Coord => (coordOf ξ, y))
      (measurable_const.prodMk measurable_id)).ennreal_ofReal
  have ha := (measurable_acc_coord prior dc w L ξ hprior hL).ennreal_ofReal
  rw [propLaw_eq_withDensity_self dc w ξ ⟨hg, hd, hh, hs⟩,
    setLIntegral_withDensity_eq_setLIntegral_mul _ hT ha hB,
    lintegral_withDensity_eq_lintegral_mul _ hT ha] at h
  exact h

/-- **Identification with the kernel of `mh_chain_posterior_stationary_coord`.**  If the law of the
    strike draw from `ξ` has the density `k ξ.κ ·` w.r.t. a reference measure `μκ` on strike (the
    wrapped normal of the code w.r.t. Lebesgue on `[0, 2π)`), the limit law of one step from `ξ` is
    `mhK (refMeasure dc μκ) q a (coordOf ξ) B` with literally the proposal density `q` and acceptance
    `a` of `mh_chain_posterior_stationary_coord` — the kernel shown there to leave the posterior
    invariant. -/
theorem mh_step_law_limit_mhK (hp : ∀ b t, 0 ≤ prior b t) (hw : C05.WidthsPos w)
    (hprior : Measurable fun x : Coord => prior dc (toTape x))
    (hL : Measurable fun x : Coord => toProb (L (toTape x))) (ξ : Tape ℝ)
    (μκ : Measure ℝ) [SFinite μκ] (k : ℝ → ℝ → ℝ) (hkm : Measurable (Function.uncurry k))
    (hstrike : strikeLaw w ξ = μκ.withDensity fun b => ENNReal.ofReal (k ξ.kappa b))
    {B : Set Coord} (hB : MeasurableSet B) :
    Tendsto (fun n : ℕ => ((Measure.pi fun _ : Fin n => gaussianReal 0 1).prod unif)
        {p | coordOf (stepNext prior dc w L ξ (List.ofFn p.1) p.2) ∈ B}) atTop
      (𝓝 (mhK (refMeasure dc μκ)
        (fun x y => ENNReal.ofReal (propPdf dc w (toTape x) (toTape y) * k x.2.2.1 y.2.2.1))
        (fun x y => ENNReal.ofReal (acc prior dc w L (toTape x) (toTape y))) (coordOf ξ) B)) := by
  obtain ⟨hg, hd, _, hh, hs, _, _, _⟩ := id hw
  have h := mh_step_law_limit prior dc w L hp hw hprior hL ξ hB
  have hk : Measurable fun b : ℝ => ENNReal.ofReal (k ξ.kappa b) :=
    (Measurable.of_uncurry_left hkm).ennreal_ofReal
  have hT : Measurable fun y : Coord => ENNReal.ofReal (transPdf dc w (toTape y) ξ) :=
    ((measurable_transPdf_coord dc w).comp (f := fun y : Coord => (coordOf ξ, y))
      (measurable_const.prodMk measurable_id)).ennreal_ofReal
  have hTk : Measurable fun y : Coord =>
      ENNReal.ofReal (transPdf dc w (toTape y) ξ) * ENNReal.ofReal (k ξ.kappa y.2.2.1) :=
    hT.mul (hk.comp (f := fun y : Coord => y.2.2.1) (by fun_prop))
  have ha := (measurable_acc_coord prior dc w L ξ hprior hL).ennreal_ofReal
  rw [propLaw_eq_withDensity dc w ξ ⟨hg, hd, hh, hs⟩ μκ hk hstrike,
    setLIntegral_withDensity_eq_setLIntegral_mul _ hTk ha hB,
    lintegral_withDensity_eq_lintegral_mul _ hTk ha] at h
  have e : ∀ y : Coord, ENNReal.ofReal (propPdf dc w (toTape (coordOf ξ)) (toTape y) *
      k (coordOf ξ).2.2.1 y.2.2.1) =
      ENNReal.ofReal (transPdf dc w (toTape y) ξ) * ENNReal.ofReal (k ξ.kappa y.2.2.1) := fun y =>
    ENNReal.ofReal_mul (propPdf_pos dc w hw _ _).le
  unfold mhK
  simp only [e]
  exact h

/-- the same with the Mathlib `Kernel` `mhKernel` of `mh_chain_posterior_stationary_coord` (whose
    invariant measure is the posterior): the limit law of one step of the model from `ξ` is
    `mhKernel (refMeasure dc μκ) q a (coordOf ξ)` on every measurable set -/
theorem mh_step_law_limit_mhKernel (hp : ∀ b t, 0 ≤ prior b t) (hw : C05.WidthsPos w)
    (hprior : Measurable fun x : Coord => prior dc (toTape x))
    (hL : Measurable fun x : Coord => toProb (L (toTape x))) (ξ : Tape ℝ)
    (μκ : Measure ℝ) [SFinite μκ] (k : ℝ → ℝ → ℝ) (hkm : Measurable (Function.uncurry k))
    (hstrike : strikeLaw w ξ = μκ.withDensity fun b => ENNReal.ofReal (k ξ.kappa b))
    {B : Set Coord} (hB : MeasurableSet B) :
    Tendsto (fun n : ℕ => ((Measure.pi fun _ : Fin n => gaussianReal 0 1).prod unif)
        {p | coordOf (stepNext prior dc w L ξ (List.ofFn p.1) p.2) ∈ B}) atTop
      (𝓝 (mhKernel (refMeasure dc μκ)
        (fun x y => ENNReal.ofReal (propPdf dc w (toTape x) (toTape y) * k x.2.2.1 y.2.2.1))
        (fun x y => ENNReal.ofReal (acc prior dc w L (toTape x) (toTape y))) (coordOf ξ) B)) := by
  have hT := measurable_transPdf_coord dc w
  have hkm' : Measurable fun p : Coord × Coord => k p.1.2.2.1 p.2.2.2.1 :=
    hkm.comp (f := fun p : Coord × Coord => (p.1.2.2.1, p.2.2.2.1)) (by fun_prop)
  have hq : Measurable (Function.uncurry fun x y : Coord =>
      ENNReal.ofReal (propPdf dc w (toTape x) (toTape y) * k x.2.2.1 y.2.2.1)) :=
    (hT.mul hkm').ennreal_ofReal
  have ha : Measurable (Function.uncurry fun x y : Coord =>
      ENNReal.ofReal (acc prior dc w L (toTape x) (toTape y))) :=
    (measurable_acceptMH prior dc w L toTape hT hprior hL).ennreal_ofReal
  rw [mhKernel_apply hq ha _ hB]
  exact mh_step_law_limit_mhK prior dc w L hp hw hprior hL ξ μκ k hkm hstrike hB

/-- **Box form.**  For measurable `Bγ, Bδ, Bκ, Bh, Bσ` the probability that the next state has
    `γ ∈ Bγ, δ ∈ Bδ, κ ∈ Bκ, h ∈ Bh, σ ∈ Bσ` tends to
    `∫_{Bγ×Bδ×Bκ×Bh×Bσ} transPdf dc w x ξ · acceptMH … ξ x … dx + (1 − total move probability) · 1_B(ξ)`,
    the integrals being w.r.t. Lebesgue on the source domain (point masses at 0 on `γ, δ` for `dc`)
    times the law of the strike draw. -/
theorem mh_step_law_limit_box (hp : ∀ b t, 0 ≤ prior b t) (hw : C05.WidthsPos w)
    (hprior : Measurable fun x : Coord => prior dc (toTape x))
    (hL : Measurable fun x : Coord => toProb (L (toTape x))) (ξ : Tape ℝ)
    {Bγ Bδ Bκ Bh Bσ : Set ℝ} (hBγ : MeasurableSet Bγ) (hBδ : MeasurableSet Bδ)
    (hBκ : MeasurableSet Bκ) (hBh : MeasurableSet Bh) (hBσ : MeasurableSet Bσ) :
    Tendsto (fun n : ℕ => ((Measure.pi fun _ : Fin n => gaussianReal 0 1).prod unif)
        {p | (stepNext prior dc w L ξ (List.ofFn p.1) p.2).gamma ∈ Bγ ∧
          (stepNext prior dc w L ξ (List.ofFn p.1) p.2).delta ∈ Bδ ∧
          (stepNext prior dc w L ξ (List.ofFn p.1) p.2).kappa ∈ Bκ ∧
          (stepNext prior dc w L ξ (List.ofFn p.1) p.2).h ∈ Bh ∧
          (stepNext prior dc w L ξ (List.ofFn p.1) p.2).sigma ∈ Bσ}) atTop
      (𝓝 (∫⁻ y in Bγ ×ˢ (Bδ ×ˢ (Bκ ×ˢ (Bh ×ˢ Bσ))),
            ENNReal.ofReal (transPdf dc w (toTape y) ξ) *
              ENNReal.ofReal (acceptMH prior dc w ξ (toTape y) (L ξ) (L (toTape y)))
            ∂(refMeasure dc (strikeLaw w ξ)) +
        (1 - ∫⁻ y, ENNReal.ofReal (transPdf dc w (toTape y) ξ) *
              ENNReal.ofReal (acceptMH prior dc w ξ (toTape y) (L ξ) (L (toTape y)))
            ∂(refMeasure dc (strikeLaw w ξ))) *
          (Bγ ×ˢ (Bδ ×ˢ (Bκ ×ˢ (Bh ×ˢ Bσ)))).indicator 1 (coordOf ξ))) := by
  have h := mh_step_law_limit_transPdf prior dc w L hp hw hprior hL ξ
    (hBγ.prod (hBδ.prod (hBκ.prod (hBh.prod hBσ))))
  refine h.congr (fun n => ?_)
  congr 1

end Step

/-- the hypotheses are satisfiable (shipped flat prior, constant likelihood, unit widths), for both
    chain types -/
example (dc : Bool) (ξ : Tape ℝ) {B : Set Coord} (hB : MeasurableSet B) :
    let prior : Bool → Tape ℝ → ℝ := flatPrior
    let w : Widths ℝ := ⟨1, 1, 1, 1, 1, 1, 1, 1⟩
    let L : Tape ℝ → LogP ℝ := fun _ => fin 0
    Tendsto (fun n : ℕ => ((Measure.pi fun _ : Fin n => gaussianReal 0 1).prod unif)
        {p | coordOf (stepNext prior dc w L ξ (List.ofFn p.1) p.2) ∈ B}) atTop
      (𝓝 (mhK (refMeasure dc (strikeLaw w ξ))
        (fun x y => ENNReal.ofReal (propPdf dc w (toTape x) (toTape y)))
        (fun x y => ENNReal.ofReal (acc prior dc w L (toTape x) (toTape y))) (coordOf ξ) B)) := by
  intro prior w L
  refine mh_step_law_limit_transPdf prior dc w L (fun b t => ?_) (by simp [C05.WidthsPos, w]) ?_
    measurable_const ξ hB
  · simp only [prior, flatPrior, flt_c, flt_pi]
    have := Real.pi_pos
    split <;> positivity
  · simp only [prior, flatPrior]
    exact measurable_const

end MTfitVerif.C07
