import MTfitVerif.Model.PyxKernels
import MTfitVerif.Model.Scatangle
import MTfitVerif.Real.PyxBinningLemmas
/-
  C20B — the compiled scatter-binning kernel `cscatangle.get_multipliers` (`Id.run do` block of `Model/PyxKernels.lean`)
  computes the binning of the C18 model (`Scatangle.binAux` / `Scatangle.bin`).
-/
set_option linter.unusedVariables false
namespace MTfitVerif.C20
open MTfitVerif MTfitVerif.Scatangle MTfitVerif.PyxBinning

section poly
variable {α : Type} [Add α] [Sub α] [Mul α] [Div α] [Neg α] [Flt α]

/-- C20B item 1 (every scalar type): the kernel is two nested folds over the multiplier array — for each sample `u` not
    marked `-1`, each later sample `v` with multiplier `> -1` whose take-off angles and azimuths all lie within
    `bin_size/2` of those of `u` (`closeIdx`: the station loop with `break` and the test `w == nsta - 1 && ok > 0` after
    it) is added to `u` and marked `-1`.

    No hypothesis on `nsta`: for `nsta = 0` the station loop never runs, so `w` keeps its initial value `0`, and since
    `nsta - 1 = 0` in `ℕ` the test `w == nsta - 1 && ok > 0` is true — every pair counts as close, in agreement with
    `closeIdx` (an empty conjunction).  (The proof carries the invariant `1 ≤ nsta ∨ w = 0` through the loops.  In the
    C source `nsta - 1` is `-1` for `nsta = 0`, which the translation does not model; only `1 ≤ nsta` is meaningful.) -/
theorem get_multipliers_eq_binKernel (A M : Array α) (n s1 nsta : Nat) (b : α) (n' : Nat) :
    Pyx.cscatangle.get_multipliers A n s1 nsta b M n' = binKernel (closeIdx A s1 nsta b) n M := by
  unfold Pyx.cscatangle.get_multipliers binKernel
  simp only [bind_pure_comp, Id.run_map]
  rw [PyxLoop.forIn_range_eq_list, ← List.range_eq_range']
  refine (forIn_sim (σ := Array α × Nat × Nat × Nat × Nat) (List.range n) _ (fun s => s.1)
    (sweepStep (closeIdx A s1 nsta b) n) (fun s => 1 ≤ nsta ∨ s.2.2.1 = 0) ?_ _ (Or.inr rfl)).1
  intro s u hu hs
  by_cases hdead : Flt.eqb (s.fst.getD u (c 0)) (-(c 1)) = true
  · refine ⟨_, if_pos hdead, ?_, hs⟩
    simp only [sweepStep, hdead, if_true]
  · refine ⟨_, (if_neg hdead).trans rfl, ?_⟩
    simp only [sweepStep, hdead, Bool.false_eq_true, if_false]
    rw [forIn_range_eq_list']
    refine forIn_sim (σ := Array α × Nat × Nat × Nat) _ _ (fun s => s.1) (mergeStep (closeIdx A s1 nsta b) u)
      (fun t => 1 ≤ nsta ∨ t.2.1 = 0) ?_ _ hs
    intro t v hv ht
    have hgt : v > u := by
      have := (List.mem_range'_1.mp hv).1
      omega
    by_cases halive : Flt.ltb (-(c 1)) (t.fst.getD v (c 0)) = true
    · generalize hX : forIn (m := Id) [:nsta] (t.2.1, 1) _ = X
      obtain ⟨htest, hw⟩ :=
        break_test (matchAt A s1 nsta b u v) _ nsta _ X hX (fun k w => wbody_eq A s1 nsta b u v k w) ht
      refine ⟨(mergeStep (closeIdx A s1 nsta b) u t.1 v, X.run.1, X.run.2, v), ?_, rfl, hw⟩
      simp only [halive, if_true, id_bind_eq, htest, hgt, decide_true, mergeStep, true_and]
      by_cases hc : closeIdx A s1 nsta b u v = true
      · rw [if_pos hc, if_pos (by exact hc)]
      · rw [if_neg hc, if_neg (by exact hc)]
    · refine ⟨(t.1, t.2.1, t.2.2.1, v), if_neg halive, ?_, ht⟩
      simp only [mergeStep, halive, Bool.false_eq_true, false_and, if_false]

end poly

/-! ### over ℝ: the kernel against the C18 binning model -/

/-- the kernel keeps the length of the multiplier array -/
theorem get_multipliers_size (A M : Array ℝ) (s1 nsta : Nat) (b : ℝ) (n' : Nat) :
    (Pyx.cscatangle.get_multipliers A M.size s1 nsta b M n').size = M.size := by
  rw [get_multipliers_eq_binKernel]
  exact (toFun_binKernel _ M.size M rfl).2

/-- C20B main theorem, index form.  `recs`: the parsed samples (record, weight), every record with `nsta` stations and
    every weight positive; `anglesOf recs` the flat `(n × 2 × nsta)` array the extension is called with (`[i,0,j]` take-off
    angle, `[i,1,j]` azimuth of station `j` of record `i`), the multipliers the weights.  The records `i` whose output
    multiplier is positive (the merged samples are marked `-1`), each with that multiplier, are in order exactly the
    records and weights of the pure-Python binning loop `binAux`.

    `0 < binSize` is not needed.  `1 ≤ nsta` is not needed for the translated kernel either (see
    `get_multipliers_eq_binKernel`: for `nsta = 0` both sides merge everything into the first sample), but only
    `1 ≤ nsta` is meaningful for the C source. -/
theorem get_multipliers_eq_bin_index (binSize : ℝ) (nsta : Nat) (recs : List (Record ℝ × ℝ))
    (hlen : ∀ p ∈ recs, p.1.length = nsta) (hw : ∀ p ∈ recs, 0 < p.2) :
    ((List.range recs.length).filter fun i => decide (0 <
        (Pyx.cscatangle.get_multipliers (anglesOf recs) recs.length 2 nsta binSize (recs.map (·.2)).toArray
          recs.length).getD i 0)).map
      (fun i => (recAt recs i,
        (Pyx.cscatangle.get_multipliers (anglesOf recs) recs.length 2 nsta binSize (recs.map (·.2)).toArray
          recs.length).getD i 0))
      = Scatangle.binAux binSize recs.length recs := by
  rw [get_multipliers_eq_binKernel]
  generalize hn : recs.length = n
  generalize hM : (recs.map (·.2)).toArray = M
  have hMsize : M.size = n := by rw [← hM, ← hn]; simp
  obtain ⟨hfun, hsize⟩ := toFun_binKernel (closeIdx (anglesOf recs) 2 nsta binSize) n M hMsize
  generalize binKernel (closeIdx (anglesOf recs) 2 nsta binSize) n M = out at hfun hsize ⊢
  have hMi : ∀ i (hi : i < recs.length), toFun M i = recs[i].2 := by
    intro i hi
    rw [← hM]
    simp [toFun, Array.getD_eq_getD_getElem?, List.getElem?_eq_getElem hi]
  have hpos : ∀ i, i < n → 0 < toFun M i := by
    intro i hi
    rw [hMi i (hn ▸ hi)]
    exact hw _ (List.getElem_mem _)
  obtain ⟨h1, _⟩ := foldl_sweepF_binAux binSize (recAt recs) (closeIdx (anglesOf recs) 2 nsta binSize) n
    (fun u v hu hv => closeIdx_anglesOf recs nsta hlen binSize u v (hn ▸ hu) (hn ▸ hv)) n 0 (toFun M) (by omega)
    (fun i _ hi => Or.inr (hpos i hi)) n
    (le_trans (List.length_filter_le _ _) (by simp))
  rw [← hfun] at h1
  have hall : (List.range' 0 n).filter (fun i => decide (0 < toFun M i)) = List.range' 0 n := by
    rw [List.filter_eq_self]
    intro i hi
    have := (List.mem_range'_1.mp hi).2
    exact decide_eq_true (hpos i (by omega))
  have hrecs : (List.range' 0 n).map (fun i => (recAt recs i, toFun M i)) = recs := by
    apply List.ext_getElem
    · simp [hn]
    · intro i h1 h2
      simp only [List.getElem_map, List.getElem_range', Nat.zero_add, Nat.one_mul]
      rw [hMi i h2]
      simp [recAt, List.getD_eq_getElem?_getD, List.getElem?_eq_getElem h2]
  rw [hall, hrecs] at h1
  rw [List.range_eq_range']
  exact h1

/-- C20B main theorem, as a list of pairs: pairing every record with its output multiplier and keeping the pairs whose
    multiplier is positive gives the result of `binAux` -/
theorem get_multipliers_eq_bin (binSize : ℝ) (nsta : Nat) (recs : List (Record ℝ × ℝ))
    (hlen : ∀ p ∈ recs, p.1.length = nsta) (hw : ∀ p ∈ recs, 0 < p.2) :
    ((recs.map (·.1)).zip
        (Pyx.cscatangle.get_multipliers (anglesOf recs) recs.length 2 nsta binSize (recs.map (·.2)).toArray
          recs.length).toList).filter (fun p => decide (0 < p.2))
      = Scatangle.binAux binSize recs.length recs := by
  rw [← get_multipliers_eq_bin_index binSize nsta recs hlen hw]
  have hsize := get_multipliers_size (anglesOf recs) (recs.map (·.2)).toArray 2 nsta binSize recs.length
  rw [show (recs.map (·.2)).toArray.size = recs.length by simp] at hsize
  generalize Pyx.cscatangle.get_multipliers (anglesOf recs) recs.length 2 nsta binSize (recs.map (·.2)).toArray
    recs.length = out at hsize ⊢
  rw [zip_eq_map_range _ _ recs.length (by simp) (by simp [hsize]) [] 0, List.filter_map, List.range_eq_range']
  have hto : ∀ i, out.toList.getD i 0 = out.getD i 0 := by
    intro i
    simp [Array.getD_eq_getD_getElem?, List.getD_eq_getElem?_getD]
  simp only [hto, Function.comp_def]
  rfl

/-- for a non-zero bin size this is `parse_scatangle`'s binning `Scatangle.bin` of C18 -/
theorem get_multipliers_eq_bin_of_ne_zero (binSize : ℝ) (hb : binSize ≠ 0) (nsta : Nat) (recs : List (Record ℝ × ℝ))
    (hlen : ∀ p ∈ recs, p.1.length = nsta) (hw : ∀ p ∈ recs, 0 < p.2) :
    ((recs.map (·.1)).zip
        (Pyx.cscatangle.get_multipliers (anglesOf recs) recs.length 2 nsta binSize (recs.map (·.2)).toArray
          recs.length).toList).filter (fun p => decide (0 < p.2))
      = Scatangle.bin binSize recs := by
  rw [get_multipliers_eq_bin binSize nsta recs hlen hw]
  unfold Scatangle.bin
  simp [hb]

end MTfitVerif.C20
